// vstress is the failing-input search for the schedule properties C12 and C13: it runs the real
// package under mixed concurrent load, built with -race, with a watchdog for blocked goroutines.
// It is never the proof: the proof obligations are the Lean theorems about the generated facts.
//
//	vstress -mode c12|c13 -dur 5s -seed 1
//
// Output: one JSON object on stdout {"ok":bool,"what":…,"ops":…}; exit status 0 ok / 1 violation.
// A data race makes the race detector print a report on stderr and exit with status 66.
package main

import (
	"bytes"
	"compress/gzip"
	"compress/zlib"
	"context"
	"encoding/json"
	"flag"
	"fmt"
	"io"
	stdlog "log"
	"net/http"
	"net/http/httptest"
	"os"
	"strings"
	"sync"
	"sync/atomic"
	"time"

	restful "github.com/emicklei/go-restful/v3"

	"verifharness/internal/registry"
	"verifharness/internal/rng"
)

type result struct {
	OK      bool           `json:"ok"`
	What    string         `json:"what,omitempty"`
	Detail  string         `json:"detail,omitempty"`
	Ops     map[string]int `json:"ops"`
	Mode    string         `json:"mode"`
	Seed    uint64         `json:"seed"`
	Seconds float64        `json:"seconds"`
}

var ops sync.Map

func count(k string) {
	v, _ := ops.LoadOrStore(k, new(int64))
	atomic.AddInt64(v.(*int64), 1)
}

func finish(r result) {
	r.Ops = map[string]int{}
	ops.Range(func(k, v interface{}) bool { r.Ops[k.(string)] = int(atomic.LoadInt64(v.(*int64))); return true })
	b, _ := json.Marshal(r)
	fmt.Println(string(b))
	if !r.OK {
		os.Exit(1)
	}
	os.Exit(0)
}

func main() {
	mode := flag.String("mode", "c12", "c12|c13")
	dur := flag.Duration("dur", 5*time.Second, "duration")
	seed := flag.Uint64("seed", 1, "seed")
	flag.Parse()
	restful.SetLogger(stdlog.New(io.Discard, "", 0))
	start := time.Now()
	var r result
	switch *mode {
	case "c12":
		r = stressC12(*dur, *seed)
	default:
		r = stressC13(*dur, *seed)
	}
	r.Mode, r.Seed, r.Seconds = *mode, *seed, time.Since(start).Seconds()
	finish(r)
}

func mkService(root string, n int, dynamic bool) *restful.WebService {
	ws := new(restful.WebService).Path(root)
	ws.SetDynamicRoutes(dynamic)
	for i := 0; i < n; i++ {
		tag := fmt.Sprintf("%s#%d", root, i)
		ws.Route(ws.GET(fmt.Sprintf("/r%d/{id}", i)).To(func(req *restful.Request, resp *restful.Response) {
			resp.AddHeader("X-Route", tag)
			resp.Write([]byte(req.PathParameter("id")))
		}))
	}
	return ws
}

// ask is one request of the C12 load together with what the answer must be: wantRoute/wantBody are the
// marker header and the body of the one route that has to answer ("" wantRoute: only the status counts).
type ask struct {
	method, path string
	header       [][2]string
	body         string
	wantRoute    string
	wantBody     string
}

func (a ask) request() *http.Request {
	var body io.Reader
	if a.body != "" {
		body = strings.NewReader(a.body)
	}
	req := httptest.NewRequest(a.method, a.path, body)
	for _, h := range a.header {
		req.Header.Set(h[0], h[1])
	}
	return req
}

func (a ask) String() string {
	s := a.method + " " + a.path
	for _, h := range a.header {
		s += fmt.Sprintf(" [%s: %s]", h[0], h[1])
	}
	return s
}

// marked answers with its marker in X-Route and the id path parameter as the body.
func marked(marker string) restful.RouteFunction {
	return func(req *restful.Request, resp *restful.Response) {
		resp.AddHeader("X-Route", marker)
		resp.Write([]byte(req.PathParameter("id")))
	}
}

func apiVersion(accepted ...string) restful.RouteSelectionConditionFunction {
	return func(r *http.Request) bool {
		v := r.Header.Get("X-Api-Version")
		for _, a := range accepted {
			if v == a {
				return true
			}
		}
		return false
	}
}

// mkNegotiated builds a dynamic service whose routes come in groups of SIBLINGS: one method and one
// path, told apart only by what they produce, by what they consume, or by an If condition (content
// negotiation by route, versioning by condition).  These routes are never changed by the load; the
// mutators only ADD further siblings to the groups.
func mkNegotiated(root string, groups int) *restful.WebService {
	ws := new(restful.WebService).Path(root)
	ws.SetDynamicRoutes(true)
	for g := 0; g < groups; g++ {
		p := fmt.Sprintf("/g%d/{id}", g)
		tag := fmt.Sprintf("%s#g%d:", root, g)
		ws.Route(ws.GET(p).Produces("application/json").If(apiVersion("", "1")).To(marked(tag + "json")))
		ws.Route(ws.GET(p).Produces("application/xml").To(marked(tag + "xml")))
		ws.Route(ws.GET(p).Produces("application/json").If(apiVersion("2")).To(marked(tag + "json-v2")))
		ws.Route(ws.POST(p).Consumes("application/json").To(marked(tag + "takes-json")))
		ws.Route(ws.POST(p).Consumes("application/xml").To(marked(tag + "takes-xml")))
	}
	return ws
}

const negotiatedKinds = 5

// negotiatedAsk is the request that only sibling `kind` of group g may answer.
func negotiatedAsk(root string, g, kind int, id string) ask {
	a := ask{method: "GET", path: fmt.Sprintf("%s/g%d/%s", root, g, id), wantBody: id}
	tag := fmt.Sprintf("%s#g%d:", root, g)
	switch kind {
	case 0:
		a.header, a.wantRoute = [][2]string{{"Accept", "application/json"}}, tag+"json"
	case 1:
		a.header, a.wantRoute = [][2]string{{"Accept", "application/xml"}}, tag+"xml"
	case 2:
		a.header, a.wantRoute = [][2]string{{"Accept", "application/json"}, {"X-Api-Version", "2"}}, tag+"json-v2"
	case 3:
		a.method, a.body = "POST", "{}"
		a.header, a.wantRoute = [][2]string{{"Content-Type", "application/json"}}, tag+"takes-json"
	default:
		a.method, a.body = "POST", "<a/>"
		a.header, a.wantRoute = [][2]string{{"Content-Type", "application/xml"}}, tag+"takes-xml"
	}
	return a
}

// stressC12: serving goroutines × goroutines that Add/Remove services and Route/RemoveRoute on a
// dynamic service.  Stable services must always be answered 200 by the right route with the right
// parameter; changing ones 200 or 404 (a registration state that existed during the request).
func stressC12(d time.Duration, seed uint64) result {
	// (0) a container on http.DefaultServeMux: Remove refuses (documented) — and must leave the
	// container usable: a registration and a request afterwards come back
	{
		c := restful.NewContainer()
		c.ServeMux = http.DefaultServeMux
		ws := mkService("/verif-default-mux", 1, false)
		done := make(chan string, 1)
		go func() {
			defer func() {
				if p := recover(); p != nil {
					done <- "" // a pattern clash on the process-wide mux is not our subject
				}
			}()
			c.Add(ws)
			if err := c.Remove(ws); err == nil {
				done <- "Remove on a container using http.DefaultServeMux returned no error"
				return
			}
			c.RegisteredWebServices()
			rec := httptest.NewRecorder()
			c.Dispatch(rec, httptest.NewRequest("GET", "/verif-default-mux/r0/7", nil))
			if rec.Code != 200 {
				done <- fmt.Sprintf("after the refused Remove GET /verif-default-mux/r0/7 is answered %d", rec.Code)
				return
			}
			done <- ""
		}()
		select {
		case msg := <-done:
			if msg != "" {
				return result{OK: false, What: "refused Remove (http.DefaultServeMux)", Detail: msg}
			}
		case <-time.After(5 * time.Second):
			return result{OK: false, What: "deadlock: after Remove refused to work on http.DefaultServeMux the container no longer answers (lock not released on the error path)", Detail: "Add, Remove (error), RegisteredWebServices, Dispatch"}
		}
		count("refused-remove-on-default-mux")
	}
	deadline := time.Now().Add(d)
	var bad atomic.Value
	fail := func(what, detail string) { bad.CompareAndSwap(nil, [2]string{what, detail}) }
	for round := 0; time.Now().Before(deadline) && bad.Load() == nil; round++ {
		for ri, router := range []string{"curly", "jsr"} {
			c := restful.NewContainer()
			if router == "jsr" {
				c.Router(restful.RouterJSR311{})
			}
			stable := mkService("/stable", 3, true)
			dyn := mkService("/dyn", 2, true)
			// a route whose If-condition (user code, evaluated while the read lock is held) panics on demand;
			// with recovery on the panic becomes a 500 and must leave no lock behind
			c.DoNotRecover(false)
			c.RecoverHandler(func(interface{}, http.ResponseWriter) {})
			stable.Route(stable.GET("/cond").If(func(r *http.Request) bool {
				if r.Header.Get("X-Panic") != "" {
					panic("condition panics")
				}
				return true
			}).To(func(req *restful.Request, resp *restful.Response) { resp.Write([]byte("c")) }))
			// a route whose parameter has a regular expression: the serving goroutines evaluate expressions
			// all the time while the mutators keep introducing expressions nobody has seen before
			stable.Route(stable.GET("/n/{id:[0-9]+}").To(marked("/stable#num")))
			// sibling routes (same method and path, told apart by Produces / Consumes / If) that nobody
			// changes; the mutators add further siblings next to them
			const negGroups = 3
			neg := mkNegotiated("/neg", negGroups)
			c.Add(stable)
			c.Add(dyn)
			c.Add(neg)
			// the OPTIONS filter walks the registered services and their routes on its own
			// (computeAllowedMethods) after dispatch has let go of the container's lock
			c.Filter(c.OPTIONSFilter)
			stop := make(chan struct{})
			var wg sync.WaitGroup
			// mutators
			for m := 0; m < 2; m++ {
				wg.Add(1)
				go func(m int) {
					defer wg.Done()
					// Fork: streams of neighbouring seeds would be the same stream shifted by one draw
					r := rng.New(seed).Fork(uint64(round*64 + ri*8 + m))
					tmpRoot := fmt.Sprintf("/tmp%d", m)
					siblingsAdded := 0
					for i := 0; ; i++ {
						select {
						case <-stop:
							return
						default:
						}
						// a probe by the goroutine that made the change, after the change returned: nobody
						// else touches this root / this path, so the answer is determined (a request that
						// starts after Add/Route returned must see it, one that starts after
						// Remove/RemoveRoute returned must not)
						probeAsk := func(a ask, want int, after string) {
							rec := httptest.NewRecorder()
							entry := "Dispatch"
							func() {
								defer func() {
									if p := recover(); p != nil {
										fail("panic while serving during registration changes", fmt.Sprint(p))
									}
								}()
								if r.Chance(1, 2) {
									entry = "ServeHTTP"
									c.ServeHTTP(rec, a.request())
								} else {
									c.Dispatch(rec, a.request())
								}
							}()
							count("probe-after-" + after)
							if rec.Code != want {
								fail("a request issued after "+after+" had returned was answered according to a registration state that no longer (or never) existed",
									fmt.Sprintf("%s router=%s entry=%s: status %d, want %d", a, router, entry, rec.Code, want))
								return
							}
							if want == 200 && a.wantRoute != "" && (rec.Header().Get("X-Route") != a.wantRoute || rec.Body.String() != a.wantBody) {
								fail("a request issued after "+after+" had returned was not answered by the route registered for it",
									fmt.Sprintf("%s router=%s entry=%s: answered by route %q body %q, want route %q body %q", a, router, entry, rec.Header().Get("X-Route"), rec.Body.String(), a.wantRoute, a.wantBody))
							}
						}
						probe := func(path string, want int, after string) {
							probeAsk(ask{method: "GET", path: path}, want, after)
						}
						// the untouched siblings of a group, asked by the goroutine that has just added a route
						// next to them: each must still answer its own kind of request
						probeSiblings := func(g int, after string) {
							for kind := 0; kind < negotiatedKinds; kind++ {
								a := negotiatedAsk("/neg", g, kind, fmt.Sprintf("p%d", r.Intn(100)))
								rec := httptest.NewRecorder()
								entry := "Dispatch"
								func() {
									defer func() {
										if p := recover(); p != nil {
											fail("panic while serving during registration changes", fmt.Sprint(p))
										}
									}()
									if r.Chance(1, 2) {
										entry = "ServeHTTP"
										c.ServeHTTP(rec, a.request())
									} else {
										c.Dispatch(rec, a.request())
									}
								}()
								count("probe-untouched-sibling")
								if rec.Code != 200 || rec.Header().Get("X-Route") != a.wantRoute || rec.Body.String() != a.wantBody {
									fail("a request to a route that is not being changed was not answered as if nothing were changing: "+after+" (same method and path) the route no longer answers",
										fmt.Sprintf("%s router=%s entry=%s: status %d route %q body %q, want 200 route %q body %q", a, router, entry, rec.Code, rec.Header().Get("X-Route"), rec.Body.String(), a.wantRoute, a.wantBody))
									return
								}
							}
						}
						// an expression text no goroutine has evaluated before
						fresh := func(i int) string { return fmt.Sprintf("%sr%dm%di%d", router, round, m, i) }
						switch r.Intn(6) {
						case 0:
							// a service comes and goes; in two of three rounds its root path or its route has a
							// parameter with a regular expression whose text is new (never evaluated before)
							var ws *restful.WebService
							var a ask
							switch r.Intn(3) {
							case 0:
								ws = mkService(tmpRoot, 1, true)
								a = ask{method: "GET", path: tmpRoot + "/r0/7", wantRoute: tmpRoot + "#0", wantBody: "7"}
							case 1:
								root := fmt.Sprintf("%s/{ver:v[0-9]+(?:x%s)?}", tmpRoot, fresh(i))
								ws = new(restful.WebService).Path(root)
								ws.SetDynamicRoutes(true)
								ws.Route(ws.GET("/r0/{id}").To(marked(tmpRoot + "#ver")))
								a = ask{method: "GET", path: tmpRoot + "/v3/r0/7", wantRoute: tmpRoot + "#ver", wantBody: "7"}
								count("Add:fresh-expression-in-root-path")
							default:
								ws = new(restful.WebService).Path(tmpRoot)
								ws.SetDynamicRoutes(true)
								ws.Route(ws.GET(fmt.Sprintf("/{id:[0-9]+(?:x%s)?}/leaf", fresh(i))).To(marked(tmpRoot + "#leaf")))
								a = ask{method: "GET", path: tmpRoot + "/12/leaf", wantRoute: tmpRoot + "#leaf", wantBody: "12"}
								count("Add:fresh-expression-in-route")
							}
							c.Add(ws)
							count("Add")
							probeAsk(a, 200, "Add")
							c.Remove(ws)
							count("Remove")
							probeAsk(a, 404, "Remove")
						case 1:
							if r.Chance(1, 2) {
								// a dynamic route whose parameter has a regular expression with a new text
								p := fmt.Sprintf("/q%d/{id:[a-z0-9]+(?:x%s)?}", m, fresh(i))
								a := ask{method: "GET", path: fmt.Sprintf("/dyn/q%d/k%d", m, i%10), wantRoute: "/dyn#q", wantBody: fmt.Sprintf("k%d", i%10)}
								dyn.Route(dyn.GET(p).To(marked("/dyn#q")))
								count("Route")
								count("Route:fresh-expression")
								probeAsk(a, 200, "Route")
								dyn.RemoveRoute("/dyn"+p, "GET")
								count("RemoveRoute")
								probeAsk(a, 404, "RemoveRoute")
								break
							}
							p := fmt.Sprintf("/x%d_%d", m, i%3)
							dyn.Route(dyn.GET(p).To(func(req *restful.Request, resp *restful.Response) { resp.Write([]byte("x")) }))
							count("Route")
							probe("/dyn"+p, 200, "Route")
							dyn.RemoveRoute("/dyn"+p, "GET")
							count("RemoveRoute")
							probe("/dyn"+p, 404, "RemoveRoute")
						case 5:
							// a further sibling next to routes that stay: same method and path as theirs, its own
							// media type (or its own condition).  RemoveRoute(path, method) cannot take one sibling
							// away without the others, so the added ones stay for the rest of the round (bounded).
							g := r.Intn(negGroups)
							if siblingsAdded >= 8 {
								probeSiblings(g, "while nothing was added")
								break
							}
							siblingsAdded++
							p := fmt.Sprintf("/g%d/{id}", g)
							own := fmt.Sprintf("m%dn%d", m, siblingsAdded)
							a := ask{method: "GET", path: fmt.Sprintf("/neg/g%d/s%d", g, i%10), wantRoute: "/neg#" + own, wantBody: fmt.Sprintf("s%d", i%10)}
							var after string
							switch r.Intn(3) {
							case 0:
								mt := "application/vnd." + own + "+json"
								neg.Route(neg.GET(p).Produces(mt).To(marked("/neg#" + own)))
								a.header = [][2]string{{"Accept", mt}}
								after = "after Route added a sibling that differs in Produces"
							case 1:
								neg.Route(neg.GET(p).Produces("application/json").If(apiVersion(own)).To(marked("/neg#" + own)))
								a.header = [][2]string{{"Accept", "application/json"}, {"X-Api-Version", own}}
								after = "after Route added a sibling that differs in its If condition"
							default:
								mt := "application/vnd." + own + "+json"
								neg.Route(neg.POST(p).Consumes(mt).To(marked("/neg#" + own)))
								a.method, a.body = "POST", "{}"
								a.header = [][2]string{{"Content-Type", mt}}
								after = "after Route added a sibling that differs in Consumes"
							}
							count("Route-sibling-next-to-untouched-routes")
							probeAsk(a, 200, "Route")
							probeSiblings(g, after)
						case 2:
							// two routes for one method and path (they differ in what they produce) and a third one
							// behind them: RemoveRoute(path, method) removes both and only them
							p := fmt.Sprintf("/tw%d_%d", m, i%2)
							x := func(req *restful.Request, resp *restful.Response) { resp.Write([]byte("x")) }
							dyn.Route(dyn.GET(p).Produces("application/json").To(marked("/dyn#tw-json")))
							dyn.Route(dyn.GET(p).Produces("application/xml").To(marked("/dyn#tw-xml")))
							dyn.Route(dyn.GET(p + "z").To(x))
							count("Route-twins")
							probe("/dyn"+p, 200, "Route")
							// each twin answers the requests for what it produces
							probeAsk(ask{method: "GET", path: "/dyn" + p, header: [][2]string{{"Accept", "application/json"}}, wantRoute: "/dyn#tw-json"}, 200, "Route")
							probeAsk(ask{method: "GET", path: "/dyn" + p, header: [][2]string{{"Accept", "application/xml"}}, wantRoute: "/dyn#tw-xml"}, 200, "Route")
							func() {
								defer func() {
									if pv := recover(); pv != nil {
										fail("RemoveRoute panicked", fmt.Sprint(pv))
									}
								}()
								dyn.RemoveRoute("/dyn"+p, "GET")
							}()
							count("RemoveRoute-twins")
							probe("/dyn"+p, 404, "RemoveRoute")
							probe("/dyn"+p+"z", 200, "RemoveRoute of its neighbours")
							dyn.RemoveRoute("/dyn"+p+"z", "GET")
						case 3:
							// two methods on one path: removing one leaves the other
							p := fmt.Sprintf("/mm%d_%d", m, i%2)
							x := func(req *restful.Request, resp *restful.Response) { resp.Write([]byte("x")) }
							dyn.Route(dyn.GET(p).To(x))
							dyn.Route(dyn.PUT(p).To(x))
							dyn.RemoveRoute("/dyn"+p, "GET")
							count("RemoveRoute-one-of-two-methods")
							rec := httptest.NewRecorder()
							c.Dispatch(rec, httptest.NewRequest("PUT", "/dyn"+p, nil))
							if rec.Code != 200 {
								fail("RemoveRoute(path, GET) also removed the PUT route on that path", fmt.Sprintf("PUT /dyn%s router=%s: status %d, want 200", p, router, rec.Code))
							}
							dyn.RemoveRoute("/dyn"+p, "PUT")
						default:
							c.RegisteredWebServices()
						}
					}
				}(m)
			}
			// servers
			for s := 0; s < 4; s++ {
				wg.Add(1)
				go func(s int) {
					defer wg.Done()
					r := rng.New(seed * 31).Fork(uint64(round*64 + ri*8 + s))
					for i := 0; ; i++ {
						select {
						case <-stop:
							return
						default:
						}
						rec := httptest.NewRecorder()
						k := r.Intn(3)
						id := fmt.Sprintf("v%d", r.Intn(100))
						var path, want string
						var req *http.Request
						switch r.Intn(7) {
						case 0:
							path, want = fmt.Sprintf("/stable/r%d/%s", k, id), fmt.Sprintf("/stable#%d", k)
						case 1:
							// the stable route with a regular expression
							if r.Chance(1, 2) {
								id = fmt.Sprint(r.Intn(1000))
								path, want = "/stable/n/"+id, "/stable#num"
							} else {
								path, want = fmt.Sprintf("/stable/r%d/%s", k, id), fmt.Sprintf("/stable#%d", k)
							}
						case 2:
							path = fmt.Sprintf("/dyn/r%d/%s", k%2, id)
							want = fmt.Sprintf("/dyn#%d", k%2)
						case 3:
							path = fmt.Sprintf("/tmp%d/r0/%s", k%2, id)
						case 4:
							// what the mutators are adding and removing right now, in the shapes that carry the
							// fresh regular expressions: answered by a state that existed (200 or 404)
							switch r.Intn(3) {
							case 0:
								path = fmt.Sprintf("/tmp%d/v%d/r0/%s", k%2, r.Intn(10), id)
							case 1:
								path = fmt.Sprintf("/tmp%d/%d/leaf", k%2, r.Intn(1000))
							default:
								path = fmt.Sprintf("/dyn/q%d/%s", k%2, id)
							}
						default:
							// the untouched siblings of the negotiated service while further siblings are added
							a := negotiatedAsk("/neg", k%negGroups, r.Intn(negotiatedKinds), id)
							path, want, req = a.path, a.wantRoute, a.request()
							count("request-to-untouched-sibling")
						}
						if req == nil {
							req = httptest.NewRequest("GET", path, nil)
						}
						if r.Chance(1, 10) {
							// OPTIONS: answered by the filter with the methods routable at that URL right now
							orec := httptest.NewRecorder()
							func() {
								defer func() {
									if p := recover(); p != nil {
										fail("panic while the OPTIONS filter computed the allowed methods during registration changes", fmt.Sprint(p))
									}
								}()
								c.Dispatch(orec, httptest.NewRequest("OPTIONS", path, nil))
							}()
							count("OPTIONS")
							if want != "" && !strings.Contains(orec.Header().Get("Allow"), "GET") {
								fail("the OPTIONS filter did not list GET for a route that is not being changed", fmt.Sprintf("%s router=%s: Allow %q", path, router, orec.Header().Get("Allow")))
							}
							continue
						}
						if r.Chance(1, 50) {
							req = httptest.NewRequest("GET", "/stable/cond", nil)
							req.Header.Set("X-Panic", "1")
							want = ""
							count("panicking-condition")
							c.Dispatch(httptest.NewRecorder(), req)
							continue
						}
						func() {
							defer func() {
								if p := recover(); p != nil {
									fail("panic while serving during registration changes", fmt.Sprint(p))
								}
							}()
							if r.Chance(1, 2) {
								c.ServeHTTP(rec, req)
								count("ServeHTTP")
							} else {
								c.Dispatch(rec, req)
								count("Dispatch")
							}
						}()
						switch {
						case want != "" && (rec.Code != 200 || rec.Header().Get("X-Route") != want || rec.Body.String() != id):
							fail("a request to a service and route that are not being changed was not answered as if nothing were changing",
								fmt.Sprintf("%s %s %v router=%s: status %d route %q body %q, want 200 route %q body %q", req.Method, path, req.Header, router, rec.Code, rec.Header().Get("X-Route"), rec.Body.String(), want, id))
						case want == "" && rec.Code != 200 && rec.Code != 404:
							fail("a request to a service being added/removed was answered by no registration state", fmt.Sprintf("%s: status %d", path, rec.Code))
						}
					}
				}(s)
			}
			time.Sleep(150 * time.Millisecond)
			close(stop)
			done := make(chan struct{})
			go func() { wg.Wait(); close(done) }()
			select {
			case <-done:
			case <-time.After(10 * time.Second):
				return result{OK: false, What: "deadlock: goroutines still blocked 10 s after the load was stopped", Detail: "router=" + router}
			}
			// drawn tables (registry.Churn): root paths that share their fixed prefix or nest, sub paths that
			// repeat the names of the level above, one WebService or one route at a time going away and
			// coming back while everything else is asked for through both entry points; every answer is
			// compared with fresh containers built from the declarations of the states that existed
			if bad.Load() == nil {
				churnDone := make(chan [2]string, 1)
				go func() {
					w, dt := registry.Churn(rng.New(seed*977).Fork(uint64(round*8+ri)), router, time.Now().Add(120*time.Millisecond), count)
					churnDone <- [2]string{w, dt}
				}()
				select {
				case x := <-churnDone:
					if x[0] != "" {
						fail(x[0], x[1])
					}
				case <-time.After(15 * time.Second):
					return result{OK: false, What: "deadlock: a registration change or a request on a drawn table did not come back within 15 s", Detail: "router=" + router}
				}
			}
		}
	}
	if b := bad.Load(); b != nil {
		x := b.([2]string)
		return result{OK: false, What: x[0], Detail: x[1]}
	}
	return result{OK: true}
}

// ledger provider: detects an object handed out while in use and double release
type ledger struct {
	mu    sync.Mutex
	inner restful.CompressorProvider
	out   map[interface{}]bool
	bad   string
	// a released compressor belongs to the provider: the ledger points it at this sink before it hands
	// it back (whoever acquires it next points it at the own response first, as the framework does), so
	// every byte that is still pushed through it between its release and its next acquisition arrives
	// here: a use after release (a late Flush or Close of a response writer that was closed before)
	trap trapSink
}

type trapSink struct{ n int64 }

func (t *trapSink) Write(b []byte) (int, error) {
	atomic.AddInt64(&t.n, int64(len(b)))
	return len(b), nil
}

func (l *ledger) take(o interface{}) {
	l.mu.Lock()
	if l.out[o] && l.bad == "" {
		l.bad = "the provider handed out an object that is still in use"
	}
	l.out[o] = true
	l.mu.Unlock()
	count("acquire")
}
func (l *ledger) give(o interface{}) {
	l.mu.Lock()
	if !l.out[o] && l.bad == "" {
		l.bad = "an object was released that was not in use (double release)"
	}
	delete(l.out, o)
	l.mu.Unlock()
	count("release")
}
func (l *ledger) AcquireGzipWriter() *gzip.Writer {
	w := l.inner.AcquireGzipWriter()
	l.take(w)
	return w
}
func (l *ledger) ReleaseGzipWriter(w *gzip.Writer) {
	l.give(w)
	w.Reset(&l.trap)
	l.inner.ReleaseGzipWriter(w)
}
func (l *ledger) AcquireGzipReader() *gzip.Reader {
	r := l.inner.AcquireGzipReader()
	l.take(r)
	return r
}
func (l *ledger) ReleaseGzipReader(r *gzip.Reader) { l.give(r); l.inner.ReleaseGzipReader(r) }
func (l *ledger) AcquireZlibWriter() *zlib.Writer {
	w := l.inner.AcquireZlibWriter()
	l.take(w)
	return w
}
func (l *ledger) ReleaseZlibWriter(w *zlib.Writer) {
	l.give(w)
	w.Reset(&l.trap)
	l.inner.ReleaseZlibWriter(w)
}

// stressC13: many concurrent encoded responses and gzip request bodies over providers of capacity
// 0, 1, 2 and the sync.Pool provider; every response must decode to its own payload; nobody may block.
func stressC13(d time.Duration, seed uint64) result {
	// (0) the provider API hammered directly: more goroutines than capacity, tight acquire/release loops
	for _, caps := range [][2]int{{0, 0}, {1, 1}, {2, 2}, {0, 1}, {1, 2}, {2, 1}, {3, 0}} {
		capn := caps[0]
		var p *restful.BoundedCachedCompressors
		built := make(chan struct{})
		go func() { p = restful.NewBoundedCachedCompressors(caps[0], caps[1]); close(built) }()
		select {
		case <-built:
		case <-time.After(5 * time.Second):
			return result{OK: false, What: "NewBoundedCachedCompressors does not return (blocked while filling its caches)", Detail: fmt.Sprintf("writersCapacity=%d readersCapacity=%d", caps[0], caps[1])}
		}
		var wg sync.WaitGroup
		for g := 0; g < 8; g++ {
			wg.Add(1)
			go func() {
				defer wg.Done()
				for i := 0; i < 400; i++ {
					w := p.AcquireGzipWriter()
					z := p.AcquireZlibWriter()
					r := p.AcquireGzipReader()
					p.ReleaseGzipReader(r)
					p.ReleaseZlibWriter(z)
					p.ReleaseGzipWriter(w)
				}
				count("direct-acquire-release-loops")
			}()
		}
		done := make(chan struct{})
		go func() { wg.Wait(); close(done) }()
		select {
		case <-done:
		case <-time.After(20 * time.Second):
			return result{OK: false, What: "a goroutine is blocked in BoundedCachedCompressors acquire/release (watchdog, 20 s)", Detail: fmt.Sprintf("capacity=%d, 8 goroutines", capn)}
		}
	}
	// (0b) release storms: more objects out than the cache can take back, all released at the same
	// moment and nobody acquiring afterwards — a release that waits for room waits forever
	for _, capn := range []int{1, 2} {
		for _, kind := range []string{"gzip-writer", "zlib-writer", "gzip-reader"} {
			p := restful.NewBoundedCachedCompressors(capn, capn)
			for round := 0; round < 300; round++ {
				const n = 6
				held := make([]interface{}, n)
				for i := range held {
					switch kind {
					case "gzip-writer":
						held[i] = p.AcquireGzipWriter()
					case "zlib-writer":
						held[i] = p.AcquireZlibWriter()
					default:
						held[i] = p.AcquireGzipReader()
					}
				}
				start := make(chan struct{})
				var wg sync.WaitGroup
				for i := range held {
					wg.Add(1)
					go func(o interface{}) {
						defer wg.Done()
						<-start
						switch x := o.(type) {
						case *gzip.Writer:
							p.ReleaseGzipWriter(x)
						case *zlib.Writer:
							p.ReleaseZlibWriter(x)
						case *gzip.Reader:
							p.ReleaseGzipReader(x)
						}
					}(held[i])
				}
				close(start)
				done := make(chan struct{})
				go func() { wg.Wait(); close(done) }()
				select {
				case <-done:
				case <-time.After(3 * time.Second):
					return result{OK: false, What: "a release is blocked: " + kind + " released into a full cache waits for room that nobody makes (3 s, nobody acquiring)",
						Detail: fmt.Sprintf("NewBoundedCachedCompressors(%d,%d), %d objects released at the same moment, round %d", capn, capn, n, round)}
				}
			}
			count("release-storms:" + kind)
		}
	}
	deadline := time.Now().Add(d)
	for round := 0; round == 0 || time.Now().Before(deadline); round++ {
		for pi, prov := range []string{"bounded0", "bounded1", "bounded2", "pool"} {
			var inner restful.CompressorProvider
			switch prov {
			case "bounded0":
				inner = restful.NewBoundedCachedCompressors(0, 0)
			case "bounded1":
				inner = restful.NewBoundedCachedCompressors(1, 1)
			case "bounded2":
				inner = restful.NewBoundedCachedCompressors(2, 2)
			default:
				inner = restful.NewSyncPoolCompessors()
			}
			led := &ledger{inner: inner, out: map[interface{}]bool{}}
			restful.SetCompressorProvider(led)
			c := restful.NewContainer()
			c.EnableContentEncoding(true)
			c.DoNotRecover(false)
			ws := new(restful.WebService).Path("/e")
			// lateFlush runs a Flush that a handler kept from a response which has been closed since (a
			// streaming handler's ticker firing once more, a deferred flush after the request ended).  The
			// closed writer's compressor was released then: nothing may come out of it any more — not
			// into the response `open` that is being written right now (it may own that compressor by
			// now), and not through the released compressor (the ledger's trap).
			lateFlush := func(f func(), open *httptest.ResponseRecorder, when string) string {
				t0 := atomic.LoadInt64(&led.trap.n)
				n0 := 0
				if open != nil {
					n0 = open.Body.Len()
				}
				f()
				count("late-flush-of-a-closed-response:" + when)
				if open != nil {
					if n1 := open.Body.Len(); n1 != n0 {
						return fmt.Sprintf("a Flush on a response writer that had been closed put %d bytes into another response, which was still open (%s): the closed writer used a compressor after its release", n1-n0, when)
					}
				}
				if t1 := atomic.LoadInt64(&led.trap.n); t1 != t0 {
					return fmt.Sprintf("a Flush on a response writer that had been closed pushed %d bytes through a compressor that had already been released (%s)", t1-t0, when)
				}
				return ""
			}
			ws.Route(ws.POST("/{n}").To(func(req *restful.Request, resp *restful.Response) {
				sl, _ := req.Request.Context().Value(slotKey{}).(*c13slot)
				if sl == nil {
					sl = &c13slot{}
				}
				switch sl.retain {
				case 1:
					sl.kept = resp.Flush
				case 2:
					if f, ok := resp.ResponseWriter.(http.Flusher); ok {
						sl.kept = f.Flush
					}
				}
				if f := sl.before; f != nil {
					sl.before = nil
					if msg := lateFlush(f, sl.rec, "inside the next request's handler, before it wrote"); msg != "" && sl.bad == "" {
						sl.bad = msg
					}
				}
				var v map[string]string
				if req.Request.Header.Get("Content-Encoding") != "" {
					if err := req.ReadEntity(&v); err != nil {
						resp.WriteErrorString(400, err.Error())
						return
					}
				}
				if req.PathParameter("n") == "panic" {
					resp.Write([]byte("partial"))
					panic("boom")
				}
				payload := []byte(strings.Repeat(req.PathParameter("n")+";", 200))
				if sl.streamed {
					// a streaming handler: Flush while the response is open, between two writes
					resp.Write(payload[:len(payload)/3])
					resp.Flush()
					resp.Write(payload[len(payload)/3:])
				} else {
					resp.Write(payload)
				}
				if f := sl.after; f != nil {
					sl.after = nil
					if msg := lateFlush(f, sl.rec, "inside the next request's handler, after it wrote"); msg != "" && sl.bad == "" {
						sl.bad = msg
					}
				}
			}))
			c.Add(ws)
			var wg sync.WaitGroup
			var bad atomic.Value
			for g := 0; g < 8; g++ {
				wg.Add(1)
				go func(g int) {
					defer wg.Done()
					r := rng.New(seed * 131).Fork(uint64(round*100*4 + pi*100 + g))
					const perGoroutine = 60
					var pendingBefore, pendingAfter func()
					for i := 0; i < perGoroutine; i++ {
						n := fmt.Sprintf("g%d_%d", g, i)
						if r.Chance(1, 10) {
							n = "panic"
						}
						var body io.Reader
						req := httptest.NewRequest("POST", "/e/"+n, nil)
						if r.Chance(1, 2) {
							var buf bytes.Buffer
							zw := gzip.NewWriter(&buf)
							zw.Write([]byte(`{"k":"` + n + `"}`))
							zw.Close()
							bs := buf.Bytes()
							switch r.Intn(10) {
							case 0, 1:
								bs = bs[:len(bs)/2] // truncated body: ReadEntity must fail and still release
							case 2:
								bs = []byte(`{"k":"not gzip at all"}`) // the gzip HEADER is already wrong
							case 3:
								bs = nil // empty body declared gzip
							case 4:
								bs = bs[:5] // cut inside the header
							}
							body = bytes.NewReader(bs)
							req = httptest.NewRequest("POST", "/e/"+n, body)
							req.Header.Set("Content-Encoding", "gzip")
							req.Header.Set("Content-Type", "application/json")
						}
						enc := []string{"gzip", "deflate"}[r.Intn(2)]
						req.Header.Set("Accept-Encoding", enc)
						rec := httptest.NewRecorder()
						// what the handler finds in the request's context: whether it keeps a Flush of its
						// response for later (1 in 4), whether it streams (Flush between two writes), and the
						// Flush kept from an EARLIER response of this goroutine, closed since, to be called now
						sl := &c13slot{rec: rec, before: pendingBefore, after: pendingAfter, streamed: r.Chance(1, 5)}
						pendingBefore, pendingAfter = nil, nil
						if r.Chance(1, 4) {
							sl.retain = 1 + r.Intn(2)
						}
						req = req.WithContext(context.WithValue(req.Context(), slotKey{}, sl))
						var w http.ResponseWriter = rec
						failing := r.Chance(1, 8)
						if failing {
							// a client that went away: the underlying writer fails; the framework closes the
							// compressing writer twice on this path (dispatch and ServeHTTP) — still one release
							w = &failingWriter{rec: rec, after: r.Intn(40)}
						}
						if r.Chance(1, 4) {
							c.Dispatch(w, req)
							count("entry:Dispatch")
						} else {
							c.ServeHTTP(w, req)
							count("entry:ServeHTTP")
						}
						// the response is closed now.  A kept Flush the handler did not get to (it returned early
						// or panicked) and, for one in three, the Flush kept from this very response come now;
						// the others wait for the next request of this goroutine
						late := []func(){sl.before, sl.after}
						if sl.kept != nil {
							count("handler-kept-a-flush:" + prov)
							switch r.Intn(3) {
							case 0:
								late = append(late, sl.kept)
							case 1:
								pendingBefore = sl.kept
							default:
								pendingAfter = sl.kept
							}
						}
						if i == perGoroutine-1 {
							late = append(late, pendingBefore, pendingAfter)
						}
						for _, f := range late {
							if f == nil {
								continue
							}
							if msg := lateFlush(f, nil, "after the request had ended"); msg != "" && sl.bad == "" {
								sl.bad = msg
							}
						}
						if sl.bad != "" {
							bad.CompareAndSwap(nil, sl.bad+fmt.Sprintf(" (request %s, %s)", n, enc))
							return
						}
						if failing {
							count("request-with-failing-writer:" + prov)
							continue
						}
						count("request:" + prov)
						var rd io.Reader
						var err error
						if enc == "gzip" {
							rd, err = gzip.NewReader(rec.Body)
						} else {
							rd, err = zlib.NewReader(rec.Body)
						}
						if err != nil {
							bad.CompareAndSwap(nil, "an encoded response does not start a valid "+enc+" stream: "+err.Error())
							return
						}
						dec, err := io.ReadAll(rd)
						if err != nil {
							bad.CompareAndSwap(nil, "an encoded response is not a complete "+enc+" stream: "+err.Error())
							return
						}
						if rec.Code == 200 && n != "panic" && string(dec) != strings.Repeat(n+";", 200) {
							bad.CompareAndSwap(nil, fmt.Sprintf("a concurrent encoded response decoded to another payload (%s, provider %s): %.60q", n, prov, dec))
							return
						}
					}
				}(g)
			}
			done := make(chan struct{})
			go func() { wg.Wait(); close(done) }()
			select {
			case <-done:
			case <-time.After(15 * time.Second):
				return result{OK: false, What: "a goroutine is blocked in acquire/release (watchdog, 15 s)", Detail: "provider=" + prov}
			}
			if b := bad.Load(); b != nil {
				return result{OK: false, What: b.(string), Detail: "provider=" + prov}
			}
			led.mu.Lock()
			b, outstanding := led.bad, len(led.out)
			led.mu.Unlock()
			if b != "" {
				return result{OK: false, What: b, Detail: "provider=" + prov}
			}
			if outstanding != 0 {
				return result{OK: false, What: fmt.Sprintf("%d acquired objects were never released", outstanding), Detail: "provider=" + prov}
			}
			if n := atomic.LoadInt64(&led.trap.n); n != 0 {
				return result{OK: false, What: fmt.Sprintf("%d bytes were written through compressors between their release and their next acquisition (use after release)", n), Detail: "provider=" + prov}
			}
		}
	}
	return result{OK: true}
}

// c13slot travels in the request's context to the handler of the C13 load and back.
type c13slot struct {
	rec           *httptest.ResponseRecorder // behind the response that is being served
	retain        int                        // the handler keeps 1: resp.Flush, 2: the response writer's http.Flusher
	kept          func()
	streamed      bool
	before, after func() // Flush kept from an earlier response of the same goroutine, closed since
	bad           string
}

type slotKey struct{}

// failingWriter accepts `after` bytes and then fails every Write, like a broken connection.
type failingWriter struct {
	rec   *httptest.ResponseRecorder
	after int
}

func (f *failingWriter) Header() http.Header { return f.rec.Header() }
func (f *failingWriter) WriteHeader(c int)   { f.rec.WriteHeader(c) }
func (f *failingWriter) Write(b []byte) (int, error) {
	if f.after <= 0 {
		return 0, fmt.Errorf("broken pipe")
	}
	if len(b) > f.after {
		n := f.after
		f.after = 0
		f.rec.Write(b[:n])
		return n, fmt.Errorf("broken pipe")
	}
	f.after -= len(b)
	return f.rec.Write(b)
}
