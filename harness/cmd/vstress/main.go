// vstress is the failing-input search for the schedule properties C12 and C13: it runs the real
// package under mixed concurrent load, built with -race, with a watchdog for blocked goroutines.
// It is never the proof: the proof obligations are the Lean theorems about the generated facts.
//
//	vstress -mode c12|c13 -dur 5s -seed 1
//
// Output: one JSON object on stdout {"ok":bool,"what":…,"ops":…}; exit status 0 ok / 1 violation.
// A data race makes the race detector print a report on stderr and exit with status 66.
package main

import (
	"bytes"
	"compress/gzip"
	"compress/zlib"
	"encoding/json"
	"flag"
	"fmt"
	"io"
	stdlog "log"
	"net/http"
	"net/http/httptest"
	"os"
	"strings"
	"sync"
	"sync/atomic"
	"time"

	restful "github.com/emicklei/go-restful/v3"

	"verifharness/internal/rng"
)

type result struct {
	OK      bool           `json:"ok"`
	What    string         `json:"what,omitempty"`
	Detail  string         `json:"detail,omitempty"`
	Ops     map[string]int `json:"ops"`
	Mode    string         `json:"mode"`
	Seed    uint64         `json:"seed"`
	Seconds float64        `json:"seconds"`
}

var ops sync.Map

func count(k string) {
	v, _ := ops.LoadOrStore(k, new(int64))
	atomic.AddInt64(v.(*int64), 1)
}

func finish(r result) {
	r.Ops = map[string]int{}
	ops.Range(func(k, v interface{}) bool { r.Ops[k.(string)] = int(atomic.LoadInt64(v.(*int64))); return true })
	b, _ := json.Marshal(r)
	fmt.Println(string(b))
	if !r.OK {
		os.Exit(1)
	}
	os.Exit(0)
}

func main() {
	mode := flag.String("mode", "c12", "c12|c13")
	dur := flag.Duration("dur", 5*time.Second, "duration")
	seed := flag.Uint64("seed", 1, "seed")
	flag.Parse()
	restful.SetLogger(stdlog.New(io.Discard, "", 0))
	start := time.Now()
	var r result
	switch *mode {
	case "c12":
		r = stressC12(*dur, *seed)
	default:
		r = stressC13(*dur, *seed)
	}
	r.Mode, r.Seed, r.Seconds = *mode, *seed, time.Since(start).Seconds()
	finish(r)
}

func mkService(root string, n int, dynamic bool) *restful.WebService {
	ws := new(restful.WebService).Path(root)
	ws.SetDynamicRoutes(dynamic)
	for i := 0; i < n; i++ {
		tag := fmt.Sprintf("%s#%d", root, i)
		ws.Route(ws.GET(fmt.Sprintf("/r%d/{id}", i)).To(func(req *restful.Request, resp *restful.Response) {
			resp.AddHeader("X-Route", tag)
			resp.Write([]byte(req.PathParameter("id")))
		}))
	}
	return ws
}

// stressC12: serving goroutines × goroutines that Add/Remove services and Route/RemoveRoute on a
// dynamic service.  Stable services must always be answered 200 by the right route with the right
// parameter; changing ones 200 or 404 (a registration state that existed during the request).
func stressC12(d time.Duration, seed uint64) result {
	// (0) a container on http.DefaultServeMux: Remove refuses (documented) — and must leave the
	// container usable: a registration and a request afterwards come back
	{
		c := restful.NewContainer()
		c.ServeMux = http.DefaultServeMux
		ws := mkService("/verif-default-mux", 1, false)
		done := make(chan string, 1)
		go func() {
			defer func() {
				if p := recover(); p != nil {
					done <- "" // a pattern clash on the process-wide mux is not our subject
				}
			}()
			c.Add(ws)
			if err := c.Remove(ws); err == nil {
				done <- "Remove on a container using http.DefaultServeMux returned no error"
				return
			}
			c.RegisteredWebServices()
			rec := httptest.NewRecorder()
			c.Dispatch(rec, httptest.NewRequest("GET", "/verif-default-mux/r0/7", nil))
			if rec.Code != 200 {
				done <- fmt.Sprintf("after the refused Remove GET /verif-default-mux/r0/7 is answered %d", rec.Code)
				return
			}
			done <- ""
		}()
		select {
		case msg := <-done:
			if msg != "" {
				return result{OK: false, What: "refused Remove (http.DefaultServeMux)", Detail: msg}
			}
		case <-time.After(5 * time.Second):
			return result{OK: false, What: "deadlock: after Remove refused to work on http.DefaultServeMux the container no longer answers (lock not released on the error path)", Detail: "Add, Remove (error), RegisteredWebServices, Dispatch"}
		}
		count("refused-remove-on-default-mux")
	}
	deadline := time.Now().Add(d)
	var bad atomic.Value
	fail := func(what, detail string) { bad.CompareAndSwap(nil, [2]string{what, detail}) }
	for round := 0; time.Now().Before(deadline) && bad.Load() == nil; round++ {
		for _, router := range []string{"curly", "jsr"} {
			c := restful.NewContainer()
			if router == "jsr" {
				c.Router(restful.RouterJSR311{})
			}
			stable := mkService("/stable", 3, true)
			dyn := mkService("/dyn", 2, true)
			// a route whose If-condition (user code, evaluated while the read lock is held) panics on demand;
			// with recovery on the panic becomes a 500 and must leave no lock behind
			c.DoNotRecover(false)
			c.RecoverHandler(func(interface{}, http.ResponseWriter) {})
			stable.Route(stable.GET("/cond").If(func(r *http.Request) bool {
				if r.Header.Get("X-Panic") != "" {
					panic("condition panics")
				}
				return true
			}).To(func(req *restful.Request, resp *restful.Response) { resp.Write([]byte("c")) }))
			c.Add(stable)
			c.Add(dyn)
			// the OPTIONS filter walks the registered services and their routes on its own
			// (computeAllowedMethods) after dispatch has let go of the container's lock
			c.Filter(c.OPTIONSFilter)
			stop := make(chan struct{})
			var wg sync.WaitGroup
			// mutators
			for m := 0; m < 2; m++ {
				wg.Add(1)
				go func(m int) {
					defer wg.Done()
					r := rng.New(seed + uint64(round*10+m))
					tmpRoot := fmt.Sprintf("/tmp%d", m)
					for i := 0; ; i++ {
						select {
						case <-stop:
							return
						default:
						}
						// a probe by the goroutine that made the change, after the change returned: nobody
						// else touches this root / this path, so the answer is determined (a request that
						// starts after Add/Route returned must see it, one that starts after
						// Remove/RemoveRoute returned must not)
						probe := func(path string, want int, after string) {
							rec := httptest.NewRecorder()
							func() {
								defer func() {
									if p := recover(); p != nil {
										fail("panic while serving during registration changes", fmt.Sprint(p))
									}
								}()
								if r.Chance(1, 2) {
									c.ServeHTTP(rec, httptest.NewRequest("GET", path, nil))
								} else {
									c.Dispatch(rec, httptest.NewRequest("GET", path, nil))
								}
							}()
							count("probe-after-" + after)
							if rec.Code != want {
								fail("a request issued after "+after+" had returned was answered according to a registration state that no longer (or never) existed",
									fmt.Sprintf("GET %s router=%s: status %d, want %d", path, router, rec.Code, want))
							}
						}
						switch r.Intn(5) {
						case 0:
							ws := mkService(tmpRoot, 1, true)
							c.Add(ws)
							count("Add")
							probe(tmpRoot+"/r0/7", 200, "Add")
							c.Remove(ws)
							count("Remove")
							probe(tmpRoot+"/r0/7", 404, "Remove")
						case 1:
							p := fmt.Sprintf("/x%d_%d", m, i%3)
							dyn.Route(dyn.GET(p).To(func(req *restful.Request, resp *restful.Response) { resp.Write([]byte("x")) }))
							count("Route")
							probe("/dyn"+p, 200, "Route")
							dyn.RemoveRoute("/dyn"+p, "GET")
							count("RemoveRoute")
							probe("/dyn"+p, 404, "RemoveRoute")
						case 2:
							// two routes for one method and path (they differ in what they produce) and a third one
							// behind them: RemoveRoute(path, method) removes both and only them
							p := fmt.Sprintf("/tw%d_%d", m, i%2)
							x := func(req *restful.Request, resp *restful.Response) { resp.Write([]byte("x")) }
							dyn.Route(dyn.GET(p).Produces("application/json").To(x))
							dyn.Route(dyn.GET(p).Produces("application/xml").To(x))
							dyn.Route(dyn.GET(p + "z").To(x))
							count("Route-twins")
							probe("/dyn"+p, 200, "Route")
							func() {
								defer func() {
									if pv := recover(); pv != nil {
										fail("RemoveRoute panicked", fmt.Sprint(pv))
									}
								}()
								dyn.RemoveRoute("/dyn"+p, "GET")
							}()
							count("RemoveRoute-twins")
							probe("/dyn"+p, 404, "RemoveRoute")
							probe("/dyn"+p+"z", 200, "RemoveRoute of its neighbours")
							dyn.RemoveRoute("/dyn"+p+"z", "GET")
						case 3:
							// two methods on one path: removing one leaves the other
							p := fmt.Sprintf("/mm%d_%d", m, i%2)
							x := func(req *restful.Request, resp *restful.Response) { resp.Write([]byte("x")) }
							dyn.Route(dyn.GET(p).To(x))
							dyn.Route(dyn.PUT(p).To(x))
							dyn.RemoveRoute("/dyn"+p, "GET")
							count("RemoveRoute-one-of-two-methods")
							rec := httptest.NewRecorder()
							c.Dispatch(rec, httptest.NewRequest("PUT", "/dyn"+p, nil))
							if rec.Code != 200 {
								fail("RemoveRoute(path, GET) also removed the PUT route on that path", fmt.Sprintf("PUT /dyn%s router=%s: status %d, want 200", p, router, rec.Code))
							}
							dyn.RemoveRoute("/dyn"+p, "PUT")
						default:
							c.RegisteredWebServices()
						}
					}
				}(m)
			}
			// servers
			for s := 0; s < 4; s++ {
				wg.Add(1)
				go func(s int) {
					defer wg.Done()
					r := rng.New(seed*31 + uint64(s))
					for i := 0; ; i++ {
						select {
						case <-stop:
							return
						default:
						}
						rec := httptest.NewRecorder()
						k := r.Intn(3)
						id := fmt.Sprintf("v%d", r.Intn(100))
						var path, want string
						switch r.Intn(4) {
						case 0, 1:
							path, want = fmt.Sprintf("/stable/r%d/%s", k, id), fmt.Sprintf("/stable#%d", k)
						case 2:
							path = fmt.Sprintf("/dyn/r%d/%s", k%2, id)
							want = fmt.Sprintf("/dyn#%d", k%2)
						default:
							path = fmt.Sprintf("/tmp%d/r0/%s", k%2, id)
						}
						req := httptest.NewRequest("GET", path, nil)
						if r.Chance(1, 10) {
							// OPTIONS: answered by the filter with the methods routable at that URL right now
							orec := httptest.NewRecorder()
							func() {
								defer func() {
									if p := recover(); p != nil {
										fail("panic while the OPTIONS filter computed the allowed methods during registration changes", fmt.Sprint(p))
									}
								}()
								c.Dispatch(orec, httptest.NewRequest("OPTIONS", path, nil))
							}()
							count("OPTIONS")
							if want != "" && !strings.Contains(orec.Header().Get("Allow"), "GET") {
								fail("the OPTIONS filter did not list GET for a route that is not being changed", fmt.Sprintf("%s router=%s: Allow %q", path, router, orec.Header().Get("Allow")))
							}
							continue
						}
						if r.Chance(1, 50) {
							req = httptest.NewRequest("GET", "/stable/cond", nil)
							req.Header.Set("X-Panic", "1")
							want = ""
							count("panicking-condition")
							c.Dispatch(httptest.NewRecorder(), req)
							continue
						}
						func() {
							defer func() {
								if p := recover(); p != nil {
									fail("panic while serving during registration changes", fmt.Sprint(p))
								}
							}()
							if r.Chance(1, 2) {
								c.ServeHTTP(rec, req)
								count("ServeHTTP")
							} else {
								c.Dispatch(rec, req)
								count("Dispatch")
							}
						}()
						switch {
						case want != "" && (rec.Code != 200 || rec.Header().Get("X-Route") != want || rec.Body.String() != id):
							fail("a request to a service and route that are not being changed was not answered as if nothing were changing",
								fmt.Sprintf("%s router=%s: status %d route %q body %q", path, router, rec.Code, rec.Header().Get("X-Route"), rec.Body.String()))
						case want == "" && rec.Code != 200 && rec.Code != 404:
							fail("a request to a service being added/removed was answered by no registration state", fmt.Sprintf("%s: status %d", path, rec.Code))
						}
					}
				}(s)
			}
			time.Sleep(150 * time.Millisecond)
			close(stop)
			done := make(chan struct{})
			go func() { wg.Wait(); close(done) }()
			select {
			case <-done:
			case <-time.After(10 * time.Second):
				return result{OK: false, What: "deadlock: goroutines still blocked 10 s after the load was stopped", Detail: "router=" + router}
			}
		}
	}
	if b := bad.Load(); b != nil {
		x := b.([2]string)
		return result{OK: false, What: x[0], Detail: x[1]}
	}
	return result{OK: true}
}

// ledger provider: detects an object handed out while in use and double release
type ledger struct {
	mu    sync.Mutex
	inner restful.CompressorProvider
	out   map[interface{}]bool
	bad   string
}

func (l *ledger) take(o interface{}) {
	l.mu.Lock()
	if l.out[o] && l.bad == "" {
		l.bad = "the provider handed out an object that is still in use"
	}
	l.out[o] = true
	l.mu.Unlock()
	count("acquire")
}
func (l *ledger) give(o interface{}) {
	l.mu.Lock()
	if !l.out[o] && l.bad == "" {
		l.bad = "an object was released that was not in use (double release)"
	}
	delete(l.out, o)
	l.mu.Unlock()
	count("release")
}
func (l *ledger) AcquireGzipWriter() *gzip.Writer {
	w := l.inner.AcquireGzipWriter()
	l.take(w)
	return w
}
func (l *ledger) ReleaseGzipWriter(w *gzip.Writer) { l.give(w); l.inner.ReleaseGzipWriter(w) }
func (l *ledger) AcquireGzipReader() *gzip.Reader {
	r := l.inner.AcquireGzipReader()
	l.take(r)
	return r
}
func (l *ledger) ReleaseGzipReader(r *gzip.Reader) { l.give(r); l.inner.ReleaseGzipReader(r) }
func (l *ledger) AcquireZlibWriter() *zlib.Writer {
	w := l.inner.AcquireZlibWriter()
	l.take(w)
	return w
}
func (l *ledger) ReleaseZlibWriter(w *zlib.Writer) { l.give(w); l.inner.ReleaseZlibWriter(w) }

// stressC13: many concurrent encoded responses and gzip request bodies over providers of capacity
// 0, 1, 2 and the sync.Pool provider; every response must decode to its own payload; nobody may block.
func stressC13(d time.Duration, seed uint64) result {
	// (0) the provider API hammered directly: more goroutines than capacity, tight acquire/release loops
	for _, caps := range [][2]int{{0, 0}, {1, 1}, {2, 2}, {0, 1}, {1, 2}, {2, 1}, {3, 0}} {
		capn := caps[0]
		var p *restful.BoundedCachedCompressors
		built := make(chan struct{})
		go func() { p = restful.NewBoundedCachedCompressors(caps[0], caps[1]); close(built) }()
		select {
		case <-built:
		case <-time.After(5 * time.Second):
			return result{OK: false, What: "NewBoundedCachedCompressors does not return (blocked while filling its caches)", Detail: fmt.Sprintf("writersCapacity=%d readersCapacity=%d", caps[0], caps[1])}
		}
		var wg sync.WaitGroup
		for g := 0; g < 8; g++ {
			wg.Add(1)
			go func() {
				defer wg.Done()
				for i := 0; i < 400; i++ {
					w := p.AcquireGzipWriter()
					z := p.AcquireZlibWriter()
					r := p.AcquireGzipReader()
					p.ReleaseGzipReader(r)
					p.ReleaseZlibWriter(z)
					p.ReleaseGzipWriter(w)
				}
				count("direct-acquire-release-loops")
			}()
		}
		done := make(chan struct{})
		go func() { wg.Wait(); close(done) }()
		select {
		case <-done:
		case <-time.After(20 * time.Second):
			return result{OK: false, What: "a goroutine is blocked in BoundedCachedCompressors acquire/release (watchdog, 20 s)", Detail: fmt.Sprintf("capacity=%d, 8 goroutines", capn)}
		}
	}
	// (0b) release storms: more objects out than the cache can take back, all released at the same
	// moment and nobody acquiring afterwards — a release that waits for room waits forever
	for _, capn := range []int{1, 2} {
		for _, kind := range []string{"gzip-writer", "zlib-writer", "gzip-reader"} {
			p := restful.NewBoundedCachedCompressors(capn, capn)
			for round := 0; round < 300; round++ {
				const n = 6
				held := make([]interface{}, n)
				for i := range held {
					switch kind {
					case "gzip-writer":
						held[i] = p.AcquireGzipWriter()
					case "zlib-writer":
						held[i] = p.AcquireZlibWriter()
					default:
						held[i] = p.AcquireGzipReader()
					}
				}
				start := make(chan struct{})
				var wg sync.WaitGroup
				for i := range held {
					wg.Add(1)
					go func(o interface{}) {
						defer wg.Done()
						<-start
						switch x := o.(type) {
						case *gzip.Writer:
							p.ReleaseGzipWriter(x)
						case *zlib.Writer:
							p.ReleaseZlibWriter(x)
						case *gzip.Reader:
							p.ReleaseGzipReader(x)
						}
					}(held[i])
				}
				close(start)
				done := make(chan struct{})
				go func() { wg.Wait(); close(done) }()
				select {
				case <-done:
				case <-time.After(3 * time.Second):
					return result{OK: false, What: "a release is blocked: " + kind + " released into a full cache waits for room that nobody makes (3 s, nobody acquiring)",
						Detail: fmt.Sprintf("NewBoundedCachedCompressors(%d,%d), %d objects released at the same moment, round %d", capn, capn, n, round)}
				}
			}
			count("release-storms:" + kind)
		}
	}
	deadline := time.Now().Add(d)
	for round := 0; round == 0 || time.Now().Before(deadline); round++ {
		for _, prov := range []string{"bounded0", "bounded1", "bounded2", "pool"} {
			var inner restful.CompressorProvider
			switch prov {
			case "bounded0":
				inner = restful.NewBoundedCachedCompressors(0, 0)
			case "bounded1":
				inner = restful.NewBoundedCachedCompressors(1, 1)
			case "bounded2":
				inner = restful.NewBoundedCachedCompressors(2, 2)
			default:
				inner = restful.NewSyncPoolCompessors()
			}
			led := &ledger{inner: inner, out: map[interface{}]bool{}}
			restful.SetCompressorProvider(led)
			c := restful.NewContainer()
			c.EnableContentEncoding(true)
			c.DoNotRecover(false)
			ws := new(restful.WebService).Path("/e")
			ws.Route(ws.POST("/{n}").To(func(req *restful.Request, resp *restful.Response) {
				var v map[string]string
				if req.Request.Header.Get("Content-Encoding") != "" {
					if err := req.ReadEntity(&v); err != nil {
						resp.WriteErrorString(400, err.Error())
						return
					}
				}
				if req.PathParameter("n") == "panic" {
					resp.Write([]byte("partial"))
					panic("boom")
				}
				resp.Write([]byte(strings.Repeat(req.PathParameter("n")+";", 200)))
			}))
			c.Add(ws)
			var wg sync.WaitGroup
			var bad atomic.Value
			for g := 0; g < 8; g++ {
				wg.Add(1)
				go func(g int) {
					defer wg.Done()
					r := rng.New(seed*131 + uint64(round*100+g))
					for i := 0; i < 60; i++ {
						n := fmt.Sprintf("g%d_%d", g, i)
						if r.Chance(1, 10) {
							n = "panic"
						}
						var body io.Reader
						req := httptest.NewRequest("POST", "/e/"+n, nil)
						if r.Chance(1, 2) {
							var buf bytes.Buffer
							zw := gzip.NewWriter(&buf)
							zw.Write([]byte(`{"k":"` + n + `"}`))
							zw.Close()
							bs := buf.Bytes()
							switch r.Intn(10) {
							case 0, 1:
								bs = bs[:len(bs)/2] // truncated body: ReadEntity must fail and still release
							case 2:
								bs = []byte(`{"k":"not gzip at all"}`) // the gzip HEADER is already wrong
							case 3:
								bs = nil // empty body declared gzip
							case 4:
								bs = bs[:5] // cut inside the header
							}
							body = bytes.NewReader(bs)
							req = httptest.NewRequest("POST", "/e/"+n, body)
							req.Header.Set("Content-Encoding", "gzip")
							req.Header.Set("Content-Type", "application/json")
						}
						enc := []string{"gzip", "deflate"}[r.Intn(2)]
						req.Header.Set("Accept-Encoding", enc)
						rec := httptest.NewRecorder()
						if r.Chance(1, 8) {
							// a client that went away: the underlying writer fails; the framework closes the
							// compressing writer twice on this path (dispatch and ServeHTTP) — still one release
							c.ServeHTTP(&failingWriter{rec: rec, after: r.Intn(40)}, req)
							count("request-with-failing-writer:" + prov)
							continue
						}
						c.ServeHTTP(rec, req)
						count("request:" + prov)
						var rd io.Reader
						var err error
						if enc == "gzip" {
							rd, err = gzip.NewReader(rec.Body)
						} else {
							rd, err = zlib.NewReader(rec.Body)
						}
						if err != nil {
							bad.CompareAndSwap(nil, "an encoded response does not start a valid "+enc+" stream: "+err.Error())
							return
						}
						dec, err := io.ReadAll(rd)
						if err != nil {
							bad.CompareAndSwap(nil, "an encoded response is not a complete "+enc+" stream: "+err.Error())
							return
						}
						if rec.Code == 200 && n != "panic" && string(dec) != strings.Repeat(n+";", 200) {
							bad.CompareAndSwap(nil, fmt.Sprintf("a concurrent encoded response decoded to another payload (%s, provider %s): %.60q", n, prov, dec))
							return
						}
					}
				}(g)
			}
			done := make(chan struct{})
			go func() { wg.Wait(); close(done) }()
			select {
			case <-done:
			case <-time.After(15 * time.Second):
				return result{OK: false, What: "a goroutine is blocked in acquire/release (watchdog, 15 s)", Detail: "provider=" + prov}
			}
			if b := bad.Load(); b != nil {
				return result{OK: false, What: b.(string), Detail: "provider=" + prov}
			}
			led.mu.Lock()
			b, outstanding := led.bad, len(led.out)
			led.mu.Unlock()
			if b != "" {
				return result{OK: false, What: b, Detail: "provider=" + prov}
			}
			if outstanding != 0 {
				return result{OK: false, What: fmt.Sprintf("%d acquired objects were never released", outstanding), Detail: "provider=" + prov}
			}
		}
	}
	return result{OK: true}
}

// failingWriter accepts `after` bytes and then fails every Write, like a broken connection.
type failingWriter struct {
	rec   *httptest.ResponseRecorder
	after int
}

func (f *failingWriter) Header() http.Header { return f.rec.Header() }
func (f *failingWriter) WriteHeader(c int)   { f.rec.WriteHeader(c) }
func (f *failingWriter) Write(b []byte) (int, error) {
	if f.after <= 0 {
		return 0, fmt.Errorf("broken pipe")
	}
	if len(b) > f.after {
		n := f.after
		f.after = 0
		f.rec.Write(b[:n])
		return n, fmt.Errorf("broken pipe")
	}
	f.after -= len(b)
	return f.rec.Write(b)
}
