package main

import (
	"bufio"
	"bytes"
	"crypto/sha1"
	"encoding/hex"
	"fmt"
	"os"
	"os/exec"
	"strings"

	"verifharness/internal/registry"
	"verifharness/internal/report"
	"verifharness/internal/rng"
)

// c11Digests runs the histories of one stream on the real package only and returns one digest per
// history of everything observable (which operation panicked, whether the fresh container could be
// built, the four answers of every probe).
func c11Digests(seed uint64, router string, n int) []string {
	base := rng.New(seed)
	st := registry.NewStats()
	out := make([]string, 0, n)
	for i := 0; i < n; i++ {
		h := registry.GenHistory(base.Fork(uint64(i)), router, st)
		res := registry.Exec(h)
		hh, strict := sha1.New(), sha1.New()
		fmt.Fprintf(hh, "%d %v", res.PanicIdx, res.FreshPanic)
		for j, a := range res.Answers {
			fmt.Fprintf(strict, "|%s|%s|%s|%s", a[0], a[1], a[2], a[3])
			// found by this comparison: a CONNECT request whose path has no leading "/" is a 404 of the
			// Go 1.21 mux (CONNECT paths are not canonicalised) but is matched by the Go 1.22 mux
			if p := h.Probes[j]; p.Method == "CONNECT" && !strings.HasPrefix(p.Path, "/") {
				continue
			}
			fmt.Fprintf(hh, "|%s|%s|%s|%s", a[0], a[1], a[2], a[3])
		}
		out = append(out, hex.EncodeToString(hh.Sum(nil)[:8])+"/"+hex.EncodeToString(strict.Sum(nil)[:8]))
	}
	return out
}

func c11Seed(run *report.Run, si int) uint64 { return run.Seed*1000003 + 0xC11 + uint64(si) }

func init() {
	checks["C11"] = func(run *report.Run) error {
		registry.InstallLogger()
		if os.Getenv("VERIF_C11_WRITE_WITNESSES") == "1" {
			if err := registry.WriteWitnesses(); err != nil {
				return err
			}
		}
		routers := []string{"curly", "jsr"}
		if os.Getenv("VERIF_C11_NEWMUX_CHILD") == "1" {
			// child of the thorough tier: started with GODEBUG=httpmuxgo121=0 in its environment (net/http
			// reads the setting once, in a package init, so it cannot be switched inside a running process)
			n := 0
			fmt.Sscan(os.Getenv("VERIF_C11_NEWMUX_N"), &n)
			for si, router := range routers {
				for i, d := range c11Digests(c11Seed(run, si), router, n) {
					fmt.Printf("digest %s %d %s\n", router, i, d)
				}
			}
			os.Exit(0)
		}
		run.Rule = "histories of 1–30 operations over {Add, Remove, Route, RemoveRoute, Handle/HandleWithFilter} on 3–7 WebService objects whose root paths share prefixes, differ by a trailing slash or a variable, with and without a service on \"/\" or \"\" (lazy Path), dynamic routes on most; every operation under recover(); then the history-built container and a fresh container built from the final content answer 20–70 probes (every route ever declared instantiated, plain patterns, near misses, unclean paths, trailing slashes, other methods) through Dispatch and ServeHTTP; both routers; a history is non-trivial when an operation panicked or some probe got past the mux's 404; distinct = distinct protocol lines. Operations that would panic in the ServeMux (a plain handler on a pattern a WebService needs, or the reverse) are generated in 1 of 25 cases and end the history. Before the streams: the witness of the open finding F10b is re-executed and must still fail; the former witnesses of the finding F11 repaired by 093fa53 (Add(/users) Add(/users/{id}/b), Add(/a) Add(/a/), both orders, both routers, Remove of one of the sharing services, the pair uncovered by Remove(/), a plain handler under the shared prefix: 16 histories, replays/F11.json) are re-executed as regressions that must hold (no panic, the expected service answers, history-built = fresh = model). The only class that excuses a failing case is F10b; the class of the repaired F11 (WebServices with different root paths that want the same ServeMux pattern) is measured in the distribution (visits-former-F11-class) and excuses nothing; a full-size run that hardly visits it fails"
		run.Trusted = []string{"net/http.ServeMux (Go 1.21 behaviour, GODEBUG httpmuxgo121=1 selected by /repo's go.mod) modelled by Model/Mux.lean and validated by this stream",
			"path.Clean modelled structurally (Mux.cleanSegs)", "the routing model (Model/Route.lean) decides what dispatch answers; it is tied to /repo by the routing streams of C01–C04"}
		run.Assumptions = []string{"every ServeMux pattern starts with \"/\" (no host patterns) and contains no \"{\"", "probe paths consist of URL-safe bytes (the Location of a 301 is the path itself)",
			"duplicate root paths (os.Exit) are never generated; the harness turns the log call before os.Exit into a panic so that a mutant exiting there is observed",
			"a panic of Add is accepted only when a pattern of the services collides with a pattern the user registered through Handle/HandleWithFilter before (Spec.c11AddTotalHolds; the ServeMux's own rule), a panic of Remove never",
			"no container or service filters: Handle and HandleWithFilter are the same registration"}
		if err := registry.ReplayWitnesses(run); err != nil {
			return err
		}
		// the former witnesses of F11 (repaired by 093fa53) are regression cases that must hold
		if err := registry.ReplayRegressions(run); err != nil {
			return err
		}
		n := sizes(run, 750, 15000)
		st := registry.NewStats()
		for si, router := range routers {
			if err := registry.CheckStream(run, registry.StreamOpts{Name: router, Router: router, Histories: n}, c11Seed(run, si), st); err != nil {
				return err
			}
		}
		run.Extra["generated_operations"] = st.Ops
		run.Extra["history_lengths"] = st.Lengths
		run.Extra["operations_generated_without_steering_away_from_panics"] = st.Risky
		run.Extra["add_operations_generated_for_a_service_sharing_a_pattern_with_a_registered_one"] = st.Shared
		// the class of the repaired finding F11 must stay covered: a regression there would go unnoticed otherwise
		visits, completes := 0, 0
		for _, router := range routers {
			visits += run.Dist[router+":visits-former-F11-class"]
			completes += run.Dist[router+":visits-former-F11-class:history-completes"]
		}
		run.Extra["histories_visiting_the_former_F11_class"] = map[string]int{"of": 2 * n, "visiting": visits, "visiting_and_completing": completes}
		if 2*n >= 1000 && (visits*5 < 2*n || completes*8 < 2*n) {
			return fmt.Errorf("the streams hardly visit the class of the repaired finding F11 (WebServices with different root paths that share ServeMux patterns): %d of %d histories visit it, %d of them complete and are probed; a regression there would go unnoticed", visits, 2*n, completes)
		}
		if run.Tier == "thorough" {
			c11NewMux(run, routers)
		}
		return nil
	}
}

// c11NewMux re-runs part of the stream in a child process with the Go 1.22 ServeMux and compares
// every observable with what this process (Go 1.21 mux) sees: DESIGN 4.7 assumes they coincide on
// the patterns go-restful registers.
func c11NewMux(run *report.Run, routers []string) {
	const n = 3000
	self, err := os.Executable()
	if err != nil {
		run.Extra["newmux"] = "not run: " + err.Error()
		return
	}
	cmd := exec.Command(self, "check", "C11", "--tier", "quick", "--seed", fmt.Sprint(run.Seed))
	cmd.Env = append(os.Environ(), "GODEBUG=httpmuxgo121=0", "VERIF_C11_NEWMUX_CHILD=1", fmt.Sprintf("VERIF_C11_NEWMUX_N=%d", n))
	cmd.Stderr = os.Stderr
	out, err := cmd.Output()
	if err != nil {
		run.Extra["newmux"] = "child failed: " + err.Error()
		fmt.Fprintln(os.Stderr, "C11: the Go 1.22 ServeMux comparison could not run:", err)
		return
	}
	child := map[string]string{}
	sc := bufio.NewScanner(bytes.NewReader(out))
	for sc.Scan() {
		f := strings.Fields(sc.Text())
		if len(f) == 4 && f[0] == "digest" {
			child[f[1]+" "+f[2]] = f[3]
		}
	}
	diff, total, connectOnly := 0, 0, 0
	var first string
	for si, router := range routers {
		for i, d := range c11Digests(c11Seed(run, si), router, n) {
			total++
			cd := child[fmt.Sprintf("%s %d", router, i)]
			if strings.SplitN(cd, "/", 2)[0] != strings.SplitN(d, "/", 2)[0] {
				diff++
				if first == "" {
					first = fmt.Sprintf("stream %s history %d (seed %d)", router, i, c11Seed(run, si))
				}
			} else if cd != d {
				connectOnly++
			}
		}
	}
	run.Extra["newmux"] = map[string]interface{}{"histories_compared": total, "differing": diff, "first_difference": first,
		"differing_only_on_CONNECT_with_a_path_without_leading_slash": connectOnly,
		"what": "same histories and probes run with GODEBUG=httpmuxgo121=0 (Go 1.22 ServeMux) in a child process; every observable compared with this process"}
	if diff > 0 {
		fmt.Fprintf(os.Stderr, "C11: ASSUMPTION BROKEN: the Go 1.22 ServeMux answers differently on %d of %d histories; first: %s\n", diff, total, first)
		run.Assumptions = append(run.Assumptions, fmt.Sprintf("BROKEN on this run: Go 1.22 ServeMux behaves like the Go 1.21 mux on the registered patterns (%d of %d histories differ; first: %s)", diff, total, first))
	}
}
