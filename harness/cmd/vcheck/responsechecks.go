package main

import (
	"verifharness/internal/report"
	"verifharness/internal/response"
)

func init() {
	checks["C15"] = func(run *report.Run) error {
		run.Rule = "sequences of 1–12 calls of Write, WriteHeader, WriteErrorString, WriteError, WriteServiceError, WriteHeaderAndEntity, WriteEntity, WriteAsJson/Xml, WriteJson, WriteHeaderAndJson/Xml (plus PrettyPrint and SetRequestAccepts) on a real restful.Response: created directly, or by a container for a route function with a trailing filter reading StatusCode()/ContentLength(); plain, gzip or deflate CompressingResponseWriter underneath; values nil / string / struct / slice / map / typed nil / ServiceError / unmarshalable (channel, struct ending in a channel), payloads 0–5000 bytes; bottom writer failing from its k-th Write (partial count, permanent or transient) in 55 % of the cases; 80 % of the sequences obey the status discipline by construction, 20 % are free; a case is non-trivial when the underlying writer received at least one call; distinct = distinct (settings, calls, observations) lines"
		run.Trusted = []string{
			"encoding/json and encoding/xml: the sizes and number of Write calls of MarshalIndent / Encoder.Encode are measured by a shadow run on a recording writer and handed to the model as data",
			"reference semantics of the underlying writer's status: first WriteHeader wins, first Write fixes 200 (net/http, httptest.ResponseRecorder)",
			"compress/gzip, compress/zlib accept every byte offered while the writer beneath them does not fail (cross-checked on every such case by decoding what reached the bottom writer)",
		}
		run.Assumptions = []string{
			"the status is set at most once, before any body byte (empty Write included), with a status net/http accepts (100..999): Spec.discipline; other sequences are only compared with the model",
			"all data goes through the Response's own Write*/WriteHeader methods (not the deprecated InternalServerError, not Flush/Hijack, not the embedded ResponseWriter directly)",
			"DefaultResponseMimeType unset, default entity accessors for JSON and XML, MarshalIndent/NewEncoder package variables untouched",
			"the error clause is claimed without a content coding in between only",
		}
		n := 5000
		if run.Tier == "thorough" {
			n = 100000
		}
		return response.Check(run, n)
	}
}
