package main

import (
	"verifharness/internal/report"
	"verifharness/internal/response"
)

func init() {
	checks["C15"] = func(run *report.Run) error {
		run.Rule = "sequences of 1–12 calls of Write, WriteHeader, WriteErrorString, WriteError, WriteServiceError, WriteHeaderAndEntity, WriteEntity, WriteAsJson/Xml, WriteJson, WriteHeaderAndJson/Xml (plus PrettyPrint and SetRequestAccepts; in 30 % of the sequences also 1–3 changes of the response's header map — Header().Set/Add/Del, AddHeader, direct assignment — mostly a declared Content-Length, in several spellings, larger than / equal to / smaller than what the sequence writes in all, has written so far or writes next, or not an integer; a fifth of those sequences write no body at all) on a real restful.Response: created directly, or by a container for a route function with a trailing filter reading StatusCode()/ContentLength(), or (route-miss, 9 %) by a container for a request that FAILS route selection (404 unknown path / no web service, 405, 406, 415; CurlyRouter or RouterJSR311) where the calls are made by an installed ServiceErrorHandler (any sequence) or by the container's default one (its WriteErrorString, measured by a shadow run) and a container filter reads StatusCode()/ContentLength() after ProcessFilter returned; plain, gzip or deflate CompressingResponseWriter underneath; values nil / string / struct / slice / map / typed nil / ServiceError / unmarshalable (channel, struct ending in a channel), payloads 0–5000 bytes; bottom writer failing from its k-th Write (partial count, permanent or transient; a fresh private error value per failing call, or in 40 % of them one of net/http's, io's, net's own error values: http.ErrBodyNotAllowed, ErrHijacked, ErrContentLength, ErrHandlerTimeout, io.ErrShortWrite, io.ErrClosedPipe, io.EOF, net.ErrClosed, os.ErrDeadlineExceeded — the same value at every failing call — or a fresh error wrapping one) in 55 % of the cases; in 15 % the bottom writer (also) behaves like net/http's: after a status that allows no body (1xx, 204, 304; half of these cases are steered to such a status) every Write returns (0, http.ErrBodyNotAllowed); the recorder beneath the Response names every error value its Write hands up (by identity) and every call's returned error is classified against them (nil / that value / another), so that Spec.c15Holds checks that the failing call returns THE error the underlying writer returned; 80 % of the sequences obey the status discipline by construction, 20 % are free; a case is non-trivial when the underlying writer received at least one call; distinct = distinct (settings, calls, observations) lines"
		run.Trusted = []string{
			"encoding/json and encoding/xml: the sizes and number of Write calls of MarshalIndent / Encoder.Encode are measured by a shadow run on a recording writer and handed to the model as data; for a value that does not marshal, which error xml.Encoder.Encode returns when its i-th Write fails (the writer's or its own) is measured by shadow runs on a writer failing from that call",
			"reference semantics of the underlying writer's status: first WriteHeader wins, first Write fixes 200 (net/http, httptest.ResponseRecorder)",
			"compress/gzip, compress/zlib accept every byte offered while the writer beneath them does not fail (cross-checked on every such case by decoding what reached the bottom writer)",
		}
		run.Assumptions = []string{
			"the status is set at most once, before any body byte (empty Write included), with a status net/http accepts (100..999): Spec.discipline; other sequences are only compared with the model",
			"all data goes through the Response's own Write*/WriteHeader methods (not the deprecated InternalServerError, not Flush/Hijack, not the embedded ResponseWriter directly)",
			"DefaultResponseMimeType unset, default entity accessors for JSON and XML, MarshalIndent/NewEncoder package variables untouched",
			"the error clause is claimed without a content coding in between only",
			"the identity half of the error clause (the failing call returns THE error value the writer returned) is claimed for calls whose value marshals (Spec.ObsCall.ownErr = false): a value on which the marshaller reports an error of its own gives the call two errors to choose from (encoding/xml may return its own after a failed flush); such cases are counted under out-of-quantifier in the distribution, still compared with the model, and still required to return a non-nil error",
		}
		n := 5000
		if run.Tier == "thorough" {
			n = 100000
		}
		return response.Check(run, n)
	}
}
