package main

import (
	"verifharness/internal/report"
	"verifharness/internal/routing"
)

func sizes(run *report.Run, quickCfg, thoroughCfg int) int {
	if run.Tier == "thorough" {
		return thoroughCfg
	}
	return quickCfg
}

func init() {
	checks["C01"] = func(run *report.Run) error {
		run.Rule = "route tables drawn from the template grammar (literals, {v}, {v:re}, {v}suffix, tail wildcard, :verb; Consumes/Produces/If/AllowedMethodsWithoutContentType), requests derived from a route's template then mutated (DESIGN §5); both routers; a case is non-trivial when some WebService root matched the URL; distinct = distinct (table, request) lines"
		run.Trusted = []string{"Go regexp modelled by a derivative matcher (CurlyRouter) and by the closed form of DESIGN 4.2 (RouterJSR311)", "sort.Sort is insertion sort for n ≤ 12"}
		run.Assumptions = []string{"templates inside the grammar of the quantifier (checked per table by the driver: Config.wfTemplates)", "If-conditions are pure functions of the request"}
		n := sizes(run, 150, 3000)
		p := routing.PropSpec{ID: "C01", SpecKey: "C01", Proj: routing.ProjWhich, NeedWF: true}
		return routing.CheckStreams(run, p, []routing.StreamSpec{
			{Name: "curly", Opts: routing.FullOpts("curly"), NCfg: n, PerCfg: 20},
			{Name: "jsr", Opts: routing.FullOpts("jsr"), NCfg: n, PerCfg: 20},
		})
	}
}
