package main

import (
	"strings"
	"verifharness/internal/registry"
	"verifharness/internal/serve"

	"verifharness/internal/allow"
	"verifharness/internal/report"
	"verifharness/internal/rng"
	"verifharness/internal/routing"
)

func sizes(run *report.Run, quickCfg, thoroughCfg int) int {
	if run.Tier == "thorough" {
		return thoroughCfg
	}
	return quickCfg
}

func init() {
	// the special token forms at high density (custom verbs, regex variables in every position, match-all
	// expressions), requests mutated twice as often: what a token form admits and what it does not
	specials := func(router string) routing.Opts {
		o := routing.FullOpts(router)
		o.Specials, o.Contest, o.Faults = true, false, false
		return o
	}
	checks["C01"] = func(run *report.Run) error {
		run.Rule = "route tables drawn from the template grammar (literals, {v}, {v:re}, {v}suffix, tail wildcard, :verb; Consumes/Produces/If/AllowedMethodsWithoutContentType), requests derived from a route's template then mutated (DESIGN §5); both routers; half of the tables are declared with RouteBuilder values that are used again for the next route of their WebService (Method, Path, Operation, Consumes, Produces, To set anew; also for a route added after registration); a case is non-trivial when some WebService root matched the URL; distinct = distinct (table, request) lines"
		run.Trusted = []string{"Go regexp modelled by a derivative matcher (CurlyRouter) and by the closed form of DESIGN 4.2 (RouterJSR311)", "sort.Sort is insertion sort for n ≤ 12"}
		run.Assumptions = []string{"templates inside the grammar of the quantifier and ids that identify (checked per table by the driver: Config.wfTemplates, Spec.idsDistinct, rootsRead)", "If-conditions are pure functions of the request"}
		n := sizes(run, 150, 3000)
		// SeenSelected: a third of the tables are built with observing pass-through filters (container,
		// WebService, route level); whatever they and the handler see as Request.SelectedRoute() must be
		// the route whose function ran — on containers that have served other requests before
		p := routing.PropSpec{ID: "C01", SpecKey: "C01", Proj: routing.ProjWhich, NeedWF: true, SeenSelected: true}
		if err := routing.CheckStreams(run, p, []routing.StreamSpec{
			{Name: "curly", Opts: routing.FullOpts("curly"), NCfg: n, PerCfg: 20},
			{Name: "jsr", Opts: routing.FullOpts("jsr"), NCfg: n, PerCfg: 20},
			{Name: "curly-specials", Opts: specials("curly"), NCfg: n / 3, PerCfg: 20},
			{Name: "jsr-specials", Opts: specials("jsr"), NCfg: n / 3, PerCfg: 20},
		}); err != nil {
			return err
		}
		run.Extra["routes_declared_with_a_reused_RouteBuilder"] = routing.Reused
		// "the route that filters and the handler see as the selected route is the one whose function
		// runs" while other requests are being routed: batches of requests to different routes held
		// together after routing (at the first container filter) and released; the stage log (which
		// function ran, selected route path and parameters seen by every stage) must be the sequential one
		for _, router := range []string{"curly", "jsr"} {
			sp := serve.PropSpec{ID: "C01", Proj: serve.ProjLog}
			if err := serve.CheckConcurrent(run, sp, serve.GenOpts{Router: router, PanicPct: 0}, n, 6); err != nil {
				return err
			}
		}
		return nil
	}
}

func routingMeta(run *report.Run) {
	run.Trusted = []string{"Go regexp modelled by a derivative matcher (CurlyRouter) and by the closed form of DESIGN 4.2 (RouterJSR311)", "sort.Sort is insertion sort for n ≤ 12"}
	run.Assumptions = []string{"templates inside the grammar of the quantifier and ids that identify (checked per table by the driver: Config.wfTemplates, Spec.idsDistinct, rootsRead)", "If-conditions are pure functions of the request"}
}

func init() {
	// one WebService whose root path is 3, 5, 6 or 7 variables, several routes with variables of their own,
	// served in turn: the names a value is bound to are those of the root and of THIS route
	manyVars := func(router string) routing.Opts {
		o := routing.FullOpts(router)
		o.ManyVarRoots, o.MaxSvcs, o.Contest, o.Faults = true, 1, false, false
		if o.MaxRoutes < 4 {
			o.MaxRoutes = 4
		}
		return o
	}
	checks["C04"] = func(run *report.Run) error {
		run.Rule = "same generator as C01; a case is non-trivial when some WebService root matched the URL; the projection compared is the parameter map of the invoked route (root and route variables, regex variables, suffix tokens, tail wildcard with 0–3 segments, custom verbs)"
		routingMeta(run)
		n := sizes(run, 150, 3000)
		p := routing.PropSpec{ID: "C04", SpecKey: "C04", Proj: routing.ProjParams, NeedWF: true}
		if err := routing.CheckStreams(run, p, []routing.StreamSpec{
			{Name: "curly", Opts: routing.FullOpts("curly"), NCfg: n, PerCfg: 20},
			{Name: "jsr", Opts: routing.FullOpts("jsr"), NCfg: n, PerCfg: 20},
			{Name: "curly-manyvars", Opts: manyVars("curly"), NCfg: n / 6, PerCfg: 24},
			{Name: "jsr-manyvars", Opts: manyVars("jsr"), NCfg: n / 6, PerCfg: 24},
		}); err != nil {
			return err
		}
		// plain parallel traffic: every request must get the outcome (parameter values included) it gets alone
		for _, router := range []string{"curly", "jsr"} {
			ho := routing.FullOpts(router)
			ho.Faults = false
			routing.CheckHammer(run, "C04", ho, run.Seed*2654435761+uint64(len(router)), sizes(run, 40, 400), 16, 6)
			// … and tables full of tail wildcards (the value is assembled from several segments), hammered longer
			ho.WildHeavy, ho.AllowRe, ho.AllowSuf, ho.AllowVerb, ho.Adversarial = true, false, false, false, false
			routing.CheckHammer(run, "C04", ho, run.Seed*40503+uint64(len(router)), sizes(run, 10, 100), 12, 60)
		}
		// the values bound for one request while other requests to the same and to other routes are being
		// routed: batches held together after routing and released; every stage must see the parameters it
		// sees when the request is served alone
		for _, router := range []string{"curly", "jsr"} {
			sp := serve.PropSpec{ID: "C04", Proj: serve.ProjLog}
			if err := serve.CheckConcurrent(run, sp, serve.GenOpts{Router: router, PanicPct: 0}, n, 6); err != nil {
				return err
			}
		}
		return nil
	}

	checks["C14"] = func(run *report.Run) error {
		run.Rule = "every generated request whose path has a non-empty segment and does not end in '/' is dispatched as p and as p/ on the same container; the two real outcomes must be the same (Spec.sameOutcomeB: status, route, parameters, Allow set) and each must equal the model's; allow.CheckSlash: statuses, 405 Allow sets and the lists of Container.OPTIONSFilter for p and p/ on the common fragment — on freshly built containers and, every other pair, on ONE pair of containers with a past (OPTIONS / preflight / GET traffic to only one of the two forms, then a route added to a registered WebService with ws.Route or removed with ws.RemoveRoute, then both forms observed); distinct = distinct (table, request) pairs whose root matched"
		routingMeta(run)
		n := sizes(run, 150, 3000)
		slash := func(r *rng.R, cfg routing.Config, reqs []routing.Req) []routing.Variant {
			v := routing.Variant{Name: "slash", Cfg: cfg, Reqs: make([]*routing.Req, len(reqs))}
			for i, rq := range reqs {
				if strings.Trim(rq.Path, "/") != "" && !strings.HasSuffix(rq.Path, "/") {
					r2 := rq
					r2.Path += "/"
					v.Reqs[i] = &r2
				}
			}
			return []routing.Variant{v}
		}
		pairs, err := routing.RunVariants(run.Seed*7919+1, n, 20, routing.FullOpts("curly"), slash)
		if err != nil {
			return err
		}
		routing.CheckPairs(run, routing.PairSpec{ID: "C14"}, "curly", pairs)
		if routing.WitnessF19() {
			run.KnownHits["F19"]++
		}
		jo := routing.FullOpts("jsr")
		jo.AllowWild = false
		pairs, err = routing.RunVariants(run.Seed*7919+2, n, 20, jo, slash)
		if err != nil {
			return err
		}
		routing.CheckPairs(run, routing.PairSpec{ID: "C14",
			Applies: func(p *routing.PairCase) bool { return p.Class["jsrHasWildcard"] == "0" },
			Known: func(p *routing.PairCase) string {
				if p.Class["jsrSlashSafe"] == "0" {
					return "F19"
				}
				return ""
			}}, "jsr", pairs)
		// … and on negotiation tables (several routes with the same method and template that differ in what
		// they produce and consume; requests with and without Accept / Content-Type, resources named like
		// files): there the selected route is decided by the media stages alone, and nothing about the
		// path's last characters may enter that decision
		for i, router := range []string{"curly", "jsr"} {
			no := routing.FullOpts(router)
			no.OnlyNegotiation = true
			pairs, err = routing.RunVariants(run.Seed*7919+3+uint64(i), n/2, 20, no, slash)
			if err != nil {
				return err
			}
			routing.CheckPairs(run, routing.PairSpec{ID: "C14"}, router+"-negotiation", pairs)
		}
		// "same Allow header": also the one the OPTIONS filter computes (Container.computeAllowedMethods)
		for _, router := range []string{"curly", "jsr"} {
			if err := allow.CheckSlash(run, router, n/2, 12); err != nil {
				return err
			}
		}
		if allow.WitnessF20() {
			run.KnownHits["F20"]++
		}
		// … and through the ServeMux, on containers with a past
		if err := registry.CheckSlashServe(run, 3*n); err != nil {
			return err
		}
		run.Extra["skipped_tables_F11"] = routing.SkippedBuild
		return nil
	}

	checks["C03"] = func(run *report.Run) error {
		run.Rule = "(1) never less specific, on single outcomes: the C01 generator (both routers, and RouterJSR311 with literal roots only); the driver evaluates Spec.c03Holds on every real outcome of a well-formed table: when a route function ran, no other route of its WebService that admits the URL and is eligible for the request has a more specific template (a literal segment where the selected one has a variable, same shape otherwise), no other WebService whose root claims the URL has a root with literals where the selected root has variables or that properly extends it (CurlyRouter), no other matching literal root has more literal characters (RouterJSR311); the projection compared with the model is which function ran; the predicate is evaluated on the real outcomes of the permuted tables of (2) as well. (2) order independence, on pairs: every generated table is built in the generated order and in k random permutations of its WebServices and of each service's routes (k = 3 quick, 8 thorough); every request is dispatched on all of them; inside the property's quantifier (same-method routes have different paths, no two roots of the same literal/variable shape) all real outcomes must be the same and each must equal the model's; distinct = distinct (table, request) lines of (1) plus distinct (table, permutation, request) of (2) whose root matched"
		routingMeta(run)
		// (1) the single-outcome predicate on every real outcome. No Known classes: F05 is about the
		// registration ORDER between roots that score equally, it excuses nothing here.
		// Coverage classes counted per stream: C03routes2 = the WebService of the route that ran had
		// two or more candidate routes, C03roots2 = two or more roots were candidates. The third
		// stream has literal roots only: there the RouterJSR311 root clause always speaks.
		ns := sizes(run, 150, 3000)
		single := routing.PropSpec{ID: "C03", SpecKey: "C03", Proj: routing.ProjWhich, NeedWF: true,
			Classes: []string{"C03routes2", "C03roots2"}}
		curlyPairs := routing.PairSpec{ID: "C03",
			Applies: func(p *routing.PairCase) bool {
				return p.Class["distinctMethodPath"] == "1" && p.Class["sameShapeRoots"] == "0"
			},
			Known: func(p *routing.PairCase) string {
				if p.Class["scoresSeparate"] == "0" {
					return "F05"
				}
				return ""
			}}
		jsrPairs := routing.PairSpec{ID: "C03", Applies: func(p *routing.PairCase) bool { return p.Class["distinctMethodPath"] == "1" }}
		// the search around a case on which model and implementation disagree: the same table in twelve
		// other registration orders, the disagreeing request and sixty requests near it — a ranking that
		// changed shows as an outcome that depends on the order (inside the quantifier of the pair property:
		// for RouterJSR311 on tables with literal roots only)
		nearBusy := false
		single.Near = func(run *report.Run, o routing.Opts, cfg routing.Config, req routing.Req) bool {
			if nearBusy {
				return false
			}
			ps := curlyPairs
			if o.Router == "jsr" {
				ps = jsrPairs
				for _, s := range cfg.Services {
					for _, t := range s.RootToks {
						if t.Kind != "lit" {
							return false
						}
					}
				}
			}
			nearBusy = true
			defer func() { nearBusy = false }()
			r := rng.New(run.Seed ^ 0x5eed03)
			reqs := []routing.Req{req}
			for i := 0; i < 60; i++ {
				rq := routing.GenReq(r, o, cfg)
				if i%3 == 0 {
					rq.Path = req.Path
				}
				reqs = append(reqs, rq)
			}
			many := func(r *rng.R, cfg routing.Config, reqs []routing.Req) []routing.Variant {
				var vs []routing.Variant
				for j := 0; j < 12; j++ {
					v := routing.Variant{Name: "perm-near", Cfg: routing.Permute(r, cfg), Reqs: make([]*routing.Req, len(reqs))}
					for i := range reqs {
						rq := reqs[i]
						v.Reqs[i] = &rq
					}
					vs = append(vs, v)
				}
				return vs
			}
			o.ViaServe = false
			pairs, err := routing.RunVariantsOn(run.Seed^0x03, []routing.Table{{Cfg: cfg, Reqs: reqs}}, o, many)
			if err != nil {
				return false
			}
			before := 0
			for _, v := range run.Violations {
				if !v.NoInput {
					before++
				}
			}
			ps.NoModel = true // the disagreement itself is being reported by the caller
			routing.CheckPairs(run, ps, o.Router+"-near", pairs)
			after := 0
			for _, v := range run.Violations {
				if !v.NoInput {
					after++
				}
			}
			return after > before
		}
		jlit := routing.FullOpts("jsr")
		jlit.RootVars, jlit.RootRe = false, false
		if err := routing.CheckStreams(run, single, []routing.StreamSpec{
			{Name: "curly", Opts: routing.FullOpts("curly"), NCfg: ns, PerCfg: 20},
			{Name: "jsr", Opts: routing.FullOpts("jsr"), NCfg: ns, PerCfg: 20},
			{Name: "jsr-literal-roots-single", Opts: jlit, NCfg: ns, PerCfg: 20},
		}); err != nil {
			return err
		}
		// (2) the pair property on permuted tables; the real outcome of every table of every pair
		// must satisfy the single-outcome predicate as well (PairSpec.Single)
		n := sizes(run, 100, 2000)
		k := 3
		if run.Tier == "thorough" {
			k = 8
		}
		perms := func(r *rng.R, cfg routing.Config, reqs []routing.Req) []routing.Variant {
			var vs []routing.Variant
			for j := 0; j < k; j++ {
				v := routing.Variant{Name: "perm", Cfg: routing.Permute(r, cfg), Reqs: make([]*routing.Req, len(reqs))}
				for i := range reqs {
					rq := reqs[i]
					v.Reqs[i] = &rq
				}
				vs = append(vs, v)
			}
			return vs
		}
		co := routing.FullOpts("curly")
		pairs, err := routing.RunVariants(run.Seed*104729+1, n, 15, co, perms)
		if err != nil {
			return err
		}
		cp := curlyPairs
		cp.Single, cp.Opts = &single, &co
		routing.CheckPairs(run, cp, "curly", pairs)
		if routing.WitnessF05() {
			run.KnownHits["F05"]++
		}
		if routing.WitnessF21() {
			run.KnownHits["F21"]++
		}
		jo := routing.FullOpts("jsr")
		jo.RootVars, jo.RootRe = false, false
		pairs, err = routing.RunVariants(run.Seed*104729+2, n, 15, jo, perms)
		if err != nil {
			return err
		}
		routing.CheckPairs(run, routing.PairSpec{ID: "C03", Single: &single, Opts: &jo,
			Applies: func(p *routing.PairCase) bool { return p.Class["distinctMethodPath"] == "1" }}, "jsr-literal-roots", pairs)
		// (3) the same pair property through the http.Handler side of the container (Container.ServeHTTP):
		// which WebService is registered first also decides what Container.Add tells the ServeMux. The
		// real outcomes of the permuted builds are compared with one another (no model of the ServeMux
		// here). Guard: tables whose root paths are literal, not "/" and declared without a trailing slash
		// (Opts.PlainRoots) — on those the set of ServeMux patterns is the union of {root, root/} whatever
		// the order; with a WebService on "/" or on a root that starts with a variable, Container.Add stops
		// registering patterns from that WebService on, and what net/http redirects by itself then depends
		// on the order (DESIGN §11, the withdrawn attempt). Sibling roots that are string prefixes of one
		// another without being segment prefixes (/api, /apidocs) are part of these tables.
		for i, router := range []string{"curly", "jsr"} {
			so := routing.FullOpts(router)
			so.RootVars, so.RootRe, so.PlainRoots, so.ViaServe, so.Contest = false, false, true, true, false
			pairs, err = routing.RunVariants(run.Seed*104729+3+uint64(i), n/2, 15, so, perms)
			if err != nil {
				return err
			}
			routing.CheckPairs(run, routing.PairSpec{ID: "C03", NoModel: true,
				Applies: func(p *routing.PairCase) bool { return p.Class["distinctMethodPath"] == "1" }}, router+"-served-plain-roots", pairs)
		}
		run.Extra["skipped_tables_F11"] = routing.SkippedBuild
		return nil
	}
}

func init() {
	checks["C02"] = func(run *report.Run) error {
		run.Rule = "same generator as C01 plus adversarial paths (empty, //, control and non-ASCII bytes, 300-byte segments), every method including unknown ones, coherent and incoherent Content-Length/ContentLength pairs; the driver evaluates the decision table of the property (Spec.c02Holds: no panic, exact 404/405+Allow set/415/406, one of the eligible routes of the best service runs exactly once) on every real outcome; the projection compared with the model is status, Allow set, panic"
		routingMeta(run)
		run.Assumptions = append(run.Assumptions, "media types in Consumes/Produces are non-empty strings (Spec.mediaHygiene, checked per table)")
		n := sizes(run, 200, 4000)
		inQuantifier := func(c *routing.Case) bool { return c.Spec["mediaHygiene"] == "1" }
		known := func(c *routing.Case) string {
			switch {
			case c.Cfg.Router == "jsr" && strings.Contains(c.Req.Path, "\n"):
				return "F16"
			}
			return ""
		}
		_ = inQuantifier
		p := routing.PropSpec{ID: "C02", SpecKey: "C02", Proj: routing.ProjStatus, NeedWF: true, Known: known}
		traced := routing.FullOpts("curly")
		traced.Trace = true
		tracedJ := routing.FullOpts("jsr")
		tracedJ.Trace = true
		if err := routing.CheckStreams(run, p, []routing.StreamSpec{
			{Name: "curly", Opts: routing.FullOpts("curly"), NCfg: n, PerCfg: 20},
			{Name: "jsr", Opts: routing.FullOpts("jsr"), NCfg: n, PerCfg: 20},
			{Name: "curly-traced", Opts: traced, NCfg: n / 2, PerCfg: 20},
			{Name: "jsr-traced", Opts: tracedJ, NCfg: n / 2, PerCfg: 20},
		}); err != nil {
			return err
		}
		// "exactly one outcome" also for the requests that come after one whose user code panicked: a
		// container that no longer accepts a registration leaves every later request without any outcome
		run.Extra["fault_traffic_requests"] = routing.FaultsSent
		for _, h := range routing.TakeHung() {
			run.AddViolation(report.Violation{Kind: "counterexample", What: "C02: " + h})
		}
		if routing.WitnessF16() {
			run.KnownHits["F16"]++
		}
		// regression case of the repaired finding F03 (fix 19aa57d): must hold on every run
		if routing.RegressionF03() {
			run.AddViolation(report.Violation{Kind: "counterexample",
				What:  "CurlyRouter answers 404 for /123 although the root /{id:[0-9]+} claims it (the regex of a root-path variable is not evaluated when the WebService is selected; the defect repaired by 19aa57d is back)",
				Human: "CurlyRouter; services /{name:[a-z]+} (GET '') and /{id:[0-9]+} (GET ''); request GET /123"})
		}
		// regression case of the repaired finding F04 (fix e9138e1): must hold on every run
		if routing.RegressionF04() {
			run.AddViolation(report.Violation{Kind: "counterexample",
				What:  "a chunked POST (ContentLength -1, no Content-Length header) with a consumed Content-Type and an unsatisfiable Accept is answered 415 instead of 406 (the defect repaired by e9138e1 is back)",
				Human: "CurlyRouter; service /u; route POST '' Consumes/Produces application/json; request POST /u Content-Type: application/json, Accept: text/plain, ContentLength=-1"})
		}
		return nil
	}
}

func init() {
	checks["C18"] = func(run *report.Run) error {
		run.Rule = "tables of the common fragment (literal roots; literal and plain-variable route segments; Consumes/Produces/If), every request is dispatched on twin containers that differ only in Container.Router(...); inside the quantifier (Spec.wfCommon, distinct clean roots — evaluated by the driver) the two real outcomes must be the same (function, parameters, or status and Allow set) and each must equal the model's; non-normal paths and rank disagreements are the classes of the open findings F15, F16, F17"
		routingMeta(run)
		n := sizes(run, 150, 3000)
		o := routing.FullOpts("curly")
		o.AllowRe, o.AllowSuf, o.AllowWild, o.AllowVerb, o.RootVars, o.RootRe = false, false, false, false, false, false
		twin := func(r *rng.R, cfg routing.Config, reqs []routing.Req) []routing.Variant {
			c2 := cfg
			c2.Router = "jsr"
			v := routing.Variant{Name: "jsr", Cfg: c2, Reqs: make([]*routing.Req, len(reqs))}
			for i := range reqs {
				rq := reqs[i]
				v.Reqs[i] = &rq
			}
			return []routing.Variant{v}
		}
		pairs, err := routing.RunVariants(run.Seed*15485863+1, n, 20, o, twin)
		if err != nil {
			return err
		}
		routing.CheckPairs(run, routing.PairSpec{ID: "C18",
			Applies: func(p *routing.PairCase) bool {
				return p.Class["wfCommon"] == "1" && p.Class["rootsDistinct"] == "1" && p.Class["rootsClean"] == "1" && p.Class["routeIdsDistinct"] == "1"
			},
			Known: func(p *routing.PairCase) string {
				switch {
				case strings.Contains(p.A.Req.Path, "\n"):
					return "F16"
				case p.Class["normalPath"] == "0":
					return "F15"
				case p.Class["ranksAgree"] == "0":
					return "F17"
				}
				return ""
			}}, "twin-routers", pairs)
		// "unobservable to clients" also while other requests are in flight: a router that keeps working
		// storage across requests answers a request differently from its twin as soon as two requests
		// overlap. Each router must give every request the outcome it gives it alone (the alone outcomes
		// are the ones compared between the routers above): plain parallel traffic on tables of the common
		// fragment, and batches held together after routing and released (stage log = the sequential one).
		for _, router := range []string{"curly", "jsr"} {
			ho := o
			ho.Router, ho.Faults = router, false
			routing.CheckHammer(run, "C18", ho, run.Seed*2246822519+uint64(len(router)), sizes(run, 40, 400), 16, 6)
			sp := serve.PropSpec{ID: "C18", Proj: serve.ProjLog}
			if err := serve.CheckConcurrent(run, sp, serve.GenOpts{Router: router, PanicPct: 0}, n, 6); err != nil {
				return err
			}
		}
		for id, w := range map[string]func() bool{"F15": routing.WitnessF15, "F16": routing.WitnessF16pair, "F17": routing.WitnessF17} {
			if w() {
				run.KnownHits[id]++
			}
		}
		run.Extra["skipped_tables_F11"] = routing.SkippedBuild
		return nil
	}
}

func init() {
	checks["C17"] = func(run *report.Run) error {
		run.Rule = "tables of the fragment both matching engines support (literal and plain-variable segments, literal roots, nested on purpose), every generated URL probed with GET, POST, PUT, PATCH, DELETE, HEAD, OPTIONS, TRACE, FOO on twin containers without and with Container.OPTIONSFilter; Spec.c17Holds on the observation: the Allow set of every 405 and the Allow / Access-Control-Allow-Methods sets of the OPTIONS filter equal the set of methods not answered 404/405, the filter runs no route function and leaves other methods untouched; every URL is also asked with OPTIONS requests that carry Access-Control-Request-Method (browser preflights: a routable method, one in lower case, one that is not routable, a junk value) and Spec.c17HoldsAll demands of each answer that Allow and Access-Control-Allow-Methods both list exactly the routable methods and no route function ran; allow.CheckHistory: the same on containers with a past — after OPTIONS / preflight / GET traffic to the URL a WebService is removed again (Container.Remove), or a route is added to a REGISTERED WebService (ws.Route after Container.Add) or removed from it (ws.RemoveRoute, dynamic routes), three times out of four a route that changes what is routable at the URL; the observation must equal (as sets) the one of freshly built containers holding the final table, the predicate and the model are given the final table; both routers; non-trivial = some method not answered 404"
		routingMeta(run)
		n := sizes(run, 120, 2500)
		if err := allow.Check(run, "curly", n, 8); err != nil {
			return err
		}
		if err := allow.Check(run, "jsr", n, 8); err != nil {
			return err
		}
		// the same on containers with a past (a WebService added, traffic, removed again; a route added to
		// or removed from a registered WebService after traffic): what the filter lists must follow the
		// registration state like routing does
		for _, router := range []string{"curly", "jsr"} {
			if err := allow.CheckHistory(run, router, n/2, 6); err != nil {
				return err
			}
		}
		if allow.WitnessF14() {
			run.KnownHits["F14"]++
		}
		if allow.WitnessF20() {
			run.KnownHits["F20"]++
		}
		return nil
	}
}
