package main

import (
	"fmt"
	"os"

	"verifharness/internal/entity"
	"verifharness/internal/report"
)

func init() {
	checks["C16"] = func(run *report.Run) error {
		run.Rule = "histories of 1–12 ReadEntity calls on one compressor provider (sync.Pool provider; bounded provider with capacity 0, 1, 2); every body is the output of the real entity writer (WriteEntity / WriteAsJson / WriteJson / WriteAsXml, pretty on/off) for a generated value (int64/uint64 extremes and 2^53±1, any-unicode strings, nesting, slices, maps and interface{} targets for JSON), sent plain, gzip (5 levels) or deflate coded, good (≈60 %) or truncated / trailer cut / bytes flipped / checksum or magic damaged / stored-block payload changed / empty / garbage / trailing garbage, under 18 Content-Type spellings and exact, wrong and odd Content-Encoding values, 6 default-request-content-type settings; the last third of the reads runs with three extra registered keys; evaluations = reads inside histories (each is read a second time alone on a fresh provider); a read is non-trivial unless it is the plain 400 path; distinct = distinct (provider, default, Content-Type, Content-Encoding, body, target type, model path)"
		run.Trusted = []string{
			"encoding/json, encoding/xml, compress/gzip, compress/zlib enter the theorems as the hypotheses CodecLaws (json_round, xml_round, gz_round, zl_round, reset_law, json_dirty, xml_dirty); each is checked against the standard library on every value and body of the run (validated_hypotheses)",
			"sync.Pool is modelled by its contract; C16_pool_irrelevant makes the result independent of which object it hands out",
		}
		run.Assumptions = []string{
			"values in the codecs' common domain (coverage.codec_domain lists what is excluded)",
			"Request.Body is non-nil (net/http guarantees it for server requests) and the entity pointer is a pointer of the type written",
			"the registry is a map from bare media types (distinct non-empty keys without ';' or blank): Cfg.wf, checked per history by the driver",
			"single goroutine: sharing of pooled readers between goroutines is C13's subject",
		}
		// VERIF_C16_REPLAY=<replay file> bin/check C16: re-run the recorded history on the real code and the driver
		// (vcheck's generic --replay re-runs the driver side only)
		if f := os.Getenv("VERIF_C16_REPLAY"); f != "" {
			if err := entity.ReplayFile(f); err != nil {
				fmt.Fprintln(os.Stderr, "replay:", err)
				os.Exit(2)
			}
			os.Exit(0) // nothing was checked: leave evidence/C16.json alone
		}
		n := 4000
		if run.Tier == "thorough" {
			n = 80000
		}
		if err := entity.Check(run, n); err != nil {
			return err
		}
		// findings proposed by this slice that are not (yet) listed in known_findings.json are still
		// reported, on stderr, so that they are never silent
		known, _ := report.LoadKnown()
		for id, hits := range run.KnownHits {
			listed := false
			if known != nil {
				for _, f := range known.Findings {
					listed = listed || (f.ID == id && f.Property == "C16" && f.Status == "open")
				}
			}
			if !listed {
				fmt.Fprintf(os.Stderr, "PROPOSED-FINDING (not yet in known_findings.json): property=C16 %s (%d cases this run)\n", id, hits)
			}
		}
		return nil
	}
}
