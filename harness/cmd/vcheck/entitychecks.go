package main

import (
	"fmt"
	"os"

	"verifharness/internal/entity"
	"verifharness/internal/report"
)

func init() {
	checks["C16"] = func(run *report.Run) error {
		run.Rule = "histories of 1–12 ReadEntity calls on one compressor provider (sync.Pool provider; bounded provider with capacity 0, 1, 2); every body is the output of the real entity writer (WriteEntity / WriteAsJson / WriteJson / WriteAsXml, pretty on/off) for a generated value (int64/uint64 extremes and 2^53±1, any-unicode strings — one in six made of text that looks like the codecs' own escape syntax: backslash-uXXXX and other backslash sequences, HTML/XML entities and section markers, percent-encoding, quotes, < > & — as values and map keys, nesting, slices, maps and interface{} targets for JSON), sent plain, gzip (5 levels) or deflate coded — by Go's own writers, or (half of the coded bodies) by another legal encoder: a zlib stream built by hand with any RFC 1950 header (window 2^8…2^15, i.e. CMF 0x08…0x78, FLEVEL 0…3, FCHECK to match; raw deflate data of 7 compress/flate levels, without back-references when the payload exceeds the declared window; Adler-32 trailer), a gzip header with file name / comment / extra field / mtime / OS byte —, good (≈60 %) or truncated / trailer cut / bytes flipped / checksum or magic damaged / stored-block payload changed / empty / garbage / trailing garbage / followed by a cut second member, under 18 Content-Type spellings and exact, wrong and odd Content-Encoding values, 6 default-request-content-type settings; the last third of the reads runs with three extra registered keys; a quarter of the reads are a LATER ReadEntity on the *restful.Request of the read before them (a filter reads the entity and the next stage reads again: the same bytes put back under the same headers in three cases of five, else another body and other entity headers put in their place), and half of the requests are dispatched by a real container, the reads on them performed by container, web-service and route filters and the route function instead of a direct call (coverage.later_reads_on_the_same_request_object; the check fails if fewer than 4 % of the reads are such later reads, or hardly any faithful gzip / deflate body among them); evaluations = reads inside histories (each is read a second time alone: a request of its own on a fresh provider); a read is non-trivial unless it is the plain 400 path; distinct = distinct (provider, default, Content-Type, Content-Encoding, body, target type, model path). Before the stream: the former witnesses of the finding F61 repaired by 75d0593 (a gzip/deflate stream that breaks after a complete document: CRC/Adler damaged, trailer cut by 1–8 bytes, garbage or a cut second member after the gzip member; JSON and XML; reader found exactly, by substring, by default; one pooled reader through good and broken bodies) are executed as regressions and replays/F61.json is re-executed from the file: each must be answered with an error (a failure is a VIOLATION with that history as replay), and the predicate must still reject the answer recorded before the repair; likewise the former witness of the finding F62 repaired by 8b400b4 (a Content-Type in which two registered keys with different readers occur — application/xml; x=\"application/json\" —: 12 identical reads of a faithful XML body, the mirrored spelling with a JSON body, both interleaved under all codings, a default request content type naming both keys; each history run 5 times, every read must return the value written) and replays/F62.json re-executed from the file. No class excuses a failing read: the classes of the repaired F61 and F62 are computed on both sides, counted (coverage.repaired_findings) and excuse nothing; the check fails if fewer than 2 % of the reads of a run visit the F61 class (measured ≈ 11 %) or fewer than 0.25 % with either coding (measured: gzip ≈ 9 %, deflate ≈ 1.7 %), or fewer than 0.25 % the F62 class"
		run.Trusted = []string{
			"encoding/json, encoding/xml, compress/gzip, compress/zlib enter the theorems as the hypotheses CodecLaws (json_round, xml_round, gz_round, zl_round, reset_law); each is checked against the standard library on every value and body of the run (validated_hypotheses)",
			"a reader is modelled as a Stream: the bytes it delivers, then ONE terminal condition (clean EOF or error) that it keeps — an entity decoder that stops after the first document followed by reading on to the end meets the same end as reading everything at once; checked on every body for gzip (reused reader) and zlib, after the JSON and after the XML decoder (validated_hypotheses.terminal_kept)",
			"sync.Pool is modelled by its contract; C16_pool_irrelevant makes the result independent of which object it hands out",
		}
		run.Assumptions = []string{
			"values in the codecs' common domain (coverage.codec_domain lists what is excluded)",
			"Request.Body is non-nil (net/http guarantees it for server requests) and the entity pointer is a pointer of the type written",
			"the registry is a map from bare media types (distinct non-empty keys without ';' or blank): Cfg.wf, checked per history by the driver",
			"single goroutine: sharing of pooled readers between goroutines is C13's subject",
		}
		// VERIF_C16_REPLAY=<replay file> bin/check C16: re-run the recorded history on the real code and the driver
		// (vcheck's generic --replay re-runs the driver side only)
		if f := os.Getenv("VERIF_C16_REPLAY"); f != "" {
			if err := entity.ReplayFile(f); err != nil {
				fmt.Fprintln(os.Stderr, "replay:", err)
				os.Exit(2)
			}
			os.Exit(0) // nothing was checked: leave evidence/C16.json alone
		}
		// VERIF_C16_WRITE_REPLAYS=<dir> bin/check C16: (re)create <dir>/F61.json and <dir>/F62.json, the regression
		// records of the repaired findings F61 and F62, from the built-in regressions executed on the real code
		if d := os.Getenv("VERIF_C16_WRITE_REPLAYS"); d != "" {
			if err := entity.WriteRegressionFile(d); err != nil {
				fmt.Fprintln(os.Stderr, "write replays:", err)
				os.Exit(2)
			}
			os.Exit(0)
		}
		n := 4000
		if run.Tier == "thorough" {
			n = 80000
		}
		if err := entity.Check(run, n); err != nil {
			return err
		}
		// "never affects how any later request is read" / a decompressor is never shared: bodies read at
		// the same moment, every provider
		entity.CheckConcurrentReads(run, sizes(run, 12, 120))
		// findings proposed by this slice that are not (yet) listed in known_findings.json are still
		// reported, on stderr, so that they are never silent
		known, _ := report.LoadKnown()
		for id, hits := range run.KnownHits {
			listed := false
			if known != nil {
				for _, f := range known.Findings {
					listed = listed || (f.ID == id && f.Property == "C16" && f.Status == "open")
				}
			}
			if !listed {
				fmt.Fprintf(os.Stderr, "PROPOSED-FINDING (not yet in known_findings.json): property=C16 %s (%d cases this run)\n", id, hits)
			}
		}
		return nil
	}
}
