package main

import (
	"verifharness/internal/cors"
	"verifharness/internal/report"
)

const corsRule = "one case = a route table (routing generator: literals, {v}, {v:re}, tail wildcard; both routers; OPTIONS routes), one CrossOriginResourceSharing value (0–3 allowed domains incl. `.*` and odd entries, predicate none/some, cookies, MaxAge ≤0/>0, expose/allowed header lists incl. `*`, configured or computed methods) and a HISTORY of 1–6 requests through that one filter value (origins: entries in any case, proper prefixes/suffixes/superstrings, ports, null, empty, absent; OPTIONS ± Access-Control-Request-Method; requested header lists in any case/spacing/count incl. empty elements). In a third of the histories on a filter with computed methods (a tenth of the others) the route table of a REGISTERED WebService changes between two requests — ws.Route after Container.Add, or ws.RemoveRoute with dynamic routes, mostly of a route whose method is routed at the URL — and the request behind the change mostly repeats an earlier request or its URL (preflight, route change, the same preflight again); model and predicates answer every request from the table in force when it is sent (Cors.corsSeqT, C09_no_memory_tables). Every request also goes to a twin container without the filter and the two recorders are compared in full. evaluations = requests; distinct = distinct (filter, table, request) with an Origin header"

func corsCheck(p cors.Prop) checkFn {
	return func(run *report.Run) error {
		run.Rule = corsRule
		run.Trusted = []string{"strings.ToLower modelled by ASCII lower-casing on the generated (ASCII) strings — asserted per case; the theorems hold for every `lower`",
			"compiled path expressions modelled by the closed form of DESIGN 4.2 (computeAllowedMethods)",
			"Filter has a value receiver (C09_no_memory): tested by the history stream on every run"}
		run.Assumptions = []string{"AllowedDomainFunc is a pure function of its argument", "Container field set (DefaultContainer otherwise: same function over that container's table)"}
		n := sizes(run, 1800, 43000)
		if err := cors.Check(run, p, n); err != nil {
			return err
		}
		if err := cors.CheckNonASCII(run, p.ID, sizes(run, 150, 3000)); err != nil {
			return err
		}
		return cors.CheckConcurrent(run, p.ID, sizes(run, 120, 2400))
	}
}

func init() {
	checks["C08"] = corsCheck(cors.C08)
	checks["C09"] = corsCheck(cors.C09)
}
