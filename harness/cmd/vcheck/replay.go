package main

import (
	"encoding/json"
	"fmt"
	"os"

	"verifharness/internal/drv"
)

// doReplay re-runs the protocol lines of a replay file on the driver and prints both sides.
func doReplay(prop, path string) int {
	b, err := os.ReadFile(path)
	if err != nil {
		fmt.Fprintln(os.Stderr, err)
		return 2
	}
	var f struct {
		Violation struct {
			Case  []string `json:"case"`
			Real  string   `json:"real"`
			Model string   `json:"model"`
			What  string   `json:"what"`
		} `json:"violation"`
	}
	if err := json.Unmarshal(b, &f); err != nil {
		fmt.Fprintln(os.Stderr, err)
		return 2
	}
	fmt.Println("what:", f.Violation.What)
	fmt.Println("recorded real :", f.Violation.Real)
	fmt.Println("recorded model:", f.Violation.Model)
	if len(f.Violation.Case) > 0 {
		ans, err := drv.Run(f.Violation.Case)
		if err != nil {
			fmt.Fprintln(os.Stderr, err)
			return 2
		}
		for i, a := range ans {
			fmt.Printf("driver[%d]: %s\n", i, a)
		}
	}
	return 0
}
