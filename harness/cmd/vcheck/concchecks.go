package main

import (
	"bytes"
	"encoding/json"
	"fmt"
	"os"
	"os/exec"
	"time"
	"verifharness/internal/serve"

	"verifharness/internal/report"
)

type stressResult struct {
	OK      bool           `json:"ok"`
	What    string         `json:"what"`
	Detail  string         `json:"detail"`
	Ops     map[string]int `json:"ops"`
	Seconds float64        `json:"seconds"`
}

// runStress runs the -race build of vstress: the failing-input search of the schedule properties.
func runStress(run *report.Run, mode string, dur time.Duration) {
	bin := os.Getenv("VERIF_VSTRESS")
	if bin == "" {
		run.AddViolation(report.Violation{Kind: "correspondence", NoInput: true, What: "the stress tool was not built", Theorem: "stress " + mode})
		return
	}
	cmd := exec.Command(bin, "-mode", mode, "-dur", dur.String(), "-seed", fmt.Sprint(run.Seed))
	cmd.Env = append(os.Environ(), "GORACE=exitcode=66 halt_on_error=1")
	var out, errb bytes.Buffer
	cmd.Stdout, cmd.Stderr = &out, &errb
	err := cmd.Run()
	var r stressResult
	json.Unmarshal(bytes.TrimSpace(out.Bytes()), &r)
	for k, v := range r.Ops {
		run.Dist["stress:"+k] += v
		run.Evaluations += v
		run.TracesValidated += v
	}
	for k := range r.Ops {
		run.Distinct["stress-op:"+k] = true
	}
	run.Extra["stress_seconds"] = r.Seconds
	if ee, ok := err.(*exec.ExitError); ok && ee.ExitCode() == 66 {
		rep := errb.String()
		if len(rep) > 6000 {
			rep = rep[:6000]
		}
		run.AddViolation(report.Violation{Kind: "counterexample", What: "the Go race detector reports a data race under the " + mode + " load (schedule found by stress)",
			Human: map[string]interface{}{"replay": "bin/check " + run.Property + " (re-runs the stress with the same seed; schedules are not deterministic)", "race_report": rep}, Real: "DATA RACE"})
		return
	}
	if !r.OK {
		what := r.What
		if what == "" {
			what = "the stress tool failed: " + errb.String()
		}
		run.AddViolation(report.Violation{Kind: "counterexample", What: what, Human: map[string]interface{}{"detail": r.Detail, "mode": mode, "seed": run.Seed}, Real: r.Detail})
	}
	run.Sample(map[string]interface{}{"stress": mode, "operations": r.Ops, "seconds": r.Seconds})
}

func init() {
	checks["C12"] = func(run *report.Run) error {
		run.Rule = "proof obligations about the facts regenerated from /repo (every reachable access to the registration state under its lock, lock order acyclic, nothing unrecognised) decide the property's logic; the search for a failing schedule is a -race build of the real package under mixed load: 4 serving goroutines (ServeHTTP and Dispatch, both routers) × 2 goroutines doing Add/Remove and Route/RemoveRoute on dynamic services, watchdog for deadlock, every response classified (unchanged services must be answered as if nothing changed; changing ones by a state that existed); the services and dynamic routes that come and go carry path parameters with regular expressions whose text is new every time (in the root path, in a route) and a stable route with an expression is served throughout; a dynamic service with groups of sibling routes (one method and path, told apart by Produces, Consumes or an If condition) that nobody changes while the mutators add further siblings next to them: every untouched sibling must keep answering its own kind of request with its own marker, asked by the serving goroutines during and by the mutator after each addition; drawn tables (registry.Churn, every round, both routers): root paths from the pool of the C11 stream (shared fixed prefixes, nested roots, variables, \"/\"), sub paths that now and then spell the full path of an earlier route of their WebService, then one WebService (Remove/Add) or the routes of one method and path of a dynamic WebService (RemoveRoute/Route) at a time goes away and comes back while three goroutines ask, through both entry points, every request whose answer is the same on fresh containers of the states before, during and after that change — it must get that answer — and the changing goroutine asks every request after each change returned — it must get the answer of a fresh container of the state in force; evaluations = operations executed; distinct = operation kinds"
		run.Trusted = []string{"tools/gofacts (go/ast, syntactic, name-resolved calls; unknown constructs fail loudly)", "sync.RWMutex textbook semantics (Lemmas/Lockset.lean)", "race freedom in the Go memory-model sense is inferred from the lock discipline, not proved about compiled code"}
		run.Assumptions = []string{"entry points of the quantifier: ServeHTTP, Dispatch, OPTIONSFilter, CORS Filter; Add, Remove, Route, RemoveRoute (Handle/Filter registration are outside)", "dynamic routes enabled (the non-dynamic fast path of Routes() is outside the quantifier)"}
		d := 4 * time.Second
		if run.Tier == "thorough" {
			d = 120 * time.Second
		}
		runStress(run, "c12", d)
		return nil
	}
	checks["C13"] = func(run *report.Run) error {
		run.Rule = "sequential histories from the serve generator behind a ledger provider with Spec.c13Holds evaluated on every real request (acquired = released, no anomaly; encoding at container or route level, panics, all entry points); proof obligations about the regenerated facts (acquire = one non-blocking receive, release = one non-blocking send, no len/plain send/receive; Close forgets the compressor; deferred releases) plus the protocol theorems for all capacities, thread counts and interleavings; the search for a failing schedule: the provider API hammered by 8 goroutines at capacity 0, 1, 2, then 8 goroutines × 60 encoded responses / gzip request bodies (some truncated, some panicking) per provider behind a ledger (object handed out twice, double release, never released), every body decoded and compared with its own payload, watchdog for blocked goroutines; handlers that stream (Flush between two writes) and handlers that keep a Flush of their response (Response.Flush or the writer's http.Flusher) which is called after that response was closed — right after the request, or inside the next request's handler before / after it wrote: nothing may come out of the closed writer's compressor any more, neither into the response open at that moment nor through the released compressor (the ledger points released writers at a counting sink until they are acquired again); entry through ServeHTTP and Dispatch; -race build"
		run.Trusted = []string{"tools/gofacts", "channels and sync.Pool by their contract (atomic, non-blocking, may drop)"}
		d := 3 * time.Second
		if run.Tier == "thorough" {
			d = 90 * time.Second
		}
		runStress(run, "c13", d)
		// the framework's half, sequentially and over every configuration the serve generator knows
		// (encoding switched on at the container or only at a route, all six entry points, panics at
		// every position with recovery on and off, four providers behind the ledger): per request,
		// acquired = released and no ledger anomaly (Spec.c13Holds; theorem C13_served_released_once)
		n := sizes(run, 500, 10000)
		p := serve.PropSpec{ID: "C13", SpecKey: "C13", Proj: serve.ProjLedger}
		return serve.Check(run, p, serve.GenOpts{Router: "curly", PanicPct: 12}, n, 5, "ledger")
	}
}
