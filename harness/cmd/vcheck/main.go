package main

import (
	"flag"
	"fmt"
	"os"
	"strings"

	"verifharness/internal/drv"
	"verifharness/internal/report"
	"verifharness/internal/routing"
	"verifharness/internal/serve"
)

type checkFn func(run *report.Run) error

var checks = map[string]checkFn{}

func main() {
	if len(os.Args) < 2 {
		fmt.Fprintln(os.Stderr, "usage: vcheck check <Cxx> [--tier quick|thorough] [--seed n] [--lean-status file] [--replay file] | vcheck routing-diff …")
		os.Exit(2)
	}
	if p := os.Getenv("VERIF_DRIVER"); p != "" {
		drv.Path = p
	}
	switch os.Args[1] {
	case "check":
		if len(os.Args) < 3 {
			fmt.Fprintln(os.Stderr, "usage: vcheck check <Cxx>")
			os.Exit(2)
		}
		prop := os.Args[2]
		fs := flag.NewFlagSet("check", flag.ExitOnError)
		tier := fs.String("tier", "quick", "quick|thorough")
		seed := fs.Uint64("seed", 1, "PRNG seed")
		leanStatus := fs.String("lean-status", "", "JSON written by bin/lean-status")
		replay := fs.String("replay", "", "replay file")
		fs.Parse(os.Args[3:])
		fn, ok := checks[prop]
		if !ok {
			fmt.Fprintln(os.Stderr, "no check registered for", prop)
			os.Exit(2)
		}
		var lean *report.LeanStatus
		if *leanStatus != "" {
			var err error
			if lean, err = report.LoadLean(*leanStatus); err != nil {
				fmt.Fprintln(os.Stderr, "cannot read lean status:", err)
				os.Exit(2)
			}
		}
		if *replay != "" {
			os.Exit(doReplay(prop, *replay))
		}
		run := report.NewRun(prop, *tier, *seed, lean)
		if err := fn(run); err != nil {
			// the machinery itself failed (driver rejected a line, harness error): that is a broken
			// correspondence, reported as such
			fmt.Fprintln(os.Stderr, "check error:", err)
			run.AddViolation(report.Violation{Kind: "correspondence", NoInput: true, What: "the check could not run: " + err.Error(), Theorem: "correspondence machinery of " + prop})
		}
		os.Exit(run.Finish())
	case "routing-diff":
		routingDiff(os.Args[2:])
	case "serve-diff":
		serveDiff(os.Args[2:])
	default:
		fmt.Fprintln(os.Stderr, "unknown command", os.Args[1])
		os.Exit(2)
	}
}

func routingDiff(args []string) {
	fs := flag.NewFlagSet("routing-diff", flag.ExitOnError)
	seed := fs.Uint64("seed", 1, "PRNG seed")
	n := fs.Int("n", 200, "number of configurations")
	per := fs.Int("per", 20, "requests per configuration")
	router := fs.String("router", "curly", "curly|jsr")
	show := fs.Int("show", 10, "disagreements to print")
	fs.Parse(args)
	o := routing.FullOpts(*router)
	cases, err := routing.Run(*seed, *n, *per, o)
	if err != nil {
		fmt.Fprintln(os.Stderr, err)
		os.Exit(2)
	}
	dis := 0
	tags := map[string]int{}
	specs := map[string]int{}
	for _, c := range cases {
		tags[c.Tag]++
		for k, v := range c.Spec {
			specs[k+"="+v]++
			if strings.HasPrefix(k, "C") && v != "1" && c.Spec["WF"] == "1" && (k != "C02" || (c.Spec["noRootRegex"] == "1" && c.Spec["bodyCoherent"] == "1")) && specs["shown"] < *show {
				specs["shown"]++
				fmt.Printf("SPEC-FAIL %s real=%s model=%s\n  %v\n", k, c.RealS, c.ModelS, routing.Human(c.Cfg, c.Req))
			}
		}
		if c.RealS != c.ModelS {
			dis++
			if dis <= *show {
				fmt.Printf("DISAGREE real=%s model=%s\n  %v\n", c.RealS, c.ModelS, routing.Human(c.Cfg, c.Req))
			}
		}
	}
	fmt.Printf("cases=%d disagreements=%d tags=%v specs=%v skipped=%d\n", len(cases), dis, tags, specs, routing.SkippedBuild)
}

func serveDiff(args []string) {
	fs := flag.NewFlagSet("serve-diff", flag.ExitOnError)
	seed := fs.Uint64("seed", 1, "PRNG seed")
	n := fs.Int("n", 200, "number of histories")
	router := fs.String("router", "curly", "curly|jsr")
	panics := fs.Int("panic", 3, "panic percentage per act")
	show := fs.Int("show", 3, "disagreements to print")
	fs.Parse(args)
	hs, err := serve.Run(*seed, *n, serve.GenOpts{Router: *router, PanicPct: *panics}, 5)
	if err != nil {
		fmt.Fprintln(os.Stderr, err)
		os.Exit(2)
	}
	total, dis := 0, 0
	stats := map[string]int{}
	for _, h := range hs {
		for i := range h.Reqs {
			total++
			blank := h.BlankBody(i)
			a, b := h.Real[i].Canon(blank), h.Model[i].Canon(blank)
			stats["entry:"+h.Reqs[i].Entry]++
			if h.Real[i].Coded {
				stats["coded"]++
			}
			if h.Real[i].Escaped != nil {
				stats["escaped"]++
			}
			if h.Real[i].Recov > 0 {
				stats["recovered"]++
			}
			stats[fmt.Sprintf("status:%d", h.Real[i].Status)]++
			for k, v := range h.Spec[i] {
				stats["spec:"+k+"="+v]++
				if strings.HasPrefix(k, "C") && v != "1" && !(k == "C07" && h.Spec[i]["F09"] == "1") && stats["shown:"+k] < *show {
					stats["shown:"+k]++
					fmt.Printf("SPEC-FAIL %s req %d entry=%s ae=%q prior=%q recover=%v hasRS=%v enc=%v status=%d ce=%q coded=%v esc=%v recov=%d bodylen=%d\n", k, i, h.Reqs[i].Entry, h.Reqs[i].AE, h.Reqs[i].Prior, h.Cfg.Recover, h.Cfg.HasRS, h.Cfg.Enc, h.Real[i].Status, h.Real[i].CE, h.Real[i].Coded, h.Real[i].Escaped != nil, h.Real[i].Recov, len(h.Real[i].Body))
					for _, e := range h.Real[i].Log {
						fmt.Printf("   ev %s post=%v attrs=%v wr=%v\n", e.Stage, e.Post, e.Attrs, e.Wrappers)
					}
					for _, f := range h.Cfg.CF {
						fmt.Printf("   cf%d %s pre=%d post=%d\n", f.ID, f.Kind, len(f.Pre), len(f.Post))
					}
					for sid, fs := range h.Cfg.SvcF {
						for _, f := range fs {
							fmt.Printf("   svc%d sf%d %s pre=%v post=%v\n", sid, f.ID, f.Kind, actKinds(f.Pre), actKinds(f.Post))
						}
					}
					for rid, rx := range h.Cfg.RouteX {
						for _, f := range rx.Filters {
							fmt.Printf("   route%d rf%d %s pre=%v post=%v\n", rid, f.ID, f.Kind, actKinds(f.Pre), actKinds(f.Post))
						}
						fmt.Printf("   route%d script=%v enc=%v\n", rid, actKinds(rx.Script), rx.Enc)
					}
				}
			}
			if a != b {
				dis++
				if dis <= *show {
					fmt.Printf("DISAGREE req %d entry=%s ae=%q prior=%q path=%q method=%s\n real : %.1500s\n model: %.1500s\n cfg: %.3000s\n", i, h.Reqs[i].Entry, h.Reqs[i].AE, h.Reqs[i].Prior, h.Reqs[i].Req.Path, h.Reqs[i].Req.Method, a, b, h.Cfg.Sx().String())
				}
			}
		}
	}
	fmt.Printf("requests=%d disagreements=%d stats=%v skipped=%d\n", total, dis, stats, serve.SkippedBuild)
}

func actKinds(as []serve.Act) []string {
	var out []string
	for _, a := range as {
		if a.K == "sa" || a.K == "panic" {
			out = append(out, a.K+":"+a.B+"="+a.V)
		} else {
			out = append(out, a.K)
		}
	}
	return out
}
