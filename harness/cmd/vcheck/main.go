package main

import (
	"flag"
	"fmt"
	"os"

	"verifharness/internal/drv"
	"verifharness/internal/routing"
)

func main() {
	if len(os.Args) < 2 {
		fmt.Fprintln(os.Stderr, "usage: vcheck <cmd> [flags]")
		os.Exit(2)
	}
	cmd := os.Args[1]
	fs := flag.NewFlagSet(cmd, flag.ExitOnError)
	seed := fs.Uint64("seed", 1, "PRNG seed")
	n := fs.Int("n", 200, "number of configurations")
	per := fs.Int("per", 20, "requests per configuration")
	router := fs.String("router", "curly", "curly|jsr")
	driver := fs.String("driver", "", "driver binary")
	show := fs.Int("show", 10, "disagreements to print")
	fs.Parse(os.Args[2:])
	if *driver != "" {
		drv.Path = *driver
	} else if p := os.Getenv("VERIF_DRIVER"); p != "" {
		drv.Path = p
	}
	switch cmd {
	case "routing-diff":
		o := routing.Opts{Router: *router, AllowRe: true, AllowSuf: *router == "curly", AllowWild: true, AllowVerb: *router == "curly",
			RootVars: true, RootRe: true, Conds: true, Media: true, MaxSvcs: 4, MaxRoutes: 6, Adversarial: true}
		cases, err := routing.Run(*seed, *n, *per, o)
		if err != nil {
			fmt.Fprintln(os.Stderr, err)
			os.Exit(2)
		}
		dis := 0
		tags := map[string]int{}
		for _, c := range cases {
			tags[c.Tag]++
			if c.RealS != c.ModelS {
				dis++
				if dis <= *show {
					fmt.Printf("DISAGREE real=%s model=%s\n  %s\n  %s\n  path=%q\n", c.RealS, c.ModelS, c.CfgLine, c.ReqLine, c.Req.Path)
					for _, s := range c.Cfg.Services {
						fmt.Printf("   svc %d root=%q\n", s.ID, s.Root)
						for _, r := range s.Routes {
							fmt.Printf("      route %d %s %q cons=%v prod=%v conds=%v noct=%v\n", r.ID, r.Method, r.Rel, r.Consumes, r.Produces, r.Conds, r.Noct)
						}
					}
					fmt.Printf("   req %+v\n", c.Req)
				}
			}
		}
		fmt.Printf("cases=%d disagreements=%d tags=%v\n", len(cases), dis, tags)
	default:
		fmt.Fprintln(os.Stderr, "unknown command", cmd)
		os.Exit(2)
	}
}
