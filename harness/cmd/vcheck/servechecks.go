package main

import (
	"verifharness/internal/cors"
	"verifharness/internal/entity"
	"verifharness/internal/mime"
	"verifharness/internal/report"
	"verifharness/internal/serve"
)

func serveMeta(run *report.Run) {
	run.Trusted = []string{"user code is data: handlers, filters, recover handler and plain handlers are scripts executed identically by the harness closures and by the model",
		"httptest.ResponseRecorder modelled (first status wins; headers frozen at the first write)", "compress/gzip and compress/zlib: a complete stream decodes to what was written (validated by decoding every coded body of the run)"}
	run.Assumptions = []string{"filters call ProcessFilter at most once", "handlers do not keep *Request/*Response after returning"}
}

func init() {
	checks["C06"] = func(run *report.Run) error {
		run.Rule = "histories of 1–5 requests on one container; 0–3 container, 0–2 service and 0–2 route filters (the service's filters registered before its routes, after them, after Container.Add, or interleaved with the routes) of kind pass/stop/replace(new Request+Response)/middleware(HttpMiddlewareHandlerToFilter wrapping the writer), scripts that write, set headers and attributes, panic; in half of the containers RouteBuilder values are used for more than one ws.Route call (Method / Path / To said anew for the next route of the WebService — a third of the routes carry the previous route's filters and then their own —, the last route of a WebService removed with RemoveRoute and registered again from its builder, before or after Container.Add), and a third of the containers have a registration history (a throw-away WebService added and removed again before / after the table's WebServices, the last WebService removed and added again) before the judged requests; all six entry points, and on a third of the containers a RouteSelector of the harness around the built-in router that refuses one path with a plain error value (not a ServiceError: Spec.c06RouterErrorHolds, the container filters around nothing); every stage records the attributes, parameters, selected route path and response wrappers it sees; Spec.c06Holds (the event list Spec.chainLog demands) is evaluated on every real log; non-trivial = more than one stage ran"
		serveMeta(run)
		n := sizes(run, 700, 14000)
		serve.SmallPayloads = true // the subject is the stage log, not the coding
		defer func() { serve.SmallPayloads = false }()
		p := serve.PropSpec{ID: "C06", SpecKey: "C06", Proj: serve.ProjLog}
		if err := serve.Check(run, p, serve.GenOpts{Router: "curly", PanicPct: 3, RouterErr: true}, n, 5, "curly"); err != nil {
			return err
		}
		if err := serve.Check(run, p, serve.GenOpts{Router: "jsr", PanicPct: 3, RouterErr: true}, n/2, 5, "jsr"); err != nil {
			return err
		}
		// "regardless of … concurrent requests": the same requests served concurrently, overlapping for certain
		return serve.CheckConcurrent(run, p, serve.GenOpts{Router: "curly", PanicPct: 1}, n/2, 6)
	}
	checks["C07"] = func(run *report.Run) error {
		run.Rule = "same generator as C06; payloads of 0 B–270 KB in 1–6 chunks, Accept-Encoding from a grammar (gzip, deflate, both orders, q-values, identity, x-gzip, upper case, garbage, absent), prior Content-Encoding on the writer, container/route encoding switches, four compressor providers behind a ledger; the same requests 3x concurrently (held together at the first container filter) on a container and provider that first served every request to a client whose connection breaks after 0-47 body bytes: each answer's coding projection must be the sequential one and the provider's books in order; every coded body is decoded with compress/gzip or compress/zlib to EOF (a missing trailer is an error); Spec.c07Holds is evaluated on every real response"
		serveMeta(run)
		n := sizes(run, 700, 14000)
		p := serve.PropSpec{ID: "C07", SpecKey: "C07", Proj: serve.ProjCoding, Known: func(sp map[string]string) string {
			if sp["F09"] == "1" {
				return "F09"
			}
			return ""
		}}
		if err := serve.Check(run, p, serve.GenOpts{Router: "curly", PanicPct: 2}, n, 5, "curly"); err != nil {
			return err
		}
		if serve.WitnessF09() {
			run.KnownHits["F09"]++
		}
		// "decoding the body yields the bytes written" for responses that are in flight at the same
		// moment, on a container and provider that served clients whose connection broke before
		return serve.CheckConcurrentAfterFaults(run, serve.PropSpec{ID: "C07", Proj: serve.ProjCodingNoLedger}, serve.GenOpts{Router: "curly", PanicPct: 1}, n/2, 6)
	}
	checks["C10"] = func(run *report.Run) error {
		run.Rule = "same generator as C06 with a higher panic rate (every filter before/after passing control on, handlers before/after partial output, plain handlers), recovery on/off, custom and default recover handler, encoding on/off, all entry points, histories mixing panicking and normal requests; recover() around the entry point; panic VALUES: strings, error values, http.ErrAbortHandler, restful.ServiceError values, ints; panics raised INSIDE route selection (an If-condition of a matching route panics while the router runs under the container's read lock); in half of the configurations route functions and filters READ the request's entity (Request.ReadEntity of a JSON document, plain / gzip / deflate encoded, into an entity type whose UnmarshalJSON panics in a third of the reads: a panic raised inside the library's own entity decoding); ledger provider (acquire/release balance over compressing writers AND decompressing readers, double release, object handed out twice); Spec.c10Holds is evaluated on every real observation; after every history a writer operation (Container.Add + Remove of a throw-away WebService) under a watchdog (no lock left held), and with recovery on every request served twice in immediate succession must be answered byte for byte the same (the library's own recover report included); plus 6 fixed regression cases on the HandleWithFilter chain (the former witness of the repaired finding F18: no escape, recover handler once, its status, balanced ledger, c10Holds)"
		serveMeta(run)
		n := sizes(run, 700, 14000)
		// no known class: F18 (HandleWithFilter without recovery) was repaired by a0e838d, a
		// falsifying case on that path is a violation like any other
		p := serve.PropSpec{ID: "C10", SpecKey: "C10", Proj: serve.ProjPanic}
		if err := serve.Check(run, p, serve.GenOpts{Router: "curly", PanicPct: 10, Bodies: true}, n, 6, "curly"); err != nil {
			return err
		}
		// the former witness of F18 and its neighbours are regression cases that must hold
		regs, err := serve.RegressionsF18()
		if err != nil {
			return err
		}
		for _, r := range regs {
			run.Evaluations++
			run.TracesValidated++
			run.Distinct["regression|"+r.H.Line] = true
			if r.Why == "" {
				run.Count("regression:F18-fixed:holds")
				continue
			}
			run.Count("regression:F18-fixed:FAILS")
			run.AddViolation(report.Violation{Kind: "counterexample",
				What: "regression of the repaired finding F18 (a0e838d, HandleWithFilter recovers like dispatch): " + r.Name + ": " + r.Why,
				Case: []string{r.H.Line}, Human: serve.Human(r.H, 0), Real: r.H.Real[0].Canon(false), Model: r.H.Model[0].Canon(false)})
		}
		return nil
	}
	checks["C19"] = func(run *report.Run) error {
		run.Rule = "histories of 1–6 requests; every request is answered (a) in its position, (b) alone on a fresh container and provider, (c) with trace logging enabled, (d) concurrently with the other requests of the history (3 goroutines per request); all four answers must be the same (status, framework headers, decoded body, parameters and attributes seen by every stage) and equal to the model's; routes carry content types and If-conditions, half of the tables have two routes with the same method and path told apart only by Produces / Consumes / a condition, and a third of the later requests repeat the method and path of an earlier one with other headers; scripts write into req.PathParameters() (reserved names) and no stage of another request may see what they wrote; request bodies (intact, truncated, corrupt trailers; identity, gzip, deflate) are read by ReadEntity with trace logging off and on and must be accepted or refused alike; non-trivial = more than one stage ran"
		serveMeta(run)
		n := sizes(run, 300, 6000)
		// Twins: content types and If-conditions on the routes, twins of a route that differ only in
		// Produces / Consumes / a condition, and histories that repeat the method and path of an
		// earlier request with other headers (which route answers must not depend on who came first)
		if err := serve.CheckPurity(run, serve.GenOpts{Router: "curly", PanicPct: 3, Twins: true}, n, 6); err != nil {
			return err
		}
		// the filters the framework ships are part of "the response": histories through one CORS filter
		// value (computed methods, preflights for different URLs) against fresh replays
		if err := cors.CheckPurity(run, n/2); err != nil {
			return err
		}
		// content negotiation with and without trace logging (the serve scripts write bytes, not entities)
		if err := mime.CheckTracePurity(run, 2*n); err != nil {
			return err
		}
		if err := mime.CheckHistoryPurity(run, n); err != nil {
			return err
		}
		// request bodies — intact and broken, plain and compressed — read with and without trace logging
		if err := entity.CheckTracePurity(run, n); err != nil {
			return err
		}
		// request bodies read at the same moment (Request.ReadEntity, every provider)
		entity.CheckConcurrentReads(run, sizes(run, 8, 80))
		// batches biased towards what overlapping requests can disturb (several passing container
		// filters, a filter on every service), held together after routing and released
		return serve.CheckConcurrent(run, serve.PropSpec{ID: "C19", Proj: serve.ProjAllButLedger}, serve.GenOpts{Router: "curly", PanicPct: 1}, n, 6)
	}
}
