package main

import (
	"fmt"
	"os"

	"verifharness/internal/mime"
	"verifharness/internal/report"
)

func init() {
	checks["C05"] = func(run *report.Run) error {
		run.Rule = "one WebService, one route GET /w/x whose handler calls resp.WriteEntity(value); Produces = 1–4 distinct registered media types (built-in JSON/XML, custom JSON/XML accessors, a custom text/csv EntityReaderWriter, and names that contain / are contained in other registered names: application/x — a substring of application/xml —, application/json-patch+json and application/xml-dtd — containing the built-in names —, text/csv-schema — containing the custom text/csv; the custom writers are registered in a seed-dependent order, in two steps during the stream); in 25 % of the cases a Content-Type is already on the response when the entity is written (a registered type, a produced type with a charset parameter, or an unrelated one such as text/plain; charset=utf-8), set by the handler (AddHeader or Header().Set before WriteEntity) or by a container / web-service / route filter — the answer must still carry the negotiated type, once; Accept from a grammar (absent, empty, 1–6 elements: produced/registered/other/*/*/partial wildcards/garbage media, q with 0–3 decimals, '.5', '1.', integers, or unparsable text, parameters before and after q, a second q, empty elements), spelled twice with different optional whitespace (space, tab) around , ; = ; DefaultResponseContentType ∈ {unset, JSON, XML, ZIP, text/plain}; CurlyRouter or RouterJSR311; each spelling dispatched 3× through Container.Dispatch — on a container created for the request, or (25 % of the cases) on a route object WITH A HISTORY: container, web service and route are created once, the route additionally produces 1–2 types that have no writer yet (fresh names, some containing a registered name; half of the time in front of the list), 1–5 other requests from the same grammar are served on it, RegisterEntityAccessor is called for the late types at some point of that history (60 % after all of the earlier requests), then the judged request — in half of these cases rewritten to prefer a late type — is dispatched on the same container and must be answered as the registry of that moment demands (the model is told that registry and nothing of the history; the route is handed its own copy of the Produces list); observed: status, whether the handler ran, Content-Type, body decodes with that codec. A case is non-trivial when the router admitted at least one spelling; distinct = distinct inputs. Before the stream: the former witnesses of the repaired finding F07 (no Accept header, default JSON on an XML-only route; default ZIP on a JSON-only route) are re-executed and must be answered as the property demands (replays/F07.json is replayed as a regression: today's answers satisfy the predicate, the answers recorded before the repair do not); the former first witness of F07b (Accept: application/json;q=x,application/xml on a JSON-only route, answered in Go map iteration order until 8b400b4) is re-executed 22 times and must be answered application/json on every dispatch (replays/F07b-order.json); the three witnesses of the open finding F07b (application/xml,application/json;q=x on a JSON-only route → application/xml; */*;q=x with a default type that is not produced / has no writer) are re-executed and must still fail. The only class that excuses a failing case is F07b, and only when the real answers are the model's (one writer since 8b400b4); the class of the repaired F07 is measured in the distribution and excuses nothing"
		run.Trusted = []string{"strconv.ParseFloat modelled on decimal literals D+, D+., D*.D{1,3} as Nat thousandths; every other text is unparsable in the model (the generator never emits signs, exponents, inf/nan, hex floats, underscores, 4+ fraction digits; checked per case against ParseFloat)",
			"the registry holds exactly the built-in JSON/XML accessors plus the seven the harness registers, plus the late writers of the histories (each under a name that is new in the process and neither contains nor is contained in a late name of another case, so that the model is told only those of the case); each writer writes its registration key as Content-Type",
			"the registry is a Go map: its keys are distinct, which is all the model needs since 8b400b4 (the reverse lookup of accessorAt is a function of the value, C05_function; the stream registers its custom writers in a seed-dependent order)"}
		run.Assumptions = []string{"Produces non-empty, every produced type has a registered writer, media types free of , ; blank tab and not */* (Spec.wfMime, asserted per case by the driver)",
			"the request passed the router's own Accept test (the handler ran); requests the router rejects are only compared with the model's routerAdmits",
			"q-values outside decimal notation are outside the model (DESIGN 4.4)"}
		// VERIF_C05_WRITE_REPLAYS=<dir> bin/check C05: (re)create <dir>/F07b-order.json, the regression record of
		// the former first witness of F07b, from the case executed on the real code
		if d := os.Getenv("VERIF_C05_WRITE_REPLAYS"); d != "" {
			if err := mime.WriteOrderRegressionFile(d); err != nil {
				fmt.Fprintln(os.Stderr, "write replays:", err)
				os.Exit(2)
			}
			os.Exit(0)
		}
		n := sizes(run, 6000, 150000)
		return mime.Check(run, n)
	}
}
