// mimewitness writes the committed replay files of C05:
//
//	replays/F07b.json  the witness of the OPEN finding F07b (Lean: C05_F07b_witness), run once on the
//	                   real code and on the driver: a failing case of the known class
//	replays/F07.json   the former witnesses of the finding F07 REPAIRED by d89a7d4 (Lean: C05_F07_fixed)
//	                   as a regression record: for each, the line with the answers the real code gives
//	                   today (the predicate must hold) and the line with the answers recorded before the
//	                   repair (the predicate must fail).  `vcheck check C05` replays this file on every run.
//
// usage (from harness/, after bin/build-harness): go run -modfile=$VERIF_OUT/harness.mod ./cmd/mimewitness <dir>
package main

import (
	"encoding/json"
	"fmt"
	"os"
	"path/filepath"

	"verifharness/internal/drv"
	"verifharness/internal/mime"
)

func fail(err error) {
	fmt.Fprintln(os.Stderr, err)
	os.Exit(2)
}

func main() {
	mime.Setup()
	if p := os.Getenv("VERIF_DRIVER"); p != "" {
		drv.Path = p
	}
	dir := os.Args[1]

	// the open finding
	mime.Open = map[string]bool{"F07b": true}
	{
		id := "F07b"
		w := mime.Witnesses()[id]
		var r *mime.Result
		for t := 0; t < 40; t++ {
			var err error
			if r, err = mime.One(w); err != nil {
				fail(err)
			}
			if v := r.Judge(); v.Kind == "known" && v.Known == id {
				break
			}
		}
		if v := r.Judge(); v.Kind != "known" {
			fail(fmt.Errorf("the witness of %s no longer fails on the real code (verdict %q)", id, v.Kind))
		}
		ans, _ := drv.Run([]string{r.Line})
		b, _ := json.MarshalIndent(map[string]interface{}{"property": "C05", "finding": id,
			"theorem": "Restful.Props.C05_" + id + "_witness",
			"violation": map[string]interface{}{"kind": "counterexample", "what": "witness of known finding " + id + " (class " + r.Judge().Known + ")",
				"case": []string{r.Line}, "human": r.Human(), "model": ans[0], "real": r.Human()["real"]}}, "", " ")
		os.WriteFile(filepath.Join(dir, id+".json"), b, 0o644)
	}

	// the repaired finding: a regression record
	lines, expect := mime.RegressionLines()
	ans, err := drv.Run(lines)
	if err != nil {
		fail(err)
	}
	var humans []interface{}
	var reals []string
	for i, g := range mime.Regressions() {
		r, err := mime.One(g.Case)
		if err != nil {
			fail(err)
		}
		if v := r.Judge(); v.Kind != "" {
			fail(fmt.Errorf("regression %s fails on the real code: %s %s", g.ID, v.Kind, v.What))
		}
		h := r.Human()
		h["regression"] = g.ID
		h["answered_before_the_repair"] = g.Before.String()
		h["line_today"], h["line_before_the_repair"] = 2*i, 2*i+1
		humans = append(humans, h)
		reals = append(reals, fmt.Sprint(h["real"]))
	}
	var f mime.ReplayFile
	f.Property, f.Finding, f.Status, f.Theorem = "C05", "F07", "fixed d89a7d4", "Restful.Props.C05_F07_fixed"
	f.Expect = "PASS: lines 0 and 2 carry the answers the real code gives today (spec C05 = 1, model agrees); lines 1 and 3 carry the answers recorded before the repair (spec C05 = 0); the check re-executes both cases on the real code on every run and reports a VIOLATION if they are not answered as the property demands"
	f.ExpectSpec = expect
	f.Violation.Kind = "regression"
	f.Violation.What = "former witnesses of F07 (no Accept header and DefaultResponseContentType set: the default overrode Produces), repaired by d89a7d4; kept as a regression that must pass"
	f.Violation.Case = lines
	f.Violation.Human = humans
	f.Violation.Model = ans[0]
	f.Violation.Real = reals[0]
	b, _ := json.MarshalIndent(f, "", " ")
	os.WriteFile(filepath.Join(dir, "F07.json"), b, 0o644)
}
