// mimewitness writes the replay files of the open C05 findings (replays/F07.json, replays/F07b.json):
// the witness of the `decide`d Lean theorem, run once on the real code and on the driver.
// usage (from harness/, after bin/build-harness): go run -modfile=$VERIF_OUT/harness.mod ./cmd/mimewitness <dir>
package main

import (
	"encoding/json"
	"fmt"
	"os"
	"path/filepath"

	"verifharness/internal/drv"
	"verifharness/internal/mime"
)

func main() {
	if p := os.Getenv("VERIF_DRIVER"); p != "" {
		drv.Path = p
	}
	dir := os.Args[1]
	mime.Open = map[string]bool{"F07": true, "F07b": true}
	for id, w := range mime.Witnesses() {
		var r *mime.Result
		for t := 0; t < 40; t++ {
			var err error
			if r, err = mime.One(w); err != nil {
				fmt.Fprintln(os.Stderr, err)
				os.Exit(2)
			}
			if v := r.Judge(); v.Kind == "known" && v.Known == id {
				break
			}
		}
		ans, _ := drv.Run([]string{r.Line})
		b, _ := json.MarshalIndent(map[string]interface{}{"property": "C05", "finding": id,
			"theorem": "Restful.Props.C05_" + id + "_witness",
			"violation": map[string]interface{}{"kind": "counterexample", "what": "witness of known finding " + id + " (class " + r.Judge().Known + ")",
				"case": []string{r.Line}, "human": r.Human(), "model": ans[0], "real": r.Human()["real"]}}, "", " ")
		os.WriteFile(filepath.Join(dir, id+".json"), b, 0o644)
	}
}
