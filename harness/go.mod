module verifharness

go 1.21

require github.com/emicklei/go-restful/v3 v3.0.0

replace github.com/emicklei/go-restful/v3 => /repo
