package serve

import (
	"strconv"
	"strings"

	"verifharness/internal/rng"
	"verifharness/internal/routing"
)

var codes = []int{200, 201, 202, 204, 304, 400, 404, 418, 500, 503} // 204 and 304: answers that "have no body" are a favourite place for special cases
var aeVals = []string{"", "gzip", "deflate", "gzip, deflate", "deflate, gzip", "gzip;q=0", "identity", "x-gzip", "br", "GZIP", "garbage", "deflate;q=0.5, gzip;q=1.0", "*"}

// SmallPayloads caps generated payloads at a few dozen bytes (streams whose subject is not the coding).
var SmallPayloads bool

func payload(r *rng.R) string {
	if SmallPayloads {
		return strconv.Itoa(10000 + r.Intn(90000))[:1+r.Intn(4)]
	}
	n := 0
	switch r.Intn(10) {
	case 0:
		n = 0
	case 1:
		n = 1 + r.Intn(3)
	case 2:
		n = 3000 + r.Intn(3000)
	case 3:
		if r.Chance(1, 4) {
			n = 70000 + r.Intn(200000) // beyond the compressor's window: it must flush before Close
		} else {
			n = 500
		}
	default:
		n = 1 + r.Intn(40)
	}
	var sb strings.Builder
	for sb.Len() < n {
		sb.WriteString(strconv.Itoa(r.Intn(1000)))
		sb.WriteByte("abc \n\x00\xff"[r.Intn(7)])
	}
	return sb.String()[:n]
}

// genPanicText draws a panic VALUE (as the text fmt.Sprint gives, see panicValue): mostly strings,
// and the kinds of values real code panics with — the sentinel http.ErrAbortHandler, an ordinary
// error, an error value of the library's own type (restful.ServiceError, e.g. one obtained from the
// library and re-raised), an int.
func genPanicText(r *rng.R) string {
	switch r.Intn(8) {
	case 0:
		return AbortText
	case 1:
		return "error: boom" + strconv.Itoa(r.Intn(100))
	case 2:
		return SvcErrText(codes[r.Intn(len(codes))], "boom"+strconv.Itoa(r.Intn(100)))
	case 3:
		return strconv.Itoa(r.Intn(1000))
	}
	return "boom" + strconv.Itoa(r.Intn(100))
}

func genAct(r *rng.R, allowAttr bool, panicPct int, hdrN *int) Act {
	if r.Intn(100) < panicPct {
		return Act{K: "panic", B: genPanicText(r)}
	}
	switch k := r.Intn(10); {
	case k < 5:
		if r.Chance(1, 8) {
			return Act{K: "ws", B: payload(r)}
		}
		return Act{K: "w", B: payload(r)}
	case k < 6:
		return Act{K: "wh", N: codes[r.Intn(len(codes))]}
	case k < 8:
		*hdrN++
		return Act{K: "ah", B: "X-H" + strconv.Itoa(*hdrN%5), V: "v" + strconv.Itoa(r.Intn(9))}
	default:
		if allowAttr {
			switch r.Intn(8) {
			case 0:
				return Act{K: "sa", B: []string{"a", "b"}[r.Intn(2)], V: ""} // SetAttribute(k, nil): withdraw it
			case 1:
				return Act{K: "we", N: codes[r.Intn(len(codes))], B: "E" + strconv.Itoa(r.Intn(9))} // WriteErrorString: the Response carries an error from here on
			case 2:
				// a write into req.PathParameters(): a common way to hand a derived value on
				// (values from a large space: a value seen elsewhere tells which act wrote it)
				return Act{K: "pp", B: ppPrefix + strconv.Itoa(r.Intn(2)), V: "p" + strconv.Itoa(r.Intn(1000000000))}
			}
			return Act{K: "sa", B: []string{"a", "b"}[r.Intn(2)], V: "x" + strconv.Itoa(r.Intn(9))}
		}
		return Act{K: "w", B: "m"}
	}
}

func genActs(r *rng.R, max int, allowAttr bool, panicPct int, hdrN *int) []Act {
	n := r.Intn(max + 1)
	out := make([]Act, 0, n)
	for i := 0; i < n; i++ {
		out = append(out, genAct(r, allowAttr, panicPct, hdrN))
	}
	return out
}

func genFilter(r *rng.R, id *int, hdrN *int, panicPct int) Filter {
	*id++
	f := Filter{ID: *id}
	switch k := r.Intn(20); {
	case k < 13:
		f.Kind = "pass"
	case k < 15:
		f.Kind = "stop"
	case k < 18:
		f.Kind = "replace"
	default:
		f.Kind = "middle"
	}
	attr := f.Kind != "middle"
	f.Pre = genActs(r, 2, attr, panicPct, hdrN)
	f.Post = genActs(r, 2, attr, panicPct, hdrN)
	return f
}

func genFilters(r *rng.R, max int, id, hdrN *int, panicPct int) []Filter {
	n := r.Intn(max + 1)
	var out []Filter
	for i := 0; i < n; i++ {
		out = append(out, genFilter(r, id, hdrN, panicPct))
	}
	return out
}

// GenOpts tunes the serve generator for a property.
type GenOpts struct {
	Overlap  bool // bias towards what overlapping requests can disturb: 3 or 5 passing container filters, a filter on every service
	Router   string
	PanicPct int // per-act probability (percent) of a panic in filters; handlers get twice that; also the share of routed requests whose panic is raised inside route selection (SReq.CondPanic)
	Media    bool
	// Twins: content types and If-conditions on the routes, and in half of the tables a twin of one
	// route — same method, same path, told apart only by Produces, Consumes or a condition —; histories
	// then repeat the method and path of an earlier request with other headers (GenReqAfter)
	Twins bool
	// RouterErr: a third of the containers get a RouteSelector of the harness around the built-in
	// router that refuses RouterErrPath with a plain error value, and a tenth of their requests go there
	// (C06: "for requests that fail routing, the container filters still run once")
	RouterErr bool
	// Bodies: in half of the configurations scripts (route functions, filters that get a
	// restful.Request) read the request's entity with ReadEntity, into an entity type whose decoding
	// panics in a third of the reads; every request of their histories carries a JSON entity, plain,
	// gzip- or deflate-encoded
	Bodies bool
}

// sprinkleReads inserts "re" acts into the scripts that are handed a restful.Request.
func sprinkleReads(r *rng.R, cfg *Cfg, panicPct int) {
	into := func(as []Act) []Act {
		if !r.Chance(1, 3) {
			return as
		}
		a := Act{K: "re"}
		if r.Intn(100) < 3*panicPct {
			a.B = genPanicText(r)
		}
		i := r.Intn(len(as) + 1)
		return append(as[:i:i], append([]Act{a}, as[i:]...)...)
	}
	inF := func(fs []Filter) {
		for i := range fs {
			if fs[i].Kind != "middle" {
				fs[i].Pre, fs[i].Post = into(fs[i].Pre), into(fs[i].Post)
			}
		}
	}
	inF(cfg.CF)
	done := map[int]Filter{} // a filter that several routes share (one RouteBuilder, cfg.Reuse) is one filter
	for _, s := range cfg.Routing.Services {
		inF(cfg.SvcF[s.ID])
		for _, rt := range s.Routes {
			rx := cfg.RouteX[rt.ID]
			for i, f := range rx.Filters {
				if d, ok := done[f.ID]; ok {
					rx.Filters[i] = d
					continue
				}
				inF(rx.Filters[i : i+1])
				done[f.ID] = rx.Filters[i]
			}
			rx.Script = into(into(rx.Script))
		}
	}
}

// GenCfg draws a serve configuration over a small route table.
func GenCfg(r *rng.R, o GenOpts) *Cfg {
	ro := routing.Opts{Router: o.Router, AllowRe: true, AllowSuf: o.Router == "curly", AllowWild: true, AllowVerb: o.Router == "curly",
		RootVars: true, RootRe: false, Conds: o.Twins, Media: o.Media || o.Twins, MaxSvcs: 2, MaxRoutes: 3}
	cfg := &Cfg{Routing: routing.GenConfig(r, ro), SvcF: map[int][]Filter{}, RouteX: map[int]*RouteX{}}
	if o.Twins && r.Chance(1, 2) {
		addTwin(r, &cfg.Routing)
	}
	id, hdrN := 0, 0
	cfg.Enc = r.Chance(1, 2)
	cfg.Recover = r.Chance(1, 2)
	if r.Chance(4, 5) {
		cfg.HasRS = true
		cfg.RScript = []Act{{K: "wh", N: []int{500, 503}[r.Intn(2)]}, {K: "w", B: "recovered"}}
		if r.Chance(1, 4) {
			cfg.RScript = []Act{{K: "w", B: "r"}} // no explicit status
		}
	}
	cfg.Plain = genActs(r, 3, false, o.PanicPct*2, &hdrN)
	cfg.CF = genFilters(r, 3+2*r.Intn(2), &id, &hdrN, o.PanicPct) // up to 5: appended one by one the slice then has spare capacity
	if o.Overlap {
		for len(cfg.CF) != 3 && len(cfg.CF) != 5 {
			cfg.CF = append(cfg.CF, genFilter(r, &id, &hdrN, 0))
		}
		for i := range cfg.CF {
			cfg.CF[i].Kind = "pass"
		}
		if r.Chance(1, 2) {
			cfg.CF[0].Kind = "middle" // the requests of a batch meet inside the adapted net/http middleware
		}
	}
	for _, s := range cfg.Routing.Services {
		cfg.SvcF[s.ID] = genFilters(r, 2, &id, &hdrN, o.PanicPct)
		if o.Overlap && len(cfg.SvcF[s.ID]) == 0 {
			cfg.SvcF[s.ID] = []Filter{genFilter(r, &id, &hdrN, 0)}
		}
		var prevF []Filter
		for _, rt := range s.Routes {
			rx := &RouteX{ID: rt.ID, Script: genActs(r, 4, true, o.PanicPct*2, &hdrN), Filters: genFilters(r, 2, &id, &hdrN, o.PanicPct)}
			if r.Chance(1, 3) && len(prevF) > 0 {
				// a family of routes behind the same filters (one RouteBuilder used for several
				// methods or paths, cfg.Reuse): the filters of the previous route, then this route's own
				rx.Filters = append(append([]Filter{}, prevF...), rx.Filters...)
				if len(rx.Filters) > 3 {
					rx.Filters = rx.Filters[:3]
				}
			}
			prevF = rx.Filters
			switch r.Intn(7) {
			case 0:
				b := true
				rx.Enc = &b
			case 1:
				b := false
				rx.Enc = &b
			}
			if r.Chance(1, 12) {
				i := r.Intn(len(rx.Script) + 1)
				rx.Script = append(rx.Script[:i:i], append([]Act{{K: "hj"}}, rx.Script[i:]...)...)
			}
			cfg.RouteX[rt.ID] = rx
		}
	}
	if r.Chance(1, 12) {
		cfg.Plain = append([]Act{{K: "hj"}}, cfg.Plain...)
	}
	cfg.Late = r.Chance(1, 4)
	cfg.Provider = []string{"pool", "pool+keep", "bounded0", "bounded1", "bounded2", "bounded1+keep"}[r.Intn(6)]
	cfg.CustomErr = r.Chance(4, 5)
	if r.Chance(1, 2) {
		cfg.Order = 1 + r.Intn(3) // service filters registered after routes / after Container.Add / interleaved
	}
	if o.RouterErr && r.Chance(1, 3) {
		cfg.RouterErr = true
	}
	if o.Bodies && r.Chance(1, 2) {
		cfg.Bodies = true
		sprinkleReads(r, cfg, o.PanicPct)
	}
	if r.Chance(1, 2) {
		cfg.Reuse = r.U64() | 1 // RouteBuilder values used for more than one ws.Route call
	}
	if r.Chance(1, 3) {
		cfg.Churn = 1 + r.Intn(7) // WebServices added and removed again before the judged requests
	}
	return cfg
}

// addTwin appends to one service a second route with the method and path of one it has, told apart
// from it by what it produces, what it consumes, or an If-condition.
func addTwin(r *rng.R, rc *routing.Config) {
	maxID := 0
	for _, s := range rc.Services {
		for _, rt := range s.Routes {
			if rt.ID >= maxID {
				maxID = rt.ID + 1
			}
		}
	}
	si := r.Intn(len(rc.Services))
	s := &rc.Services[si]
	if len(s.Routes) == 0 {
		return
	}
	ri := r.Intn(len(s.Routes))
	orig := &s.Routes[ri]
	twin := *orig
	twin.ID = maxID
	a, b := "application/json", "application/xml"
	if r.Chance(1, 2) {
		a, b = b, a
	}
	switch r.Intn(3) {
	case 0:
		orig.Produces, twin.Produces = []string{a}, []string{b}
	case 1:
		orig.Consumes, twin.Consumes = []string{a}, []string{b}
	default:
		orig.Conds, twin.Conds = []int{0}, nil // the conditional route is registered first, the unconditional twin takes the rest
	}
	s.Routes = append(s.Routes, twin)
}

// GenReqAfter draws the next request of a history. With o.Twins a third of the requests repeat the
// method and path of an earlier request of the history with other Accept / Content-Type / condition
// bits: which route answers depends on those headers, never on which request came first.
func GenReqAfter(r *rng.R, o GenOpts, cfg *Cfg, prev []SReq) SReq {
	sr := GenReq(r, o, cfg)
	if cfg.RouterErr && r.Chance(1, 10) {
		sr.RouterErr, sr.CondPanic = true, ""
		sr.Req.Path = RouterErrPath
		sr.Entry = "dispatch"
		if r.Chance(1, 2) && MuxReaches(cfg, RouterErrPath) {
			sr.Entry = "serveDispatch"
		}
		return sr
	}
	if o.Twins && len(prev) > 0 && r.Chance(1, 3) {
		p := prev[r.Intn(len(prev))]
		sr.Req.Method, sr.Req.Path, sr.Entry = p.Req.Method, p.Req.Path, p.Entry
		sr.CondPanic = ""
		switch r.Intn(3) {
		case 0:
			sr.Req.Accept = []string{"application/json", "application/xml", "", "*/*"}[r.Intn(4)]
		case 1:
			sr.Req.CT = []string{"application/json", "application/xml", ""}[r.Intn(3)]
		default:
			sr.Req.Conds = []bool{!(len(p.Req.Conds) > 0 && p.Req.Conds[0]), r.Chance(1, 2), r.Chance(1, 2)}
		}
	}
	return sr
}

// GenReq draws one request of a history.
func GenReq(r *rng.R, o GenOpts, cfg *Cfg) SReq {
	ro := routing.Opts{Router: o.Router, Media: o.Media || o.Twins, Conds: o.Twins}
	sr := SReq{Req: routing.GenReq(r, ro, cfg.Routing)}
	sr.AE = aeVals[r.Intn(len(aeVals))]
	if r.Chance(1, 2) {
		sr.AE = []string{"gzip", "deflate", "gzip, deflate"}[r.Intn(3)]
	}
	if r.Chance(1, 12) {
		sr.Prior = []string{"br", "gzip", "identity"}[r.Intn(3)]
	}
	switch k := r.Intn(20); {
	case k < 7:
		sr.Entry = "dispatch"
	case k < 14:
		sr.Entry = "serveDispatch"
	default:
		sr.Entry = []string{"muxHandle", "serveHandle", "muxHandleF", "serveHandleF"}[r.Intn(4)]
	}
	if sr.Entry == "serveDispatch" && !MuxReaches(cfg, sr.Req.Path) {
		sr.Entry = "dispatch"
	}
	if cfg.Bodies {
		sr.Req.CT = "application/json"
		sr.BodyDoc = `{"Name":"n` + strconv.Itoa(r.Intn(1000)) + `"}`
		sr.BodyEnc = []string{"", "gzip", "gzip", "deflate"}[r.Intn(4)]
	}
	if (sr.Entry == "dispatch" || sr.Entry == "serveDispatch") && r.Intn(100) < o.PanicPct {
		// fault traffic whose panic is raised inside route selection (an If-condition panics)
		sr.CondPanic = genPanicText(r)
	}
	return sr
}
