package serve

import (
	"fmt"
	"strings"

	restful "github.com/emicklei/go-restful/v3"

	"verifharness/internal/drv"
	"verifharness/internal/rng"
	"verifharness/internal/sx"
)

// History is one container with the requests served on it, in order.
type History struct {
	Cfg   *Cfg
	Reqs  []SReq
	Real  []*Result
	Model []*Result
	Line  string
	Spec  []map[string]string // per request: property id -> "1"/"0"
	// WriterBlocked: after the history was served, Add+Remove of a throw-away WebService did not
	// return within the watchdog's time (WriterFree): a lock was left held
	WriterBlocked bool
}

// serveNorm serves one request of a history and keeps SReq.CondPanic only when an If-condition was
// in fact evaluated for it (the routers evaluate conditions only for routes whose path matches;
// otherwise the header is inert and the request is the same request without it).
func serveNorm(cont *restful.Container, cfg *Cfg, rq SReq, led *Ledger) (SReq, *Result) {
	res := Serve(cont, cfg, rq, led)
	if rq.CondPanic != "" && !res.CondRan {
		rq.CondPanic = ""
	}
	return rq, res
}

var SkippedBuild int

func histLine(id int, cfg *Cfg, reqs []SReq, real []*Result) string {
	h := sx.K("hist")
	for i, r := range reqs {
		n := sx.K("h", sx.A(r.DriverEntry()), r.Sx())
		if real != nil {
			n.List = append(n.List, realSx(real[i]))
		}
		h.List = append(h.List, n)
	}
	return sx.K("serve", sx.N(id), cfg.Sx(), h).String()
}

func realSx(r *Result) *sx.Node {
	esc := sx.A("none")
	if r.Escaped != nil {
		esc = sx.H(*r.Escaped)
	}
	hdr := sx.K("hdr")
	for _, kv := range r.Hdr {
		hdr.List = append(hdr.List, sx.L(sx.H(kv[0]), sx.H(kv[1])))
	}
	lg := sx.K("log")
	for _, e := range r.Log {
		at, pa := sx.K("attrs"), sx.K("params")
		for _, kv := range e.Attrs {
			at.List = append(at.List, sx.L(sx.H(kv[0]), sx.H(kv[1])))
		}
		for _, kv := range e.Params {
			pa.List = append(pa.List, sx.L(sx.H(kv[0]), sx.H(kv[1])))
		}
		wr := sx.K("wr")
		for _, w := range e.Wrappers {
			wr.List = append(wr.List, sx.N(w))
		}
		lg.List = append(lg.List, sx.K("ev", sx.A(e.Stage), sx.B(e.Post), at, pa, sx.H(e.SelPath), wr))
	}
	return sx.K("real", sx.K("st", sx.N(r.Status)), sx.K("ce", sx.H(r.CE)), sx.K("coded", sx.B(r.Coded)), sx.K("body", sx.H(r.Body)),
		sx.K("complete", sx.B(r.Complete)), hdr, lg, sx.K("esc", esc), sx.K("recov", sx.N(r.Recov)), sx.K("acq", sx.N(r.Acq+r.RdAcq)), sx.K("rel", sx.N(r.Rel+r.RdRel)), sx.K("dbl", sx.N(r.DblRel)), sx.K("recovd", sx.N(r.RecovDefault)))
}

// RunOne serves a history on the real code and on the model.
func RunOne(cfg *Cfg, reqs []SReq) (*History, error) {
	cont, err := BuildFor(cfg, reqs)
	if err != nil {
		return nil, err
	}
	led := Install(cfg.Provider)
	h := &History{Cfg: cfg}
	for _, r := range reqs {
		rq, res := serveNorm(cont, cfg, r, led)
		h.Reqs = append(h.Reqs, rq)
		h.Real = append(h.Real, res)
	}
	h.WriterBlocked = !WriterFree(cont)
	h.Line = histLine(0, cfg, h.Reqs, h.Real)
	ans, err := drv.Run([]string{h.Line})
	if err != nil {
		return nil, err
	}
	return h, fillHistory(h, ans[0])
}

func fillHistory(h *History, answer string) error {
	n, err := sx.Parse(answer)
	if err != nil {
		return fmt.Errorf("driver answer: %v", err)
	}
	if n.Head() != "out" {
		return fmt.Errorf("driver rejected a serve line: %.200s", answer)
	}
	for _, a := range n.Args()[1:] {
		if a.Head() != "res" {
			return fmt.Errorf("driver could not decode a request: %.200s", a.String())
		}
		m, err := ParseResult(a)
		if err != nil {
			return err
		}
		m.KeepErr = h.Cfg.CustomErr && !h.Reqs[len(h.Model)].RouterErr
		h.Model = append(h.Model, m)
		sp := map[string]string{}
		for _, s := range a.List {
			if s.Head() == "spec" {
				sp[s.Args()[0].Atom] = s.Args()[1].Atom
			}
		}
		h.Spec = append(h.Spec, sp)
	}
	if len(h.Model) != len(h.Reqs) {
		return fmt.Errorf("driver answered %d of %d requests", len(h.Model), len(h.Reqs))
	}
	return nil
}

// Run draws n histories.
func Run(seed uint64, n int, o GenOpts, maxLen int) ([]*History, error) {
	base := rng.New(seed)
	var hs []*History
	var lines []string
	for i := 0; i < n; i++ {
		r := base.Fork(uint64(i))
		cfg := GenCfg(r, o)
		k := 1 + r.Intn(maxLen)
		reqs := make([]SReq, 0, k)
		for j := 0; j < k; j++ {
			reqs = append(reqs, GenReqAfter(r, o, cfg, reqs))
		}
		cont, err := BuildFor(cfg, reqs)
		if err != nil {
			if strings.Contains(err.Error(), "multiple registrations") {
				SkippedBuild++
				continue
			}
			return nil, fmt.Errorf("serve config %d does not build: %v", i, err)
		}
		led := Install(cfg.Provider)
		h := &History{Cfg: cfg}
		for j := 0; j < k; j++ {
			rq, res := serveNorm(cont, cfg, reqs[j], led)
			h.Reqs = append(h.Reqs, rq)
			h.Real = append(h.Real, res)
		}
		h.WriterBlocked = !WriterFree(cont)
		h.Line = histLine(len(hs), cfg, h.Reqs, h.Real)
		lines = append(lines, h.Line)
		hs = append(hs, h)
	}
	ans, err := drv.Run(lines)
	if err != nil {
		return nil, err
	}
	for i, h := range hs {
		if err := fillHistory(h, ans[i]); err != nil {
			return nil, err
		}
	}
	return hs, nil
}

// BlankBody: with the default recover handler the body is a stack trace; it is not compared.
func (h *History) BlankBody(i int) bool {
	if h.Cfg.Recover && !h.Cfg.HasRS && h.Model[i].Recov > 0 {
		return true
	}
	// the library's own service-error writer: its message texts are not part of any property
	if !h.Cfg.CustomErr {
		for _, e := range h.Model[i].Log {
			if e.Stage == "err" {
				return true
			}
		}
	}
	return false
}
