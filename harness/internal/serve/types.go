// Package serve is the correspondence stream of C06, C07, C10 and C19: filter chains, scripts,
// content encoding, panic recovery, entry points — user code is data (scripts) on both sides.
package serve

import (
	"fmt"
	"sort"
	"strings"

	"verifharness/internal/routing"
	"verifharness/internal/sx"
)

type Act struct {
	K    string // re (req.ReadEntity into an entity of the harness whose UnmarshalJSON panics with the value B names, "" = it does not; the request's body is put back first, as a buffering middleware does; to the model: panic B, or nothing) | pp (req.PathParameters()[B] = V; nothing to the model, see ppGuard in real.go) | we (WriteErrorString N B; to the model: wh N, w B) | sa with an empty V = SetAttribute(B, nil) | w | ws (io.WriteString on the raw writer; a "w" to the model) | hj (Hijack; nothing to the model) | wh | ah | sa | panic
	B, V string
	N    int
}

type Filter struct {
	ID        int
	Kind      string // pass | stop | replace | middle
	Pre, Post []Act
}

type RouteX struct {
	ID      int
	Enc     *bool
	Script  []Act
	Filters []Filter
}

type Cfg struct {
	Routing   routing.Config
	Enc       bool
	Recover   bool
	RScript   []Act // nil = default recover handler
	HasRS     bool
	Plain     []Act
	CF        []Filter
	SvcF      map[int][]Filter
	RouteX    map[int]*RouteX
	Provider  string // "pool" | "bounded0" | "bounded1" | "bounded2"
	Late      bool   // settings and the last container filter are applied after registrations / warm-up traffic (not part of the model's input: the answers must not depend on it)
	CustomErr bool   // a ServiceErrorHandler of the harness writes "E<code>" instead of the library's message text
	// Order is the registration order of a WebService's filters relative to its routes and to
	// Container.Add (not part of the model's input: C06 speaks of "the WebService's filters", whenever
	// they were given to it): 0 = every ws.Filter before the first ws.Route; 1 = after the last
	// ws.Route, before Container.Add; 2 = after Container.Add; 3 = the first filter before the routes,
	// the others one by one after each ws.Route (the rest after Container.Add).
	Order int
	// RouterErr: the container's RouteSelector is a wrapper of the harness around the built-in router
	// that refuses requests for RouterErrPath with a plain error value (not a restful.ServiceError).
	// Not sent to the model: requests for that path are sent under an entry of their own.
	RouterErr bool
	// Reuse: how the routes are declared (not part of the model's input: the table that results is the
	// one a RouteBuilder per route gives). 0 = every route from a RouteBuilder of its own; otherwise
	// the seed that decides, route by route, whether the RouteBuilder VALUE that built the previous
	// route of the WebService is used again with Method / Path / To (and whatever else the declaration
	// says) set anew — possible when the route's filters and conditions extend the ones the builder
	// carries (Filter and If only append) —, and whether the last route of a WebService is removed
	// (RemoveRoute) and registered again from the builder that was kept.
	Reuse uint64
	// Churn: registration history of the container before the judged requests (not part of the model's
	// input: the container that results has the same WebServices, filters and handlers). Bit 0: after
	// the WebServices are added, a throw-away WebService is added and removed again; bit 1: the
	// WebService added last is removed and added again; bit 2: the same before the first WebService of
	// the table is added. All of it before the plain handlers are registered (Container.Remove builds a
	// new ServeMux from the WebServices alone).
	Churn int
	// Bodies: scripts of this configuration read the request's entity ("re" acts) and every request of
	// its histories carries a JSON entity (SReq.BodyDoc), plain or compressed.
	Bodies bool
}

type SReq struct {
	Req       routing.Req
	AE        string // Accept-Encoding
	Prior     string // Content-Encoding already present on the writer
	CondPanic string
	Entry     string
	// RouterErr: the request is for RouterErrPath on a container whose RouteSelector refuses it with a
	// plain error (entry "dispatch" or "serveDispatch"; to the driver: "routerErr" / "serveRouterErr")
	RouterErr bool
	// BodyDoc / BodyEnc: the request's entity (a JSON document) and its Content-Encoding ("", "gzip",
	// "deflate"). Not sent to the model: reading it writes nothing to the response; what the read does
	// to the compressor provider is counted apart (Result.RdAcq / RdRel).
	BodyDoc, BodyEnc string
}

// DriverEntry is the entry atom of the protocol line.
func (r SReq) DriverEntry() string {
	if r.RouterErr {
		if r.Entry == "serveDispatch" {
			return "serveRouterErr"
		}
		return "routerErr"
	}
	return r.Entry
}

func actSx(a Act) *sx.Node {
	switch a.K {
	case "w", "ws":
		return sx.K("w", sx.H(a.B))
	case "wh":
		return sx.K("wh", sx.N(a.N))
	case "ah":
		return sx.K("ah", sx.H(a.B), sx.H(a.V))
	case "sa":
		return sx.K("sa", sx.H(a.B), sx.H(a.V))
	default:
		return sx.K("panic", sx.H(a.B))
	}
}

func actsSx(kw string, as []Act) *sx.Node {
	n := sx.K(kw)
	for _, a := range as {
		if a.K == "hj" {
			continue // taking the connection over changes nothing the framework decides
		}
		if a.K == "pp" {
			continue // a write into the request's own parameter map: not observed within the request (ppGuard), must not be observable from another
		}
		if a.K == "re" {
			if a.B != "" {
				n.List = append(n.List, sx.K("panic", sx.H(a.B))) // the decoding of the entity panics
			}
			continue
		}
		if a.K == "we" {
			n.List = append(n.List, sx.K("wh", sx.N(a.N)), sx.K("w", sx.H(a.B)))
			continue
		}
		n.List = append(n.List, actSx(a))
	}
	return n
}

func filterSx(f Filter) *sx.Node {
	return sx.K("f", sx.N(f.ID), sx.A(f.Kind), actsSx("pre", f.Pre), actsSx("post", f.Post))
}

func (c *Cfg) Sx() *sx.Node {
	rs := sx.A("-")
	if c.HasRS {
		rs = actsSx("rscript", c.RScript)
	}
	cf := sx.K("cf")
	for _, f := range c.CF {
		cf.List = append(cf.List, filterSx(f))
	}
	svcs := sx.K("svcs")
	for _, s := range c.Routing.Services {
		n := sx.K("sx", sx.N(s.ID))
		for _, f := range c.SvcF[s.ID] {
			n.List = append(n.List, filterSx(f))
		}
		svcs.List = append(svcs.List, n)
	}
	routes := sx.K("routes")
	for _, s := range c.Routing.Services {
		for _, r := range s.Routes {
			rx := c.RouteX[r.ID]
			enc := sx.A("-")
			if rx.Enc != nil {
				enc = sx.B(*rx.Enc)
			}
			n := sx.K("rx", sx.N(r.ID), enc, actsSx("script", rx.Script))
			for _, f := range rx.Filters {
				n.List = append(n.List, filterSx(f))
			}
			routes.List = append(routes.List, n)
		}
	}
	return sx.K("scfg", c.Routing.Sx(), sx.B(c.Enc), sx.B(c.Recover), rs, actsSx("plain", c.Plain), cf, svcs, routes, sx.B(c.CustomErr))
}

func (r SReq) Sx() *sx.Node {
	cp := sx.A("-")
	if r.CondPanic != "" {
		cp = sx.H(r.CondPanic)
	}
	return sx.K("sreq", r.Req.Sx(), sx.H(r.AE), sx.H(r.Prior), cp)
}

// Event is what one stage recorded when it started.
type Event struct {
	Stage    string
	Post     bool
	Attrs    [][2]string
	Params   [][2]string
	SelPath  string
	Wrappers []int
	Mw       string // X-Verif-Mw on the *http.Request the stage sees: which adapted middleware handed it on (checked on the Go side against Wrappers; not part of the model's input)
}

// Result is the observable projection of one served request (same shape as the driver's `(res …)`).
type Result struct {
	Status   int
	CE       string
	Coded    bool
	Body     string
	Complete bool
	KeepErr  bool        // the service-error writer is a handler of the harness: its event is compared
	Hdr      [][2]string // X-H* and Allow headers as sent
	Log      []Event
	Escaped  *string
	Recov    int
	Acq, Rel int // compressing writers taken from / returned to the provider
	// RdAcq, RdRel: decompressing readers (request entities read by ReadEntity) taken from / returned
	// to the provider; not part of Canon (the model speaks of the response), sent to the driver as part
	// of the ledger the predicates look at (acq, rel: "no compressor lost")
	RdAcq, RdRel int
	DblRel       int // ledger: releases of objects that were not outstanding

	// RecovDefault: calls of the library's own recover handler (container.go logStackOnRecover) while
	// the request was served, counted through the package logger (one "recover from panic situation"
	// entry per call; see recoverLog in real.go). Sequential serving only; not part of Canon.
	RecovDefault int

	// CondRan: an If-condition of the harness was evaluated for this request with the panic header set
	// (so the panic was raised inside route selection). Not part of Canon.
	CondRan bool
	// Leaks: path parameters of the reserved family (ppPrefix) a stage saw although this request had
	// not written them: they come from another request. Not part of Canon (C19 looks at them).
	Leaks [][2]string
}

func kvs(kw string, l [][2]string, sortKeys bool) string {
	l2 := append([][2]string{}, l...)
	if sortKeys {
		sort.SliceStable(l2, func(i, j int) bool { return l2[i][0] < l2[j][0] })
	}
	n := sx.K(kw)
	for _, kv := range l2 {
		n.List = append(n.List, sx.L(sx.H(kv[0]), sx.H(kv[1])))
	}
	return n.String()
}

// Canon renders a result for comparison. `blankBody` drops the body (default recover handler: stack trace text).
func (r *Result) Canon(blankBody bool) string {
	var sb strings.Builder
	body := r.Body
	if !r.Complete || blankBody {
		body = ""
	}
	fmt.Fprintf(&sb, "(res (st %d) (ce %s) (body %s) (complete %v) %s (log", r.Status, sx.H(r.CE), sx.H(body), r.Complete, kvs("hdr", r.Hdr, true))
	for _, e := range r.Log {
		if e.Stage == "err" && !r.KeepErr {
			continue // the library's own service-error writer records nothing on the real side
		}
		attrs, params := e.Attrs, e.Params
		if e.Stage == "plain" || e.Stage == "rec" {
			attrs, params = nil, nil // a plain http.Handler and the recover handler have no restful.Request to look at
		}
		fmt.Fprintf(&sb, " (ev %s %v %s %s %s %v)", e.Stage, e.Post, kvs("attrs", attrs, true), kvs("params", params, true), sx.H(e.SelPath), e.Wrappers)
	}
	esc := "none"
	if r.Escaped != nil {
		esc = sx.H(*r.Escaped).String()
	}
	fmt.Fprintf(&sb, ") (esc %s) (acq %d) (rel %d))", esc, r.Acq, r.Rel)
	return sb.String()
}

func nodeKVs(n *sx.Node) [][2]string {
	var out [][2]string
	for _, kv := range n.Args() {
		out = append(out, [2]string{kv.List[0].Str(), kv.List[1].Str()})
	}
	return out
}

// ParseResult reads the driver's `(res …)`.
func ParseResult(n *sx.Node) (*Result, error) {
	if n.Head() != "res" {
		return nil, fmt.Errorf("not a result: %s", n)
	}
	r := &Result{}
	r.Status = n.Find("st").Args()[0].Int()
	r.CE = n.Find("ce").Args()[0].Str()
	r.Coded = n.Find("coded").Args()[0].Atom == "1"
	r.Body = n.Find("body").Args()[0].Str()
	r.Complete = n.Find("complete").Args()[0].Atom == "1"
	for _, kv := range nodeKVs(n.Find("hdr")) {
		if strings.HasPrefix(kv[0], "X-H") || kv[0] == "Allow" {
			r.Hdr = append(r.Hdr, kv)
		}
	}
	for _, e := range n.Find("log").Args() {
		a := e.Args()
		ev := Event{Stage: a[0].Atom, Post: a[1].Atom == "1", Attrs: nodeKVs(a[2]), Params: nodeKVs(a[3]), SelPath: a[4].Str()}
		for _, w := range a[5].Args() {
			ev.Wrappers = append(ev.Wrappers, w.Int())
		}
		r.Log = append(r.Log, ev)
	}
	if e := n.Find("esc").Args()[0]; e.Atom != "none" {
		s := e.Str()
		r.Escaped = &s
	}
	r.Recov = n.Find("recov").Args()[0].Int()
	r.Acq = n.Find("acq").Args()[0].Int()
	r.Rel = n.Find("rel").Args()[0].Int()
	return r, nil
}
