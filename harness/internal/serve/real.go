package serve

import (
	"bufio"
	"bytes"
	"compress/gzip"
	"compress/zlib"
	"context"
	"encoding/json"
	"errors"
	"fmt"
	"io"
	"net"
	"net/http"
	"net/http/httptest"
	"path"
	"sort"
	"strconv"
	"strings"
	"sync"
	"sync/atomic"
	"time"

	restful "github.com/emicklei/go-restful/v3"

	"verifharness/internal/rng"
	"verifharness/internal/routing"
)

type ctxKey struct{}
type mwKey struct{}

// trace is the per-request record the generated user code writes to.
type trace struct {
	mu    sync.Mutex
	log   []Event
	recov int
	// attributes set to nil, per Request object: Attribute() cannot tell "never set" from "set to nil"
	nilSet map[*restful.Request]map[string]bool
	// condRan: an If-condition found the panic header on this request (and panicked)
	condRan bool
	// ppOwn: the reserved path parameters (ppPrefix) this request wrote itself, key -> value;
	// leaks: reserved parameters a stage saw that this request had not written
	ppOwn map[[2]string]bool
	leaks [][2]string
	// body: the request's entity as sent (what a "re" act puts back before it reads)
	body []byte
}

// pickyEntity is an entity type of the application whose decoding can panic (a json.Unmarshaler that
// does not like what it is given).
type pickyEntity struct {
	panicWith string
	Name      string
}

func (p *pickyEntity) UnmarshalJSON(data []byte) error {
	if p.panicWith != "" {
		panic(panicValue(p.panicWith))
	}
	var v struct{ Name string }
	err := json.Unmarshal(data, &v)
	p.Name = v.Name
	return err
}

// encodeBody renders a request entity under a Content-Encoding.
func encodeBody(doc, enc string) []byte {
	var buf bytes.Buffer
	switch enc {
	case "gzip":
		zw := gzip.NewWriter(&buf)
		zw.Write([]byte(doc))
		zw.Close()
	case "deflate":
		zw := zlib.NewWriter(&buf)
		zw.Write([]byte(doc))
		zw.Close()
	default:
		buf.WriteString(doc)
	}
	return buf.Bytes()
}

func traceOf(r *http.Request) *trace {
	t, _ := r.Context().Value(ctxKey{}).(*trace)
	return t
}

// tagWriter is the response wrapper installed by `replace` and `middle` filters: it marks every chunk.
type tagWriter struct {
	inner http.ResponseWriter
	id    int
}

func (t *tagWriter) Header() http.Header { return t.inner.Header() }
func (t *tagWriter) WriteHeader(c int)   { t.inner.WriteHeader(c) }
func (t *tagWriter) Write(b []byte) (int, error) {
	m := "<" + strconv.Itoa(t.id) + ">"
	n, err := t.inner.Write(append([]byte(m), b...))
	if n >= len(m) {
		n -= len(m)
	} else {
		n = 0
	}
	return n, err
}

// wrappersOf lists the tag wrappers between w and the base writer, outermost first.
func wrappersOf(w http.ResponseWriter) []int {
	var out []int
	for {
		switch x := w.(type) {
		case *tagWriter:
			out = append(out, x.id)
			w = x.inner
		case *restful.Response:
			w = x.ResponseWriter
		default:
			return out
		}
	}
}

var attrKeys = []string{"a", "b", "who"}

func logStage(req *restful.Request, hr *http.Request, w http.ResponseWriter, stage string, post bool) {
	t := traceOf(hr)
	if t == nil {
		return
	}
	ev := Event{Stage: stage, Post: post, Wrappers: wrappersOf(w), Mw: hr.Header.Get(mwHeader)}
	if req != nil {
		for _, k := range attrKeys {
			if v, ok := req.Attribute(k).(string); ok {
				ev.Attrs = append(ev.Attrs, [2]string{k, v})
			} else if req.Attribute(k) == nil {
				t.mu.Lock()
				withdrawn := t.nilSet[req][k]
				t.mu.Unlock()
				if withdrawn {
					ev.Attrs = append(ev.Attrs, [2]string{k, ""}) // SetAttribute(k, nil): the model's (k, "")
				}
			}
		}
		ps := req.PathParameters()
		keys := make([]string, 0, len(ps))
		for k := range ps {
			keys = append(keys, k)
		}
		sort.Strings(keys)
		for _, k := range keys {
			if strings.HasPrefix(k, ppPrefix) {
				// ppGuard: the model does not cover writes into the parameter map, so a reserved
				// parameter is never part of the event. One that THIS request wrote is its own business;
				// one it did not write was put there by another request.
				t.mu.Lock()
				if kv := [2]string{k, ps[k]}; !t.ppOwn[kv] {
					seen := false
					for _, l := range t.leaks {
						seen = seen || l == kv
					}
					if !seen {
						t.leaks = append(t.leaks, kv)
					}
				}
				t.mu.Unlock()
				continue
			}
			ev.Params = append(ev.Params, [2]string{k, ps[k]})
		}
		ev.SelPath = req.SelectedRoutePath()
	}
	t.mu.Lock()
	t.log = append(t.log, ev)
	t.mu.Unlock()
}

// runActs executes a script against a writer (and a restful.Request when there is one).
func runActs(as []Act, req *restful.Request, w http.ResponseWriter) {
	for _, a := range as {
		switch a.K {
		case "w":
			w.Write([]byte(a.B))
		case "ws":
			// io.WriteString on the writer the stage was handed, underneath the restful.Response if there is
			// one: writers that offer a WriteString fast path must treat it like Write
			io.WriteString(rawWriter(w), a.B)
		case "hj":
			// the handler takes the connection over (websocket upgrade); our connection is a pipe end that
			// is closed at once, the recorder keeps recording
			if h, ok := w.(http.Hijacker); ok {
				if conn, _, err := h.Hijack(); err == nil && conn != nil {
					conn.Close()
				}
			}
		case "wh":
			w.WriteHeader(a.N)
		case "ah":
			w.Header().Add(a.B, a.V)
		case "sa":
			if req != nil && a.V == "" {
				// withdraw the attribute
				req.SetAttribute(a.B, nil)
				if t := traceOf(req.Request); t != nil {
					t.mu.Lock()
					if t.nilSet == nil {
						t.nilSet = map[*restful.Request]map[string]bool{}
					}
					if t.nilSet[req] == nil {
						t.nilSet[req] = map[string]bool{}
					}
					t.nilSet[req][a.B] = true
					t.mu.Unlock()
				}
			} else if req != nil {
				req.SetAttribute(a.B, a.V)
				if t := traceOf(req.Request); t != nil {
					t.mu.Lock()
					delete(t.nilSet[req], a.B)
					t.mu.Unlock()
				}
			}
		case "pp":
			// a filter or handler hands a derived value on in the request's parameter map
			if req != nil {
				if t := traceOf(req.Request); t != nil {
					t.mu.Lock()
					if t.ppOwn == nil {
						t.ppOwn = map[[2]string]bool{}
					}
					t.ppOwn[[2]string{a.B, a.V}] = true
					t.mu.Unlock()
				}
				if ps := req.PathParameters(); ps != nil {
					ps[a.B] = a.V
				}
			}
		case "re":
			// the stage reads the request's entity; the body is put back first (a stage before may have
			// read it), as middlewares that buffer the body do
			if req != nil {
				if t := traceOf(req.Request); t != nil && t.body != nil {
					req.Request.Body = io.NopCloser(bytes.NewReader(t.body))
				}
				v := pickyEntity{panicWith: a.B}
				req.ReadEntity(&v)
			}
		case "we":
			if r, ok := w.(*restful.Response); ok {
				r.WriteErrorString(a.N, a.B)
			} else {
				w.WriteHeader(a.N)
				w.Write([]byte(a.B))
			}
		case "panic":
			panic(panicValue(a.B))
		}
	}
}

// rawWriter is the http.ResponseWriter underneath a *restful.Response (the writer itself otherwise).
func rawWriter(w http.ResponseWriter) http.ResponseWriter {
	if r, ok := w.(*restful.Response); ok {
		return r.ResponseWriter
	}
	return w
}

// AbortText, the "error: " prefix, the "[ServiceError:N] " prefix and all-digit texts select panic
// VALUES that are not strings: the sentinel http.ErrAbortHandler, an ordinary error value, a value of
// the library's own error type (restful.NewError(N, msg), as code that re-raises an error it got from
// the library does) and an int. The model sees the text fmt.Sprint gives.
var AbortText = http.ErrAbortHandler.Error()

// ppPrefix is the family of path-parameter names the "pp" act writes (no generated template uses it).
const ppPrefix = "verif-pp"

const svcErrPrefix = "[ServiceError:"

// SvcErrText is the text of the panic value restful.NewError(code, msg).
func SvcErrText(code int, msg string) string { return restful.NewError(code, msg).Error() }

func panicValue(text string) interface{} {
	switch {
	case text == AbortText:
		return http.ErrAbortHandler
	case strings.HasPrefix(text, "error: "):
		return errors.New(text)
	case strings.HasPrefix(text, svcErrPrefix):
		if i := strings.Index(text, "] "); i > 0 {
			if code, err := strconv.Atoi(text[len(svcErrPrefix):i]); err == nil {
				return restful.NewError(code, text[i+2:])
			}
		}
	}
	if n, err := strconv.Atoi(text); err == nil && strconv.Itoa(n) == text {
		return n
	}
	return text
}

// condPanicHeader: fault traffic whose panic is raised INSIDE route selection. Every route of a serve
// table carries one If-condition of the harness that is true for every request and panics with the
// header's value when the header is there (user code that runs while the router holds the container's
// read lock). The routers evaluate it only for routes whose path matches, so whether it ran is
// recorded (Result.CondRan) and SReq.CondPanic is kept only when it did.
const condPanicHeader = "X-Verif-Cond-Panic"

func condPanicFn(r *http.Request) bool {
	if v := r.Header.Get(condPanicHeader); v != "" {
		if t := traceOf(r); t != nil {
			t.mu.Lock()
			t.condRan = true
			t.mu.Unlock()
		}
		panic(panicValue(v))
	}
	return true
}

// hijackRec is a recorder whose connection can be taken over.
type hijackRec struct {
	*httptest.ResponseRecorder
}

func (h *hijackRec) Hijack() (net.Conn, *bufio.ReadWriter, error) {
	a, b := net.Pipe()
	b.Close()
	return a, bufio.NewReadWriter(bufio.NewReader(a), bufio.NewWriter(a)), nil
}

func mkFilter(f Filter, stage string) restful.FilterFunction {
	switch f.Kind {
	case "middle":
		// the adapter is created ONCE per registered filter, as applications do
		// (c.Filter(restful.HttpMiddlewareHandlerToFilter(mw))); the middleware finds the restful.Request of
		// the request it is serving in the context
		mw := func(next http.Handler) http.Handler {
			return http.HandlerFunc(func(rw http.ResponseWriter, r *http.Request) {
				req, _ := r.Context().Value(mwReqKey{}).(*restful.Request)
				if g, ok := r.Context().Value(gateKey{}).(*Gate); ok && strings.HasPrefix(stage, "cf") {
					if first, _ := r.Context().Value(gateFirstKey{}).(string); first == stage {
						g.Wait() // inside the net/http middleware, before it calls next
					}
				}
				logStage(req, r, rw, stage, false)
				runActs(f.Pre, nil, rw)
				// a derived request, as real middlewares do (r.WithContext): the adapter must carry
				// attributes and parameters over to it
				r2 := r.Clone(context.WithValue(r.Context(), mwKey{}, f.ID))
				r2.Header.Set(mwHeader, strconv.Itoa(f.ID)) // more than the context differs (cf. http.StripPrefix, a Clone with a header)
				next.ServeHTTP(&tagWriter{inner: rw, id: f.ID}, r2)
				logStage(req, r, rw, stage, true)
				runActs(f.Post, nil, rw)
			})
		}
		adapter := restful.HttpMiddlewareHandlerToFilter(mw)
		return func(req *restful.Request, resp *restful.Response, chain *restful.FilterChain) {
			req.Request = req.Request.WithContext(context.WithValue(req.Request.Context(), mwReqKey{}, req))
			adapter(req, resp, chain)
		}
	default:
		return func(req *restful.Request, resp *restful.Response, chain *restful.FilterChain) {
			if g, ok := req.Request.Context().Value(gateKey{}).(*Gate); ok && strings.HasPrefix(stage, "cf") {
				if first, _ := req.Request.Context().Value(gateFirstKey{}).(string); first == stage {
					g.Wait()
				}
			}
			logStage(req, req.Request, resp, stage, false)
			runActs(f.Pre, req, resp)
			switch f.Kind {
			case "stop":
			case "pass":
				chain.ProcessFilter(req, resp)
			case "replace":
				req2 := restful.NewRequest(req.Request)
				req2.SetAttribute("who", strconv.Itoa(f.ID))
				resp2 := restful.NewResponse(&tagWriter{inner: resp, id: f.ID})
				chain.ProcessFilter(req2, resp2)
			}
			logStage(req, req.Request, resp, stage, true)
			runActs(f.Post, req, resp)
		}
	}
}

// Gate makes concurrent replays overlap for certain: when armed, every request waits at the start of
// the first container filter until all requests of the batch have arrived there (or a timeout passes),
// i.e. after every request built its filter chain and before any of them walks it further.
type Gate struct {
	mu      sync.Mutex
	waiting int
	want    int
	ch      chan struct{}
}

func NewGate(n int) *Gate { return &Gate{want: n, ch: make(chan struct{})} }

func (g *Gate) Wait() {
	g.mu.Lock()
	g.waiting++
	if g.waiting == g.want {
		close(g.ch)
	}
	g.mu.Unlock()
	select {
	case <-g.ch:
	case <-time.After(150 * time.Millisecond): // safety net only: the count covers the requests that get here
	}
}

// mwHeader is set by every adapted middleware on the request it hands on.
const mwHeader = "X-Verif-Mw"

type mwReqKey struct{}
type gateKey struct{}
type gateFirstKey struct{}

// RouterErrPath is the path a refusingRouter refuses with a plain error value.
const RouterErrPath = "/verif-router-error"

// refusingRouter is a RouteSelector as an application may write one: it delegates to a built-in router
// and reports some routing failures of its own — with an ordinary error, not a restful.ServiceError.
type refusingRouter struct{ inner restful.RouteSelector }

func (p refusingRouter) SelectRoute(wss []*restful.WebService, r *http.Request) (*restful.WebService, *restful.Route, error) {
	if r.URL.Path == RouterErrPath {
		return nil, nil, errors.New("verif: the route selector refuses this path")
	}
	return p.inner.SelectRoute(wss, r)
}

type refusingJSR struct{ refusingRouter }

func (p refusingJSR) ExtractParameters(route *restful.Route, ws *restful.WebService, urlPath string) map[string]string {
	return restful.RouterJSR311{}.ExtractParameters(route, ws, urlPath)
}

// PlainPath / PlainFPath are the patterns of the Handle / HandleWithFilter registrations.
const PlainPath, PlainFPath = "/plain-h", "/plain-hf"

// recoverLog counts the calls of the library's own recover handler: container.go logStackOnRecover
// leaves exactly one log.Print ("recover from panic situation: …" with the stack) per call through the
// package logger that restful.SetLogger installs.
type recoverLog struct{ calls int64 }

func (l *recoverLog) note(s string) {
	if strings.HasPrefix(s, "recover from panic situation") {
		atomic.AddInt64(&l.calls, 1)
	}
}
func (l *recoverLog) Print(v ...interface{})                 { l.note(fmt.Sprint(v...)) }
func (l *recoverLog) Printf(format string, v ...interface{}) { l.note(fmt.Sprintf(format, v...)) }
func (l *recoverLog) count() int                             { return int(atomic.LoadInt64(&l.calls)) }

var libLog recoverLog

// Build constructs the real container for a serve configuration.
func Build(cfg *Cfg) (c *restful.Container, err error) {
	defer func() {
		if r := recover(); r != nil {
			c, err = nil, fmt.Errorf("build panic: %v", r)
		}
	}()
	restful.SetLogger(&libLog)
	c = restful.NewContainer()
	if cfg.Routing.Router == "jsr" {
		c.Router(restful.RouterJSR311{})
	}
	if cfg.RouterErr {
		// a RouteSelector of the application's own around the built-in one (RouterJSR311 also extracts
		// the path parameters: the wrapper must then offer that too)
		if cfg.Routing.Router == "jsr" {
			c.Router(refusingJSR{refusingRouter{restful.RouterJSR311{}}})
		} else {
			c.Router(refusingRouter{restful.CurlyRouter{}})
		}
	}
	if cfg.Late {
		// the switches are set the other way round first and to their configured values after
		// everything is registered: what a registration remembers of them must not matter
		c.EnableContentEncoding(!cfg.Enc)
		c.DoNotRecover(cfg.Recover)
		defer func() {
			if c != nil {
				c.EnableContentEncoding(cfg.Enc)
				c.DoNotRecover(!cfg.Recover)
			}
		}()
	} else {
		c.EnableContentEncoding(cfg.Enc)
		c.DoNotRecover(!cfg.Recover)
	}
	if cfg.HasRS {
		rs := cfg.RScript
		c.RecoverHandler(func(v interface{}, w http.ResponseWriter) {
			if t := currentTrace.get(); t != nil {
				t.mu.Lock()
				t.recov++
				t.log = append(t.log, Event{Stage: "rec", Wrappers: wrappersOf(w)})
				t.mu.Unlock()
			}
			runActs(rs, nil, w)
		})
	}
	if cfg.CustomErr {
		// same header handling as the library's writeServiceError, a message text of our own
		c.ServiceErrorHandler(func(e restful.ServiceError, req *restful.Request, resp *restful.Response) {
			// user code at the end of the chain the container filters walked: it records the pair it
			// is handed like every other stage (it must be the pair the last filter passed on)
			logStage(req, req.Request, resp, "err", false)
			for h, vs := range e.Header {
				for _, v := range vs {
					resp.Header().Add(h, v)
				}
			}
			resp.WriteErrorString(e.Code, "E"+strconv.Itoa(e.Code))
		})
	}
	for _, f := range cfg.CF {
		c.Filter(mkFilter(f, "cf"+strconv.Itoa(f.ID)))
	}
	var reuse *rng.R
	if cfg.Reuse != 0 {
		reuse = rng.New(cfg.Reuse)
	}
	if cfg.Churn&4 != 0 {
		churnThrowAway(c)
	}
	var lastWS *restful.WebService
	for _, s := range cfg.Routing.Services {
		ws := new(restful.WebService)
		ws.Path(s.Root)
		if reuse != nil {
			ws.SetDynamicRoutes(true) // RemoveRoute is allowed
		}
		if len(s.Consumes) > 0 {
			ws.Consumes(s.Consumes...)
		}
		if len(s.Produces) > 0 {
			ws.Produces(s.Produces...)
		}
		// the registration order of the service's filters relative to its routes and to Add (cfg.Order)
		pending := cfg.SvcF[s.ID]
		giveFilters := func(n int) {
			for ; n > 0 && len(pending) > 0; n-- {
				f := pending[0]
				pending = pending[1:]
				ws.Filter(mkFilter(f, "sf"+strconv.Itoa(f.ID)))
			}
		}
		switch cfg.Order {
		case 0:
			giveFilters(len(pending))
		case 3:
			giveFilters(1)
		}
		// the RouteBuilder that built the previous route of this WebService, and what it carries
		var b *restful.RouteBuilder
		var bConds, bFilters []int
		bEnc := false
		for _, r := range s.Routes {
			rx := cfg.RouteX[r.ID]
			// method, path, Consumes/Produces, If-conditions, AllowedMethodsWithoutContentType as the
			// routing stream registers them; the route function is replaced below
			newFilters := rx.Filters
			if reuse != nil && b != nil && reuse.Chance(3, 4) && extendsInts(r.Conds, bConds) && extendsFilters(rx.Filters, bFilters) && (!bEnc || rx.Enc != nil) {
				// the same RouteBuilder value once more: Method, Path, … To are said anew, conditions and
				// filters it carries stay (If and Filter append)
				extra := r
				extra.Conds = r.Conds[len(bConds):]
				routing.Reconfigure(b, s, extra)
				newFilters = rx.Filters[len(bFilters):]
				BuildersReused++
			} else {
				b = routing.RouteBuilder(ws, s, r)
				b.If(condPanicFn)
				bFilters, bEnc = nil, false
			}
			bConds = append([]int{}, r.Conds...)
			for _, f := range newFilters {
				b.Filter(mkFilter(f, "rf"+strconv.Itoa(f.ID)))
				bFilters = append(bFilters, f.ID)
			}
			if rx.Enc != nil {
				b.ContentEncodingEnabled(*rx.Enc)
				bEnc = true
			}
			stage, script := "h"+strconv.Itoa(r.ID), rx.Script
			b.To(func(req *restful.Request, resp *restful.Response) {
				logStage(req, req.Request, resp, stage, false)
				runActs(script, req, resp)
			})
			ws.Route(b)
			if cfg.Order == 3 {
				giveFilters(1)
			}
		}
		// the route declared last is taken out and registered again from the builder that was kept
		// (when no other route of the WebService has its method and path: RemoveRoute takes them all)
		readd := func() {
			rts := ws.Routes()
			if b == nil || len(rts) == 0 {
				return
			}
			last := rts[len(rts)-1]
			for _, o := range rts[:len(rts)-1] {
				if o.Method == last.Method && o.Path == last.Path {
					return
				}
			}
			if ws.RemoveRoute(last.Path, last.Method) == nil {
				ws.Route(b)
				RoutesReadded++
			}
		}
		readdWhen := 0
		if reuse != nil {
			readdWhen = reuse.Intn(3) // 0 = not at all, 1 = before Container.Add, 2 = after it
		}
		if readdWhen == 1 {
			readd()
		}
		if cfg.Order == 1 {
			giveFilters(len(pending))
		}
		c.Add(ws)
		lastWS = ws
		if readdWhen == 2 {
			readd()
		}
		giveFilters(len(pending)) // orders 2 and 3: what is left is registered on the service after Container.Add
	}
	if cfg.Churn&1 != 0 {
		churnThrowAway(c)
	}
	if cfg.Churn&2 != 0 && lastWS != nil {
		// the WebService added last is taken off the container and added again (the order of the
		// WebServices, which routing looks at, stays)
		if err := c.Remove(lastWS); err != nil {
			return nil, fmt.Errorf("build: Container.Remove: %v", err)
		}
		c.Add(lastWS)
		Churned++
	}
	plain := http.HandlerFunc(func(w http.ResponseWriter, r *http.Request) {
		logStage(nil, r, w, "plain", false)
		runActs(cfg.Plain, nil, w)
	})
	c.Handle(PlainPath, plain)
	c.HandleWithFilter(PlainFPath, plain)
	return c, nil
}

// BuildersReused, RoutesReadded, Churned measure the registration histories Build went through.
var BuildersReused, RoutesReadded, Churned int

// churnThrowAway adds a WebService that is not part of the table to c and removes it again.
func churnThrowAway(c *restful.Container) {
	ws := new(restful.WebService)
	ws.Path("/verif-throw-away")
	ws.Route(ws.GET("/").To(func(*restful.Request, *restful.Response) {}))
	c.Add(ws)
	c.Remove(ws)
	Churned++
}

func extendsInts(l, prefix []int) bool {
	if len(l) < len(prefix) {
		return false
	}
	for i, x := range prefix {
		if l[i] != x {
			return false
		}
	}
	return true
}

func extendsFilters(fs []Filter, prefix []int) bool {
	if len(fs) < len(prefix) {
		return false
	}
	for i, id := range prefix {
		if fs[i].ID != id {
			return false
		}
	}
	return true
}

// BuildFor is Build for a history: with cfg.Late the last container filter and the last filter of every
// WebService are registered only after every request of the history has been served once (warm-up
// traffic whose answers are not looked at) — whatever the container composed or cached while serving
// must follow the registrations that come later.
func BuildFor(cfg *Cfg, reqs []SReq) (*restful.Container, error) {
	if !cfg.Late || len(cfg.CF) == 0 {
		return Build(cfg)
	}
	early := *cfg
	early.CF = cfg.CF[:len(cfg.CF)-1]
	c, err := Build(&early)
	if err != nil {
		return nil, err
	}
	led := Install(cfg.Provider)
	for _, r := range reqs {
		serveImpl(c, &early, r, led, false, nil)
	}
	last := cfg.CF[len(cfg.CF)-1]
	c.Filter(mkFilter(last, "cf"+strconv.Itoa(last.ID)))
	return c, nil
}

// the recover handler gets no request: the harness serves one request at a time per goroutine and
// publishes that request's trace here (keyed by goroutine-free design: histories are sequential).
type traceSlot struct {
	mu sync.Mutex
	t  *trace
}

func (s *traceSlot) set(t *trace) { s.mu.Lock(); s.t = t; s.mu.Unlock() }
func (s *traceSlot) get() *trace  { s.mu.Lock(); defer s.mu.Unlock(); return s.t }

var currentTrace traceSlot

// MuxReaches tells whether the Go 1.21 ServeMux hands a clean path to `dispatch` for this table.
func MuxReaches(cfg *Cfg, p string) bool {
	if p == "" || p[0] != '/' {
		return false
	}
	cp := path.Clean(p)
	if strings.HasSuffix(p, "/") && cp != "/" {
		cp += "/"
	}
	if cp != p || p == PlainPath || p == PlainFPath {
		return false
	}
	// the patterns Container.Add registered, in order (container.go addHandler)
	pats := map[string]bool{PlainPath: true, PlainFPath: true}
	onRoot := false
	for _, s := range cfg.Routing.Services {
		if onRoot {
			break
		}
		root := s.Root
		if root == "" {
			root = "/"
		}
		pat := root
		if i := strings.Index(root, "{"); i >= 0 {
			pat = root[:i]
		}
		if pat == "/" || pat == "" {
			pats["/"] = true
			onRoot = true
			continue
		}
		pats[pat] = true
		if !strings.HasSuffix(pat, "/") {
			pats[pat+"/"] = true
		}
	}
	if pats[p] {
		return true
	}
	if pats[p+"/"] {
		return false // the mux redirects to the subtree pattern
	}
	for pat := range pats {
		if strings.HasSuffix(pat, "/") && strings.HasPrefix(p, pat) {
			return true
		}
	}
	return false
}

// Serve runs one request through the chosen entry point of the real container.
func Serve(c *restful.Container, cfg *Cfg, r SReq, led *Ledger) (res *Result) {
	return serveImpl(c, cfg, r, led, true, nil)
}

// ServeConcurrent is Serve without the global trace slot (the recover handler cannot be attributed)
// and with a decision about the coding taken from the response itself.
func ServeConcurrent(c *restful.Container, cfg *Cfg, r SReq, led *Ledger) (res *Result) {
	return serveImpl(c, cfg, r, led, false, nil)
}

// ServeGated is ServeConcurrent with a rendezvous at the first container filter.
func ServeGated(c *restful.Container, cfg *Cfg, r SReq, led *Ledger, g *Gate) (res *Result) {
	return serveImpl(c, cfg, r, led, false, g)
}

// failWriter is a client that went away: after `left` body bytes every Write fails.
type failWriter struct {
	http.ResponseWriter
	left int
}

func (f *failWriter) Write(p []byte) (int, error) {
	if len(p) <= f.left {
		f.left -= len(p)
		return f.ResponseWriter.Write(p)
	}
	n := f.left
	f.left = 0
	if n > 0 {
		f.ResponseWriter.Write(p[:n])
	}
	return n, fmt.Errorf("verif: connection broken")
}

// ServeFailing serves r to a client whose connection breaks after `after` body bytes. The answer
// is fault traffic: only what it leaves behind (ledger, container) is looked at.
func ServeFailing(c *restful.Container, cfg *Cfg, r SReq, led *Ledger, after int) (res *Result) {
	failAfter = after
	defer func() { failAfter = -1 }()
	return serveImpl(c, cfg, r, led, true, nil)
}

var failAfter = -1 // sequential use only

func serveImpl(c *restful.Container, cfg *Cfg, r SReq, led *Ledger, sequential bool, gate *Gate) (res *Result) {
	t := &trace{}
	if sequential {
		currentTrace.set(t)
		defer currentTrace.set(nil)
	}
	hr := routing.HTTPRequest(r.Req)
	switch r.Entry {
	case "muxHandle", "serveHandle":
		hr.URL.Path = PlainPath
	case "muxHandleF", "serveHandleF":
		hr.URL.Path = PlainFPath
	}
	if r.AE != "" {
		hr.Header.Set("Accept-Encoding", r.AE)
	}
	if r.CondPanic != "" {
		hr.Header.Set(condPanicHeader, r.CondPanic)
	}
	if r.BodyDoc != "" {
		t.body = encodeBody(r.BodyDoc, r.BodyEnc)
		hr.Body = io.NopCloser(bytes.NewReader(t.body))
		if r.BodyEnc != "" {
			hr.Header.Set("Content-Encoding", r.BodyEnc)
		}
	}
	ctx := context.WithValue(context.Background(), ctxKey{}, t)
	if gate != nil && len(cfg.CF) > 0 {
		ctx = context.WithValue(context.WithValue(ctx, gateKey{}, gate), gateFirstKey{}, "cf"+strconv.Itoa(cfg.CF[0].ID))
	}
	hr = hr.WithContext(ctx)
	rec := httptest.NewRecorder()
	if r.Prior != "" {
		rec.Header().Set("Content-Encoding", r.Prior)
	}
	a0, r0, d0 := led.Snapshot()
	ra0, rr0 := led.SnapshotReaders()
	l0 := libLog.count()
	res = &Result{}
	func() {
		defer func() {
			if p := recover(); p != nil {
				s := fmt.Sprint(p)
				res.Escaped = &s
			}
		}()
		var w http.ResponseWriter = &hijackRec{rec}
		if sequential && failAfter >= 0 {
			w = &failWriter{ResponseWriter: rec, left: failAfter}
		}
		switch r.Entry {
		case "dispatch":
			c.Dispatch(w, hr)
		case "serveDispatch", "serveHandle", "serveHandleF":
			c.ServeHTTP(w, hr)
		default:
			c.ServeMux.ServeHTTP(w, hr)
		}
	}()
	a1, r1, d1 := led.Snapshot()
	res.KeepErr = cfg.CustomErr && !r.RouterErr // no service-error writer runs for an error that is not a ServiceError
	ra1, rr1 := led.SnapshotReaders()
	res.RdAcq, res.RdRel = ra1-ra0, rr1-rr0
	res.Acq, res.Rel, res.DblRel = a1-a0-res.RdAcq, r1-r0-res.RdRel, d1-d0
	res.Recov = t.recov
	if sequential {
		res.RecovDefault = libLog.count() - l0
	}
	res.Log = t.log
	t.mu.Lock()
	res.CondRan, res.Leaks = t.condRan, t.leaks
	t.mu.Unlock()
	result := rec.Result()
	res.Status = result.StatusCode
	res.CE = result.Header.Get("Content-Encoding")
	keys := []string{}
	for k := range result.Header {
		if strings.HasPrefix(k, "X-H") || k == "Allow" {
			keys = append(keys, k)
		}
	}
	sort.Strings(keys)
	for _, k := range keys {
		for _, v := range result.Header[k] {
			res.Hdr = append(res.Hdr, [2]string{k, v})
		}
	}
	raw := rec.Body.Bytes()
	res.Body, res.Complete = string(raw), true
	res.Coded = res.Acq > 0
	if !sequential {
		// under concurrency the ledger delta is not this request's: the container added the coding
		// iff the label differs from what was there on arrival
		res.Coded = res.CE != r.Prior && (res.CE == "gzip" || res.CE == "deflate")
	}
	if res.Coded {
		var rd io.Reader
		var err error
		br := bytes.NewReader(raw)
		switch res.CE {
		case "gzip":
			rd, err = gzip.NewReader(br)
		case "deflate":
			rd, err = zlib.NewReader(br)
		default:
			err = fmt.Errorf("compressor acquired but Content-Encoding is %q", res.CE)
		}
		if err != nil {
			res.Body, res.Complete = "", false
		} else {
			dec, err := io.ReadAll(rd)
			res.Body, res.Complete = string(dec), err == nil
			if err == nil && res.CE == "deflate" {
				// "the complete body": nothing may follow the zlib stream (gzip's multi-member reader
				// reports trailing bytes by itself); bytes.Reader is a ByteReader, so zlib read exactly
				// its stream and what is left in br is what came after it
				if br.Len() != 0 {
					res.Complete = false
				}
			}
		}
	}
	// "complete" as a client sees it: a declared Content-Length that differs from the number of
	// body bytes sent truncates the body or leaves the client waiting (the library itself never
	// declares a length, and no script of the harness does)
	if cl := result.Header.Get("Content-Length"); cl != "" && hr.Method != "HEAD" {
		if n, err := strconv.Atoi(strings.TrimSpace(cl)); err != nil || n != len(raw) {
			res.Complete = false
		}
	}
	return res
}

// WriterFree performs a writer operation on the container's registration state — Add and Remove of a
// throw-away WebService — under a watchdog. "No lock left held" (C10): after any traffic, fault
// traffic included, it must return; readers never show a read lock that was left held, the next writer
// does. false = it did not return (its goroutine stays blocked; the container is to be discarded).
func WriterFree(c *restful.Container) bool {
	done := make(chan struct{})
	go func() {
		defer close(done)
		defer func() { recover() }()
		ws := new(restful.WebService)
		ws.Path("/verif-throw-away")
		ws.Route(ws.GET("/").To(func(*restful.Request, *restful.Response) {}))
		c.Add(ws)
		c.Remove(ws)
	}()
	select {
	case <-done:
		return true
	case <-time.After(writerWatchdog):
		writerWatchdog = 250 * time.Millisecond // one long wait per run is enough to tell slow from blocked
		return false
	}
}

var writerWatchdog = 2 * time.Second // sequential use only
