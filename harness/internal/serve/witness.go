package serve

import (
	"fmt"

	"verifharness/internal/routing"
)

func tinyCfg() *Cfg {
	rt := routing.RouteDecl{ID: 0, Method: "GET", Rel: ""}
	return &Cfg{Routing: routing.Config{Router: "curly", Services: []routing.Service{{ID: 0, Root: "/a", Routes: []routing.RouteDecl{rt}}}},
		SvcF: map[int][]Filter{}, RouteX: map[int]*RouteX{0: {ID: 0, Script: []Act{{K: "w", B: "x"}}}}, Provider: "pool"}
}

// WitnessF09: container encoding on, the route switched it off for itself, ServeHTTP encodes anyway.
func WitnessF09() bool {
	cfg := tinyCfg()
	cfg.Enc = true
	off := false
	cfg.RouteX[0].Enc = &off
	c, err := Build(cfg)
	if err != nil {
		return false
	}
	r := Serve(c, cfg, SReq{Req: routing.Req{Method: "GET", Path: "/a"}, AE: "gzip", Entry: "serveDispatch"}, Install("pool"))
	return r.Coded && r.CE == "gzip"
}

// Regression is one fixed case that must hold on the real code: a former witness of a repaired finding.
type Regression struct {
	Name string
	H    *History // one request: real observation, model, the driver's verdicts
	Why  string   // empty = holds
}

// RegressionsF18 are the former witness of finding F18 (repaired by a0e838d: HandleWithFilter now
// installs the same deferred recover as dispatch) and its neighbours.  With recovery on, a panic in
// a container filter in front of a HandleWithFilter handler — or in the handler behind it — must
// not leave the entry point, the recover handler must have run exactly once, the ledger must be
// balanced, and Spec.c10Holds (evaluated by the driver on the REAL observation) must be true.
// A case that fails is a violation of C10, replayable from its protocol line.
func RegressionsF18() ([]Regression, error) {
	panicking := []Filter{{ID: 1, Kind: "pass", Pre: []Act{{K: "panic", B: "p"}}}}
	passing := []Filter{{ID: 1, Kind: "pass", Pre: []Act{{K: "w", B: "a"}}, Post: []Act{{K: "w", B: "z"}}}}
	custom := []Act{{K: "wh", N: 503}, {K: "w", B: "r"}}
	type tc struct {
		name    string
		cf      []Filter
		plain   []Act
		hasRS   bool
		enc     bool
		ae      string
		entry   string
		status  int // expected status, 0 = not checked
		handler bool
	}
	cases := []tc{
		{name: "F18 former witness: panicking container filter, HandleWithFilter through ServeHTTP, default recover handler", cf: panicking, entry: "serveHandleF", status: 500},
		{name: "panicking container filter, HandleWithFilter through ServeHTTP, custom recover handler", cf: panicking, hasRS: true, entry: "serveHandleF", status: 503},
		{name: "panicking container filter, HandleWithFilter through the mux alone, custom recover handler", cf: panicking, hasRS: true, entry: "muxHandleF", status: 503},
		{name: "panicking handler behind a container filter that wrote, HandleWithFilter through ServeHTTP, custom recover handler", cf: passing, plain: []Act{{K: "panic", B: "h"}}, hasRS: true, entry: "serveHandleF", status: 200, handler: true},
		{name: "panicking container filter, HandleWithFilter through ServeHTTP, gzip, custom recover handler", cf: panicking, hasRS: true, enc: true, ae: "gzip", entry: "serveHandleF", status: 503},
		{name: "panicking handler behind a container filter that wrote, HandleWithFilter through the mux alone, deflate, custom recover handler", cf: passing, plain: []Act{{K: "w", B: "x"}, {K: "panic", B: "h"}}, hasRS: true, enc: true, ae: "deflate", entry: "muxHandleF", status: 200, handler: true},
	}
	var out []Regression
	for _, c := range cases {
		cfg := tinyCfg()
		cfg.Recover = true
		cfg.CF = c.cf
		cfg.Plain = c.plain
		cfg.Enc = c.enc
		if c.hasRS {
			cfg.HasRS, cfg.RScript = true, custom
		}
		h, err := RunOne(cfg, []SReq{{Req: routing.Req{Method: "GET", Path: PlainFPath}, AE: c.ae, Entry: c.entry}})
		if err != nil {
			return nil, err
		}
		real := h.Real[0]
		why := ""
		switch {
		case real.Escaped != nil:
			why = "the panic escaped the entry point: " + *real.Escaped
		case c.hasRS && real.Recov != 1:
			why = fmt.Sprintf("the recover handler ran %d times, not once", real.Recov)
		case c.status != 0 && real.Status != c.status:
			why = fmt.Sprintf("status %d, expected %d", real.Status, c.status)
		case real.Acq != real.Rel || real.DblRel != 0 || !real.Complete:
			why = fmt.Sprintf("compressor ledger: acquired %d released %d anomalies %d complete %v", real.Acq, real.Rel, real.DblRel, real.Complete)
		case c.ae != "" && !real.Coded:
			why = "the response was not encoded"
		case h.Spec[0]["C10"] != "1":
			why = "the real observation falsifies Spec.c10Holds"
		case ProjPanic(real, false) != ProjPanic(h.Model[0], false):
			why = "model and implementation disagree on the C10 projection"
		}
		out = append(out, Regression{Name: c.name, H: h, Why: why})
	}
	return out, nil
}
