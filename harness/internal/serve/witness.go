package serve

import "verifharness/internal/routing"

func tinyCfg() *Cfg {
	rt := routing.RouteDecl{ID: 0, Method: "GET", Rel: ""}
	return &Cfg{Routing: routing.Config{Router: "curly", Services: []routing.Service{{ID: 0, Root: "/a", Routes: []routing.RouteDecl{rt}}}},
		SvcF: map[int][]Filter{}, RouteX: map[int]*RouteX{0: {ID: 0, Script: []Act{{K: "w", B: "x"}}}}, Provider: "pool"}
}

// WitnessF09: container encoding on, the route switched it off for itself, ServeHTTP encodes anyway.
func WitnessF09() bool {
	cfg := tinyCfg()
	cfg.Enc = true
	off := false
	cfg.RouteX[0].Enc = &off
	c, err := Build(cfg)
	if err != nil {
		return false
	}
	r := Serve(c, cfg, SReq{Req: routing.Req{Method: "GET", Path: "/a"}, AE: "gzip", Entry: "serveDispatch"}, Install("pool"))
	return r.Coded && r.CE == "gzip"
}

// WitnessF18: recovery on, a panicking container filter around a HandleWithFilter handler escapes ServeHTTP.
func WitnessF18() bool {
	cfg := tinyCfg()
	cfg.Recover = true
	cfg.CF = []Filter{{ID: 1, Kind: "pass", Pre: []Act{{K: "panic", B: "p"}}}}
	c, err := Build(cfg)
	if err != nil {
		return false
	}
	r := Serve(c, cfg, SReq{Req: routing.Req{Method: "GET", Path: PlainFPath}, Entry: "serveHandleF"}, Install("pool"))
	return r.Escaped != nil
}
