package serve

import (
	"bytes"
	"compress/gzip"
	"compress/zlib"
	"io"
	"strings"
	"sync"

	restful "github.com/emicklei/go-restful/v3"
)

// Ledger wraps a real CompressorProvider and keeps the books: acquisitions, releases, and releases of
// objects that were not outstanding (double release / release of an unknown object).
type Ledger struct {
	mu          sync.Mutex
	inner       restful.CompressorProvider
	acq, rel    int
	rdAcq       int // of acq / rel: the readers
	rdRel       int
	bad         int
	outstanding map[interface{}]bool
	// Keep: released objects are handed back as they are (as the library's own providers do), so that
	// what a late use does to the response that is still attached stays visible (stray bytes after the
	// stream); otherwise they are pointed at a throw-away sink first, so that a late use is LOST
	// instead of silently working. Configurations take turns.
	Keep bool
}

func NewLedger(inner restful.CompressorProvider) *Ledger {
	return &Ledger{inner: inner, outstanding: map[interface{}]bool{}}
}

func (l *Ledger) Snapshot() (int, int, int) {
	l.mu.Lock()
	defer l.mu.Unlock()
	return l.acq, l.rel, l.bad
}

// SnapshotReaders: how many of the acquisitions and releases were readers.
func (l *Ledger) SnapshotReaders() (int, int) {
	l.mu.Lock()
	defer l.mu.Unlock()
	return l.rdAcq, l.rdRel
}

func (l *Ledger) Outstanding() int {
	l.mu.Lock()
	defer l.mu.Unlock()
	return len(l.outstanding)
}

func (l *Ledger) out(o interface{}) {
	l.mu.Lock()
	l.acq++
	if l.outstanding[o] {
		l.bad++ // handed out while still in use
	}
	l.outstanding[o] = true
	l.mu.Unlock()
}

func (l *Ledger) in(o interface{}) {
	l.mu.Lock()
	l.rel++
	if !l.outstanding[o] {
		l.bad++
	}
	delete(l.outstanding, o)
	l.mu.Unlock()
}

func (l *Ledger) AcquireGzipWriter() *gzip.Writer {
	w := l.inner.AcquireGzipWriter()
	l.out(w)
	return w
}

// A released object belongs to the provider, which may reuse it at once: the ledger points it at a
// throw-away sink before handing it back, so that any use AFTER release (a trailer written by a late
// Close, a body read through a released reader) is lost instead of silently working.
func (l *Ledger) ReleaseGzipWriter(w *gzip.Writer) {
	l.in(w)
	if !l.Keep {
		w.Reset(io.Discard)
	}
	l.inner.ReleaseGzipWriter(w)
}
func (l *Ledger) AcquireGzipReader() *gzip.Reader {
	// a provider that has to make a new reader may borrow a writer from the CURRENT provider — this
	// ledger — to do so (compressor_pools.go newGzipReader): what passes through the books while the
	// inner provider is at work belongs to the read, not to a response (sequential use; under
	// concurrency only the totals are looked at)
	l.mu.Lock()
	a0, r0 := l.acq, l.rel
	l.mu.Unlock()
	r := l.inner.AcquireGzipReader()
	l.mu.Lock()
	l.rdAcq += l.acq - a0 + 1
	l.rdRel += l.rel - r0
	l.mu.Unlock()
	l.out(r)
	return r
}
func (l *Ledger) ReleaseGzipReader(r *gzip.Reader) {
	l.in(r)
	l.mu.Lock()
	l.rdRel++
	l.mu.Unlock()
	if !l.Keep {
		r.Reset(bytes.NewReader(nil))
	}
	l.inner.ReleaseGzipReader(r)
}
func (l *Ledger) AcquireZlibWriter() *zlib.Writer {
	w := l.inner.AcquireZlibWriter()
	l.out(w)
	return w
}
func (l *Ledger) ReleaseZlibWriter(w *zlib.Writer) {
	l.in(w)
	if !l.Keep {
		w.Reset(io.Discard)
	}
	l.inner.ReleaseZlibWriter(w)
}

// Install makes a fresh ledger around the named provider the package's current provider.
func Install(provider string) *Ledger {
	var inner restful.CompressorProvider
	keep := strings.HasSuffix(provider, "+keep")
	switch strings.TrimSuffix(provider, "+keep") {
	case "bounded0":
		inner = restful.NewBoundedCachedCompressors(0, 0)
	case "bounded1":
		inner = restful.NewBoundedCachedCompressors(1, 1)
	case "bounded2":
		inner = restful.NewBoundedCachedCompressors(2, 2)
	default:
		inner = restful.NewSyncPoolCompessors()
	}
	l := NewLedger(inner)
	l.Keep = keep
	restful.SetCompressorProvider(l)
	return l
}
