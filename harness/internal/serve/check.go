package serve

import (
	"fmt"
	"io"
	stdlog "log"
	"strconv"
	"strings"
	"sync"

	restful "github.com/emicklei/go-restful/v3"

	"verifharness/internal/report"
	"verifharness/internal/rng"
)

// Proj selects the part of a canonical result a property constrains.
type Proj func(r *Result, blank bool) string

func ProjAll(r *Result, blank bool) string { return r.Canon(blank) }

func ProjLog(r *Result, blank bool) string {
	c := r.Canon(true)
	i := strings.Index(c, "(log")
	j := strings.Index(c, "(esc ")
	return c[i:j]
}

func ProjCoding(r *Result, blank bool) string {
	body := r.Body
	if !r.Complete || blank {
		body = ""
	}
	return fmt.Sprintf("ce=%q complete=%v acq=%d body=%x", r.CE, r.Complete, r.Acq, body)
}

func ProjPanic(r *Result, blank bool) string {
	esc := "none"
	if r.Escaped != nil {
		esc = *r.Escaped
	}
	return fmt.Sprintf("esc=%q status=%d complete=%v acq=%d rel=%d", esc, r.Status, r.Complete, r.Acq, r.Rel)
}

// ProjCodingNoLedger is ProjCoding without the ledger delta (under concurrency it cannot be attributed
// to one request): the label, whether the coded body decodes completely, and what it decodes to.
func ProjCodingNoLedger(r *Result, blank bool) string {
	body := r.Body
	if !r.Complete || blank {
		body = ""
	}
	return fmt.Sprintf("ce=%q complete=%v body=%x", r.CE, r.Complete, body)
}

// ProjAllButLedger is the whole canonical result without the ledger deltas (under concurrency they
// cannot be attributed to one request).
func ProjAllButLedger(r *Result, blank bool) string {
	c := *r
	c.Acq, c.Rel = 0, 0
	return c.Canon(blank)
}

// ProjLedger: what the compressor provider saw while the request was served.
func ProjLedger(r *Result, blank bool) string {
	return fmt.Sprintf("acq=%d rel=%d anomalies=%d", r.Acq, r.Rel, r.DblRel)
}

// Human renders a history readably for replay files.
func Human(h *History, i int) map[string]interface{} {
	fl := func(fs []Filter) []string {
		var out []string
		for _, f := range fs {
			out = append(out, fmt.Sprintf("#%d %s pre=%v post=%v", f.ID, f.Kind, actStrs(f.Pre), actStrs(f.Post)))
		}
		return out
	}
	routes := map[string]interface{}{}
	for id, rx := range h.Cfg.RouteX {
		enc := "inherit"
		if rx.Enc != nil {
			enc = fmt.Sprint(*rx.Enc)
		}
		routes[fmt.Sprint(id)] = map[string]interface{}{"script": actStrs(rx.Script), "filters": fl(rx.Filters), "contentEncodingEnabled": enc}
	}
	svcf := map[string]interface{}{}
	for id, fs := range h.Cfg.SvcF {
		svcf[fmt.Sprint(id)] = fl(fs)
	}
	r := h.Reqs[i]
	return map[string]interface{}{"container": map[string]interface{}{"encoding": h.Cfg.Enc, "recover": h.Cfg.Recover, "customRecoverHandler": h.Cfg.HasRS,
		"recoverScript": actStrs(h.Cfg.RScript), "containerFilters": fl(h.Cfg.CF), "serviceFilters": svcf, "routes": routes, "plainHandler": actStrs(h.Cfg.Plain), "provider": h.Cfg.Provider,
		"late": h.Cfg.Late, "routeBuilders": map[bool]string{false: "one RouteBuilder per route", true: fmt.Sprintf("RouteBuilder values used again for the next route of the WebService where its filters and conditions extend the previous route's (Method, Path, … To said anew), the last route of a WebService removed (RemoveRoute) and registered again from its builder; decisions drawn from seed %d", h.Cfg.Reuse)}[h.Cfg.Reuse != 0],
		"containerChurn": fmt.Sprintf("bits %03b: 1 = a throw-away WebService added and removed after the table's WebServices, 2 = the WebService added last removed and added again, 4 = a throw-away WebService added and removed before the first Add (all before Handle / HandleWithFilter)", h.Cfg.Churn),
		"routeSelector": map[bool]string{false: "built-in", true: "a wrapper around the built-in router that answers " + RouterErrPath + " with errors.New(…) (not a restful.ServiceError)"}[h.Cfg.RouterErr], "serviceFilterRegistration": []string{"every ws.Filter before the first ws.Route", "ws.Filter after the last ws.Route, before Container.Add", "ws.Filter after Container.Add",
			"first ws.Filter before the routes, the others one after each ws.Route, the rest after Container.Add"}[h.Cfg.Order]},
		"table": h.Cfg.Routing.Sx().String(), "position_in_history": i, "history_length": len(h.Reqs),
		"request": map[string]interface{}{"entry": r.Entry, "method": r.Req.Method, "path": r.Req.Path, "accept_encoding": r.AE, "prior_content_encoding": r.Prior,
			"accept": r.Req.Accept, "content_type": r.Req.CT, "if_bits": r.Req.Conds, "if_condition_panics_with": r.CondPanic,
			"route_selector_refuses_with_plain_error": r.RouterErr,
			"entity": r.BodyDoc, "content_encoding_of_the_entity": r.BodyEnc}}
}

func actStrs(as []Act) []string {
	var out []string
	for _, a := range as {
		switch a.K {
		case "w":
			out = append(out, fmt.Sprintf("write(%d bytes)", len(a.B)))
		case "ws":
			out = append(out, fmt.Sprintf("io.WriteString(raw writer, %d bytes)", len(a.B)))
		case "hj":
			out = append(out, "Hijack()")
		case "re":
			if a.B == "" {
				out = append(out, "req.ReadEntity(&entity)")
			} else {
				out = append(out, fmt.Sprintf("req.ReadEntity(&entity whose UnmarshalJSON panics with %s)", a.B))
			}
		case "we":
			out = append(out, fmt.Sprintf("WriteErrorString(%d,%s)", a.N, a.B))
		case "pp":
			out = append(out, fmt.Sprintf("req.PathParameters()[%s]=%s", a.B, a.V))
		case "wh":
			out = append(out, fmt.Sprintf("writeHeader(%d)", a.N))
		case "ah":
			out = append(out, fmt.Sprintf("addHeader(%s,%s)", a.B, a.V))
		case "sa":
			out = append(out, fmt.Sprintf("setAttr(%s,%s)", a.B, a.V))
		default:
			out = append(out, fmt.Sprintf("panic(%s)", a.B))
		}
	}
	return out
}

// shrink a single failing request: the history is cut to that request, then filters and acts are dropped.
func shrink(cfg *Cfg, rq SReq, bad func(*Cfg, SReq) bool) (*Cfg, SReq) {
	budget := 150
	try := func(c *Cfg) bool {
		if budget <= 0 {
			return false
		}
		budget--
		return bad(c, rq)
	}
	clone := func(c *Cfg) *Cfg {
		c2 := *c
		c2.CF = append([]Filter{}, c.CF...)
		c2.SvcF = map[int][]Filter{}
		for k, v := range c.SvcF {
			c2.SvcF[k] = append([]Filter{}, v...)
		}
		c2.RouteX = map[int]*RouteX{}
		for k, v := range c.RouteX {
			r := *v
			r.Filters = append([]Filter{}, v.Filters...)
			r.Script = append([]Act{}, v.Script...)
			c2.RouteX[k] = &r
		}
		return &c2
	}
	changed := true
	for changed && budget > 0 {
		changed = false
		for i := 0; i < len(cfg.CF); i++ {
			c2 := clone(cfg)
			c2.CF = append(c2.CF[:i:i], c2.CF[i+1:]...)
			if try(c2) {
				cfg, changed = c2, true
				i--
			}
		}
		for sid := range cfg.SvcF {
			for i := 0; i < len(cfg.SvcF[sid]); i++ {
				c2 := clone(cfg)
				c2.SvcF[sid] = append(c2.SvcF[sid][:i:i], c2.SvcF[sid][i+1:]...)
				if try(c2) {
					cfg, changed = c2, true
					i--
				}
			}
		}
		for rid := range cfg.RouteX {
			for i := 0; i < len(cfg.RouteX[rid].Filters); i++ {
				c2 := clone(cfg)
				fs := c2.RouteX[rid].Filters
				c2.RouteX[rid].Filters = append(fs[:i:i], fs[i+1:]...)
				if try(c2) {
					cfg, changed = c2, true
					i--
				}
			}
			for i := 0; i < len(cfg.RouteX[rid].Script); i++ {
				c2 := clone(cfg)
				sc := c2.RouteX[rid].Script
				c2.RouteX[rid].Script = append(sc[:i:i], sc[i+1:]...)
				if try(c2) {
					cfg, changed = c2, true
					i--
				}
			}
		}
	}
	return cfg, rq
}

// mwMismatch checks the request side of "what a filter passes on is what later stages receive" for
// adapted net/http middlewares: every stage must see the request the innermost middleware around it
// handed on (its X-Verif-Mw header) — and which middleware that is follows from the response
// wrappers the stage sees, which are compared with the model.
func mwMismatch(cfg *Cfg, log []Event) string {
	middle := map[int]bool{}
	note := func(fs []Filter) {
		for _, f := range fs {
			if f.Kind == "middle" {
				middle[f.ID] = true
			}
		}
	}
	note(cfg.CF)
	for _, fs := range cfg.SvcF {
		note(fs)
	}
	for _, rx := range cfg.RouteX {
		note(rx.Filters)
	}
	for _, ev := range log {
		if ev.Stage == "rec" {
			continue // the recover handler gets no request
		}
		want := ""
		for _, id := range ev.Wrappers {
			if middle[id] {
				want = strconv.Itoa(id)
				break
			}
		}
		if ev.Mw != want {
			return fmt.Sprintf("stage %s (post=%v) sees the request of middleware %q, the innermost middleware around it is %q (wrappers %v)", ev.Stage, ev.Post, ev.Mw, want, ev.Wrappers)
		}
	}
	return ""
}

// PropSpec says how a serve property reads the stream.
type PropSpec struct {
	ID      string
	SpecKey string
	Proj    Proj
	Known   func(spec map[string]string) string
}

// Check runs histories and applies the rules of DESIGN §1/§5 to one property.
func Check(run *report.Run, p PropSpec, o GenOpts, n, maxLen int, stream string) error {
	hs, err := Run(run.Seed*6700417+uint64(len(stream)), n, o, maxLen)
	if err != nil {
		return err
	}
	specFail, dis, mwBad := 0, 0, 0
	for _, h := range hs {
		for i := range h.Reqs {
			run.Evaluations++
			run.TracesValidated++
			real, model := h.Real[i], h.Model[i]
			blank := h.BlankBody(i)
			run.Count(stream + ":entry:" + h.Reqs[i].Entry)
			run.Count(fmt.Sprintf("%s:status:%d", stream, real.Status))
			if real.Coded {
				run.Count(stream + ":coded:" + real.CE)
			}
			if real.Escaped != nil {
				run.Count(stream + ":panic-escaped")
			}
			if real.Recov > 0 {
				run.Count(stream + ":panic-recovered")
			}
			if len(real.Log) > 1 {
				run.Distinct[stream+"|"+h.Line+"|"+fmt.Sprint(i)] = true
			}
			if len(run.Samples) < 3 && run.Evaluations%97 == 0 {
				run.Sample(map[string]interface{}{"input": Human(h, i), "real": fmt.Sprintf("%.400s", real.Canon(true))})
			}
			if p.ID == "C06" {
				if m := mwMismatch(h.Cfg, real.Log); m != "" && mwBad < 3 {
					mwBad++
					reportOne(run, p, h, i, "counterexample", "the request an adapted net/http middleware passed on is not what a later stage received: "+m)
				}
			}
			known := ""
			if p.Known != nil {
				known = p.Known(h.Spec[i])
			}
			agree := p.Proj(real, blank) == p.Proj(model, blank)
			if p.SpecKey != "" && h.Spec[i][p.SpecKey] != "1" {
				if known != "" && agree {
					run.KnownHits[known]++
				} else if specFail < 3 {
					specFail++
					pred := strings.ToLower(p.ID) + "Holds"
					if h.Reqs[i].RouterErr && p.ID == "C06" {
						pred = "c06RouterErrorHolds (a routing failure that is not a ServiceError: the container filters must still run once, around nothing)"
					}
					reportOne(run, p, h, i, "counterexample", "the real observation falsifies Spec."+pred)
				}
				continue
			}
			if !agree && known == "" && dis < 3 {
				dis++
				run.DisagreementsChecked++
				reportOne(run, p, h, i, "correspondence", "model and implementation disagree on the "+p.ID+" projection of stream "+stream)
			}
		}
	}
	if p.ID == "C10" {
		if err := checkAftermath(run, hs); err != nil {
			return err
		}
	}
	run.Extra["skipped_tables_F11"] = SkippedBuild
	run.Extra["registration_histories"] = map[string]int{"routes_declared_with_a_RouteBuilder_that_had_built_a_route": BuildersReused, "routes_removed_and_registered_again": RoutesReadded, "webservices_added_and_removed_again": Churned}
	return nil
}

// checkAftermath is the part of C10 about what a panic leaves behind ("afterwards the container serves
// every following request exactly as it would have otherwise (no lock left held …)"), on the real code
// alone:
//   - after every history a writer operation (Add + Remove of a throw-away WebService) must return: a
//     read lock that a panic during route selection left held shows only there;
//   - on a container with recovery on, every request of the history is served twice in immediate
//     succession, by the same call site: the two answers must be the same byte for byte — also the
//     report the library's own recover handler writes, which is a function of the panic and of the
//     call stack, both the same (the comparison with the model leaves that text out).
func checkAftermath(run *report.Run, hs []*History) error {
	blocked, differ := 0, 0
	for _, h := range hs {
		run.Count("aftermath:writer-probe")
		if h.WriterBlocked && blocked < 3 {
			blocked++
			hm := Human(h, len(h.Reqs)-1)
			hm["then"] = "Container.Add(throw-away WebService) followed by Container.Remove of it, in a goroutine of its own: did not return within 2 s"
			run.AddViolation(report.Violation{Kind: "counterexample", What: "C10: after the requests of this history the container is not usable as before: a writer operation (Container.Add / Remove) blocks — a lock was left held",
				Case: []string{h.Line}, Human: hm, Real: "Container.Add blocks", Model: "Container.Add returns"})
		}
		if !h.Cfg.Recover || h.WriterBlocked {
			continue
		}
		cont, err := BuildFor(h.Cfg, h.Reqs)
		if err != nil {
			return err
		}
		led := Install(h.Cfg.Provider)
		for i, rq := range h.Reqs {
			var two [2]*Result
			for k := range two {
				two[k] = Serve(cont, h.Cfg, rq, led)
			}
			run.Count("aftermath:served-twice")
			if a, b := two[0].Canon(false), two[1].Canon(false); a != b && differ < 3 {
				differ++
				hm := Human(h, i)
				hm["then"] = "the same request once more, immediately afterwards"
				run.AddViolation(report.Violation{Kind: "counterexample", What: "C10: the same request served twice in succession on one container (recovery on) is answered differently: what an earlier request left behind shows in the answer to a later one",
					Case: []string{h.Line}, Human: hm, Real: fmt.Sprintf("%.3000s", b), Model: fmt.Sprintf("%.3000s", a)})
			}
		}
	}
	return nil
}

func reportOne(run *report.Run, p PropSpec, h *History, i int, kind, what string) {
	fails := func(c *Cfg, rq SReq) bool {
		hh, err := RunOne(c, []SReq{rq})
		if err != nil {
			return false
		}
		known := ""
		if p.Known != nil {
			known = p.Known(hh.Spec[0])
		}
		agree := p.Proj(hh.Real[0], hh.BlankBody(0)) == p.Proj(hh.Model[0], hh.BlankBody(0))
		if kind == "counterexample" {
			return hh.Spec[0][p.SpecKey] != "1" && !(known != "" && agree)
		}
		return !agree && known == ""
	}
	cfg, rq := h.Cfg, h.Reqs[i]
	if fails(cfg, rq) { // reproducible in isolation: shrink it
		cfg, rq = shrink(cfg, rq, fails)
	}
	hh, err := RunOne(cfg, []SReq{rq})
	v := report.Violation{Kind: kind, What: what}
	if err == nil && fails(cfg, rq) {
		v.Case, v.Human, v.Real, v.Model = []string{hh.Line}, Human(hh, 0), hh.Real[0].Canon(false), hh.Model[0].Canon(false)
	} else {
		v.Case, v.Human, v.Real, v.Model = []string{h.Line}, Human(h, i), h.Real[i].Canon(false), h.Model[i].Canon(false)
	}
	if kind == "correspondence" {
		v.NoInput = true
		v.Theorem = "correspondence stream serve (projection of " + p.ID + ")"
	}
	run.AddViolation(v)
}

// CheckPurity is C19 on the real code: every request of a history must be answered as on a fresh
// container, with tracing on as with tracing off, and concurrently as sequentially.
func CheckPurity(run *report.Run, o GenOpts, n, maxLen int) error {
	hs, err := Run(run.Seed*2147483647+7, n, o, maxLen)
	if err != nil {
		return err
	}
	bad, leakOwn := 0, 0
	var leakForeign []report.Violation
	defer func() {
		if leakOwn == 0 {
			for _, v := range leakForeign {
				run.AddViolation(v)
			}
		}
	}()
	report1 := func(h *History, i int, what, a, b string) {
		if bad < 3 {
			bad++
			run.AddViolation(report.Violation{Kind: "counterexample", What: what, Case: []string{h.Line}, Human: Human(h, i), Real: a, Model: b})
		}
	}
	for _, h := range hs {
		// (0) model = implementation on the whole projection
		for i := range h.Reqs {
			run.Evaluations++
			run.TracesValidated++
			blank := h.BlankBody(i)
			run.Count("history-position:" + map[bool]string{true: "first", false: "later"}[i == 0])
			if len(h.Real[i].Log) > 1 {
				run.Distinct[h.Line+"|"+fmt.Sprint(i)] = true
			}
			if l := h.Real[i].Leaks; len(l) > 0 {
				// the values are drawn from a large space: a leaked value that a script of THIS history
				// writes was written by an earlier request of this history (a self-contained failing
				// input); any other comes from a history served earlier in the run
				own := false
				for _, kv := range l {
					own = own || writesPP(h.Cfg, kv)
				}
				hm := Human(h, i)
				hm["leaked_path_parameters"] = l
				hm["written_by_an_earlier_request_of_this_history"] = own
				v := report.Violation{Kind: "counterexample", Case: []string{h.Line}, Human: hm, Real: fmt.Sprint(l), Model: "[]",
					What: fmt.Sprintf("C19: a stage of request %d of the history sees path parameters %v that this request did not write: another request wrote them into its req.PathParameters()", i, l)}
				if own && leakOwn < 3 {
					leakOwn++
					run.AddViolation(v)
				} else if !own && len(leakForeign) < 3 {
					leakForeign = append(leakForeign, v)
				}
			}
			if a, b := h.Real[i].Canon(blank), h.Model[i].Canon(blank); a != b && run.DisagreementsChecked < 3 {
				run.DisagreementsChecked++
				run.AddViolation(report.Violation{Kind: "correspondence", NoInput: true, What: "model and implementation disagree on a request of the purity stream",
					Theorem: "correspondence stream purity", Case: []string{h.Line}, Human: Human(h, i), Real: a, Model: b})
			}
		}
		// (1) position independence: request i alone on a fresh container and a fresh provider
		for i, rq := range h.Reqs {
			if i == 0 {
				continue
			}
			cont, err := Build(h.Cfg)
			if err != nil {
				return err
			}
			led := Install(h.Cfg.Provider)
			fresh := Serve(cont, h.Cfg, rq, led)
			blank := h.BlankBody(i)
			if a, b := h.Real[i].Canon(blank), fresh.Canon(blank); a != b {
				report1(h, i, fmt.Sprintf("C19: the response to request %d of the history differs from the response of a fresh container to the same request", i), a, b)
			}
			run.Count("fresh-replays")
		}
		// (2) tracing on
		restful.TraceLogger(stdlog.New(io.Discard, "", 0)) // sets the trace logger and enables tracing
		cont, err := BuildFor(h.Cfg, h.Reqs)
		if err != nil {
			restful.EnableTracing(false)
			return err
		}
		led := Install(h.Cfg.Provider)
		for i, rq := range h.Reqs {
			tr := Serve(cont, h.Cfg, rq, led)
			blank := h.BlankBody(i)
			if a, b := h.Real[i].Canon(blank), tr.Canon(blank); a != b {
				report1(h, i, "C19: the response differs when trace logging is enabled", a, b)
			}
			run.Count("traced-replays")
		}
		restful.EnableTracing(false)
		// (3) the same requests issued concurrently on one container (no custom recover handler involved:
		// it gets no request and could not be attributed)
		if !h.Cfg.Recover || !h.Cfg.HasRS {
			cont, err := Build(h.Cfg)
			if err != nil {
				return err
			}
			led := Install(h.Cfg.Provider)
			res := make([]*Result, len(h.Reqs)*3)
			var wg sync.WaitGroup
			// a rendezvous at the first container filter makes the requests overlap for certain: each has
			// built its chain, none has walked past the first filter
			gate := NewGate(gatedCount(h, len(res)))
			for k := range res {
				wg.Add(1)
				go func(k int) {
					defer wg.Done()
					res[k] = ServeGated(cont, h.Cfg, h.Reqs[k%len(h.Reqs)], led, gate)
				}(k)
			}
			wg.Wait()
			for k, r := range res {
				i := k % len(h.Reqs)
				blank := h.BlankBody(i)
				// ledger deltas cannot be attributed to one request under concurrency
				a, b := *h.Real[i], *r
				a.Acq, a.Rel, b.Acq, b.Rel = 0, 0, 0, 0
				if !r.Complete || a.Canon(blank) != b.Canon(blank) {
					report1(h, i, "C19: the response differs when the same requests are served concurrently", a.Canon(blank), b.Canon(blank))
				}
				run.Count("concurrent-replays")
			}
			if led.Outstanding() != 0 {
				report1(h, 0, "C19/C13: compressors still outstanding after a concurrent batch", fmt.Sprint(led.Outstanding()), "0")
			}
		}
		// (4) "whichever other requests were served before": every request is preceded by the same
		// request from a client whose connection breaks after a few body bytes (fault traffic, its
		// answer is not looked at); the request itself must be answered as in (0), and the fault must
		// leave nothing behind in the compressor provider
		{
			cont, err := Build(h.Cfg)
			if err != nil {
				return err
			}
			led := Install(h.Cfg.Provider)
			for i, rq := range h.Reqs {
				ServeFailing(cont, h.Cfg, rq, led, (i*7+len(h.Line))%23)
				after := Serve(cont, h.Cfg, rq, led)
				blank := h.BlankBody(i)
				if a, b := h.Real[i].Canon(blank), after.Canon(blank); a != b {
					report1(h, i, "C19: the response differs after a request whose client connection broke", a, b)
				}
				run.Count("after-broken-connection-replays")
			}
			if _, _, dbl := led.Snapshot(); dbl != 0 || led.Outstanding() != 0 {
				report1(h, 0, "C19/C13: a request whose client connection broke left the compressor provider inconsistent (an object released twice or never: later requests can be handed an object that is still in use)",
					fmt.Sprintf("anomalies=%d outstanding=%d", dbl, led.Outstanding()), "anomalies=0 outstanding=0")
			}
		}
	}
	return nil
}

// gatedCount: how many of the k requests of a concurrent batch reach the first container filter
func gatedCount(h *History, k int) int {
	n := 0
	for i := 0; i < k; i++ {
		switch rq := h.Reqs[i%len(h.Reqs)]; {
		case rq.Entry == "muxHandle" || rq.Entry == "serveHandle":
		case rq.CondPanic != "": // the panic is raised during route selection: no filter is reached
		default:
			n++
		}
	}
	return n
}

// CheckConcurrent: every request of a history is served 3× concurrently on one container, with a
// rendezvous at the first container filter; each answer's projection must equal the sequential one.
func CheckConcurrent(run *report.Run, p PropSpec, o GenOpts, n, maxLen int) error {
	return checkConcurrent(run, p, o, n, maxLen, false)
}

// CheckConcurrentAfterFaults is CheckConcurrent on a container (and compressor provider) that has
// served fault traffic before: every request of the history once to a client whose connection breaks
// after a few body bytes (how many is drawn per request), so that what the framework writes when it
// finishes the response — the rest of the coded stream, its trailer — fails. The answers to the fault
// traffic are not looked at; the answers of the overlapping requests that follow must be the
// sequential ones, and the provider's books must be in order.
func CheckConcurrentAfterFaults(run *report.Run, p PropSpec, o GenOpts, n, maxLen int) error {
	return checkConcurrent(run, p, o, n, maxLen, true)
}

func checkConcurrent(run *report.Run, p PropSpec, o GenOpts, n, maxLen int, faults bool) error {
	SmallPayloads = true
	o.Overlap = true
	seed := run.Seed*7368787 + 3
	if faults {
		seed += 2
	}
	hs, err := Run(seed, n, o, maxLen)
	SmallPayloads = false
	if err != nil {
		return err
	}
	bad := 0
	fr := rng.New(seed ^ 0x5bd1e995)
	for hi, h := range hs {
		if h.Cfg.Recover && h.Cfg.HasRS {
			continue // the custom recover handler gets no request and could not be attributed
		}
		cont, err := Build(h.Cfg)
		if err != nil {
			return err
		}
		led := Install(h.Cfg.Provider)
		if faults {
			r := fr.Fork(uint64(hi))
			for _, rq := range h.Reqs {
				ServeFailing(cont, h.Cfg, rq, led, r.Intn(48))
				run.Count("fault-traffic:broken-connection")
			}
		}
		res := make([]*Result, len(h.Reqs)*3)
		var wg sync.WaitGroup
		gate := NewGate(gatedCount(h, len(res)))
		for k := range res {
			wg.Add(1)
			go func(k int) {
				defer wg.Done()
				res[k] = ServeGated(cont, h.Cfg, h.Reqs[k%len(h.Reqs)], led, gate)
			}(k)
		}
		wg.Wait()
		for k, r := range res {
			i := k % len(h.Reqs)
			blank := h.BlankBody(i)
			run.Evaluations++
			run.TracesValidated++
			run.Count("concurrent-replays")
			if a, b := p.Proj(h.Real[i], blank), p.Proj(r, blank); a != b && bad < 3 {
				bad++
				run.AddViolation(report.Violation{Kind: "counterexample", What: p.ID + ": a request served concurrently with others (all held at the first container filter, then released) is answered differently from the same request served alone",
					Case: []string{h.Line}, Human: Human(h, i), Real: a, Model: b})
			}
		}
		if _, _, dbl := led.Snapshot(); faults && (dbl != 0 || led.Outstanding() != 0) && bad < 3 {
			bad++
			hm := Human(h, 0)
			hm["before"] = "every request of the history served once to a client whose connection breaks after a few body bytes, then all of them 3x concurrently"
			run.AddViolation(report.Violation{Kind: "counterexample", What: p.ID + ": after requests whose client connection broke and a batch of overlapping requests the compressor provider's books are not in order (an object released twice, handed out while in use, or never returned): responses that are in flight at the same moment can share a compressor",
				Case: []string{h.Line}, Human: hm, Real: fmt.Sprintf("anomalies=%d outstanding=%d", dbl, led.Outstanding()), Model: "anomalies=0 outstanding=0"})
		}
	}
	return nil
}

// writesPP: some script of the configuration writes the path parameter kv.
func writesPP(cfg *Cfg, kv [2]string) bool {
	in := func(as []Act) bool {
		for _, a := range as {
			if a.K == "pp" && a.B == kv[0] && a.V == kv[1] {
				return true
			}
		}
		return false
	}
	inF := func(fs []Filter) bool {
		for _, f := range fs {
			if in(f.Pre) || in(f.Post) {
				return true
			}
		}
		return false
	}
	if inF(cfg.CF) {
		return true
	}
	for _, fs := range cfg.SvcF {
		if inF(fs) {
			return true
		}
	}
	for _, rx := range cfg.RouteX {
		if in(rx.Script) || inF(rx.Filters) {
			return true
		}
	}
	return false
}
