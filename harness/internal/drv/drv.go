// Package drv runs the Lean driver (a compiled core-only lean_exe) over a batch of lines.
package drv

import (
	"bufio"
	"bytes"
	"fmt"
	"os"
	"os/exec"
	"strings"
)

// Path of the driver binary; set by main from --driver or VERIF_DRIVER.
var Path = "/verif/lean/.lake/build/bin/driver"

// Run pipes the lines to the driver and returns one answer per line.
func Run(lines []string) ([]string, error) {
	cmd := exec.Command(Path)
	var in bytes.Buffer
	for _, l := range lines {
		in.WriteString(l)
		in.WriteByte('\n')
	}
	cmd.Stdin = &in
	cmd.Stderr = os.Stderr
	out, err := cmd.Output()
	if err != nil {
		return nil, fmt.Errorf("driver %s: %v", Path, err)
	}
	var res []string
	sc := bufio.NewScanner(bytes.NewReader(out))
	sc.Buffer(make([]byte, 1<<20), 1<<28)
	for sc.Scan() {
		res = append(res, strings.TrimRight(sc.Text(), "\r"))
	}
	if len(res) != len(lines) {
		return res, fmt.Errorf("driver answered %d lines for %d cases", len(res), len(lines))
	}
	return res, nil
}
