// Package rng is the single PRNG every generator draws from (splitmix64), so that a
// (seed, case index) pair replays exactly, independent of the Go version.
package rng

type R struct{ s uint64 }

func New(seed uint64) *R { return &R{s: seed*0x9E3779B97F4A7C15 + 0x1234567} }

func (r *R) U64() uint64 {
	r.s += 0x9E3779B97F4A7C15
	z := r.s
	z = (z ^ (z >> 30)) * 0xBF58476D1CE4E5B9
	z = (z ^ (z >> 27)) * 0x94D049BB133111EB
	return z ^ (z >> 31)
}

// Intn returns a value in [0, n).
func (r *R) Intn(n int) int {
	if n <= 0 {
		return 0
	}
	return int(r.U64() % uint64(n))
}

// Chance is true with probability num/den.
func (r *R) Chance(num, den int) bool { return r.Intn(den) < num }

func (r *R) Pick(xs []string) string { return xs[r.Intn(len(xs))] }

// Fork derives an independent stream (used so that a case is a function of (seed, index)).
func (r *R) Fork(i uint64) *R { return New(r.s ^ (i+1)*0xD6E8FEB86659FD93) }

// Perm returns a random permutation of 0..n-1.
func (r *R) Perm(n int) []int {
	p := make([]int, n)
	for i := range p {
		p[i] = i
	}
	for i := n - 1; i > 0; i-- {
		j := r.Intn(i + 1)
		p[i], p[j] = p[j], p[i]
	}
	return p
}
