package entity

import (
	"bytes"
	"compress/gzip"
	"compress/zlib"
	"crypto/sha1"
	"encoding/hex"
	"fmt"
	"io"
	"reflect"
	"sort"
	"strings"

	"verifharness/internal/drv"
	"verifharness/internal/report"
	"verifharness/internal/rng"
	"verifharness/internal/sx"
)

// FormerF62 names the finding repaired by 8b400b4 (class Entity.f62 in Lean: two registered keys with
// different readers occur in the Content-Type; the reader used to depend on Go's map iteration
// order, it now is the one of the key that occurs first).  Like F61 below: the class excuses
// nothing, is computed on both sides and counted, and its former witness runs as a regression.
// C16 has no open finding: no class excuses a failing read.
const FormerF62 = "F62"

// RepairF62 is the commit that repaired it.
const RepairF62 = "8b400b4"

// FormerF61 names the finding repaired by 75d0593 (class Entity.f61 in Lean: the declared coding's
// stream breaks after a complete document).  The class excuses nothing: a failing read in it is a
// violation like any other.  It is still computed on both sides and counted, so that the check can
// tell that its stream keeps visiting it, and its former witnesses run as regressions on every run.
const FormerF61 = "F61"

// RepairF61 is the commit that repaired it.
const RepairF61 = "75d0593"

// ---- validation of the hypotheses (CodecLaws) on what this run uses ----

// Laws counts, per law of `CodecLaws`, how often it was checked against the standard library.
type Laws struct {
	Checked  map[string]int
	Failures []map[string]interface{}
	dirty    *gzip.Reader // one long-lived reader that goes through every body of the run (reset_law)
	kept     *gzip.Reader // another one: read by an entity decoder, then on to the end (terminal_kept)
}

func NewLaws() *Laws {
	zr, err := gzip.NewReader(bytes.NewReader(gzipBytes(nil, gzip.BestSpeed)))
	if err != nil {
		panic(err)
	}
	zk, err := gzip.NewReader(bytes.NewReader(gzipBytes(nil, gzip.BestSpeed)))
	if err != nil {
		panic(err)
	}
	return &Laws{Checked: map[string]int{}, dirty: zr, kept: zk}
}

func (l *Laws) fail(law string, rd Read, detail string) {
	if len(l.Failures) < 5 {
		l.Failures = append(l.Failures, map[string]interface{}{"law": law, "detail": detail, "value_type": rd.Val.Type,
			"value": Canon(rd.Val.V), "written_hex": hex.EncodeToString(rd.Written), "body_hex": hex.EncodeToString(rd.Body)})
	}
}

// Validate checks every law on the value and the body of one read.
func (l *Laws) Validate(rd Read, or Oracle) {
	// json_round / xml_round: what the real writer produced decodes (standard decoder) to the value
	law := rd.Kind + "_round"
	l.Checked[law]++
	d := Decode(rd.Kind, Stream{HdrOK: true, Data: rd.Written}, false, rd.Val.NewTarget)
	switch {
	case !d.OK:
		l.fail(law, rd, "the writer's output does not decode")
	case d.Canon != Canon(rd.Val.V):
		l.fail(law, rd, "decodes to "+d.Canon)
	case rd.Val.Deep && !reflect.DeepEqual(d.Val, rd.Val.V):
		l.fail(law, rd, "canonical text equal but reflect.DeepEqual false")
	}
	// gz_round / zl_round
	l.Checked["gz_round"]++
	if s := FreshGzip(gzipBytes(rd.Written, rd.Level)); !s.Clean() || !bytes.Equal(s.Data, rd.Written) {
		l.fail("gz_round", rd, fmt.Sprintf("level %d", rd.Level))
	}
	l.Checked["zl_round"]++
	if s := FreshZlib(zlibBytes(rd.Written)); !s.Clean() || !bytes.Equal(s.Data, rd.Written) {
		l.fail("zl_round", rd, "")
	}
	// the body itself when it is the faithful output of ANOTHER legal encoder (a hand-built zlib
	// header, a gzip header with optional fields): the standard reader takes it like its own writer's
	if rd.Status == "good" && (rd.Enc.Window != 0 || rd.Enc.Gz) {
		law := "zl_round_any_legal_header"
		s := or.ZL.S
		if rd.Coding == "gzip" {
			law, s = "gz_round_any_legal_header", or.GZ.S
		}
		l.Checked[law]++
		if !s.Clean() || !bytes.Equal(s.Data, rd.Written) {
			l.fail(law, rd, rd.Enc.String())
		}
	}
	// reset_law: a reader that has been through every earlier body of the run, Reset onto this one,
	// behaves like a fresh reader on it — also when Reset reports an error (then every Read returns it)
	l.Checked["reset_law"]++
	func() {
		defer func() {
			if p := recover(); p != nil {
				l.fail("reset_law", rd, fmt.Sprintf("panic after Reset: %v", p))
			}
		}()
		var data []byte
		var term error
		if err := l.dirty.Reset(bytes.NewReader(rd.Body)); err != nil {
			n, rerr := l.dirty.Read(make([]byte, 16))
			if n != 0 || rerr == nil {
				l.fail("reset_law", rd, fmt.Sprintf("after a failed Reset, Read returned (%d, %v)", n, rerr))
			}
			term = err
		} else {
			data, term = io.ReadAll(l.dirty)
		}
		if !bytes.Equal(data, or.GZ.S.Data) || (term == nil) != (or.GZ.S.Term == nil) {
			l.fail("reset_law", rd, fmt.Sprintf("reused reader delivered %d bytes, term %v; fresh reader %d bytes, term %v", len(data), term, len(or.GZ.S.Data), or.GZ.S.Term))
		}
	}()
	// terminal_kept — what the model's `Stream` (data, then ONE terminal condition) builds in: a
	// decompressor keeps the condition it ends with.  An entity decoder that stops after the first
	// document (or fails), followed by reading on to the end (what ReadEntity does since 75d0593),
	// meets the same end — clean EOF or error — as reading everything at once; on a reused gzip
	// reader (Reset, error dropped, as request.go does) and on a zlib reader.
	for _, kind := range []string{"json", "xml"} {
		l.Checked["terminal_kept"]++
		func() {
			defer func() {
				if p := recover(); p != nil {
					l.fail("terminal_kept", rd, fmt.Sprintf("panic while reading on after the %s decoder: %v", kind, p))
				}
			}()
			resetErr := l.kept.Reset(bytes.NewReader(rd.Body))
			decodeWith(kind, l.kept, rd.Val.NewTarget())
			_, err := io.Copy(io.Discard, l.kept)
			if resetErr != nil {
				// a reader whose Reset failed delivers nothing and keeps that error (for an empty body it is
				// io.EOF itself): the stream `⟨[], false⟩` of the model, in which no decoder finds a document
				err = resetErr
			}
			if (err == nil) != (or.GZ.S.Term == nil) {
				l.fail("terminal_kept", rd, fmt.Sprintf("gzip: reading on after the %s decoder ended with %v, reading everything at once with %v", kind, err, or.GZ.S.Term))
			}
			if !or.ZL.S.HdrOK {
				return
			}
			zr, err := zlib.NewReader(bytes.NewReader(rd.Body))
			if err != nil {
				l.fail("terminal_kept", rd, "zlib.NewReader accepted the header once and refused it the second time")
				return
			}
			decodeWith(kind, zr, rd.Val.NewTarget())
			if _, err := io.Copy(io.Discard, zr); (err == nil) != (or.ZL.S.Term == nil) {
				l.fail("terminal_kept", rd, fmt.Sprintf("zlib: reading on after the %s decoder ended with %v, reading everything at once with %v", kind, err, or.ZL.S.Term))
			}
		}()
	}
}

func (l *Laws) Total() int {
	n := 0
	for _, v := range l.Checked {
		n += v
	}
	return n
}

// ---- one executed case ----

type ReadResult struct {
	Read        Read
	Oracle      Oracle
	Real, Alone Obs
	// the driver's answer
	Model         []string // keys of every result the model allows: ok:<canon> | err400 | err
	ModelRaw      string
	Dec, Acc, Tag string
	Ev, Rid       string
	S, F61, F62   bool
	Clauses       string // no panic, round trip, broken coding, broken syntax, history independence, ledger: "1" = holds
}

// Soft counts agreement with the model beyond the property's projection.
type Soft struct{ Reads, ErrorClass, Ledger, ReaderObject int }

func proj(k string) string {
	if strings.HasPrefix(k, "ok:") || k == "panic" {
		return k
	}
	return "err"
}

func projAll(ks []string) []string {
	var out []string
	for _, k := range ks {
		out = append(out, proj(k))
	}
	return out
}

type Case struct {
	Soft   Soft
	H      History
	Line   string
	Answer string
	Reads  []ReadResult
	Spec   bool
	WF     bool
}

// Execute runs a history on the real code (then every request alone on a fresh provider).
func Execute(h History, laws *Laws) *Case {
	c := &Case{H: h}
	s := NewSession(h.Cfg)
	// the reads in order on one provider; reads joined by Same on one *restful.Request, directly or as
	// the stages of one container dispatch (Session.Run). The model has no request object: to it every
	// read is a read of the headers and the body that are on the request at that moment
	obs := s.Run(h.Reads)
	for i, rd := range h.Reads {
		or := OracleOf(rd)
		if laws != nil {
			laws.Validate(rd, or)
		}
		c.Reads = append(c.Reads, ReadResult{Read: rd, Oracle: or, Real: obs[i]})
	}
	for i := range c.Reads {
		c.Reads[i].Alone = NewSession(h.Cfg).ReadOne(c.Reads[i].Read)
	}
	Restore()
	n := sx.K("entity", sx.N(0), h.Cfg.Sx())
	for _, r := range c.Reads {
		n.List = append(n.List, ReadSx(r.Read, r.Oracle, r.Real, r.Alone))
	}
	c.Line = n.String()
	return c
}

func modelKey(n *sx.Node) string {
	if n.Head() == "ok" {
		return "ok:" + n.Args()[0].Str()
	}
	if n.Head() == "err" && len(n.Args()) > 0 && n.Args()[0].Atom == "no-reader-400" {
		return "err400"
	}
	return "err"
}

// Fill parses the driver's answer into the case.
func (c *Case) Fill(answer string) error {
	c.Answer = answer
	n, err := sx.Parse(answer)
	if err != nil {
		return fmt.Errorf("driver answer %q: %v", answer, err)
	}
	if n.Head() != "out" {
		return fmt.Errorf("driver rejected the case: %s", answer)
	}
	k := 0
	for _, item := range n.Args() {
		switch item.Head() {
		case "r":
			if k >= len(c.Reads) {
				return fmt.Errorf("driver answered more reads than sent")
			}
			r := &c.Reads[k]
			k++
			r.ModelRaw = item.Find("res").String()
			r.Model = nil
			for _, res := range item.Find("res").Args() {
				r.Model = append(r.Model, modelKey(res))
			}
			r.Dec = item.Find("dec").Args()[0].Atom
			r.Acc = item.Find("acc").Args()[0].Atom
			r.Tag = item.Find("tag").Args()[0].Atom
			r.Ev = item.Find("ev").Args()[0].Atom
			if r.Ev == "-" {
				r.Ev = ""
			}
			r.Rid = item.Find("rid").Args()[0].Atom
			r.S = item.Find("s").Args()[0].Atom == "1"
			r.Clauses = item.Find("cl").Args()[0].Atom
			if len(r.Clauses) != 6 || r.S != (r.Clauses == "111111") {
				return fmt.Errorf("driver: clause bits %q inconsistent with the predicate", r.Clauses)
			}
			r.F61 = item.Find("f61").Args()[0].Atom == "1"
			r.F62 = item.Find("f62").Args()[0].Atom == "1"
		case "spec":
			c.Spec = item.Args()[1].Atom == "1"
		case "wf":
			c.WF = item.Args()[0].Atom == "1"
		}
	}
	if k != len(c.Reads) {
		return fmt.Errorf("driver answered %d reads for %d", k, len(c.Reads))
	}
	return nil
}

// RunOne executes a history and asks the driver about it.
func RunOne(h History) (*Case, error) {
	c := Execute(h, nil)
	ans, err := drv.Run([]string{c.Line})
	if err != nil {
		return nil, err
	}
	return c, c.Fill(ans[0])
}

// ---- the Go side of the two classes (both of repaired findings: coverage only) ----

// selectedReader is the Go side of Lean's Entity.accessorsFor, for the class predicates only
// (cross-checked against the Lean definition on every read): the reader of the exact key, else of
// the registered key that occurs first in the value (the longest of those that start there), the
// same for the default request content type when the Content-Type finds none.
func selectedReader(cfg Cfg, ct string) []string {
	at := func(m string) []string {
		for _, e := range cfg.Registry {
			if e[0] == m {
				return []string{e[1]}
			}
		}
		best, pos := -1, -1
		for i, e := range cfg.Registry {
			p := strings.Index(m, e[0])
			if p < 0 {
				continue
			}
			if best < 0 || p < pos || (p == pos && len(e[0]) > len(cfg.Registry[best][0])) {
				best, pos = i, p
			}
		}
		if best < 0 {
			return nil
		}
		return []string{cfg.Registry[best][1]}
	}
	if a := at(ct); len(a) > 0 {
		return a
	}
	if cfg.Default != "" {
		return at(cfg.Default)
	}
	return nil
}

// accessors is the classifier of the former class F62 (which registered keys occur in the
// Content-Type: every reader the lookup could answer with before 8b400b4, Lean: accessorAtAnyOrder).
func accessors(cfg Cfg, ct string) []string {
	at := func(m string) []string {
		for _, e := range cfg.Registry {
			if e[0] == m {
				return []string{e[1]}
			}
		}
		set := map[string]bool{}
		for _, e := range cfg.Registry {
			if strings.Contains(m, e[0]) {
				set[e[1]] = true
			}
		}
		var out []string
		for k := range set {
			out = append(out, k)
		}
		sort.Strings(out)
		return out
	}
	if a := at(ct); len(a) > 0 {
		return a
	}
	if cfg.Default != "" {
		return at(cfg.Default)
	}
	return nil
}

// ClassF61 (class of the finding repaired by 75d0593; excuses nothing): the declared coding's stream
// breaks after a complete document for a selectable reader.
func ClassF61(cfg Cfg, r ReadResult) bool {
	f := r.Oracle.Declared(r.Read.CE)
	if f.S.Clean() || !f.S.HdrOK {
		return false
	}
	for _, k := range selectedReader(cfg, r.Read.CT) {
		if (k == "json" && f.JDoc.OK) || (k == "xml" && f.XDoc.OK) {
			return true
		}
	}
	return false
}

// ClassF62 (class of the finding repaired by 8b400b4; excuses nothing): two registered keys with
// different readers occur in the Content-Type.
func ClassF62(cfg Cfg, r ReadResult) bool { return len(accessors(cfg, r.Read.CT)) > 1 }

// ---- judging ----

type Issue struct {
	Index int
	Kind  string // spec | mismatch
	Known string // finding id when a spec failure lies in a known class
	What  string
}

func contains(xs []string, x string) bool {
	for _, y := range xs {
		if y == x {
			return true
		}
	}
	return false
}

// Judge compares real and model and reads the predicate, read by read.
func (c *Case) Judge() (issues []Issue, err error) {
	c.Soft = Soft{}
	for i, r := range c.Reads {
		if g61, g62 := ClassF61(c.H.Cfg, r), ClassF62(c.H.Cfg, r); g61 != r.F61 || g62 != r.F62 {
			return nil, fmt.Errorf("class predicates disagree between Lean and Go on read %d: f61 %v/%v f62 %v/%v\n%s", i, r.F61, g61, r.F62, g62, c.Line)
		}
		// no class excuses a failing read: C16 has no open finding; the classes of the repaired F61 and
		// F62 (r.F61, r.F62) are coverage information
		known := ""
		// finer agreement with the model is measured, not demanded (a refactoring may keep the property and change these)
		c.Soft.Reads++
		if contains(r.Model, r.Real.Key2()) {
			c.Soft.ErrorClass++
		}
		if r.Ev == r.Real.Events {
			c.Soft.Ledger++
		}
		if c.H.Cfg.Provider != "bounded" || r.Rid == ridAtom(r.Real.Rid).Atom {
			c.Soft.ReaderObject++
		}
		if !r.S {
			issues = append(issues, Issue{Index: i, Kind: "spec", Known: known, What: c.specReason(r)})
			continue
		}
		var diffs []string
		// the projection C16 constrains: the value read back, or that it is an error (which error is not the property's business)
		if !contains(projAll(r.Model), proj(r.Real.Key2())) {
			diffs = append(diffs, fmt.Sprintf("result: real %s, model allows %v", r.Real.Key2(), r.Model))
		}
		if len(diffs) > 0 {
			issues = append(issues, Issue{Index: i, Kind: "mismatch", Known: known, What: strings.Join(diffs, "; ")})
		}
	}
	return issues, nil
}

// Key2 is the observation in the vocabulary of the model's keys (short canonical text).
func (o Obs) Key2() string {
	if o.Class == "ok" {
		return "ok:" + short(o.Canon)
	}
	return o.Class
}

// specReason says in words which clause of the predicate the real outcome falsifies.
func (c *Case) specReason(r ReadResult) string {
	var why []string
	f := r.Oracle.Declared(r.Read.CE)
	if r.Real.Class == "panic" {
		why = append(why, "ReadEntity panicked: "+r.Real.Detail)
	}
	if r.Read.Faithful && r.Real.Key2() != "ok:"+short(Canon(r.Read.Val.V)) {
		why = append(why, "a faithful body did not read back equal (or its Content-Type's reader was not used): got "+r.Real.Key2())
	}
	if !f.S.Clean() && r.Real.Class == "ok" {
		why = append(why, "the declared coding is broken on this body, yet no error")
	}
	if f.S.Clean() && r.Real.Class == "ok" && !r.Read.Faithful {
		why = append(why, "syntax broken for the selected reader, yet no error")
	}
	if r.Real.Key2() != r.Alone.Key2() {
		why = append(why, "result differs from the same request read alone (a request of its own, a fresh provider): "+r.Alone.Key2())
	}
	if r.Read.Same {
		why = append(why, "(this read is a later ReadEntity on the *restful.Request of the read before it, its body put in place)")
	}
	if e := r.Real.Events; e != "" && !(strings.HasPrefix(e, "a") && strings.HasSuffix(e, "r") && strings.Count(e, "a") == 1 && strings.Count(e, "r") == 1) {
		why = append(why, "pooled reader ledger "+e+" (a = acquire, u = body read, r = release; the release must come last, once)")
	}
	if len(why) == 0 {
		why = append(why, "Spec.C16.readHolds is false")
	}
	return strings.Join(why, "; ")
}

// ---- human-readable form of a case (replay files) ----

func Human(c *Case) map[string]interface{} {
	reads := []interface{}{}
	for i, r := range c.Reads {
		reads = append(reads, map[string]interface{}{
			"index": i, "content_type": r.Read.CT, "content_encoding": r.Read.CE, "body_hex": hex.EncodeToString(r.Read.Body),
			"body_is":       fmt.Sprintf("%s value (%s) written by %s pretty=%v, coded %q (gzip level %d; %s), then: %s", r.Read.Kind, r.Read.Val.Type, r.Read.API, r.Read.Pretty, r.Read.Coding, r.Read.Level, r.Read.Enc, r.Read.Status),
			"value_written": Canon(r.Read.Val.V), "target": fmt.Sprintf("%T", r.Read.Val.NewTarget()), "value_type": r.Read.Val.Type,
			"kind": r.Read.Kind, "faithful": r.Read.Faithful, "written_hex": hex.EncodeToString(r.Read.Written),
			"same_request_as_previous": r.Read.Same && i > 0, "group_runs_inside_a_container_dispatch": r.Read.Dispatch, "performed_by": StageOf(c.H.Reads, i),
			"real": r.Real.Key() + " " + r.Real.Detail, "real_ledger": r.Real.Events, "alone_on_fresh_provider": r.Alone.Key(),
			"model": r.ModelRaw, "model_path": r.Tag, "predicate": r.S, "class_of_repaired_F61": r.F61, "class_of_repaired_F62": r.F62,
		})
	}
	return map[string]interface{}{"provider": fmt.Sprintf("%s cap=%d", c.H.Cfg.Provider, c.H.Cfg.Cap), "provider_kind": c.H.Cfg.Provider, "provider_capacity": c.H.Cfg.Cap, "default_request_content_type": c.H.Cfg.Default,
		"registry": c.H.Cfg.Registry, "reads": reads,
		"how_to_replay": "SetCompressorProvider(provider); DefaultRequestContentType(default); for each read in order: req := restful.NewRequest(&http.Request{Header: {Content-Type, Content-Encoding}, Body: body}); req.ReadEntity(new(target)) — a read with same_request_as_previous is performed on the req of the read before it: set the two headers, req.Request.Body = body, req.ReadEntity(new(target)); performed_by says whether the harness called ReadEntity directly or from a filter / the route function of one container dispatch (POST /e/r)"}
}

// ---- shrinking ----

// Shrink drops reads and simplifies the configuration while `bad` holds.
func Shrink(h History, bad func(History) bool) History {
	budget := 120
	try := func(c History) bool {
		if budget <= 0 {
			return false
		}
		budget--
		return bad(c)
	}
	changed := true
	for changed && budget > 0 {
		changed = false
		for i := 0; i < len(h.Reads) && len(h.Reads) > 1; i++ {
			c := h
			c.Reads = append(append([]Read{}, h.Reads[:i]...), h.Reads[i+1:]...)
			if try(c) {
				h, changed = c, true
				i--
			}
		}
		if h.Cfg.Default != "" {
			c := h
			c.Cfg.Default = ""
			if try(c) {
				h, changed = c, true
			}
		}
		if h.Cfg.Provider != "sync" {
			c := h
			c.Cfg.Provider, c.Cfg.Cap = "sync", 0
			if try(c) {
				h, changed = c, true
			}
		}
		for i := range h.Reads {
			if rd := h.Reads[i]; rd.Status == "good" && rd.Coding != "" && rd.CE == rd.Coding {
				c := h
				c.Reads = append([]Read{}, h.Reads...)
				c.Reads[i].Coding, c.Reads[i].CE, c.Reads[i].Body = "", "", append([]byte{}, rd.Written...)
				if try(c) {
					h, changed = c, true
				}
			}
		}
		for i := range h.Reads {
			// a request of its own instead of the one of the read before; ReadEntity called directly
			// instead of from the stages of a container dispatch
			if h.Reads[i].Same {
				c := h
				c.Reads = append([]Read{}, h.Reads...)
				c.Reads[i].Same = false
				if try(c) {
					h, changed = c, true
				}
			}
			if h.Reads[i].Dispatch {
				c := h
				c.Reads = append([]Read{}, h.Reads...)
				c.Reads[i].Dispatch = false
				if try(c) {
					h, changed = c, true
				}
			}
		}
		for i := range h.Reads {
			if h.Reads[i].CT != h.Reads[i].BaseCT && h.Reads[i].BaseCT != "" {
				c := h
				c.Reads = append([]Read{}, h.Reads...)
				c.Reads[i].CT = c.Reads[i].BaseCT
				if try(c) {
					h, changed = c, true
				}
			}
		}
	}
	return h
}

func hasUnknown(issues []Issue, kind string) bool {
	for _, is := range issues {
		if is.Kind == kind && is.Known == "" {
			return true
		}
	}
	return false
}

// ---- the check ----

func sig(cfg Cfg, r ReadResult) string {
	h := sha1.Sum(r.Read.Body)
	return fmt.Sprintf("%s%d|%s|%s|%s|%x|%s|%s", cfg.Provider, cfg.Cap, cfg.Default, r.Read.CT, r.Read.CE, h[:8], r.Read.Val.Type, r.Tag)
}

func reportSpec(run *report.Run, c *Case) {
	small := Shrink(c.H, func(h History) bool {
		o, err := RunOne(h)
		if err != nil {
			return false
		}
		is, err := o.Judge()
		return err == nil && hasUnknown(is, "spec")
	})
	o, err := RunOne(small)
	var is []Issue
	if err == nil {
		is, err = o.Judge()
	}
	if err != nil || !hasUnknown(is, "spec") {
		o = c
		is, _ = c.Judge()
	}
	what := "the real outcome falsifies Spec.c16Holds"
	for _, i := range is {
		if i.Kind == "spec" && i.Known == "" {
			what += fmt.Sprintf(" — read %d: %s", i.Index, i.What)
			break
		}
	}
	if reportedLines[o.Line] {
		return
	}
	reportedLines[o.Line] = true
	run.AddViolation(report.Violation{Kind: "counterexample", What: what, Case: []string{o.Line}, Human: Human(o), Model: o.Answer, Real: realSummary(o)})
}

var reportedLines = map[string]bool{}

func realSummary(c *Case) string {
	var parts []string
	for _, r := range c.Reads {
		parts = append(parts, r.Real.Key2()+"/"+r.Real.Events)
	}
	return strings.Join(parts, " ")
}

func reportMismatch(run *report.Run, c *Case, seed uint64, extras bool) {
	run.DisagreementsChecked++
	small := Shrink(c.H, func(h History) bool {
		o, err := RunOne(h)
		if err != nil {
			return false
		}
		is, err := o.Judge()
		return err == nil && hasUnknown(is, "mismatch")
	})
	o, err := RunOne(small)
	var is []Issue
	if err == nil {
		is, err = o.Judge()
	}
	if err != nil || !hasUnknown(is, "mismatch") {
		o = c
		is, _ = c.Judge()
	}
	// neighbourhood: histories that keep the shrunk reads and interleave fresh ones; does the predicate fail anywhere?
	r := rng.New(seed ^ 0x5eed16)
	for k := 0; k < 300; k++ {
		h := History{Cfg: o.H.Cfg}
		g, err := GenHistory(r.Fork(uint64(k)), extras)
		if err != nil {
			continue
		}
		if k%2 == 0 {
			h.Cfg = g.Cfg
			h.Cfg.Registry = o.H.Cfg.Registry
		}
		for i, rd := range g.Reads {
			if i < len(o.H.Reads) && k%3 != 0 {
				h.Reads = append(h.Reads, o.H.Reads[i])
			}
			h.Reads = append(h.Reads, rd)
		}
		n, err := RunOne(h)
		if err != nil {
			continue
		}
		if nis, err := n.Judge(); err == nil && hasUnknown(nis, "spec") {
			reportSpec(run, n)
			return
		}
	}
	what := "model and implementation disagree on ReadEntity; no input falsifying the property was found near it"
	for _, i := range is {
		if i.Kind == "mismatch" && i.Known == "" {
			what += fmt.Sprintf(" — read %d: %s", i.Index, i.What)
			break
		}
	}
	run.AddViolation(report.Violation{Kind: "correspondence", NoInput: true, What: what, Theorem: "correspondence stream entity (model of Request.ReadEntity)",
		Case: []string{o.Line}, Human: Human(o), Model: o.Answer, Real: realSummary(o)})
}

// Check is the C16 check: nReads real reads in histories of 1–12, the last third with extra registry keys.
func Check(run *report.Run, nReads int) error {
	defer Restore()
	laws := NewLaws()
	run.Extra["codec_domain"] = DomainProbe()
	if err := checkRegressions(run); err != nil {
		return err
	}
	if err := checkRegressionsF62(run); err != nil {
		return err
	}
	// how often the stream visits the classes of the repaired findings F61 and F62, and with what around it
	former := map[string]int{}
	former62 := map[string]int{}
	// reads that are a later ReadEntity on the same *restful.Request
	multi := map[string]int{}
	base := rng.New(run.Seed*1000003 + 16)
	specReported, mismatchReported := 0, 0
	histories, reads, idx := 0, 0, uint64(0)
	skippedWrites := 0
	var soft Soft
	for phase := 0; phase < 2; phase++ {
		extras := phase == 1
		target := nReads * 2 / 3
		if extras {
			RegisterExtras()
			target = nReads
		}
		var cases []*Case
		var lines []string
		for reads < target {
			h, err := GenHistory(base.Fork(idx), extras)
			idx++
			if err != nil {
				skippedWrites++
				if skippedWrites > 50 {
					return fmt.Errorf("the entity writers refuse generated values: %v", err)
				}
				continue
			}
			c := Execute(h, laws)
			cases = append(cases, c)
			lines = append(lines, c.Line)
			reads += len(c.Reads)
			histories++
		}
		for off := 0; off < len(lines); off += 500 {
			end := off + 500
			if end > len(lines) {
				end = len(lines)
			}
			answers, err := drv.Run(lines[off:end])
			if err != nil {
				return err
			}
			for i, a := range answers {
				if err := cases[off+i].Fill(a); err != nil {
					return err
				}
			}
		}
		for _, c := range cases {
			run.TracesValidated++
			if !c.WF {
				return fmt.Errorf("the driver says the registry is not well-formed: %s", c.Line)
			}
			issues, err := c.Judge()
			if err != nil {
				return err
			}
			soft.Reads += c.Soft.Reads
			soft.ErrorClass += c.Soft.ErrorClass
			soft.Ledger += c.Soft.Ledger
			soft.ReaderObject += c.Soft.ReaderObject
			formerSeen := false
			for ri, r := range c.Reads {
				run.Count("performed-by:" + StageOf(c.H.Reads, ri))
				if r.Real.Unreached {
					run.Count("performed-by:stage-not-reached-by-the-dispatch,read-on-the-request-all-the-same")
				}
				if r.Read.Same && ri > 0 {
					// a later ReadEntity on a request object that has been through ReadEntity before
					prev := c.Reads[ri-1].Read
					restored := bytes.Equal(prev.Body, r.Read.Body) && prev.CT == r.Read.CT && prev.CE == r.Read.CE
					multi["reads"]++
					multi[map[bool]string{true: "same-bytes-put-back", false: "another-body-or-headers-put-in-place"}[restored]]++
					if r.Read.CE == "" || r.Read.CE == "gzip" || r.Read.CE == "deflate" {
						multi["declared:"+map[string]string{"": "identity", "gzip": "gzip", "deflate": "deflate"}[r.Read.CE]]++
					} else {
						multi["declared:another-value"]++
					}
					if r.Read.Faithful {
						multi["faithful:"+map[string]string{"": "identity", "gzip": "gzip", "deflate": "deflate"}[r.Read.Coding]]++
						if r.Real.Class == "ok" {
							multi["faithful-read-back-equal"]++
						}
					}
					if prev.CE == "gzip" || prev.CE == "deflate" {
						multi["after-a-read-that-installed-a-decompressor"]++
					}
					multi["by:"+StageOf(c.H.Reads, ri)]++
				}
				if r.F61 {
					// class of the repaired finding F61: counted, never excused
					coding := r.Read.CE
					former["reads"]++
					former[coding]++
					former[coding+"/"+r.Read.Kind]++
					former["body:"+r.Read.Status]++
					former["answered:"+r.Real.Class]++
					if r.Read.CE == "gzip" && r.Real.Rid >= 0 && c.H.Cfg.Provider == "bounded" && c.H.Cfg.Cap > 0 {
						former["on-a-pooled-reader-of-a-bounded-provider"]++
					}
					run.Count("former-F61-class")
					run.Count("former-F61-class:" + coding + ":" + r.Read.Status)
					formerSeen = true
				} else if formerSeen {
					former["later-reads-on-the-same-provider"]++
					if r.Read.Faithful && r.Read.CE == "gzip" {
						former["later-faithful-gzip-reads-on-the-same-provider"]++
					}
				}
				if r.F62 {
					// class of the repaired finding F62: counted, never excused
					former62["reads"]++
					former62["written-by:"+r.Read.Kind]++
					former62["answered:"+r.Real.Class]++
					if r.Read.Faithful {
						former62["faithful"]++
						if r.Real.Class == "ok" {
							former62["faithful-read-back-equal"]++
						}
					}
					run.Count("former-F62-class")
				}
				run.Evaluations++
				run.Count("path:" + r.Tag)
				run.Count("body:" + r.Read.Status)
				run.Count("coding:" + map[string]string{"": "identity", "gzip": "gzip", "deflate": "deflate"}[r.Read.Coding])
				switch {
				case r.Read.Enc.Window != 0:
					run.Count(fmt.Sprintf("encoder:hand-built-zlib-header,window-2^%d", r.Read.Enc.Window))
				case r.Read.Enc.Gz:
					run.Count("encoder:gzip-header-with-optional-fields")
				case r.Read.Coding != "":
					run.Count("encoder:go-writer")
				}
				run.Count("ct:" + strings.SplitN(r.Read.CTClass, ":", 2)[0])
				run.Count("real:" + r.Real.Class)
				run.Count("value:" + r.Read.Kind + "/" + r.Read.Val.Type)
				run.Count(fmt.Sprintf("provider:%s%d", c.H.Cfg.Provider, c.H.Cfg.Cap))
				if r.Read.Faithful {
					run.Count("faithful")
					if r.Real.Class == "ok" {
						run.Count("faithful-read-back-equal")
					}
				}
				if r.Read.CE != r.Read.Coding {
					run.Count("declared-coding-differs")
				}
				if !strings.HasPrefix(r.Tag, "identity/none/") {
					run.Distinct[sig(c.H.Cfg, r)] = true
				}
			}
			if len(run.Samples) < 4 && len(c.Reads) >= 3 && len(c.Reads) <= 5 && run.TracesValidated%5 == 0 {
				var rs []string
				for _, r := range c.Reads {
					rs = append(rs, fmt.Sprintf("[%s %s/%s ct=%q ce=%q -> real %s, model %s]", r.Read.Status, r.Read.Kind, r.Read.Val.Type, r.Read.CT, r.Read.CE, r.Real.Class, r.Tag))
				}
				run.Sample(map[string]interface{}{"provider": fmt.Sprintf("%s%d", c.H.Cfg.Provider, c.H.Cfg.Cap), "default": c.H.Cfg.Default, "reads": rs})
			}
			seenSpec, seenMismatch := false, false
			for _, is := range issues {
				switch {
				case is.Kind == "spec" && is.Known != "":
					run.KnownHits[is.Known]++
				case is.Kind == "spec":
					seenSpec = true
				case is.Known != "":
					run.Count("differs-inside-known-class:" + is.Known)
				default:
					seenMismatch = true
				}
			}
			if seenSpec && specReported < 3 {
				specReported++
				reportSpec(run, c)
			} else if seenMismatch && !seenSpec && mismatchReported < 2 {
				mismatchReported++
				reportMismatch(run, c, run.Seed, extras)
			}
		}
	}
	for _, f := range laws.Failures {
		run.AddViolation(report.Violation{Kind: "correspondence", NoInput: true,
			What:    fmt.Sprintf("hypothesis %v of CodecLaws is not valid for the standard library on a generated value (%v): the theorems do not cover it", f["law"], f["detail"]),
			Theorem: "CodecLaws." + fmt.Sprint(f["law"]), Human: f})
	}
	run.Extra["validated_hypotheses"] = laws.Checked
	run.Extra["validated_hypotheses_total"] = laws.Total()
	run.Extra["model_agreement_beyond_the_projection"] = map[string]interface{}{"reads_compared": soft.Reads, "same_error_class_400_vs_other": soft.ErrorClass,
		"same_ledger_acquire_use_release": soft.Ledger, "same_reader_object_bounded_provider": soft.ReaderObject,
		"note": "measured, not demanded: the property constrains the value read back / that an error is returned, no panic, history independence and the release discipline (Spec.C16.ledgerOK)"}
	run.Extra["histories"] = histories
	run.Extra["later_reads_on_the_same_request_object"] = multi
	run.Extra["reads_alone_on_fresh_provider"] = reads
	run.Extra["xml_characters_replaced_by_generator"] = ExcludedForXML
	run.Extra["strings_that_look_like_escape_syntax"] = EscapeLikeStrings
	run.Extra["repaired_findings"] = map[string]interface{}{
		FormerF62:                 "class Entity.f62 (two registered keys with different readers occur in the Content-Type): repaired by " + RepairF62 + " — the reader is the one of the key that occurs first, whatever the iteration order of the registry map; the class excuses nothing, its former witness runs as a regression (distribution: regression-F62-…, replays/F62.json:…), and the stream's visits to it are counted below",
		"former_F62_class_visits": former62,
		FormerF61:                 "class Entity.f61 (the declared coding's stream breaks after a complete document was delivered): repaired by " + RepairF61 + "; the class excuses nothing, its former witnesses run as regressions (distribution: regression-F61-…, replays/F61.json:…), and the stream's visits to it are counted below",
		"former_F61_class_visits": former,
	}
	// a regression in the repaired class must not go unnoticed: the stream has to keep visiting it, with
	// both codings (measured over seeds 1–3 at 4000 reads: 418–455 reads ≈ 11 %, gzip 351–383, deflate 67–72;
	// the floors are about a fifth of that)
	if nReads >= 2000 {
		// measured at 4000 reads: ≈ 20 % of the reads are later reads on the same request, ≈ 5 % faithful
		// coded bodies among them; the floors are about a fifth of that
		if multi["reads"] < nReads/25 || multi["faithful:gzip"] < nReads/200 || multi["faithful:deflate"] < nReads/800 || multi["by:route-function"] == 0 || multi["by:direct"] == 0 {
			return fmt.Errorf("the stream hardly performs more than one ReadEntity on one request (%d of %d reads; faithful gzip %d, deflate %d): state kept on the request object would go unnoticed",
				multi["reads"], reads, multi["faithful:gzip"], multi["faithful:deflate"])
		}
		floor, each := nReads/50, nReads/400
		if former["reads"] < floor || former["gzip"] < each || former["deflate"] < each || former["answered:err"] == 0 {
			return fmt.Errorf("the stream hardly visits the class of the repaired finding F61 (%d of %d reads: gzip %d, deflate %d; at least %d, %d, %d expected): a regression there would go unnoticed",
				former["reads"], reads, former["gzip"], former["deflate"], floor, each, each)
		}
		// measured over seeds 1–4 at 4000 reads: see the report; the floor is a small fraction of that
		if former62["reads"] < nReads/400 || former62["faithful-read-back-equal"] == 0 {
			return fmt.Errorf("the stream hardly visits the class of the repaired finding F62 (%d of %d reads, %d of them faithful bodies read back equal): a regression there would go unnoticed",
				former62["reads"], reads, former62["faithful-read-back-equal"])
		}
	}
	return nil
}
