package entity

import (
	"encoding/hex"
	"fmt"
	"io"
	stdlog "log"

	restful "github.com/emicklei/go-restful/v3"

	"verifharness/internal/report"
	"verifharness/internal/rng"
)

// CheckTracePurity is the trace twin of the entity reads (C19: the answer is the same "whether or not
// trace logging is enabled"). Histories from the generator of the C16 stream — request bodies written
// by the library's own writers, plain, gzip or deflate, intact or broken (truncated, cut inside the
// trailer, a flipped checksum, stray bytes, a second member, …) — are read through Request.ReadEntity
// once with trace logging off and once with trace logging on, each time on a provider fresh from its
// constructor. Read by read the two outcomes must be the same: accepted with the same value, refused
// with 400, refused otherwise, or a panic. Error texts are not compared. Reads whose Content-Type
// names two registered keys with different readers (the class of F62, repaired by 8b400b4: the key that
// occurs first decides, no longer a Go map iteration) are compared like all others, and counted.
func CheckTracePurity(run *report.Run, n int) error {
	defer Restore()
	defer restful.EnableTracing(false)
	base := rng.New(run.Seed*2860486313 + 17)
	bad := 0
	for i := 0; i < n; i++ {
		h, err := GenHistory(base.Fork(uint64(i)), false)
		if err != nil {
			return err
		}
		restful.EnableTracing(false)
		s := NewSession(h.Cfg)
		off := make([]Obs, len(h.Reads))
		for k, rd := range h.Reads {
			off[k] = s.ReadOne(rd)
		}
		restful.TraceLogger(stdlog.New(io.Discard, "", 0)) // sets the logger and enables tracing
		s = NewSession(h.Cfg)
		on := make([]Obs, len(h.Reads))
		for k, rd := range h.Reads {
			on[k] = s.ReadOne(rd)
		}
		restful.EnableTracing(false)
		for k, rd := range h.Reads {
			run.Evaluations++
			run.TracesValidated++
			if len(accessors(h.Cfg, rd.CT)) > 1 {
				run.Count("entity:traced-reads:in-the-class-of-the-repaired-F62(compared like all others)")
			}
			run.Count("entity:traced-reads:" + map[bool]string{true: "intact", false: "broken"}[rd.Status == "good"] + ":" + map[string]string{"": "identity", "gzip": "gzip", "deflate": "deflate"}[rd.Coding])
			if off[k].Class == "ok" {
				run.Distinct["entity-trace|"+rd.CT+"|"+rd.CE+"|"+rd.Status+"|"+short(off[k].Canon)] = true
			}
			if off[k].Key() != on[k].Key() && bad < 3 {
				bad++
				// the read alone, on fresh providers, tells whether the history matters
				restful.EnableTracing(false)
				aloneOff := NewSession(h.Cfg).ReadOne(rd)
				restful.TraceLogger(stdlog.New(io.Discard, "", 0))
				aloneOn := NewSession(h.Cfg).ReadOne(rd)
				restful.EnableTracing(false)
				hm := map[string]interface{}{
					"provider": fmt.Sprintf("%s cap=%d", h.Cfg.Provider, h.Cfg.Cap), "default_request_content_type": h.Cfg.Default, "registry": h.Cfg.Registry,
					"position_in_history": k, "history_length": len(h.Reads),
					"content_type": rd.CT, "content_encoding": rd.CE, "body_hex": hex.EncodeToString(rd.Body),
					"body_is":       fmt.Sprintf("%s value (%s) written by %s pretty=%v, coded %q (gzip level %d; %s), then: %s", rd.Kind, rd.Val.Type, rd.API, rd.Pretty, rd.Coding, rd.Level, rd.Enc, rd.Status),
					"value_written": Canon(rd.Val.V), "target": fmt.Sprintf("%T", rd.Val.NewTarget()),
					"trace_off":     off[k].Key() + " " + off[k].Detail, "trace_on": on[k].Key() + " " + on[k].Detail,
					"alone_trace_off": aloneOff.Key(), "alone_trace_on": aloneOn.Key(),
					"how_to_replay": "SetCompressorProvider(provider); DefaultRequestContentType(default); restful.NewRequest(&http.Request{Header: {Content-Type, Content-Encoding}, Body: body}).ReadEntity(new(target)) with restful.EnableTracing(false), then after restful.TraceLogger(log.New(io.Discard, \"\", 0))",
				}
				run.AddViolation(report.Violation{Kind: "counterexample", What: run.Property + ": Request.ReadEntity answers the same request body differently when trace logging is enabled",
					Human: hm, Real: "trace on:  " + on[k].Key(), Model: "trace off: " + off[k].Key()})
			}
		}
	}
	return nil
}
