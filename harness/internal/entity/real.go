package entity

import (
	"bytes"
	"compress/gzip"
	"compress/zlib"
	"crypto/sha1"
	"encoding/hex"
	"encoding/json"
	"encoding/xml"
	"errors"
	"fmt"
	"io"
	"net/http"
	"net/http/httptest"
	"net/url"
	"reflect"

	restful "github.com/emicklei/go-restful/v3"

	"verifharness/internal/sx"
)

// ---- the oracle: standard library only, no go-restful ----

// Stream is what a reader delivers: data, then a clean EOF (Term == nil) or an error.
type Stream struct {
	HdrOK bool // deflate: zlib.NewReader accepted the header
	Data  []byte
	Term  error // nil = clean EOF
}

func (s Stream) Clean() bool { return s.HdrOK && s.Term == nil }

// replay delivers Data and then Term (io.EOF when clean), like the reader it was recorded from.
type replay struct {
	data []byte
	term error
}

func (p *replay) Read(b []byte) (int, error) {
	if len(p.data) == 0 {
		if p.term == nil {
			return 0, io.EOF
		}
		return 0, p.term
	}
	n := copy(b, p.data)
	p.data = p.data[n:]
	return n, nil
}

func drain(rd io.Reader) ([]byte, error) {
	data, err := io.ReadAll(rd)
	return data, err
}

// FreshGzip reads the bytes through a new gzip.Reader.
func FreshGzip(body []byte) Stream {
	zr, err := gzip.NewReader(bytes.NewReader(body))
	if err != nil {
		return Stream{HdrOK: true, Term: err} // a gzip reader whose header failed delivers nothing and keeps the error
	}
	data, err := drain(zr)
	return Stream{HdrOK: true, Data: data, Term: err}
}

// FreshZlib reads the bytes through zlib.NewReader.
func FreshZlib(body []byte) Stream {
	zr, err := zlib.NewReader(bytes.NewReader(body))
	if err != nil {
		return Stream{HdrOK: false, Term: err}
	}
	data, err := drain(zr)
	return Stream{HdrOK: true, Data: data, Term: err}
}

// Decoded is the outcome of an entity decoder: canonical text or an error.
type Decoded struct {
	OK    bool
	Canon string
	Val   interface{} // the pointee, when OK
}

func decodeWith(kind string, rd io.Reader, target interface{}) error {
	if kind == "json" {
		d := json.NewDecoder(rd)
		d.UseNumber()
		return d.Decode(target)
	}
	return xml.NewDecoder(rd).Decode(target)
}

// Decode runs encoding/json (UseNumber) or encoding/xml over a stream into a fresh target.
func Decode(kind string, s Stream, asDoc bool, newTarget func() interface{}) (d Decoded) {
	defer func() {
		if p := recover(); p != nil {
			d = Decoded{OK: false}
		}
	}()
	term := s.Term
	if asDoc {
		term = nil
	}
	t := newTarget()
	if err := decodeWith(kind, &replay{data: s.Data, term: term}, t); err != nil {
		return Decoded{}
	}
	v := Deref(t)
	return Decoded{OK: true, Canon: Canon(v), Val: v}
}

// Facts are the oracle's answers for one stream.
type Facts struct {
	S                      Stream
	JRes, JDoc, XRes, XDoc Decoded
}

func factsOf(s Stream, newTarget func() interface{}) Facts {
	f := Facts{S: s}
	if !s.HdrOK {
		return f
	}
	f.JRes = Decode("json", s, false, newTarget)
	f.XRes = Decode("xml", s, false, newTarget)
	if s.Term == nil {
		f.JDoc, f.XDoc = f.JRes, f.XRes
	} else {
		f.JDoc = Decode("json", s, true, newTarget)
		f.XDoc = Decode("xml", s, true, newTarget)
	}
	return f
}

// Oracle holds the three streams of a body.
type Oracle struct{ ID, GZ, ZL Facts }

func OracleOf(rd Read) Oracle {
	return Oracle{
		ID: factsOf(Stream{HdrOK: true, Data: rd.Body}, rd.Val.NewTarget),
		GZ: factsOf(FreshGzip(rd.Body), rd.Val.NewTarget),
		ZL: factsOf(FreshZlib(rd.Body), rd.Val.NewTarget),
	}
}

// Declared returns the facts of the coding that the Content-Encoding value names exactly.
func (o Oracle) Declared(ce string) Facts {
	switch ce {
	case "gzip":
		return o.GZ
	case "deflate":
		return o.ZL
	}
	return o.ID
}

// ---- the real code ----

// ledger wraps a real provider and records what happens to gzip readers.
type ledger struct {
	inner restful.CompressorProvider
	ev    []byte
	ids   map[*gzip.Reader]int
	rid   int // id of the reader acquired by the current read, -1 if none
}

func newLedger(inner restful.CompressorProvider) *ledger {
	return &ledger{inner: inner, ids: map[*gzip.Reader]int{}, rid: -1}
}

func (l *ledger) AcquireGzipWriter() *gzip.Writer  { return l.inner.AcquireGzipWriter() }
func (l *ledger) ReleaseGzipWriter(w *gzip.Writer) { l.inner.ReleaseGzipWriter(w) }
func (l *ledger) AcquireZlibWriter() *zlib.Writer  { return l.inner.AcquireZlibWriter() }
func (l *ledger) ReleaseZlibWriter(w *zlib.Writer) { l.inner.ReleaseZlibWriter(w) }
func (l *ledger) AcquireGzipReader() *gzip.Reader {
	r := l.inner.AcquireGzipReader()
	id, ok := l.ids[r]
	if !ok {
		id = len(l.ids)
		l.ids[r] = id
	}
	l.rid = id
	l.ev = append(l.ev, 'a')
	return r
}
func (l *ledger) ReleaseGzipReader(r *gzip.Reader) {
	l.ev = append(l.ev, 'r')
	l.inner.ReleaseGzipReader(r)
}

// trackedBody is the request body: every Read is an event of the ledger.
type trackedBody struct {
	r *bytes.Reader
	l *ledger
}

func (b *trackedBody) Read(p []byte) (int, error) {
	b.l.ev = append(b.l.ev, 'u')
	return b.r.Read(p)
}
func (b *trackedBody) Close() error { return nil }

// canonEvents keeps the events from the first acquire on and collapses runs of body reads.
func canonEvents(ev []byte) string {
	i := bytes.IndexByte(ev, 'a')
	if i < 0 {
		return ""
	}
	var out []byte
	for _, c := range ev[i:] {
		if c == 'u' && len(out) > 0 && out[len(out)-1] == 'u' {
			continue
		}
		out = append(out, c)
	}
	return string(out)
}

// Obs is what ReadEntity did.
type Obs struct {
	Class  string // ok | err400 | err | panic
	Canon  string
	Val    interface{}
	Detail string // error / panic text: for the human-readable report only, never compared
	Events string
	Rid    int
	// Unreached: the read was to be a stage of a container dispatch that did not get that far; it was
	// performed on the request all the same (counted)
	Unreached bool
}

func (o Obs) Key() string {
	if o.Class == "ok" {
		return "ok:" + o.Canon
	}
	return o.Class
}

func newProvider(c Cfg) restful.CompressorProvider {
	if c.Provider == "bounded" {
		return restful.NewBoundedCachedCompressors(c.Cap, c.Cap)
	}
	return restful.NewSyncPoolCompessors()
}

// Session is one provider installed in the package, with its ledger.
type Session struct{ l *ledger }

// NewSession installs a fresh provider of the configured kind and the default request content type.
func NewSession(c Cfg) *Session {
	l := newLedger(newProvider(c))
	restful.SetCompressorProvider(l)
	restful.DefaultRequestContentType(c.Default)
	return &Session{l: l}
}

// Restore puts the package globals back to their initial values.
func Restore() {
	restful.SetCompressorProvider(restful.NewSyncPoolCompessors())
	restful.DefaultRequestContentType("")
}

// newHTTPRequest is the *http.Request of a read: its two entity headers and its body.
func (s *Session) newHTTPRequest(rd Read, path string) *http.Request {
	h := http.Header{}
	if rd.CT != "" {
		h.Set("Content-Type", rd.CT)
	}
	if rd.CE != "" {
		h.Set("Content-Encoding", rd.CE)
	}
	return &http.Request{Method: "POST", URL: &url.URL{Path: path}, Header: h, ContentLength: int64(len(rd.Body)),
		Body: &trackedBody{r: bytes.NewReader(rd.Body), l: s.l}}
}

// ReadOne performs one real ReadEntity under recover(), on a request of its own.
func (s *Session) ReadOne(rd Read) (o Obs) {
	return s.readOn(restful.NewRequest(s.newHTTPRequest(rd, "/")), rd, false)
}

// readOn performs one real ReadEntity under recover() on the given *restful.Request. With `put`, the
// request has been through earlier stages (ReadEntity calls among them): the body of the read is put
// in place of whatever the earlier stages left there, and the two entity headers are set to the
// read's (a stage that keeps the raw bytes, reads, and restores the body for the next stage; or one
// that replaces the body). Nothing else of the request is touched.
func (s *Session) readOn(req *restful.Request, rd Read, put bool) (o Obs) {
	s.l.ev = s.l.ev[:0]
	s.l.rid = -1
	if put {
		for _, kv := range [][2]string{{"Content-Type", rd.CT}, {"Content-Encoding", rd.CE}} {
			if kv[1] != "" {
				req.Request.Header.Set(kv[0], kv[1])
			} else {
				req.Request.Header.Del(kv[0])
			}
		}
		req.Request.ContentLength = int64(len(rd.Body))
		req.Request.Body = &trackedBody{r: bytes.NewReader(rd.Body), l: s.l}
	}
	target := rd.Val.NewTarget()
	defer func() {
		if p := recover(); p != nil {
			o = Obs{Class: "panic", Detail: fmt.Sprint(p)}
		}
		o.Events = canonEvents(s.l.ev)
		o.Rid = s.l.rid
	}()
	err := req.ReadEntity(target)
	if err != nil {
		var se restful.ServiceError
		if errors.As(err, &se) && se.Code == http.StatusBadRequest {
			return Obs{Class: "err400", Detail: err.Error()}
		}
		return Obs{Class: "err", Detail: fmt.Sprintf("%T: %v", err, err)}
	}
	v := Deref(target)
	o = Obs{Class: "ok", Canon: Canon(v), Val: v}
	// for typed targets equality of Go values is demanded on top of equal canonical text
	if rd.Faithful && rd.Val.Deep && o.Canon == Canon(rd.Val.V) && !reflect.DeepEqual(v, rd.Val.V) {
		o.Canon += " !not-deep-equal"
	}
	return o
}

// Groups cuts a history into the runs of reads that share one *restful.Request: a read with Same
// belongs to the group of the read before it (the first read of a history starts a group whatever
// its flag says).
func Groups(reads []Read) [][2]int {
	var out [][2]int
	for i := range reads {
		if i == 0 || !reads[i].Same {
			out = append(out, [2]int{i, i + 1})
		} else {
			out[len(out)-1][1] = i + 1
		}
	}
	return out
}

// StageOf says who performs read i of a history: "direct" (ReadEntity called on a restful.NewRequest
// by the harness), or the stage of a container dispatch: container-filter, service-filter,
// route-filter, route-function.
func StageOf(reads []Read, i int) string {
	for _, g := range Groups(reads) {
		if i < g[0] || i >= g[1] {
			continue
		}
		if !reads[g[0]].Dispatch {
			return "direct"
		}
		nf := g[1] - g[0] - 1
		if i-g[0] == nf {
			return "route-function"
		}
		return []string{"container-filter", "service-filter", "route-filter"}[(i-g[0])*3/nf]
	}
	return "direct"
}

// Run performs the reads of a history in order on this session's provider. Every group of reads
// (Groups) is performed on ONE *restful.Request: directly, or — Dispatch on its first read — by the
// stages of one dispatch through a real container: the last read of the group by the route
// function, the ones before by container, web service and route filters in that order; every stage
// puts its body in place, reads the entity and passes the request on.
func (s *Session) Run(reads []Read) []Obs {
	obs := make([]Obs, len(reads))
	for _, g := range Groups(reads) {
		grp := reads[g[0]:g[1]]
		if !grp[0].Dispatch {
			req := restful.NewRequest(s.newHTTPRequest(grp[0], "/"))
			for k, rd := range grp {
				obs[g[0]+k] = s.readOn(req, rd, k > 0)
			}
			continue
		}
		ran := make([]bool, len(grp))
		var shared *restful.Request
		stage := func(k int, req *restful.Request) {
			shared = req
			ran[k] = true
			obs[g[0]+k] = s.readOn(req, grp[k], k > 0)
		}
		nf := len(grp) - 1
		c := restful.NewContainer()
		ws := new(restful.WebService)
		ws.Path("/e")
		rb := ws.POST("/r").To(func(req *restful.Request, resp *restful.Response) { stage(nf, req) })
		for k := 0; k < nf; k++ {
			k := k
			f := func(req *restful.Request, resp *restful.Response, chain *restful.FilterChain) {
				stage(k, req)
				chain.ProcessFilter(req, resp)
			}
			switch k * 3 / nf {
			case 0:
				c.Filter(f)
			case 1:
				ws.Filter(f)
			default:
				rb.Filter(f)
			}
		}
		hr := s.newHTTPRequest(grp[0], "/e/r")
		func() {
			defer func() { recover() }()
			ws.Route(rb)
			c.Add(ws)
			c.ServeHTTP(httptest.NewRecorder(), hr)
		}()
		// a stage the dispatch did not reach (routing is not this check's subject) reads all the same
		for k, rd := range grp {
			if !ran[k] {
				if shared == nil {
					shared = restful.NewRequest(hr)
				}
				obs[g[0]+k] = s.readOn(shared, rd, k > 0)
				obs[g[0]+k].Unreached = true
			}
		}
	}
	return obs
}

// ---- encoding for the driver ----

// short keeps canonical texts small on the wire: the model only compares them.
func short(s string) string {
	if len(s) <= 40 {
		return s
	}
	h := sha1.Sum([]byte(s))
	return s[:20] + "#" + hex.EncodeToString(h[:10])
}

func resSx(d Decoded) *sx.Node {
	if !d.OK {
		return sx.A("e")
	}
	return sx.L(sx.A("ok"), sx.H(short(d.Canon)))
}

func obsSx(o Obs) *sx.Node {
	if o.Class == "ok" {
		return sx.L(sx.A("ok"), sx.H(short(o.Canon)))
	}
	return sx.A(o.Class)
}

func factsSx(kw string, f Facts, withHdr bool) *sx.Node {
	n := sx.K(kw)
	if withHdr {
		n.List = append(n.List, sx.B(f.S.HdrOK))
	}
	n.List = append(n.List, sx.B(f.S.Clean()), resSx(f.JRes), resSx(f.JDoc), resSx(f.XRes), resSx(f.XDoc))
	return n
}

func (c Cfg) Sx() *sx.Node {
	prov := sx.K("prov", sx.A("sync"))
	if c.Provider == "bounded" {
		prov = sx.K("prov", sx.A("bounded"), sx.N(c.Cap))
	}
	reg := sx.K("reg")
	for _, e := range c.Registry {
		reg.List = append(reg.List, sx.K("k", sx.H(e[0]), sx.A(e[1])))
	}
	return sx.K("cfg", prov, sx.K("dflt", sx.H(c.Default)), reg)
}

func evAtom(s string) *sx.Node {
	if s == "" {
		return sx.A("-")
	}
	return sx.A(s)
}

func ridAtom(r int) *sx.Node {
	if r < 0 {
		return sx.A("-")
	}
	return sx.N(r)
}

// ReadSx is one `(rd …)` item: the request, the oracle facts, the real observations.
func ReadSx(rd Read, or Oracle, real, alone Obs) *sx.Node {
	return sx.K("rd", sx.K("ct", sx.H(rd.CT)), sx.K("ce", sx.H(rd.CE)), sx.K("kind", sx.A(rd.Kind)),
		sx.K("w", sx.H(short(Canon(rd.Val.V)))), sx.K("faithful", sx.B(rd.Faithful)),
		factsSx("id", or.ID, false), factsSx("gz", or.GZ, false), factsSx("zl", or.ZL, true),
		sx.K("real", obsSx(real)), sx.K("alone", obsSx(alone)), sx.K("ev", evAtom(real.Events)), sx.K("rid", ridAtom(real.Rid)))
}
