package entity

import (
	"bytes"
	"compress/gzip"
	"compress/zlib"
	"encoding/json"
	"fmt"
	"io"
	"net/http"
	"runtime"
	"strings"
	"sync"
	"time"

	restful "github.com/emicklei/go-restful/v3"

	"verifharness/internal/report"
)

// slowBody delivers a body in small chunks; after the first chunk it waits until every body of the
// batch has delivered its first chunk, so that all reads of the batch overlap for certain (each has
// acquired and reset its decompressor, none is done).
type slowBody struct {
	data  []byte
	pos   int
	first bool
	meet  *sync.WaitGroup
	gone  chan struct{}
}

func (b *slowBody) Read(p []byte) (int, error) {
	if b.pos >= len(b.data) {
		return 0, io.EOF
	}
	n := 24
	if n > len(p) {
		n = len(p)
	}
	if n > len(b.data)-b.pos {
		n = len(b.data) - b.pos
	}
	copy(p, b.data[b.pos:b.pos+n])
	b.pos += n
	runtime.Gosched() // a body that trickles in
	if !b.first {
		b.first = true
		b.meet.Done()
		select {
		case <-b.gone:
		case <-time.After(2 * time.Second): // safety net only
		}
	}
	return n, nil
}

func (b *slowBody) Close() error { return nil }

type concEntity struct {
	A string `json:"a"`
	N int64  `json:"n"`
}

// CheckConcurrentReads (C16, "whatever … is being read at the same moment"; C13: a decompressor is
// never shared): batches of compressed request bodies are read through Request.ReadEntity at the same
// time, on every provider; every read must yield exactly the value that was sent.
func CheckConcurrentReads(run *report.Run, rounds int) {
	defer restful.SetCompressorProvider(restful.NewSyncPoolCompessors())
	bad := 0
	for _, prov := range []string{"bounded2", "bounded3", "bounded1", "bounded0", "pool"} {
		for round := 0; round < rounds; round++ {
			// every other round starts on a provider fresh from its constructor (what it was pre-filled
			// with is in use), the rounds in between on one that has been through a round
			if round%2 == 0 {
				switch prov {
				case "bounded2":
					restful.SetCompressorProvider(restful.NewBoundedCachedCompressors(2, 2))
				case "bounded3":
					restful.SetCompressorProvider(restful.NewBoundedCachedCompressors(3, 3))
				case "bounded1":
					restful.SetCompressorProvider(restful.NewBoundedCachedCompressors(1, 1))
				case "bounded0":
					restful.SetCompressorProvider(restful.NewBoundedCachedCompressors(0, 0))
				default:
					restful.SetCompressorProvider(restful.NewSyncPoolCompessors())
				}
			}
			const k, late = 4, 2 // k bodies meet after their first chunk; `late` more requests arrive right then
			var meet sync.WaitGroup
			meet.Add(k)
			gone := make(chan struct{})
			go func() { meet.Wait(); close(gone) }()
			type res struct {
				want, got concEntity
				err       error
				coding    string
			}
			out := make([]res, k+late)
			var wg sync.WaitGroup
			for i := 0; i < k+late; i++ {
				want := concEntity{A: strings.Repeat(fmt.Sprintf("payload-%d-%d-%s;", round, i, prov), 20+7*i), N: int64(9007199254740993 + i)}
				plain, _ := json.Marshal(want)
				var buf bytes.Buffer
				coding := []string{"gzip", "gzip", "gzip", "deflate", "gzip", "gzip"}[i]
				if coding == "gzip" {
					w := gzip.NewWriter(&buf)
					w.Write(plain)
					w.Close()
				} else {
					w := zlib.NewWriter(&buf)
					w.Write(plain)
					w.Close()
				}
				hr, _ := http.NewRequest("POST", "/x", nil)
				hr.Header.Set("Content-Type", "application/json")
				hr.Header.Set("Content-Encoding", coding)
				if i < k {
					hr.Body = &slowBody{data: buf.Bytes(), meet: &meet, gone: gone}
				} else {
					hr.Body = &slowBody{data: buf.Bytes(), meet: &meet, gone: gone, first: true} // no rendezvous of its own
				}
				out[i].want, out[i].coding = want, coding
				wg.Add(1)
				go func(i int) {
					defer wg.Done()
					defer func() {
						if p := recover(); p != nil {
							out[i].err = fmt.Errorf("panic: %v", p)
						}
					}()
					if i >= k {
						<-gone // the late ones start reading when the others are in the middle of their bodies
					}
					out[i].err = restful.NewRequest(hr).ReadEntity(&out[i].got)
				}(i)
			}
			wg.Wait()
			for i, r := range out {
				run.Evaluations++
				run.TracesValidated++
				run.Count("concurrent-reads:" + prov + ":" + r.coding)
				if (r.err != nil || r.got != r.want) && bad < 3 {
					bad++
					run.AddViolation(report.Violation{Kind: "counterexample",
						What:  fmt.Sprintf(run.Property+": %d compressed request bodies read at the same time (provider %s): read %d (%s) did not yield the value that was sent", k, prov, i, r.coding),
						Human: map[string]interface{}{"provider": prov, "round": round, "bodies": k, "read": i, "coding": r.coding, "bytes_per_Read": 24, "rendezvous": "after the first chunk of every body"},
						Real:  fmt.Sprintf("err=%v a=%.60q n=%d", r.err, r.got.A, r.got.N), Model: fmt.Sprintf("err=<nil> a=%.60q n=%d", r.want.A, r.want.N)})
				}
			}
		}
	}
}
