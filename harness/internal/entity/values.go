// Package entity is the C16 slice: values written with the entity writers, fed back as request
// bodies (plain, gzip, deflate; good, truncated, corrupt) to Request.ReadEntity in histories on one
// compressor provider; the model (Lean driver) predicts every read, Spec.c16Holds is evaluated on
// what the real code did, and every codec law the theorems assume is validated on every value and
// body used.
package entity

import (
	"bytes"
	"encoding/json"
	"encoding/xml"
	"fmt"
	"math"
	"reflect"
	"strings"
	"unicode/utf8"

	"verifharness/internal/rng"
)

// ---- the value types (exported fields only; both json and xml can carry Flat and Nested) ----

type Flat struct {
	I64  int64   `json:"i64" xml:"i64"`
	U64  uint64  `json:"u64" xml:"u64"`
	I32  int32   `json:"i32" xml:"i32"`
	U8   uint8   `json:"u8" xml:"u8"`
	I    int     `json:"i" xml:"i"`
	B    bool    `json:"b" xml:"b"`
	F    float64 `json:"f" xml:"f"`
	S    string  `json:"s" xml:"s"`
	Attr string  `json:"attr" xml:"attr,attr"`
}

type Nested struct {
	Name  string   `json:"name" xml:"name"`
	Inner Flat     `json:"inner" xml:"inner"`
	Ptr   *Flat    `json:"ptr" xml:"ptr"`
	Nums  []int64  `json:"nums" xml:"nums>n"`
	Strs  []string `json:"strs" xml:"str"`
	Items []Flat   `json:"items" xml:"item"`
}

// Loose is JSON only: interface{} fields (what UseNumber is about), maps, bytes.
type Loose struct {
	Any   interface{}            `json:"any"`
	M     map[string]int64       `json:"m"`
	MI    map[string]interface{} `json:"mi"`
	Bytes []byte                 `json:"bytes"`
	Slice []interface{}          `json:"slice"`
}

// Value is one generated value together with the target it is read back into.
type Value struct {
	Type      string             // flat | nested | loose | iface | map | slice | int64 | string
	V         interface{}        // what is handed to the writer
	NewTarget func() interface{} // a fresh pointer for ReadEntity
	Deep      bool               // reflect.DeepEqual(original, read back) is meaningful (no interface{} inside)
	XMLOK     bool               // in the XML writer's domain
}

// Deref returns what a target pointer points to.
func Deref(p interface{}) interface{} { return reflect.ValueOf(p).Elem().Interface() }

// Original returns the value in the shape the target will have (the pointee type).
func (v Value) Original() interface{} { return v.V }

// ---- generators ----

var int64Edges = []int64{0, 1, -1, math.MaxInt64, math.MinInt64, 1 << 53, 1<<53 + 1, 1<<53 - 1, -(1 << 53), -(1<<53 + 1), -(1<<53 - 1),
	1<<62 + 1, math.MaxInt32, math.MinInt32, 1e15 + 1, 9007199254740993, 1234567890123456789}
var uint64Edges = []uint64{0, 1, math.MaxUint64, 1 << 63, 1<<63 + 1, 1<<53 + 1, 1<<64 - 1025}

func genInt64(r *rng.R) int64 {
	switch r.Intn(4) {
	case 0:
		return int64Edges[r.Intn(len(int64Edges))]
	case 1:
		return int64(r.Intn(2000)) - 1000
	case 2:
		return int64(r.U64()) // full range
	default:
		// just above 2^53 where float64 loses the low bits
		v := int64(1<<53) + int64(r.Intn(1<<20))*2 + 1
		if r.Chance(1, 2) {
			v = -v
		}
		return v
	}
}

func genUint64(r *rng.R) uint64 {
	if r.Chance(1, 3) {
		return uint64Edges[r.Intn(len(uint64Edges))]
	}
	return r.U64()
}

func genFloat(r *rng.R) float64 {
	switch r.Intn(5) {
	case 0:
		return []float64{0, math.Copysign(0, -1), 1, -1, 0.1, math.MaxFloat64, math.SmallestNonzeroFloat64, 1e21, 1e-7, 1 << 53, 123456789.125}[r.Intn(11)]
	case 1:
		return float64(r.Intn(100000)) / 100
	default:
		for {
			f := math.Float64frombits(r.U64())
			if !math.IsNaN(f) && !math.IsInf(f, 0) { // NaN/Inf are outside encoding/json's domain
				return f
			}
		}
	}
}

// xmlChar reports whether XML 1.0 can carry the rune (the Char production).
func xmlChar(c rune) bool {
	return c == 0x9 || c == 0xA || c == 0xD || (c >= 0x20 && c <= 0xD7FF) || (c >= 0xE000 && c <= 0xFFFD) || (c >= 0x10000 && c <= 0x10FFFF)
}

var runePool = []rune{'a', 'Z', '0', ' ', ' ', '\t', '\n', '\r', '"', '\'', '\\', '/', '<', '>', '&', ';', '{', '}', '[', ']', ':', ',',
	0x00, 0x01, 0x08, 0x0B, 0x0C, 0x1F, 0x7F, 0x80, 0x85, 0xA0, 'é', 'ß', 'Ω', 'ж', '世', '界', 0x2028, 0x2029, 0xFEFF, 0xFFFD, 0xFFFE, 0xFFFF,
	0xD7FF, 0xE000, 0x10000, 0x1D11E, 0x1F600, 0x10FFFF}

// escapeLike are pieces of text that LOOK like the codecs' own escape syntax (JSON \uXXXX and
// backslash escapes, the HTML-safe forms encoding/json writes for < > & and U+2028/9, XML/HTML
// entities and section markers, percent-encoding) or carry the characters those escapes stand for:
// strings about escapes, regular expressions, Windows paths, URLs with query parameters.  A writer
// that post-processes its output as text, or a reader that unescapes twice, changes them.
var escapeLike = []string{`\u0026`, `\u003c`, `\u003e`, `\u003C`, `\u2028`, `\u2029`, `\u00e9`, `\u0000`, `\ud83d\ude00`, `\u`, `\u00`,
	`\`, `\\`, `\"`, `\n`, `\t`, `\/`, `\b`, `"`, `'`, `&`, `<`, `>`, `&amp;`, `&lt;`, `&gt;`, `&quot;`, `&#38;`, `&#x26;`, `&amp;amp;`,
	`]]>`, `<![CDATA[`, `<!--`, `-->`, `<?xml`, `</s>`, `%26`, `%5Cu0026`, `?a=1&b=<2>`, `C:\users\u0026me`, `^\d+\.\u003e$`, "\u2028", "\u2029"}

// EscapeLikeStrings counts the generated strings of that class.
var EscapeLikeStrings int

// genEscapeLike concatenates 1–5 such pieces, now and then with a letter or a backslash in between.
func genEscapeLike(r *rng.R) string {
	var sb strings.Builder
	for i, n := 0, 1+r.Intn(5); i < n; i++ {
		sb.WriteString(escapeLike[r.Intn(len(escapeLike))])
		switch r.Intn(6) {
		case 0:
			sb.WriteByte(byte('a' + r.Intn(26)))
		case 1:
			sb.WriteByte('\\')
		case 2:
			sb.WriteByte(' ')
		}
	}
	EscapeLikeStrings++
	return sb.String()
}

// genString draws a valid-UTF-8 string: any unicode scalar value, control characters included;
// one in six is text that looks like escape syntax (genEscapeLike).
// forXML restricts it to the characters XML 1.0 can carry (the codecs' common domain).
func genString(r *rng.R, forXML bool) string {
	if r.Chance(1, 6) {
		return genEscapeLike(r) // every piece is made of characters XML 1.0 can carry
	}
	n := 0
	switch r.Intn(6) {
	case 0:
		n = 0
	case 1:
		n = 1
	case 5:
		n = 20 + r.Intn(60)
	default:
		n = 1 + r.Intn(12)
	}
	var sb strings.Builder
	for i := 0; i < n; i++ {
		var c rune
		switch r.Intn(4) {
		case 0:
			c = rune('a' + r.Intn(26))
		case 1, 2:
			c = runePool[r.Intn(len(runePool))]
		default:
			c = rune(r.Intn(0x110000))
			if c >= 0xD800 && c <= 0xDFFF { // surrogates are not scalar values: not valid UTF-8
				c = 0x1F600
			}
		}
		if forXML && !xmlChar(c) {
			ExcludedForXML++
			c = '?'
		}
		sb.WriteRune(c)
	}
	s := sb.String()
	if !utf8.ValidString(s) {
		panic("generator produced invalid UTF-8")
	}
	return s
}

// ExcludedForXML counts characters replaced because XML 1.0 cannot carry them.
var ExcludedForXML int

func genFlat(r *rng.R, forXML bool) Flat {
	return Flat{I64: genInt64(r), U64: genUint64(r), I32: int32(r.U64()), U8: uint8(r.U64()), I: int(genInt64(r)), B: r.Chance(1, 2),
		F: genFloat(r), S: genString(r, forXML), Attr: genString(r, forXML)}
}

func genNested(r *rng.R, forXML bool) Nested {
	n := Nested{Name: genString(r, forXML), Inner: genFlat(r, forXML)}
	if r.Chance(1, 2) {
		f := genFlat(r, forXML)
		n.Ptr = &f
	}
	// nil or non-empty: encoding/xml writes nothing for an empty slice, so it reads back as nil
	for i, k := 0, r.Intn(4); i < k; i++ {
		n.Nums = append(n.Nums, genInt64(r))
	}
	for i, k := 0, r.Intn(3); i < k; i++ {
		n.Strs = append(n.Strs, genString(r, forXML))
	}
	for i, k := 0, r.Intn(3); i < k; i++ {
		n.Items = append(n.Items, genFlat(r, forXML))
	}
	if !forXML && r.Chance(1, 6) {
		n.Nums = []int64{} // JSON distinguishes [] from null
	}
	return n
}

// genAny draws a JSON-like tree with exact integers in interface{} positions.
func genAny(r *rng.R, depth int) interface{} {
	k := r.Intn(9)
	if depth <= 0 && k >= 6 {
		k = r.Intn(6)
	}
	switch k {
	case 0, 1:
		return genInt64(r)
	case 2:
		return genUint64(r)
	case 3:
		return genString(r, false)
	case 4:
		return genFloat(r)
	case 5:
		return []interface{}{nil, true, false}[r.Intn(3)]
	case 6, 7:
		m := map[string]interface{}{}
		for i, n := 0, r.Intn(4); i < n; i++ {
			m[genString(r, false)] = genAny(r, depth-1)
		}
		return m
	default:
		s := []interface{}{}
		for i, n := 0, r.Intn(4); i < n; i++ {
			s = append(s, genAny(r, depth-1))
		}
		return s
	}
}

// GenValue draws a value for the writer of `kind` ("json" | "xml").
func GenValue(r *rng.R, kind string) Value {
	if kind == "xml" {
		if r.Chance(1, 2) {
			return Value{Type: "flat", V: genFlat(r, true), NewTarget: func() interface{} { return &Flat{} }, Deep: true, XMLOK: true}
		}
		return Value{Type: "nested", V: genNested(r, true), NewTarget: func() interface{} { return &Nested{} }, Deep: true, XMLOK: true}
	}
	switch r.Intn(10) {
	case 0:
		return Value{Type: "flat", V: genFlat(r, false), NewTarget: func() interface{} { return &Flat{} }, Deep: true}
	case 1:
		return Value{Type: "nested", V: genNested(r, false), NewTarget: func() interface{} { return &Nested{} }, Deep: true}
	case 2, 3:
		l := Loose{Any: genAny(r, 2)}
		if r.Chance(1, 2) {
			l.M = map[string]int64{}
			for i, n := 0, r.Intn(4); i < n; i++ {
				l.M[genString(r, false)] = genInt64(r)
			}
		}
		if r.Chance(1, 2) {
			l.MI = map[string]interface{}{"n": genInt64(r), "u": genUint64(r), "x": genAny(r, 1)}
		}
		if r.Chance(1, 3) {
			l.Bytes = make([]byte, r.Intn(20))
			for i := range l.Bytes {
				l.Bytes[i] = byte(r.U64())
			}
		}
		if r.Chance(1, 2) {
			l.Slice = []interface{}{genInt64(r), genAny(r, 1)}
		}
		return Value{Type: "loose", V: l, NewTarget: func() interface{} { return &Loose{} }}
	case 4, 5:
		// any tree (also a struct) read into a bare interface{}: every number goes through UseNumber
		var v interface{}
		switch r.Intn(4) {
		case 0:
			v = genFlat(r, false)
		case 1:
			v = map[string]interface{}{"id": genInt64(r), "big": int64(1<<53) + 1 + int64(r.Intn(1000))*2, "u": genUint64(r), "s": genString(r, false)}
		default:
			v = genAny(r, 3)
			if v == nil {
				v = []interface{}{nil} // a nil value is not written at all (writeJSON)
			}
		}
		return Value{Type: "iface", V: v, NewTarget: func() interface{} { var x interface{}; return &x }}
	case 6:
		m := map[string]int64{}
		for i, n := 0, r.Intn(5); i < n; i++ {
			m[genString(r, false)] = genInt64(r)
		}
		return Value{Type: "map", V: m, NewTarget: func() interface{} { return &map[string]int64{} }, Deep: true}
	case 7:
		s := []int64{}
		for i, n := 0, r.Intn(6); i < n; i++ {
			s = append(s, genInt64(r))
		}
		return Value{Type: "slice", V: s, NewTarget: func() interface{} { return &[]int64{} }, Deep: true}
	case 8:
		return Value{Type: "int64", V: genInt64(r), NewTarget: func() interface{} { return new(int64) }, Deep: true}
	default:
		return Value{Type: "string", V: genString(r, false), NewTarget: func() interface{} { return new(string) }, Deep: true}
	}
}

// ---- canonical text of a Go value ----

// Canon is the canonical JSON of a value: marshalled, re-read with UseNumber (number literals are
// kept as text), marshalled again (object keys sorted).  Equal values give equal text whatever mix
// of int64 / json.Number / struct / map they are made of; 2^53+1 read as float64 gives another text.
func Canon(v interface{}) string {
	b, err := json.Marshal(v)
	if err != nil {
		return fmt.Sprintf("!unmarshalable %T", err)
	}
	var x interface{}
	d := json.NewDecoder(bytes.NewReader(b))
	d.UseNumber()
	if err := d.Decode(&x); err != nil {
		return "!" + string(b)
	}
	b2, err := json.Marshal(x)
	if err != nil {
		return "!" + string(b)
	}
	return string(b2)
}

// ---- what the two codecs cannot carry (measured, for the evidence file) ----

// DomainProbe measures, with the standard library alone, which single characters do not survive
// an encoding/xml resp. encoding/json round trip inside a string field.
func DomainProbe() map[string]interface{} {
	type S struct {
		S string `json:"s" xml:"s"`
	}
	var xmlBad, jsonBad []string
	cands := []rune{}
	for c := rune(0); c <= 0x20; c++ {
		cands = append(cands, c)
	}
	cands = append(cands, 0x7F, 0x85, 0x2028, 0xFEFF, 0xFFFD, 0xFFFE, 0xFFFF, 0x10000, 0x10FFFF)
	for _, c := range cands {
		in := S{S: "a" + string(c) + "b"}
		xb, err := xml.Marshal(in)
		var out S
		if err != nil || xml.Unmarshal(xb, &out) != nil || out != in {
			xmlBad = append(xmlBad, fmt.Sprintf("U+%04X", c))
		}
		jb, err := json.Marshal(in)
		var jout S
		if err != nil || json.Unmarshal(jb, &jout) != nil || jout != in {
			jsonBad = append(jsonBad, fmt.Sprintf("U+%04X", c))
		}
	}
	// invalid UTF-8 is replaced by U+FFFD by both encoders
	in := S{S: "a\xffb"}
	jb, _ := json.Marshal(in)
	var jout S
	json.Unmarshal(jb, &jout)
	return map[string]interface{}{
		"xml_cannot_carry":            xmlBad,
		"json_cannot_carry":           jsonBad,
		"invalid_utf8_survives_json":  jout == in,
		"excluded_from_common_domain": "strings that are not valid UTF-8 (both encoders replace the bytes by U+FFFD); for XML values: characters outside the XML 1.0 Char production (U+0000-U+001F except TAB LF CR, U+FFFE, U+FFFF), empty non-nil slices (written as nothing, read back as nil), maps, interface{} fields, []byte (written raw), top-level non-struct values; for JSON values: NaN and ±Inf (encoding error), a nil top-level value (writeJSON writes no body for it)",
	}
}
