package entity

import (
	"bytes"
	"compress/gzip"
	"encoding/hex"
	"encoding/json"
	"fmt"
	"os"
	"path/filepath"

	"verifharness/internal/drv"
	"verifharness/internal/report"
	"verifharness/internal/sx"
)

// ---- the former witnesses of the repaired finding F61, as regressions ----
//
// F61 (repaired by 75d0593): a gzip/deflate request body whose stream breaks AFTER a complete
// document was delivered (bad CRC/Adler checksum, cut trailer, garbage after the member) was read
// without error, possibly to a wrong value.  Every history below must satisfy Spec.c16Holds on the
// real code on every run; a failure is an ordinary violation with the history as its replay.
// Lean: Restful.Props.C16_F61_fixed (the toy twin), C16_broken_coding, C16_former_F61_class.

// Regression is one deterministic history; Former lists the reads that lie in the former class
// (each must be answered with an error), every other read is a good body (must read back equal).
type Regression struct {
	ID     string
	H      History
	Former []int
}

// CommittedRegression is the id of the regression that replays/F61.json records.
const CommittedRegression = "gzip-crc-stored-block"

func regressionValue() Value {
	return Value{Type: "flat", V: Flat{I64: 9007199254740993, S: "x"}, NewTarget: func() interface{} { return &Flat{} }, Deep: true, XMLOK: true}
}

// Regressions builds the histories (bodies come from the real entity writer, as in the stream).
func Regressions() ([]Regression, error) {
	v := regressionValue()
	jw, jct, err := Write("json", v.V, false, "WriteEntity")
	if err != nil {
		return nil, err
	}
	xw, xct, err := Write("xml", v.V, false, "WriteEntity")
	if err != nil {
		return nil, err
	}
	read := func(kind, coding, status string, level int, body []byte) Read {
		w, ct := jw, jct
		if kind == "xml" {
			w, ct = xw, xct
		}
		return Read{Kind: kind, Val: v, API: "WriteEntity", BaseCT: ct, Coding: coding, Level: level, Status: status, CT: ct, CE: coding,
			Written: append([]byte{}, w...), Body: body, Faithful: status == "good"}
	}
	cut := func(b []byte, k int) []byte { return append([]byte{}, b[:len(b)-k]...) }
	flip := func(b []byte, fromEnd int) []byte {
		c := append([]byte{}, b...)
		c[len(c)-fromEnd] ^= 0x55
		return c
	}
	plus := func(b []byte, tail []byte) []byte { return append(append([]byte{}, b...), tail...) }
	sync := Cfg{Provider: "sync", Registry: BuiltinRegistry()}
	var out []Regression
	one := func(id string, cfg Cfg, rd Read) {
		out = append(out, Regression{ID: id, H: History{Cfg: cfg, Reads: []Read{rd}}, Former: []int{0}})
	}

	// the committed witness: gzip (one stored block) of {"i64":9007199254740993,…} with the first payload
	// digit changed — the CRC-32 of the trailer no longer matches; was read as i64 = 1007199254740993
	crc := gzipBytes(jw, gzip.NoCompression)
	i := bytes.Index(crc, []byte("9007199254740993"))
	if i < 0 {
		return nil, fmt.Errorf("F61 regression: payload not visible in the stored block")
	}
	crc[i] = '1'
	crcRead := read("json", "gzip", "stored-flip", gzip.NoCompression, crc)
	one(CommittedRegression, sync, crcRead)

	gz, zl := gzipBytes(jw, gzip.DefaultCompression), zlibBytes(jw)
	xgz, xzl := gzipBytes(xw, gzip.BestSpeed), zlibBytes(xw)
	// gzip: trailer (CRC-32, ISIZE) cut or damaged, bytes after the member
	one("gzip-trailer-cut-1", sync, read("json", "gzip", "trailer", gzip.DefaultCompression, cut(gz, 1)))
	one("gzip-trailer-cut-4", sync, read("json", "gzip", "trailer", gzip.DefaultCompression, cut(gz, 4)))
	one("gzip-trailer-cut-8", sync, read("json", "gzip", "trailer", gzip.DefaultCompression, cut(gz, 8)))
	one("gzip-crc-damaged", sync, read("json", "gzip", "checksum", gzip.DefaultCompression, flip(gz, 8)))
	one("gzip-size-damaged", sync, read("json", "gzip", "checksum", gzip.DefaultCompression, flip(gz, 1)))
	one("gzip-garbage-after-member", sync, read("json", "gzip", "extra", gzip.DefaultCompression, plus(gz, []byte("}]>"))))
	one("gzip-second-member-cut", sync, read("json", "gzip", "member2", gzip.DefaultCompression, plus(gz, gz[:12])))
	// deflate: Adler-32 cut or damaged
	one("deflate-adler-cut-1", sync, read("json", "deflate", "trailer", 0, cut(zl, 1)))
	one("deflate-adler-cut-4", sync, read("json", "deflate", "trailer", 0, cut(zl, 4)))
	one("deflate-adler-damaged", sync, read("json", "deflate", "checksum", 0, flip(zl, 2)))
	// the XML reader
	one("xml-gzip-trailer-cut-4", sync, read("xml", "gzip", "trailer", gzip.BestSpeed, cut(xgz, 4)))
	one("xml-deflate-adler-damaged", sync, read("xml", "deflate", "checksum", 0, flip(xzl, 1)))
	// the reader found by substring, and by the default request content type
	sub := read("json", "gzip", "trailer", gzip.DefaultCompression, cut(gz, 2))
	sub.CT = jct + "; charset=utf-8"
	one("gzip-trailer-cut-2-charset", sync, sub)
	dfl := read("json", "deflate", "trailer", 0, cut(zl, 2))
	dfl.CT = ""
	one("deflate-adler-cut-2-default-content-type", Cfg{Provider: "bounded", Cap: 2, Default: mimeJSON, Registry: BuiltinRegistry()}, dfl)
	// one reader object (bounded provider, capacity 1) through good and broken bodies: the reader that was
	// read on to a checksum error is the one the next request gets
	good := read("json", "gzip", "good", gzip.DefaultCompression, gz)
	xgood := read("xml", "gzip", "good", gzip.BestSpeed, xgz)
	out = append(out, Regression{ID: "history-one-pooled-reader", Former: []int{1, 3, 4, 6},
		H: History{Cfg: Cfg{Provider: "bounded", Cap: 1, Registry: BuiltinRegistry()}, Reads: []Read{
			good, crcRead, good,
			read("json", "deflate", "trailer", 0, cut(zl, 1)),
			read("json", "gzip", "trailer", gzip.DefaultCompression, cut(gz, 1)),
			xgood,
			read("json", "gzip", "extra", gzip.DefaultCompression, plus(gz, []byte{0})),
			good}}})
	return out, nil
}

func regressionViolation(kind, what string, c *Case) report.Violation {
	v := report.Violation{Kind: kind, What: what, Case: []string{c.Line}, Human: Human(c), Model: c.Answer, Real: realSummary(c),
		Theorem: "Restful.Props.C16_F61_fixed, C16_broken_coding, C16_former_F61_class"}
	if kind == "correspondence" {
		v.NoInput = true
	}
	return v
}

// judgeRegression runs one regression history; a non-empty `what` is its failure.
func judgeRegression(h History, former []int) (c *Case, kind, what string, err error) {
	if c, err = RunOne(h); err != nil {
		return nil, "", "", err
	}
	issues, err := c.Judge()
	if err != nil {
		return nil, "", "", err
	}
	for _, is := range issues {
		if is.Kind == "spec" {
			return c, "counterexample", fmt.Sprintf("read %d: %s", is.Index, is.What), nil
		}
	}
	isFormer := map[int]bool{}
	for _, i := range former {
		isFormer[i] = true
		if !c.Reads[i].F61 {
			return nil, "", "", fmt.Errorf("read %d of a regression of the repaired finding F61 is not in its class (Entity.f61): %s", i, c.Line)
		}
		if c.Reads[i].Real.Class != "err" {
			return c, "counterexample", fmt.Sprintf("read %d: the stream of the declared coding breaks after a complete document, ReadEntity answered %s", i, c.Reads[i].Real.Key2()), nil
		}
	}
	for i, r := range c.Reads {
		if !isFormer[i] && r.Real.Key2() != "ok:"+short(Canon(r.Read.Val.V)) {
			return c, "counterexample", fmt.Sprintf("read %d: a good body next to broken ones did not read back equal: %s", i, r.Real.Key2()), nil
		}
	}
	for _, is := range issues {
		return c, "correspondence", fmt.Sprintf("read %d: the predicate holds but model and implementation disagree: %s", is.Index, is.What), nil
	}
	return c, "", "", nil
}

// regressionLines: for the committed regression, the protocol line with the answer the property
// demands (what the repaired code gives: an error) and the line with the answer recorded before the
// repair (no error, the value the decoder finds in the delivered bytes — a wrong one); the
// predicate must hold on the first and reject the second.
func regressionLines() (lines []string, expect []int, err error) {
	rs, err := Regressions()
	if err != nil {
		return nil, nil, err
	}
	g := rs[0]
	rd := g.H.Reads[0]
	or := OracleOf(rd)
	if !or.GZ.JDoc.OK || or.GZ.S.Clean() {
		return nil, nil, fmt.Errorf("F61 regression: the oracle does not see a complete document before a broken end")
	}
	for _, o := range []Obs{{Class: "err", Events: "aur", Rid: 0}, {Class: "ok", Canon: or.GZ.JDoc.Canon, Events: "aur", Rid: 0}} {
		n := sx.K("entity", sx.N(0), g.H.Cfg.Sx())
		n.List = append(n.List, ReadSx(rd, or, o, o))
		lines = append(lines, n.String())
	}
	return lines, []int{1, 0}, nil
}

func specBits(lines []string) ([]int, error) {
	ans, err := drv.Run(lines)
	if err != nil {
		return nil, err
	}
	out := make([]int, len(ans))
	for i, a := range ans {
		n, err := sx.Parse(a)
		if err != nil || n.Head() != "out" || n.Find("spec") == nil {
			return nil, fmt.Errorf("driver answer %q", a)
		}
		if n.Find("spec").Args()[1].Atom == "1" {
			out[i] = 1
		}
	}
	return out, nil
}

// RegressionFile is the layout of replays/F61.json since the repair (same layout as replays/F07.json):
// a replay file whose `human` part ReplayFile can re-run, plus what the check expects of it.
type RegressionFile struct {
	Property   string `json:"property"`
	Finding    string `json:"finding"`
	Status     string `json:"status"`
	Theorem    string `json:"theorem"`
	Expect     string `json:"expect"`
	ExpectSpec []int  `json:"expect_spec"`
	Violation  struct {
		Kind  string          `json:"kind"`
		What  string          `json:"what"`
		Case  []string        `json:"case"`
		Human json.RawMessage `json:"human"`
		Model string          `json:"model"`
		Real  string          `json:"real"`
	} `json:"violation"`
}

// WriteRegressionFile (re)creates <dir>/F61.json from the committed regression, executed on the real code.
func WriteRegressionFile(dir string) error {
	defer Restore()
	rs, err := Regressions()
	if err != nil {
		return err
	}
	c, kind, what, err := judgeRegression(rs[0].H, rs[0].Former)
	if err != nil {
		return err
	}
	if kind != "" {
		return fmt.Errorf("the regression fails on the real code (%s): %s", kind, what)
	}
	lines, expect, err := regressionLines()
	if err != nil {
		return err
	}
	if c.Line != lines[0] {
		return fmt.Errorf("what the real code does today is not the line the property demands:\n%s\n%s", c.Line, lines[0])
	}
	var f RegressionFile
	f.Property, f.Finding, f.Status, f.Theorem = "C16", FormerF61, "fixed "+RepairF61, "Restful.Props.C16_F61_fixed"
	f.Expect = "PASS: line 0 carries the answer the real code gives today (an error; Spec.c16Holds = 1, the model agrees), line 1 the answer recorded before the repair (no error and i64 = 1007199254740993 for a body written from 9007199254740993; Spec.c16Holds = 0); `bin/check C16` re-executes the request of `human` on the real code on every run and reports a VIOLATION with this history as replay if it is not answered with an error"
	f.ExpectSpec = expect
	f.Violation.Kind = "regression"
	f.Violation.What = "former witness of F61, repaired by " + RepairF61 + ", kept as a regression that must pass: gzip body (one stored block) of {\"i64\":9007199254740993,…} with the first payload digit changed to 1 — the CRC-32 in the trailer no longer matches; ReadEntity used to return nil with i64 = 1007199254740993 (json.Decoder.Decode returns at the closing brace and nothing read the stream to its end); it now drains the compressed body after a successful read and returns gzip's checksum error"
	f.Violation.Case = lines
	f.Violation.Human, _ = json.Marshal(Human(c))
	f.Violation.Model = c.Answer
	f.Violation.Real = realSummary(c)
	b, _ := json.MarshalIndent(f, "", " ")
	if err := os.WriteFile(filepath.Join(dir, FormerF61+".json"), append(b, '\n'), 0o644); err != nil {
		return err
	}
	return writeRegressionFileF62(dir)
}

// checkRegressions: every former witness must PASS on the real code (a failure is a violation whose
// replay is that history), the predicate must still reject what the unrepaired code answered, and
// the committed replays/F61.json is re-executed and must say the same.
func checkRegressions(run *report.Run) error {
	rs, err := Regressions()
	if err != nil {
		return err
	}
	failed := 0
	for _, g := range rs {
		c, kind, what, err := judgeRegression(g.H, g.Former)
		if err != nil {
			return err
		}
		run.Evaluations += len(g.H.Reads)
		if kind != "" {
			// every failure is counted; the first few are reported (the rest say the same, and the
			// report has room for twenty violations, the stream's own among them)
			run.Count("regression-F61-" + g.ID + "-FAILS")
			if failed++; failed <= 4 {
				run.AddViolation(regressionViolation(kind, fmt.Sprintf("regression %s of the repaired finding F61 (%s: ReadEntity reads a compressed request body to its end): %s", g.ID, RepairF61, what), c))
			}
			continue
		}
		run.Count("regression-F61-" + g.ID + "-passes")
	}
	lines, expect, err := regressionLines()
	if err != nil {
		return err
	}
	got, err := specBits(lines)
	if err != nil {
		return err
	}
	for i := range lines {
		if got[i] != expect[i] {
			return fmt.Errorf("Spec.c16Holds = %d, expected %d, on the recorded answers of the regression of F61: %s", got[i], expect[i], lines[i])
		}
	}
	// the committed file: same lines, and its request re-executed from the file itself
	path := filepath.Join(report.Root, "replays", FormerF61+".json")
	b, err := os.ReadFile(path)
	if err != nil {
		return fmt.Errorf("replays/F61.json (regression of the repaired finding F61) cannot be read: %v", err)
	}
	var f RegressionFile
	if err := json.Unmarshal(b, &f); err != nil {
		return fmt.Errorf("replays/F61.json: %v", err)
	}
	if len(f.Violation.Case) == 0 || len(f.Violation.Case) != len(f.ExpectSpec) {
		return fmt.Errorf("replays/F61.json is not a regression record (expect_spec missing or of the wrong length): regenerate it with VERIF_C16_WRITE_REPLAYS=<dir> bin/check C16")
	}
	bits, err := specBits(f.Violation.Case)
	if err != nil {
		return err
	}
	for i, l := range f.Violation.Case {
		if bits[i] != f.ExpectSpec[i] {
			return fmt.Errorf("replays/F61.json line %d: Spec.c16Holds = %d, the file expects %d: %s", i, bits[i], f.ExpectSpec[i], l)
		}
		if i >= len(lines) || l != lines[i] {
			return fmt.Errorf("replays/F61.json line %d is not the regression the check runs: regenerate it with VERIF_C16_WRITE_REPLAYS=<dir> bin/check C16", i)
		}
	}
	var hu humanHistory
	if err := json.Unmarshal(f.Violation.Human, &hu); err != nil {
		return fmt.Errorf("replays/F61.json human: %v", err)
	}
	h, err := hu.history(path)
	if err != nil {
		return err
	}
	if len(h.Reads) != 1 || !bytes.Equal(h.Reads[0].Body, rs[0].H.Reads[0].Body) {
		return fmt.Errorf("replays/F61.json does not carry the body of the regression %s (%s): regenerate it", CommittedRegression, hex.EncodeToString(rs[0].H.Reads[0].Body))
	}
	c, kind, what, err := judgeRegression(h, []int{0})
	if err != nil {
		return err
	}
	run.Evaluations++
	if kind != "" {
		run.Count("replays/F61.json:FAILS")
		run.AddViolation(regressionViolation(kind, fmt.Sprintf("replays/F61.json, the former witness of the finding F61 repaired by %s, re-executed on the real code: %s", RepairF61, what), c))
		return nil
	}
	run.Count("replays/F61.json:replayed-as-regression")
	return nil
}

// ---- the former witness of the repaired finding F62, as regressions ----
//
// F62 (repaired by 8b400b4): a Content-Type in which two registered keys with different readers occur
// (application/xml; x="application/json") selected its reader by Go map iteration order, so a faithful
// XML body sometimes failed with a JSON syntax error, and identical reads of one history differed.
// The reverse lookup of accessorAt now answers with the key that occurs first in the value (the
// longest of those that start there).  Every read of the histories below lies in the former class
// (Entity.f62) and must read back equal to the value written, on every run; a failure is an
// ordinary violation with the history as its replay.
// Lean: Restful.Props.C16_F62_fixed (the toy twin), C16_select_media, C16_lookup_function, C16_selected_round.

// CommittedRegressionF62 is the id of the regression that replays/F62.json records: the former
// witness, 12 identical reads of the XML writer's output under application/xml; x="application/json".
const CommittedRegressionF62 = "xml-body-content-type-names-json-too"

const theoremsF62 = "Restful.Props.C16_F62_fixed, C16_select_media, C16_lookup_function, C16_selected_round"

// RegressionsF62 builds the histories (Former = every read: all lie in the former class).
func RegressionsF62() ([]Regression, error) {
	v := Value{Type: "flat", V: Flat{I64: 5, S: "x"}, NewTarget: func() interface{} { return &Flat{} }, Deep: true, XMLOK: true}
	jw, jct, err := Write("json", v.V, false, "WriteEntity")
	if err != nil {
		return nil, err
	}
	xw, xct, err := Write("xml", v.V, false, "WriteEntity")
	if err != nil {
		return nil, err
	}
	read := func(kind, coding, ct string) Read {
		w, base := jw, jct
		if kind == "xml" {
			w, base = xw, xct
		}
		body := append([]byte{}, w...)
		switch coding {
		case "gzip":
			body = gzipBytes(w, gzip.DefaultCompression)
		case "deflate":
			body = zlibBytes(w)
		}
		return Read{Kind: kind, Val: v, API: "WriteEntity", BaseCT: base, Coding: coding, Level: gzip.DefaultCompression, Status: "good", CT: ct, CE: coding,
			Written: append([]byte{}, w...), Body: body, Faithful: true}
	}
	xmlNamesJSON := xct + `; x="` + mimeJSON + `"`
	jsonNamesXML := jct + `; x="` + mimeXML + `"`
	all := func(n int) (out []int) {
		for i := 0; i < n; i++ {
			out = append(out, i)
		}
		return out
	}
	var out []Regression
	// the committed witness: 12 identical plain reads on the sync.Pool provider (before the repair some
	// of the 12 went to the JSON reader and failed, at positions that changed from run to run)
	h := History{Cfg: Cfg{Provider: "sync", Registry: BuiltinRegistry()}}
	for k := 0; k < 12; k++ {
		h.Reads = append(h.Reads, read("xml", "", xmlNamesJSON))
	}
	out = append(out, Regression{ID: CommittedRegressionF62, H: h, Former: all(12)})
	// the mirrored Content-Type: the JSON writer's output, gzip coded, one pooled reader
	h = History{Cfg: Cfg{Provider: "bounded", Cap: 1, Registry: BuiltinRegistry()}}
	for k := 0; k < 8; k++ {
		h.Reads = append(h.Reads, read("json", "gzip", jsonNamesXML))
	}
	out = append(out, Regression{ID: "json-body-content-type-names-xml-too", H: h, Former: all(8)})
	// both spellings and all codings interleaved on one provider: each read goes to the reader of ITS media type
	h = History{Cfg: Cfg{Provider: "bounded", Cap: 2, Registry: BuiltinRegistry()}}
	for k := 0; k < 4; k++ {
		h.Reads = append(h.Reads, read("xml", "gzip", xmlNamesJSON), read("json", "", jsonNamesXML), read("xml", "deflate", xmlNamesJSON), read("json", "deflate", jsonNamesXML))
	}
	out = append(out, Regression{ID: "both-spellings-interleaved", H: h, Former: all(16)})
	// no Content-Type, and a default request content type that names both keys
	h = History{Cfg: Cfg{Provider: "sync", Default: xmlNamesJSON, Registry: BuiltinRegistry()}}
	for k := 0; k < 8; k++ {
		h.Reads = append(h.Reads, read("xml", "", ""))
	}
	out = append(out, Regression{ID: "default-request-content-type-names-both", H: h, Former: all(8)})
	return out, nil
}

func regressionViolationF62(kind, what string, c *Case) report.Violation {
	v := regressionViolation(kind, what, c)
	v.Theorem = theoremsF62
	return v
}

// judgeRegressionF62 runs one history of the former class F62: every read must be in the class and
// must read back equal; a non-empty `what` is its failure.
func judgeRegressionF62(h History) (c *Case, kind, what string, err error) {
	if c, err = RunOne(h); err != nil {
		return nil, "", "", err
	}
	issues, err := c.Judge()
	if err != nil {
		return nil, "", "", err
	}
	for _, is := range issues {
		if is.Kind == "spec" {
			return c, "counterexample", fmt.Sprintf("read %d: %s", is.Index, is.What), nil
		}
	}
	for i, r := range c.Reads {
		if !r.F62 {
			return nil, "", "", fmt.Errorf("read %d of a regression of the repaired finding F62 is not in its class (Entity.f62): %s", i, c.Line)
		}
		if r.Real.Key2() != "ok:"+short(Canon(r.Read.Val.V)) {
			return c, "counterexample", fmt.Sprintf("read %d: a faithful %s body under Content-Type %q (default %q) did not read back equal: %s", i, r.Read.Kind, r.Read.CT, h.Cfg.Default, r.Real.Key2()), nil
		}
	}
	for _, is := range issues {
		return c, "correspondence", fmt.Sprintf("read %d: the predicate holds but model and implementation disagree: %s", is.Index, is.What), nil
	}
	return c, "", "", nil
}

// regressionLinesF62: for the committed regression, the protocol line with the answers the
// property demands (what the repaired code gives: the value, 12 times) and a line with answers as
// recorded before the repair (reads 0 and 1 handed to the JSON reader: an error); the predicate
// must hold on the first and reject the second.
func regressionLinesF62() (lines []string, expect []int, err error) {
	rs, err := RegressionsF62()
	if err != nil {
		return nil, nil, err
	}
	g := rs[0]
	for variant := 0; variant < 2; variant++ {
		n := sx.K("entity", sx.N(0), g.H.Cfg.Sx())
		for i, rd := range g.H.Reads {
			or := OracleOf(rd)
			if !or.ID.XDoc.OK || or.ID.JDoc.OK {
				return nil, nil, fmt.Errorf("F62 regression: the oracle does not see an XML document that is no JSON document")
			}
			o := Obs{Class: "ok", Canon: or.ID.XDoc.Canon, Events: "", Rid: -1}
			if variant == 1 && i < 2 {
				o = Obs{Class: "err", Events: "", Rid: -1}
			}
			n.List = append(n.List, ReadSx(rd, or, o, o))
		}
		lines = append(lines, n.String())
	}
	return lines, []int{1, 0}, nil
}

func writeRegressionFileF62(dir string) error {
	rs, err := RegressionsF62()
	if err != nil {
		return err
	}
	c, kind, what, err := judgeRegressionF62(rs[0].H)
	if err != nil {
		return err
	}
	if kind != "" {
		return fmt.Errorf("the F62 regression fails on the real code (%s): %s", kind, what)
	}
	lines, expect, err := regressionLinesF62()
	if err != nil {
		return err
	}
	if c.Line != lines[0] {
		return fmt.Errorf("what the real code does today is not the line the property demands:\n%s\n%s", c.Line, lines[0])
	}
	var f RegressionFile
	f.Property, f.Finding, f.Status, f.Theorem = "C16", FormerF62, "fixed "+RepairF62, "Restful.Props.C16_F62_fixed"
	f.Expect = "PASS: line 0 carries the answers the real code gives today (the value written, 12 times; Spec.c16Holds = 1, the model agrees), line 1 answers as recorded before the repair (reads 0 and 1 handed to the JSON reader: *json.SyntaxError; Spec.c16Holds = 0); `bin/check C16` re-executes the history of `human` on the real code on every run and reports a VIOLATION with this history as replay if one of the reads does not return the value written"
	f.ExpectSpec = expect
	f.Violation.Kind = "regression"
	f.Violation.What = "former witness of F62, repaired by " + RepairF62 + ", kept as a regression that must pass: the XML writer's output for Flat{I64:5,S:\"x\"} read 12 times under Content-Type: application/xml; x=\"application/json\" (built-in registry only) — accessorAt finds no exact key and both built-in keys occur in the value; the reader used to be whichever Go's map iteration met first (some of the 12 identical reads went to the JSON reader and failed, at positions that changed from run to run); the reverse lookup now answers with the registered key that occurs first in the value (the longest of those that start there): application/xml, every time"
	f.Violation.Case = lines
	f.Violation.Human, _ = json.Marshal(Human(c))
	f.Violation.Model = c.Answer
	f.Violation.Real = realSummary(c)
	b, _ := json.MarshalIndent(f, "", " ")
	return os.WriteFile(filepath.Join(dir, FormerF62+".json"), append(b, '\n'), 0o644)
}

// checkRegressionsF62: every history of the former class must PASS on the real code (a failure is
// a violation whose replay is that history) — each history is run several times, the defect used
// to depend on map iteration order —, the predicate must still reject what the unrepaired code
// answered, and the committed replays/F62.json is re-executed and must say the same.
func checkRegressionsF62(run *report.Run) error {
	rs, err := RegressionsF62()
	if err != nil {
		return err
	}
	failed := 0
	for _, g := range rs {
		ok := true
		for t := 0; t < 5 && ok; t++ {
			c, kind, what, err := judgeRegressionF62(g.H)
			if err != nil {
				return err
			}
			run.Evaluations += len(g.H.Reads)
			if kind != "" {
				ok = false
				run.Count("regression-F62-" + g.ID + "-FAILS")
				if failed++; failed <= 3 {
					run.AddViolation(regressionViolationF62(kind, fmt.Sprintf("regression %s of the repaired finding F62 (%s: the reverse lookup of accessorAt answers with the registered key that occurs first in the value): %s", g.ID, RepairF62, what), c))
				}
			}
		}
		if ok {
			run.Count("regression-F62-" + g.ID + "-passes")
		}
	}
	lines, expect, err := regressionLinesF62()
	if err != nil {
		return err
	}
	got, err := specBits(lines)
	if err != nil {
		return err
	}
	for i := range lines {
		if got[i] != expect[i] {
			return fmt.Errorf("Spec.c16Holds = %d, expected %d, on the recorded answers of the regression of F62: %s", got[i], expect[i], lines[i])
		}
	}
	path := filepath.Join(report.Root, "replays", FormerF62+".json")
	b, err := os.ReadFile(path)
	if err != nil {
		return fmt.Errorf("replays/F62.json (regression of the repaired finding F62) cannot be read: %v", err)
	}
	var f RegressionFile
	if err := json.Unmarshal(b, &f); err != nil {
		return fmt.Errorf("replays/F62.json: %v", err)
	}
	if len(f.Violation.Case) == 0 || len(f.Violation.Case) != len(f.ExpectSpec) {
		return fmt.Errorf("replays/F62.json is not a regression record (expect_spec missing or of the wrong length): regenerate it with VERIF_C16_WRITE_REPLAYS=<dir> bin/check C16")
	}
	bits, err := specBits(f.Violation.Case)
	if err != nil {
		return err
	}
	for i, l := range f.Violation.Case {
		if bits[i] != f.ExpectSpec[i] {
			return fmt.Errorf("replays/F62.json line %d: Spec.c16Holds = %d, the file expects %d: %s", i, bits[i], f.ExpectSpec[i], l)
		}
		if i >= len(lines) || l != lines[i] {
			return fmt.Errorf("replays/F62.json line %d is not the regression the check runs: regenerate it with VERIF_C16_WRITE_REPLAYS=<dir> bin/check C16", i)
		}
	}
	var hu humanHistory
	if err := json.Unmarshal(f.Violation.Human, &hu); err != nil {
		return fmt.Errorf("replays/F62.json human: %v", err)
	}
	h, err := hu.history(path)
	if err != nil {
		return err
	}
	if len(h.Reads) != len(rs[0].H.Reads) || !bytes.Equal(h.Reads[0].Body, rs[0].H.Reads[0].Body) || h.Reads[0].CT != rs[0].H.Reads[0].CT {
		return fmt.Errorf("replays/F62.json does not carry the history of the regression %s: regenerate it", CommittedRegressionF62)
	}
	c, kind, what, err := judgeRegressionF62(h)
	if err != nil {
		return err
	}
	run.Evaluations += len(h.Reads)
	if kind != "" {
		run.Count("replays/F62.json:FAILS")
		run.AddViolation(regressionViolationF62(kind, fmt.Sprintf("replays/F62.json, the former witness of the finding F62 repaired by %s, re-executed on the real code: %s", RepairF62, what), c))
		return nil
	}
	run.Count("replays/F62.json:replayed-as-regression")
	return nil
}
