package entity

import (
	"bytes"
	"encoding/hex"
	"encoding/json"
	"fmt"
	"os"
)

func targetFor(valueType string) (func() interface{}, bool) {
	switch valueType {
	case "flat":
		return func() interface{} { return &Flat{} }, true
	case "nested":
		return func() interface{} { return &Nested{} }, true
	case "loose":
		return func() interface{} { return &Loose{} }, false
	case "iface":
		return func() interface{} { var x interface{}; return &x }, false
	case "map":
		return func() interface{} { return &map[string]int64{} }, true
	case "slice":
		return func() interface{} { return &[]int64{} }, true
	case "int64":
		return func() interface{} { return new(int64) }, true
	case "string":
		return func() interface{} { return new(string) }, true
	}
	return nil, false
}

// humanHistory is the `human` part of a C16 replay file (what Human writes).
type humanHistory struct {
	ProviderKind string      `json:"provider_kind"`
	ProviderCap  int         `json:"provider_capacity"`
	Default      string      `json:"default_request_content_type"`
	Registry     [][2]string `json:"registry"`
	Reads        []struct {
		CT        string `json:"content_type"`
		CE        string `json:"content_encoding"`
		BodyHex   string `json:"body_hex"`
		Written   string `json:"written_hex"`
		ValueType string `json:"value_type"`
		Value     string `json:"value_written"`
		Kind      string `json:"kind"`
		Faithful  bool   `json:"faithful"`
		Same      bool   `json:"same_request_as_previous"`
		Dispatch  bool   `json:"group_runs_inside_a_container_dispatch"`
	} `json:"reads"`
}

// history rebuilds the recorded history (registers the extra keys when the record used them).
func (hu humanHistory) history(path string) (History, error) {
	if len(hu.Reads) == 0 || hu.Reads[0].ValueType == "" {
		return History{}, fmt.Errorf("%s carries no replayable reads (human.reads[].body_hex, value_type …)", path)
	}
	h := History{Cfg: Cfg{Provider: hu.ProviderKind, Cap: hu.ProviderCap, Default: hu.Default, Registry: hu.Registry}}
	if len(h.Cfg.Registry) > len(BuiltinRegistry()) {
		RegisterExtras()
	}
	for i, r := range hu.Reads {
		nt, deep := targetFor(r.ValueType)
		if nt == nil {
			return h, fmt.Errorf("read %d: unknown value type %q", i, r.ValueType)
		}
		body, err := hex.DecodeString(r.BodyHex)
		if err != nil {
			return h, err
		}
		written, _ := hex.DecodeString(r.Written)
		t := nt()
		d := json.NewDecoder(bytes.NewReader([]byte(r.Value)))
		d.UseNumber()
		if err := d.Decode(t); err != nil {
			return h, fmt.Errorf("read %d: value_written does not parse: %v", i, err)
		}
		h.Reads = append(h.Reads, Read{Kind: r.Kind, Val: Value{Type: r.ValueType, V: Deref(t), NewTarget: nt, Deep: deep}, CT: r.CT, CE: r.CE,
			Body: body, Written: written, Faithful: r.Faithful, Status: "replayed", Same: r.Same, Dispatch: r.Dispatch})
	}
	return h, nil
}

// ReplayFile re-runs the history recorded in the `human` part of a C16 replay file on the real
// code (in order, on one provider) and on the driver, and prints both sides.
func ReplayFile(path string) error {
	b, err := os.ReadFile(path)
	if err != nil {
		return err
	}
	var f struct {
		Violation struct {
			What  string       `json:"what"`
			Human humanHistory `json:"human"`
		} `json:"violation"`
	}
	if err := json.Unmarshal(b, &f); err != nil {
		return err
	}
	h, err := f.Violation.Human.history(path)
	if err != nil {
		return err
	}
	c, err := RunOne(h)
	if err != nil {
		return err
	}
	issues, err := c.Judge()
	if err != nil {
		return err
	}
	fmt.Println("what:", f.Violation.What)
	for i, r := range c.Reads {
		fmt.Printf("read %d (%s%s): Content-Type=%q Content-Encoding=%q body=%d bytes\n  real : %s %s ledger=%q (alone on a fresh provider: %s)\n  model: %s path=%s\n  Spec.C16.readHolds=%v clauses[no-panic,round-trip,broken-coding,broken-syntax,history,ledger]=%s class of the repaired F61=%v class F62=%v\n",
			i, StageOf(c.H.Reads, i), map[bool]string{true: ", on the request of the read before", false: ""}[r.Read.Same && i > 0], r.Read.CT, r.Read.CE, len(r.Read.Body), r.Real.Key(), r.Real.Detail, r.Real.Events, r.Alone.Key(), r.ModelRaw, r.Tag, r.S, r.Clauses, r.F61, r.F62)
	}
	fmt.Printf("Spec.c16Holds=%v issues=%v\n", c.Spec, issues)
	return nil
}
