package entity

import (
	"bytes"
	"compress/flate"
	"compress/gzip"
	"compress/zlib"
	"encoding/binary"
	"fmt"
	"hash/adler32"
	"net/http/httptest"
	"strings"
	"time"

	restful "github.com/emicklei/go-restful/v3"

	"verifharness/internal/rng"
)

// Cfg is the configuration of one history.
type Cfg struct {
	Provider string      // "sync" | "bounded"
	Cap      int         // bounded: readers (and writers) capacity
	Default  string      // DefaultRequestContentType
	Registry [][2]string // (key, "json"|"xml"): entityAccessRegistry as this process made it
}

// Read is one ReadEntity call: how the body came about and what is sent.
type Read struct {
	Kind    string // writer: "json" | "xml"
	Val     Value
	Pretty  bool
	API     string // WriteEntity | WriteAsJson | WriteAsXml | WriteJson
	BaseCT  string // Content-Type the writer set
	Coding  string // actual coding of the body: "" | gzip | deflate
	Level   int    // gzip level
	Status  string // good | trunc | trailer | flip | checksum | magic | stored-flip | empty | garbage | extra | member2
	CT      string // Content-Type sent
	CTClass string
	CE      string // Content-Encoding sent
	Written []byte // the writer's output
	Body    []byte // the request body
	// Faithful: Body is exactly Written under the coding that CE names
	Faithful bool
	// Enc: which legal encoder wrote the coded body — zero value: Go's own compress/gzip and
	// compress/zlib writers with their fixed headers; otherwise another legal header of the format
	Enc EncOpt
	// Same: the read is performed on the *restful.Request of the read before it (which has been
	// through that ReadEntity, and the ones before on the same request): this read's body is put in
	// place of what is left of the earlier one and the two entity headers are set to this read's.
	// Reads joined by Same form a group (Groups).
	Same bool
	// Dispatch, on the first read of a group: the group is performed by the stages of ONE dispatch
	// through a real container (filters, then the route function) instead of ReadEntity calls on a
	// restful.NewRequest
	Dispatch bool
}

// History is one case.
type History struct {
	Cfg   Cfg
	Reads []Read
}

const (
	mimeJSON = restful.MIME_JSON
	mimeXML  = restful.MIME_XML
)

// BuiltinRegistry is what entity_accessors.go's init registers.
func BuiltinRegistry() [][2]string { return [][2]string{{mimeJSON, "json"}, {mimeXML, "xml"}} }

// ExtraRegistry is registered by the harness for the second phase of a run.
func ExtraRegistry() [][2]string {
	return [][2]string{{"text/xml", "xml"}, {"application/vnd.verif+json", "json"}, {"json", "json"}}
}

// RegisterExtras adds the extra keys to the package registry (there is no way to remove them).
func RegisterExtras() {
	for _, e := range ExtraRegistry() {
		if e[1] == "json" {
			restful.RegisterEntityAccessor(e[0], restful.NewEntityAccessorJSON(e[0]))
		} else {
			restful.RegisterEntityAccessor(e[0], restful.NewEntityAccessorXML(e[0]))
		}
	}
}

// Write runs the real entity writer into a recorder.
func Write(kind string, v interface{}, pretty bool, api string) (body []byte, ct string, err error) {
	defer func() {
		if p := recover(); p != nil {
			err = fmt.Errorf("writer panicked: %v", p)
		}
	}()
	rec := httptest.NewRecorder()
	resp := restful.NewResponse(rec)
	resp.PrettyPrint(pretty)
	switch api {
	case "WriteEntity":
		if kind == "json" {
			resp.SetRequestAccepts(mimeJSON)
		} else {
			resp.SetRequestAccepts(mimeXML)
		}
		err = resp.WriteEntity(v)
	case "WriteAsJson":
		err = resp.WriteAsJson(v)
	case "WriteAsXml":
		err = resp.WriteAsXml(v)
	case "WriteJson":
		err = resp.WriteJson(v, mimeJSON)
	default:
		err = fmt.Errorf("unknown writer api %s", api)
	}
	return rec.Body.Bytes(), rec.Result().Header.Get("Content-Type"), err
}

func gzipBytes(b []byte, level int) []byte {
	var buf bytes.Buffer
	w, err := gzip.NewWriterLevel(&buf, level)
	if err != nil {
		panic(err)
	}
	w.Write(b)
	w.Close()
	return buf.Bytes()
}

func zlibBytes(b []byte) []byte {
	var buf bytes.Buffer
	w := zlib.NewWriter(&buf)
	w.Write(b)
	w.Close()
	return buf.Bytes()
}

// EncOpt describes an encoder other than Go's own writers: any sender may have produced the body,
// and the formats leave it choices that compress/zlib and compress/gzip never make.
type EncOpt struct {
	// zlib (RFC 1950): Window = log2 of the declared LZ77 window, 8..15 (CMF = (Window-8)<<4 | 8;
	// Go's writer always declares 15, i.e. CMF 0x78), FLevel = the FLG.FLEVEL hint 0..3 (FCHECK
	// follows from both), Flate = compress/flate level of the deflate data inside.  Window = 0:
	// Go's zlib writer.
	Window, FLevel, Flate int
	// gzip (RFC 1952): optional header fields Go's writer leaves out unless told: file name,
	// comment, extra field, modification time, OS byte
	GzName, GzComment string
	GzExtra           []byte
	GzMTime           int64
	GzOS              byte
	Gz                bool
}

func (o EncOpt) String() string {
	switch {
	case o.Window != 0:
		return fmt.Sprintf("hand-built zlib stream: window 2^%d (CMF %#02x), FLEVEL %d, flate level %d", o.Window, (o.Window-8)<<4|8, o.FLevel, o.Flate)
	case o.Gz:
		return fmt.Sprintf("gzip header with name %q, comment %q, %d extra bytes, mtime %d, OS %d", o.GzName, o.GzComment, len(o.GzExtra), o.GzMTime, o.GzOS)
	}
	return "Go's own writer"
}

// zlibBytesWith builds a zlib stream by hand: header for the chosen window and level hint, raw
// deflate data from compress/flate, Adler-32 of the uncompressed data.  The declared window is kept
// honest: when the payload is longer than the window, the data is written without back-references
// (Huffman only), which is legal under every window size.
func zlibBytesWith(b []byte, o EncOpt) []byte {
	level := o.Flate
	if len(b) > 1<<uint(o.Window) && level != flate.NoCompression {
		level = flate.HuffmanOnly
	}
	cmf := byte((o.Window-8)<<4 | 8)
	flg := byte(o.FLevel&3) << 6
	if rem := (uint(cmf)<<8 | uint(flg)) % 31; rem != 0 {
		flg += byte(31 - rem)
	}
	var buf bytes.Buffer
	buf.Write([]byte{cmf, flg})
	w, err := flate.NewWriter(&buf, level)
	if err != nil {
		panic(err)
	}
	w.Write(b)
	w.Close()
	var sum [4]byte
	binary.BigEndian.PutUint32(sum[:], adler32.Checksum(b))
	buf.Write(sum[:])
	return buf.Bytes()
}

func gzipBytesWith(b []byte, level int, o EncOpt) []byte {
	var buf bytes.Buffer
	w, err := gzip.NewWriterLevel(&buf, level)
	if err != nil {
		panic(err)
	}
	w.Name, w.Comment, w.Extra, w.OS = o.GzName, o.GzComment, o.GzExtra, o.GzOS
	if o.GzMTime != 0 {
		w.ModTime = time.Unix(o.GzMTime, 0)
	}
	w.Write(b)
	w.Close()
	return buf.Bytes()
}

var flateLevels = []int{flate.DefaultCompression, flate.BestSpeed, flate.NoCompression, flate.HuffmanOnly, flate.BestCompression, 3, 6}

// GenEnc draws the encoder of a coded body: in half of the cases Go's own writer, otherwise any
// legal header the format allows.
func GenEnc(r *rng.R, coding string) EncOpt {
	var o EncOpt
	if coding == "" || r.Chance(1, 2) {
		return o
	}
	switch coding {
	case "deflate":
		o.Window = 8 + r.Intn(8)
		o.FLevel = r.Intn(4)
		o.Flate = flateLevels[r.Intn(len(flateLevels))]
	case "gzip":
		o.Gz = true
		if r.Chance(1, 2) {
			o.GzName = []string{"entity.json", "a", "body.xml", "r\u00e9sum\u00e9"}[r.Intn(4)]
		}
		if r.Chance(1, 3) {
			o.GzComment = []string{"sent by a client", "{}", "<x/>"}[r.Intn(3)]
		}
		if r.Chance(1, 3) {
			o.GzExtra = make([]byte, 1+r.Intn(40))
			for i := range o.GzExtra {
				o.GzExtra[i] = byte(r.U64())
			}
		}
		if r.Chance(1, 2) {
			o.GzMTime = int64(1 + r.Intn(1<<31-2))
		}
		o.GzOS = []byte{0, 3, 7, 11, 255}[r.Intn(5)]
	}
	return o
}

// Encode applies the actual coding.
func Encode(coding string, level int, o EncOpt, b []byte) []byte {
	switch coding {
	case "gzip":
		if o.Gz {
			return gzipBytesWith(b, level, o)
		}
		return gzipBytes(b, level)
	case "deflate":
		if o.Window != 0 {
			return zlibBytesWith(b, o)
		}
		return zlibBytes(b)
	}
	return append([]byte{}, b...)
}

var gzipLevels = []int{gzip.DefaultCompression, gzip.BestSpeed, gzip.NoCompression, gzip.HuffmanOnly, gzip.BestCompression}

// breakBody derives a broken body from a good one.
func breakBody(r *rng.R, status string, good []byte, written []byte) []byte {
	b := append([]byte{}, good...)
	switch status {
	case "trunc":
		if len(b) == 0 {
			return b
		}
		return b[:r.Intn(len(b))]
	case "trailer": // cut inside the last 8 bytes (gzip CRC+size, zlib Adler, or the tail of a plain document)
		k := 1 + r.Intn(8)
		if k > len(b) {
			k = len(b)
		}
		return b[:len(b)-k]
	case "flip":
		for i, n := 0, 1+r.Intn(3); i < n && len(b) > 0; i++ {
			b[r.Intn(len(b))] ^= byte(1 << uint(r.Intn(8)))
		}
		return b
	case "checksum": // a byte of the last 8 (gzip) / 4 (zlib)
		if len(b) > 0 {
			k := 1 + r.Intn(4)
			if k > len(b) {
				k = len(b)
			}
			b[len(b)-k] ^= 0x55
		}
		return b
	case "magic":
		if len(b) > 0 {
			b[r.Intn(2)%len(b)] ^= 0xFF
		}
		return b
	case "stored-flip": // change one payload character where it is visible in the coded body (stored blocks)
		if len(written) > 2 {
			for try := 0; try < 20; try++ {
				i := r.Intn(len(written) - 1)
				frag := written[i : i+2]
				if j := bytes.Index(b, frag); j >= 0 && frag[0] >= '0' && frag[0] <= '8' {
					b[j]++
					return b
				}
			}
		}
		if len(b) > 12 {
			b[10+r.Intn(len(b)-12)] ^= 0x01
		}
		return b
	case "empty":
		return []byte{}
	case "garbage":
		g := make([]byte, 1+r.Intn(40))
		for i := range g {
			g[i] = byte(r.U64())
		}
		return g
	case "extra":
		return append(b, []byte("}]>\x00 trailing")[:1+r.Intn(13)]...)
	case "member2": // the good body followed by a cut copy of itself: a gzip reader goes on into the second member and ends in an error
		if len(b) > 1 {
			return append(b, good[:1+r.Intn(len(good)-1)]...)
		}
		return b
	}
	return b
}

var oddEncodings = []string{"GZIP", "Gzip", "gzip, deflate", " gzip", "gzip ", "x-gzip", "identity", "br", "DEFLATE", "deflate, gzip", "compress"}

// spellCT derives the Content-Type that is sent from the one the writer set.
func spellCT(r *rng.R, base, kind string, extras bool) (ct, class string) {
	other := mimeXML
	if kind == "xml" {
		other = mimeJSON
	}
	k := r.Intn(100)
	switch {
	case k < 34:
		return base, "exact"
	case k < 46:
		return base + "; charset=utf-8", "charset"
	case k < 52:
		return base + ";charset=UTF-8", "charset-tight"
	case k < 56:
		return base + " ; charset=utf-8 ; boundary=x", "params-spaced"
	case k < 60:
		return strings.ToUpper(base), "upper"
	case k < 63:
		return strings.Title(base), "mixed-case"
	case k < 66:
		return " " + base, "lead-space"
	case k < 69:
		return base + " ", "trail-space"
	case k < 75:
		return "", "absent"
	case k < 78:
		return "*/*", "star"
	case k < 82:
		return other, "other-kind"
	case k < 85:
		return base + `; x="` + other + `"`, "both-keys"
	case k < 87:
		return other + `; x="` + base + `"`, "both-keys-reversed"
	case k < 90:
		return "text/plain", "foreign"
	case k < 92:
		return base + "x", "superstring"
	case k < 94:
		return "x" + base, "superstring-front"
	case k < 96:
		return strings.Replace(base, "/", "/vnd.api+", 1), "vendor"
	default:
		if extras {
			e := ExtraRegistry()
			pick := e[r.Intn(len(e))]
			return pick[0] + []string{"", "; charset=utf-8"}[r.Intn(2)], "extra-key:" + pick[1]
		}
		return base + ";", "semicolon"
	}
}

// GenRead draws one read.
func GenRead(r *rng.R, extras bool) (Read, error) {
	rd := Read{Kind: "json"}
	if r.Chance(2, 5) {
		rd.Kind = "xml"
	}
	rd.Val = GenValue(r, rd.Kind)
	rd.Pretty = r.Chance(1, 2)
	if rd.Kind == "json" {
		rd.API = []string{"WriteEntity", "WriteAsJson", "WriteJson"}[r.Intn(3)]
	} else {
		rd.API = []string{"WriteEntity", "WriteAsXml"}[r.Intn(2)]
	}
	w, ct, err := Write(rd.Kind, rd.Val.V, rd.Pretty, rd.API)
	if err != nil {
		return rd, fmt.Errorf("writer refused a %s value: %v", rd.Val.Type, err)
	}
	rd.Written, rd.BaseCT = append([]byte{}, w...), ct
	rd.Coding = []string{"", "", "gzip", "gzip", "gzip", "deflate", "deflate"}[r.Intn(7)]
	rd.Level = gzipLevels[r.Intn(len(gzipLevels))]
	rd.Enc = GenEnc(r.Fork(0x454e43), rd.Coding)
	good := Encode(rd.Coding, rd.Level, rd.Enc, rd.Written)
	rd.Status = "good"
	if r.Chance(2, 5) {
		rd.Status = []string{"trunc", "trunc", "trailer", "trailer", "flip", "flip", "checksum", "magic", "stored-flip", "empty", "garbage", "extra", "member2"}[r.Intn(13)]
		if rd.Status == "stored-flip" && rd.Coding == "gzip" {
			rd.Level = gzip.NoCompression
			good = Encode(rd.Coding, rd.Level, rd.Enc, rd.Written)
		}
	}
	rd.Body = breakBody(r, rd.Status, good, rd.Written)
	if bytes.Equal(rd.Body, good) {
		rd.Status = "good"
	}
	// the declared coding: mostly the true one
	rd.CE = rd.Coding
	switch k := r.Intn(20); {
	case k == 0:
		rd.CE = []string{"", "gzip", "deflate"}[r.Intn(3)]
	case k == 1:
		rd.CE = oddEncodings[r.Intn(len(oddEncodings))]
	}
	rd.CT, rd.CTClass = spellCT(r, rd.BaseCT, rd.Kind, extras)
	rd.Faithful = rd.Status == "good" && rd.CE == rd.Coding
	return rd, nil
}

// GenHistory draws one history of 1–12 reads.  Gzip-heavy histories on small bounded providers make
// the same reader object go through good and broken bodies.
func GenHistory(r *rng.R, extras bool) (History, error) {
	h := History{}
	switch r.Intn(6) {
	case 0, 1:
		h.Cfg.Provider = "sync"
	default:
		h.Cfg.Provider = "bounded"
		h.Cfg.Cap = []int{0, 1, 1, 2}[r.Intn(4)]
	}
	switch r.Intn(10) {
	case 0, 1:
		h.Cfg.Default = mimeJSON
	case 2, 3:
		h.Cfg.Default = mimeXML
	case 4:
		h.Cfg.Default = mimeJSON + "; charset=utf-8"
	case 5:
		h.Cfg.Default = "bogus/type"
	}
	h.Cfg.Registry = BuiltinRegistry()
	if extras {
		h.Cfg.Registry = append(h.Cfg.Registry, ExtraRegistry()...)
	}
	n := 1 + r.Intn(12)
	gzipHeavy := r.Chance(1, 2)
	for i := 0; i < n; i++ {
		// which request object the read is performed on: in a quarter of the cases the one of the read
		// before (a filter read the entity, the next filter or the route function reads again) — mostly
		// with the same bytes put back and the same headers, else with another body and headers put in
		// their place; a request of its own is in half of the cases one that a container dispatches
		same := i > 0 && r.Chance(1, 4)
		if same && r.Chance(3, 5) {
			rd := h.Reads[i-1]
			rd.Same, rd.Dispatch = true, false
			h.Reads = append(h.Reads, rd)
			continue
		}
		dispatch := !same && r.Chance(1, 2)
		if i > 0 && r.Chance(1, 6) {
			// the same request again (history independence on identical inputs)
			rd := h.Reads[r.Intn(i)]
			rd.Same, rd.Dispatch = same, dispatch
			h.Reads = append(h.Reads, rd)
			continue
		}
		rd, err := GenRead(r, extras)
		if err != nil {
			return h, err
		}
		rd.Same, rd.Dispatch = same, dispatch
		if gzipHeavy && rd.Coding != "gzip" && r.Chance(2, 3) {
			// re-code as gzip, keeping the status
			rd.Coding = "gzip"
			rd.Enc = GenEnc(r.Fork(0x454e43), "gzip")
			good := Encode("gzip", rd.Level, rd.Enc, rd.Written)
			rd.Body = breakBody(r, rd.Status, good, rd.Written)
			if rd.CE == "" || rd.CE == "deflate" {
				rd.CE = "gzip"
			}
			rd.Faithful = rd.Status == "good" && rd.CE == rd.Coding
			if bytes.Equal(rd.Body, good) && rd.Status != "good" {
				rd.Status = "good"
				rd.Faithful = rd.CE == rd.Coding
			}
		}
		h.Reads = append(h.Reads, rd)
	}
	return h, nil
}
