// Package sx reads and writes the S-expression line protocol (DESIGN A.1):
// atoms are keywords, decimals, or hex-encoded byte strings ("-" is the empty string).
package sx

import (
	"encoding/hex"
	"fmt"
	"strconv"
	"strings"
)

type Node struct {
	Atom string
	List []*Node
	IsL  bool
}

func A(s string) *Node       { return &Node{Atom: s} }
func N(i int) *Node          { return &Node{Atom: strconv.Itoa(i)} }
func I64(i int64) *Node      { return &Node{Atom: strconv.FormatInt(i, 10)} }
func L(items ...*Node) *Node { return &Node{List: items, IsL: true} }
func K(kw string, items ...*Node) *Node {
	return &Node{List: append([]*Node{A(kw)}, items...), IsL: true}
}
func B(b bool) *Node {
	if b {
		return A("1")
	}
	return A("0")
}

// H is a hex atom for an arbitrary byte string.
func H(s string) *Node {
	if s == "" {
		return A("-")
	}
	return A(hex.EncodeToString([]byte(s)))
}

// Hs is (kw h1 h2 ...).
func Hs(kw string, xs []string) *Node {
	n := K(kw)
	for _, x := range xs {
		n.List = append(n.List, H(x))
	}
	return n
}

func Ns(kw string, xs []int) *Node {
	n := K(kw)
	for _, x := range xs {
		n.List = append(n.List, N(x))
	}
	return n
}

func (n *Node) write(sb *strings.Builder) {
	if !n.IsL {
		sb.WriteString(n.Atom)
		return
	}
	sb.WriteByte('(')
	for i, c := range n.List {
		if i > 0 {
			sb.WriteByte(' ')
		}
		c.write(sb)
	}
	sb.WriteByte(')')
}

func (n *Node) String() string {
	var sb strings.Builder
	n.write(&sb)
	return sb.String()
}

func Parse(s string) (*Node, error) {
	stack := []*Node{{IsL: true}}
	cur := strings.Builder{}
	flush := func() {
		if cur.Len() > 0 {
			top := stack[len(stack)-1]
			top.List = append(top.List, A(cur.String()))
			cur.Reset()
		}
	}
	for i := 0; i < len(s); i++ {
		c := s[i]
		switch c {
		case '(':
			flush()
			stack = append(stack, &Node{IsL: true})
		case ')':
			flush()
			if len(stack) < 2 {
				return nil, fmt.Errorf("unbalanced ) in %q", s)
			}
			top := stack[len(stack)-1]
			stack = stack[:len(stack)-1]
			stack[len(stack)-1].List = append(stack[len(stack)-1].List, top)
		case ' ', '\n', '\t', '\r':
			flush()
		default:
			cur.WriteByte(c)
		}
	}
	flush()
	if len(stack) != 1 || len(stack[0].List) != 1 {
		return nil, fmt.Errorf("not exactly one expression in %q", s)
	}
	return stack[0].List[0], nil
}

// Head is the keyword of a list node ("" otherwise).
func (n *Node) Head() string {
	if n.IsL && len(n.List) > 0 && !n.List[0].IsL {
		return n.List[0].Atom
	}
	return ""
}

// Args are the items after the keyword.
func (n *Node) Args() []*Node {
	if n.IsL && len(n.List) > 0 {
		return n.List[1:]
	}
	return nil
}

// Find returns the first child list with the given keyword.
func (n *Node) Find(kw string) *Node {
	for _, c := range n.List {
		if c.Head() == kw {
			return c
		}
	}
	return nil
}

// Str decodes a hex atom.
func (n *Node) Str() string {
	if n.IsL || n.Atom == "-" {
		return ""
	}
	b, err := hex.DecodeString(n.Atom)
	if err != nil {
		return "?" + n.Atom
	}
	return string(b)
}

func (n *Node) Int() int {
	v, _ := strconv.Atoi(n.Atom)
	return v
}
