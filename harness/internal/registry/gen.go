package registry

import (
	"strings"

	"verifharness/internal/rng"
	"verifharness/internal/routing"
)

// root paths that share prefixes, differ only by a trailing slash or by a variable, with and without "/"
var rootPool = []string{"/a", "/a/b", "/a/{id}", "/a/{id}/b", "/ab", "/a/", "/", "", "/b/{x}", "/b", "/c", "/c/d/", "/{v}", "/a/b/{id}", "/users", "/users/{id}/b"}
var relPool = []string{"", "/", "/x", "/{v}", "/x/{v}", "/{v}/y", "/x/y", "/b", "/{w}/b", "/plain"}
var methodPool = []string{"GET", "POST", "PUT", "DELETE"}
var handlePool = []string{"/static/", "/health", "/a/plain", "/a/plain/", "/a/", "/ab/", "/b/", "/", "/c", "/static/x", "/a/b/", "/users/", "/a"}
var valuePool = []string{"1", "v", "x42", "b", "plain"}

// sim is the generator's view of the container: what is registered, which patterns the mux holds
// for the WebServices (a pattern wanted by several services is registered once) and which for
// plain handlers (Remove builds a new ServeMux without them).
type sim struct {
	pool      []SvcSpec
	ct        *Content
	added     []bool // the object went through Add at least once (a lazy root became "/")
	svcPats   map[string]bool
	plainPats map[string]bool
	onRoot    bool
}

// addClash: Add of object i would panic in the ServeMux — one of the patterns it still has to
// register is held by a plain handler. shares: one of its patterns is already registered for
// another WebService (the situation of the repaired finding F11).
func (s *sim) addClash(i int) (clash, shares bool) {
	if s.onRoot {
		return false, false
	}
	for _, p := range RegPatterns(s.root(i)) {
		if s.svcPats[p] {
			shares = true
		} else if s.plainPats[p] {
			clash = true
		}
	}
	return clash, shares
}

func (s *sim) root(i int) string { return NormRoot(s.pool[i].Root) }

func (s *sim) registered(i int) bool {
	for _, j := range s.ct.Services {
		if j == i {
			return true
		}
	}
	return false
}

func (s *sim) rootTaken(root string) bool {
	for _, j := range s.ct.Services {
		if s.root(j) == root {
			return true
		}
	}
	return false
}

// removeArg is ws.RootPath() of object i as Remove will read it.
func (s *sim) removeArg(i int) string {
	if s.pool[i].Lazy && !s.added[i] {
		return ""
	}
	return s.root(i)
}

// apply performs the intended effect of a (non-panicking) operation on the content.
func (ct *Content) apply(pool []SvcSpec, op Op, removeRoot string) {
	switch op.Kind {
	case "add":
		ct.Services = append(ct.Services, op.Svc)
	case "remove":
		keep := []int{}
		for _, j := range ct.Services {
			if NormRoot(pool[j].Root) != removeRoot {
				keep = append(keep, j)
			}
		}
		ct.Services = keep
	case "route":
		ct.Cur[op.Svc].Routes = append(ct.Cur[op.Svc].Routes, op.Route)
	case "rmroute":
		if !ct.Dynamic[op.Svc] {
			return
		}
		keep := []routing.RouteDecl{}
		for _, r := range ct.Cur[op.Svc].Routes {
			if r.Method == op.Method && FullPath(pool[op.Svc].Root, r.Rel) == op.Path {
				continue
			}
			keep = append(keep, r)
		}
		ct.Cur[op.Svc].Routes = keep
	case "handle":
		ct.Handlers = append(ct.Handlers, Plain{op.Pattern, op.HID, op.WithFilter})
	}
}

func newContent(pool []SvcSpec) *Content {
	ct := &Content{}
	for _, s := range pool {
		ct.Cur = append(ct.Cur, routing.Service{ID: s.ID, Root: s.Root, Routes: append([]routing.RouteDecl{}, s.Routes...)})
		ct.Dynamic = append(ct.Dynamic, s.Dynamic)
	}
	return ct
}

// Stats is the measured distribution of what the generator produced.
type Stats struct {
	Ops     map[string]int
	Lengths map[int]int
	Risky   int // operations generated without steering away from a registration clash
	Probes  int
	Shared  int // Add operations generated for a service one of whose patterns another service holds (class of the repaired F11)
}

func NewStats() *Stats { return &Stats{Ops: map[string]int{}, Lengths: map[int]int{}} }

// GenHistory draws one history (operations and probes).
func GenHistory(r *rng.R, router string, st *Stats) *History {
	h := &History{Router: router}
	nsvc := 3 + r.Intn(5)
	routeID := 1
	newRoute := func() routing.RouteDecl {
		d := routing.RouteDecl{ID: routeID, Method: r.Pick(methodPool), Rel: r.Pick(relPool)}
		if r.Chance(1, 2) {
			d.Method = "GET"
		}
		routeID++
		return d
	}
	for i := 0; i < nsvc; i++ {
		root := r.Pick(rootPool)
		if !r.Chance(1, 10) { // twins (two objects with one root) stay rare
			for tries := 0; tries < 8; tries++ {
				dup := false
				for _, s := range h.Pool {
					if NormRoot(s.Root) == NormRoot(root) {
						dup = true
					}
				}
				if !dup {
					break
				}
				root = r.Pick(rootPool)
			}
		}
		s := SvcSpec{ID: i + 1, Root: root, Dynamic: r.Chance(4, 5), Lazy: root == "" && r.Chance(1, 2)}
		for k, n := 0, 1+r.Intn(4); k < n; k++ {
			s.Routes = append(s.Routes, newRoute())
		}
		h.Pool = append(h.Pool, s)
	}
	sm := &sim{pool: h.Pool, ct: newContent(h.Pool), added: make([]bool, nsvc), svcPats: map[string]bool{}, plainPats: map[string]bool{}}
	nops := 1 + r.Intn(30)
	hid := 100
	// 3 of 5 histories stay outside the class of F10b: once a plain handler is registered, nothing is removed
	keepHandlers := r.Chance(3, 5)
	handled := false
	for len(h.Ops) < nops {
		careful := !r.Chance(1, 25)
		var op Op
		ok := false
		willPanic := false
		switch k := r.Intn(100); {
		case k < 36 || len(sm.ct.Services) == 0 && k < 70: // add
			var cands, sharing []int
			for i := range h.Pool {
				if sm.registered(i) || sm.rootTaken(sm.root(i)) {
					continue // a duplicate root path is os.Exit(1): never generated
				}
				clash, shares := sm.addClash(i)
				if careful && clash {
					continue // a plain handler sits on a pattern the service needs: the ServeMux panics
				}
				cands = append(cands, i)
				if shares {
					sharing = append(sharing, i)
				}
			}
			if len(cands) == 0 {
				break
			}
			i := cands[r.Intn(len(cands))]
			if len(sharing) > 0 && r.Chance(1, 3) {
				// roots that share their fixed prefix with a registered service (former class of F11)
				i = sharing[r.Intn(len(sharing))]
			}
			op, ok = Op{Kind: "add", Svc: i}, true
			clash, shares := sm.addClash(i)
			willPanic = clash
			if shares {
				st.Shared++
			}
			if !sm.onRoot {
				for _, p := range RegPatterns(sm.root(i)) {
					sm.svcPats[p] = true
				}
				sm.onRoot = IsRootPattern(sm.root(i))
			}
			sm.added[i] = true
		case k < 50: // remove
			if keepHandlers && handled {
				break
			}
			var i int
			if len(sm.ct.Services) > 0 && !r.Chance(1, 4) {
				i = sm.ct.Services[r.Intn(len(sm.ct.Services))]
			} else {
				i = r.Intn(nsvc) // usually an absent service
			}
			arg := sm.removeArg(i)
			var rest []string
			for _, j := range sm.ct.Services {
				if sm.root(j) != arg {
					rest = append(rest, sm.root(j))
				}
			}
			// Remove re-registers the remaining services on a new ServeMux: it cannot panic, and the
			// plain handlers are gone (finding F10b)
			op, ok = Op{Kind: "remove", Svc: i}, true
			sm.svcPats = map[string]bool{}
			sm.plainPats = map[string]bool{}
			for _, p := range PatsFrom(rest) {
				sm.svcPats[p] = true
			}
			sm.onRoot = false
			for _, x := range rest {
				if IsRootPattern(x) {
					sm.onRoot = true
				}
			}
		case k < 66: // route
			i := r.Intn(nsvc)
			if len(sm.ct.Services) > 0 && !r.Chance(1, 10) {
				i = sm.ct.Services[r.Intn(len(sm.ct.Services))]
			}
			op, ok = Op{Kind: "route", Svc: i, Route: newRoute()}, true
		case k < 80: // rmroute
			i := r.Intn(nsvc)
			if len(sm.ct.Services) > 0 && !r.Chance(1, 10) {
				i = sm.ct.Services[r.Intn(len(sm.ct.Services))]
			}
			rs := sm.ct.Cur[i].Routes
			if len(rs) == 0 {
				break
			}
			rt := rs[r.Intn(len(rs))]
			op = Op{Kind: "rmroute", Svc: i, Path: FullPath(h.Pool[i].Root, rt.Rel), Method: rt.Method}
			switch r.Intn(10) {
			case 0:
				op.Method = r.Pick(methodPool) // often another method: must remove nothing of the route's method
			case 1:
				op.Path = rt.Rel // the relative path is not the route's Path
			case 2:
				op.Path += "/"
			}
			ok = true
		default: // handle
			p := r.Pick(handlePool)
			if sm.svcPats[p] || sm.plainPats[p] {
				if careful {
					break
				}
				willPanic = true
			}
			op, ok = Op{Kind: "handle", Pattern: p, HID: hid, WithFilter: r.Chance(1, 3)}, true
			hid++
			handled = true
			sm.plainPats[p] = true
		}
		if !ok {
			if r.Chance(1, 20) {
				nops-- // make sure the loop ends when nothing is possible
			}
			continue
		}
		if !careful {
			st.Risky++
		}
		h.Ops = append(h.Ops, op)
		st.Ops[op.Kind]++
		if willPanic {
			break
		}
		sm.ct.apply(h.Pool, op, func() string {
			if op.Kind == "remove" {
				// removeArg was computed before `added` could change: Remove never changes it
				return sm.removeArg(op.Svc)
			}
			return ""
		}())
	}
	st.Lengths[len(h.Ops)]++
	h.Probes = GenProbes(r, h)
	st.Probes += len(h.Probes)
	return h
}

// Instantiate replaces every {name} / {name:regex} of a template by a value.
func Instantiate(r *rng.R, tpl string) string {
	var sb strings.Builder
	for i := 0; i < len(tpl); i++ {
		if tpl[i] == '{' {
			j := strings.IndexByte(tpl[i:], '}')
			if j < 0 {
				break
			}
			sb.WriteString(r.Pick(valuePool))
			i += j
			continue
		}
		sb.WriteByte(tpl[i])
	}
	return sb.String()
}

func mutatePath(r *rng.R, p string) string {
	slashes := []int{}
	for i := 0; i < len(p); i++ {
		if p[i] == '/' {
			slashes = append(slashes, i)
		}
	}
	at := 0
	if len(slashes) > 0 {
		at = slashes[r.Intn(len(slashes))]
	}
	switch r.Intn(14) {
	case 0:
		if strings.HasSuffix(p, "/") {
			return strings.TrimRight(p, "/")
		}
		return p + "/"
	case 1:
		return p + "/zz"
	case 2:
		if i := strings.LastIndex(p, "/"); i > 0 {
			return p[:i]
		}
		return p
	case 3:
		return "/" + p // "//a"
	case 4:
		return p[:at] + "/." + p[at:] // "/a/./b"
	case 5:
		return p[:at] + "/q/.." + p[at:] // "/a/q/../b"
	case 6:
		return p + "/."
	case 7:
		return p + "/.."
	case 8:
		return p[:at] + "/" + p[at:] // "/a//b"
	case 9:
		return p + "//"
	case 10:
		return p + "x"
	case 11:
		return strings.TrimPrefix(p, "/") // no leading slash
	case 12:
		return "/.." + p
	default:
		return p + "/" + r.Pick(valuePool)
	}
}

// GenProbes derives the probe set of a history from everything it ever declared: every route of
// every WebService object (registered, removed or never added) instantiated, every plain pattern,
// and mutations of those (near misses, unclean paths, trailing slashes, other methods).
func GenProbes(r *rng.R, h *History) []routing.Req {
	type tm struct{ method, tpl string }
	var tms []tm
	for _, s := range h.Pool {
		for _, rt := range s.Routes {
			tms = append(tms, tm{rt.Method, FullPath(s.Root, rt.Rel)})
		}
	}
	for _, o := range h.Ops {
		if o.Kind == "route" {
			tms = append(tms, tm{o.Route.Method, FullPath(h.Pool[o.Svc].Root, o.Route.Rel)})
		}
	}
	var plain []string
	for _, o := range h.Ops {
		if o.Kind == "handle" {
			plain = append(plain, o.Pattern)
		}
	}
	seen := map[string]bool{}
	var out []routing.Req
	add := func(m, p string) {
		k := m + " " + p
		if !seen[k] {
			seen[k] = true
			out = append(out, routing.Req{Method: m, Path: p})
		}
	}
	for _, t := range tms {
		add(t.method, Instantiate(r, t.tpl))
	}
	for _, p := range plain {
		add("GET", p)
		add(r.Pick(methodPool), strings.TrimRight(p, "/"))
		add("GET", p+"x/y")
	}
	add("GET", "/")
	add("GET", "")
	add("GET", "/zzz")
	extra := 10 + r.Intn(12)
	for i := 0; i < extra; i++ {
		var m, p string
		if len(plain) > 0 && (r.Chance(1, 5) || len(tms) == 0) {
			m, p = "GET", plain[r.Intn(len(plain))]
		} else if len(tms) == 0 {
			m, p = "GET", r.Pick(handlePool)
		} else {
			t := tms[r.Intn(len(tms))]
			m, p = t.method, Instantiate(r, t.tpl)
		}
		for k, n := 0, 1+r.Intn(2); k < n; k++ {
			p = mutatePath(r, p)
		}
		if r.Chance(1, 5) {
			m = r.Pick(methodPool)
		}
		if r.Chance(1, 40) {
			m = "CONNECT"
		}
		add(m, p)
	}
	return out
}
