package registry

import (
	"fmt"
	"strings"
	"sync"
	"sync/atomic"
	"time"

	restful "github.com/emicklei/go-restful/v3"

	"verifharness/internal/rng"
	"verifharness/internal/routing"
)

// Churn is the schedule reading (C12) of the registry histories: a drawn table of WebServices is
// registered on one container, then ONE thing at a time goes away and comes back — a WebService
// (Container.Remove, Container.Add) or the routes of one method and path of a dynamic WebService
// (RemoveRoute, Route) — while other goroutines keep asking for everything else.
//
// Oracle, without a model: fresh containers built from the declarations of every registration state
// the step goes through (before, without the thing, with the thing added again: new WebService
// objects, same declarations, same order). A request whose answer is the same in all three states
// ("stable": it does not depend on what is being changed) must get exactly that answer at any moment,
// through ServeHTTP and through Dispatch; a request issued by the changing goroutine after the change
// returned must get the answer of the fresh container of the state now in force, whatever it asks.
//
// What is drawn (all from r): the root paths (pool of the C11 stream: roots that share their fixed
// prefix, nested roots, variables, "/" among them), the routes (sub paths of the C11 pool and, now and
// then, a sub path that spells the FULL path of an earlier route of the same WebService: names
// repeated at two levels), dynamic routes or not, the thing that changes at every step, the requests
// (every declared template instantiated, and mutations), the entry point of every request.

// ChurnStats counts what the episodes did (keys are operation kinds).
type ChurnStats func(kind string)

func genChurnPool(r *rng.R) []SvcSpec {
	var pool []SvcSpec
	nsvc := 3 + r.Intn(5)
	routeID := 1
	for i := 0; i < nsvc; i++ {
		root := ""
		for tries := 0; tries < 20; tries++ {
			root = r.Pick(rootPool)
			dup := false
			for _, s := range pool {
				if NormRoot(s.Root) == NormRoot(root) {
					dup = true
				}
			}
			if !dup {
				break
			}
			root = "\x00"
		}
		if root == "\x00" {
			continue // a duplicate root path is os.Exit(1): never generated
		}
		s := SvcSpec{ID: i + 1, Root: NormRoot(root), Dynamic: r.Chance(4, 5)}
		for k, n := 0, 1+r.Intn(4); k < n; k++ {
			d := routing.RouteDecl{ID: routeID, Method: r.Pick(methodPool), Rel: r.Pick(relPool)}
			if r.Chance(1, 2) {
				d.Method = "GET"
			}
			if k > 0 && r.Chance(1, 4) {
				// names repeated at two levels: the sub path spells the full path of an earlier route of
				// this WebService (as Route.Path reports it), usually under that route's method
				e := s.Routes[r.Intn(len(s.Routes))]
				d.Rel = FullPath(s.Root, e.Rel)
				if r.Chance(2, 3) {
					d.Method = e.Method
				}
			}
			routeID++
			s.Routes = append(s.Routes, d)
		}
		pool = append(pool, s)
	}
	return pool
}

// freshOf builds a fresh container holding the content (new objects, same declarations, same order).
func freshOf(router string, pool []SvcSpec, ct *Content) (fc *restful.Container, ok bool) {
	panicked, _ := guarded(func() {
		fc = newContainer(router)
		for _, i := range ct.Services {
			s := pool[i]
			fc.Add(makeWS(s.ID, s.Root, false, ct.Dynamic[i], ct.Cur[i].Routes))
		}
	})
	return fc, !panicked
}

type churnAsk struct {
	req   routing.Req
	entry string
	want  string
}

func describePool(router string, pool []SvcSpec, ct *Content) string {
	var sb strings.Builder
	fmt.Fprintf(&sb, "router=%s; registered in this order:", router)
	for _, i := range ct.Services {
		fmt.Fprintf(&sb, " ws(id %d, root %q, dynamicRoutes=%v:", pool[i].ID, pool[i].Root, ct.Dynamic[i])
		for _, rt := range ct.Cur[i].Routes {
			fmt.Fprintf(&sb, " #%d %s %q", rt.ID, rt.Method, rt.Rel)
		}
		sb.WriteString(")")
	}
	return sb.String()
}

// Churn runs episodes until the deadline (at least one) and returns the first violation ("" = none).
func Churn(r *rng.R, router string, deadline time.Time, count ChurnStats) (what, detail string) {
	for ep := 0; ep == 0 || time.Now().Before(deadline); ep++ {
		if what, detail = churnEpisode(r.Fork(uint64(ep)), router, deadline, count); what != "" {
			return what, detail
		}
	}
	return "", ""
}

func churnEpisode(r *rng.R, router string, deadline time.Time, count ChurnStats) (what, detail string) {
	pool := genChurnPool(r)
	ct := newContent(pool)
	c := newContainer(router)
	objs := make([]*restful.WebService, len(pool))
	if panicked, _ := guarded(func() {
		for i, s := range pool {
			objs[i] = makeWS(s.ID, s.Root, false, s.Dynamic, s.Routes)
			c.Add(objs[i])
			ct.Services = append(ct.Services, i)
		}
	}); panicked {
		count("churn:table-not-registrable")
		return "", ""
	}
	probes := GenProbes(r, &History{Router: router, Pool: pool})
	entries := []string{"dispatch", "serve"}
	answers := func(fc *restful.Container) []string {
		out := make([]string, 0, 2*len(probes))
		for _, p := range probes {
			for _, e := range entries {
				out = append(out, probe(fc, e, p))
			}
		}
		return out
	}

	var bad atomic.Value
	fail := func(what, detail string) { bad.CompareAndSwap(nil, [2]string{what, detail}) }
	// the stable requests of the step in progress; the epoch lock is held by a server for the time of one
	// request and by the changing goroutine only BETWEEN two steps, so that no request judged against the
	// stable set of one step is still in flight when the next step begins
	var epoch sync.RWMutex
	var stable []churnAsk
	var stepText string
	stop := make(chan struct{})
	var wg sync.WaitGroup
	for s := 0; s < 3; s++ {
		wg.Add(1)
		sr := r.Fork(uint64(1000 + s))
		go func(s int) {
			defer wg.Done()
			for {
				select {
				case <-stop:
					return
				default:
				}
				epoch.RLock()
				if len(stable) > 0 {
					a := stable[sr.Intn(len(stable))]
					got := probe(c, a.entry, a.req)
					count("churn:request-independent-of-the-change")
					if got != a.want {
						fail("a request that does not depend on what is being changed was not answered as if nothing were changing",
							fmt.Sprintf("%s %q via %s answered %s, want %s (the answer of fresh containers in the state before, during and after the change); change in progress: %s", a.req.Method, a.req.Path, a.entry, got, a.want, stepText))
					}
				}
				epoch.RUnlock()
			}
		}(s)
	}
	finish := func() (string, string) {
		close(stop)
		wg.Wait()
		if b := bad.Load(); b != nil {
			x := b.([2]string)
			return x[0], x[1]
		}
		return "", ""
	}

	before, ok := freshOf(router, pool, ct)
	if !ok {
		return finish()
	}
	a0 := answers(before)
	// after the change returned: everything is asked by the goroutine that made it
	verify := func(want []string, kind, after, table string) bool {
		k := 0
		for _, p := range probes {
			for _, e := range entries {
				got := probe(c, e, p)
				count("churn:probe-after-" + kind)
				if got != want[k] {
					fail("a request issued after "+kind+" had returned was answered according to a registration state that never existed",
						fmt.Sprintf("%s %q via %s answered %s, a fresh container in the state now in force answers %s; after %s; table now: %s", p.Method, p.Path, e, got, want[k], after, table))
					return false
				}
				k++
			}
		}
		return true
	}
	steps := 2 + r.Intn(5)
	for st := 0; st < steps && bad.Load() == nil && (st == 0 || time.Now().Before(deadline)); st++ {
		if len(ct.Services) == 0 {
			break
		}
		si := ct.Services[r.Intn(len(ct.Services))]
		var away, back func()
		var awayText, backText, awayKind, backKind string
		ct1 := ct.clone()
		ct2 := ct.clone()
		if rs := ct.Cur[si].Routes; ct.Dynamic[si] && len(rs) > 0 && r.Chance(1, 2) {
			rt := rs[r.Intn(len(rs))]
			path := FullPath(pool[si].Root, rt.Rel)
			op := Op{Kind: "rmroute", Svc: si, Path: path, Method: rt.Method}
			var group []routing.RouteDecl
			for _, x := range rs {
				if x.Method == rt.Method && FullPath(pool[si].Root, x.Rel) == path {
					group = append(group, x)
				}
			}
			ct1.apply(pool, op, "")
			ct2.apply(pool, op, "")
			for _, x := range group {
				ct2.apply(pool, Op{Kind: "route", Svc: si, Route: x}, "")
			}
			ws, sid := objs[si], pool[si].ID
			away = func() { ws.RemoveRoute(path, rt.Method) }
			back = func() {
				for _, x := range group {
					ws.Route(routeBuilder(ws, sid, x))
				}
			}
			awayKind, backKind = "RemoveRoute", "Route"
			awayText = fmt.Sprintf("RemoveRoute(%q, %q) on the WebService with root %q", path, rt.Method, pool[si].Root)
			backText = fmt.Sprintf("Route: the %d route(s) %s %q of the WebService with root %q declared again", len(group), rt.Method, path, pool[si].Root)
		} else {
			root := NormRoot(pool[si].Root)
			ct1.apply(pool, Op{Kind: "remove", Svc: si}, root)
			ct2.apply(pool, Op{Kind: "remove", Svc: si}, root)
			ct2.apply(pool, Op{Kind: "add", Svc: si}, "")
			ws := objs[si]
			away = func() { c.Remove(ws) }
			back = func() { c.Add(ws) }
			awayKind, backKind = "Remove", "Add"
			awayText = fmt.Sprintf("Remove of the WebService with root %q", root)
			backText = fmt.Sprintf("Add of the WebService with root %q (again)", root)
		}
		without, ok1 := freshOf(router, pool, ct1)
		again, ok2 := freshOf(router, pool, ct2)
		if !ok1 || !ok2 {
			break
		}
		a1, a2 := answers(without), answers(again)
		var next []churnAsk
		k := 0
		for _, p := range probes {
			for _, e := range entries {
				if a0[k] == a1[k] && a1[k] == a2[k] {
					next = append(next, churnAsk{p, e, a0[k]})
				}
				k++
			}
		}
		epoch.Lock()
		stable, stepText = next, awayText+", then "+backText+"; "+describePool(router, pool, ct)
		epoch.Unlock()
		if panicked, val := guarded(away); panicked {
			fail("panic in a registration change", awayText+": "+val)
			break
		}
		count("churn:" + awayKind)
		if !verify(a1, awayKind, awayText, describePool(router, pool, ct1)) {
			break
		}
		if panicked, val := guarded(back); panicked {
			fail("panic in a registration change", backText+": "+val)
			break
		}
		count("churn:" + backKind)
		if !verify(a2, backKind, backText, describePool(router, pool, ct2)) {
			break
		}
		ct, a0 = ct2, a2
	}
	count("churn:episodes")
	return finish()
}
