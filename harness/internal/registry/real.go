package registry

import (
	"context"
	"fmt"
	"net/http"
	"net/http/httptest"
	"sort"
	"strings"

	restful "github.com/emicklei/go-restful/v3"

	"verifharness/internal/routing"
	"verifharness/internal/sx"
)

// exitLogger turns the log call that precedes every os.Exit(1) of the package (duplicate root path,
// invalid path expression, route without function) into a panic, so that a history that would kill
// the process is observed as an outcome instead.
type exitLogger struct{}

type exitPanic struct{ msg string }

func (exitLogger) Print(v ...interface{}) { panic(exitPanic{fmt.Sprint(v...)}) }
func (exitLogger) Printf(format string, v ...interface{}) {
	panic(exitPanic{fmt.Sprintf(format, v...)})
}

// InstallLogger must be called by the check before the first history runs.
func InstallLogger() { restful.SetLogger(exitLogger{}) }

type ctxKey struct{}

type capture struct {
	invocations int
	svc, route  int
	params      map[string]string
	plain       int
	plainRan    int
}

func routeFn(sid, rid int) restful.RouteFunction {
	return func(req *restful.Request, resp *restful.Response) {
		if cp, ok := req.Request.Context().Value(ctxKey{}).(*capture); ok {
			cp.invocations++
			cp.svc, cp.route = sid, rid
			cp.params = map[string]string{}
			for k, v := range req.PathParameters() {
				cp.params[k] = v
			}
		}
		resp.WriteHeader(200)
	}
}

func plainHandler(id int) http.Handler {
	return http.HandlerFunc(func(w http.ResponseWriter, r *http.Request) {
		if cp, ok := r.Context().Value(ctxKey{}).(*capture); ok {
			cp.plainRan++
			cp.plain = id
		}
		w.WriteHeader(200)
	})
}

func routeBuilder(ws *restful.WebService, sid int, r routing.RouteDecl) *restful.RouteBuilder {
	b := ws.Method(r.Method).Path(r.Rel)
	if len(r.Consumes) > 0 {
		b.Consumes(r.Consumes...)
	}
	if len(r.Produces) > 0 {
		b.Produces(r.Produces...)
	}
	return b.To(routeFn(sid, r.ID))
}

// makeWS builds a *WebService object from its declaration. Public API only.
func makeWS(id int, root string, lazy, dynamic bool, routes []routing.RouteDecl) *restful.WebService {
	ws := new(restful.WebService)
	if !lazy {
		ws.Path(root)
	}
	ws.SetDynamicRoutes(dynamic)
	for _, r := range routes {
		ws.Route(routeBuilder(ws, id, r))
	}
	return ws
}

func newContainer(router string) *restful.Container {
	c := restful.NewContainer()
	if router == "jsr" {
		c.Router(restful.RouterJSR311{})
	} else {
		c.Router(restful.CurlyRouter{})
	}
	return c
}

// guarded runs f and reports a panic (or the intercepted os.Exit) as a value.
func guarded(f func()) (panicked bool, val string) {
	defer func() {
		if p := recover(); p != nil {
			panicked = true
			if e, ok := p.(exitPanic); ok {
				val = "exit: " + e.msg
			} else {
				val = fmt.Sprint(p)
			}
		}
	}()
	f()
	return false, ""
}

// Answer is the canonical rendering of what one entry point answered.
func probe(c *restful.Container, entry string, r routing.Req) (ans string) {
	cp := &capture{}
	hr := routing.HTTPRequest(r)
	hr = hr.WithContext(context.WithValue(context.Background(), ctxKey{}, cp))
	rec := httptest.NewRecorder()
	defer func() {
		if p := recover(); p != nil {
			ans = "(panic x)"
		}
	}()
	if entry == "dispatch" {
		c.Dispatch(rec, hr)
	} else {
		c.ServeHTTP(rec, hr)
	}
	switch {
	case cp.invocations+cp.plainRan > 1:
		return fmt.Sprintf("(panic x) ; %d handler invocations", cp.invocations+cp.plainRan)
	case cp.invocations == 1:
		n := sx.K("sel", sx.N(cp.svc), sx.N(cp.route))
		ks := make([]string, 0, len(cp.params))
		for k := range cp.params {
			ks = append(ks, k)
		}
		sort.Strings(ks)
		for _, k := range ks {
			n.List = append(n.List, sx.K("p", sx.H(k), sx.H(cp.params[k])))
		}
		return n.String()
	case cp.plainRan == 1:
		return sx.K("plain", sx.N(cp.plain)).String()
	}
	sent := rec.Result().Header // the headers as sent, not the live map
	if rec.Code == 301 || rec.Code == 302 || rec.Code == 307 || rec.Code == 308 {
		if rec.Code != 301 {
			return fmt.Sprintf("(redirect%d %s)", rec.Code, sx.H(sent.Get("Location")))
		}
		return sx.K("redirect", sx.H(sent.Get("Location"))).String()
	}
	if vs, ok := sent["Allow"]; ok {
		return sx.K("err", sx.N(rec.Code), sx.Hs("allow", routing.AllowSet(strings.Join(vs, ",")))).String()
	}
	return sx.K("err", sx.N(rec.Code), sx.A("-")).String()
}

// SlashTwins switches the p / p-slash probes of Exec on (the C14 check).
var SlashTwins bool

// Result is what running a history on the real package produced.
type Result struct {
	PanicIdx   int // -1: no operation panicked
	PanicVal   string
	OpNodes    []*sx.Node // the operations as the model sees them (up to and including the panicking one)
	OpIndex    []int      // OpNodes[i] encodes History.Ops[OpIndex[i]]
	ModelPanic int        // index into OpNodes of the panicking operation (-1)
	Content    *Content   // intended content (before the panicking operation, if any)
	VisitsF11  bool       // after some executed Add/Remove the services present want one ServeMux pattern twice (class of the repaired finding F11)
	SharedOps  int        // number of executed Add/Remove operations after which that is the case
	FreshPanic bool
	FreshVal   string
	Answers    [][4]string // per probe: histDispatch, freshDispatch, histServe, freshServe
	Executed   int         // number of History.Ops executed (including the panicking one)
	SlashPairs int         // p / p-slash pairs probed (SlashTwins)
	SlashDiff  []string    // pairs whose ServeHTTP answers differ although Dispatch gives both the same outcome
}

// Exec runs the history on a real container, builds the fresh container and probes both.
func Exec(h *History) *Result {
	res := &Result{PanicIdx: -1, ModelPanic: -1}
	c := newContainer(h.Router)
	objs := make([]*restful.WebService, len(h.Pool))
	ct := newContent(h.Pool)
	obj := func(i int) *restful.WebService {
		if objs[i] == nil {
			s := h.Pool[i]
			objs[i] = makeWS(s.ID, s.Root, s.Lazy, s.Dynamic, s.Routes)
		}
		return objs[i]
	}
	registered := func(i int) bool {
		for _, j := range ct.Services {
			if j == i {
				return true
			}
		}
		return false
	}
	for oi, op := range h.Ops {
		var node *sx.Node
		var after func()
		var call func()
		switch op.Kind {
		case "add":
			ws := obj(op.Svc)
			p := svcSx(ct.Dynamic[op.Svc], ct.Cur[op.Svc])
			node = sx.K("add", p.List...)
			call = func() { c.Add(ws) }
			after = func() { ct.apply(h.Pool, op, "") }
		case "remove":
			ws := obj(op.Svc)
			root := ws.RootPath()
			node = sx.K("remove", sx.H(root))
			call = func() { c.Remove(ws) }
			after = func() { ct.apply(h.Pool, op, root) }
		case "route":
			ws := obj(op.Svc)
			if registered(op.Svc) {
				node = sx.K("route", sx.H(ws.RootPath()), routeSx(op.Route))
			}
			call = func() { ws.Route(routeBuilder(ws, h.Pool[op.Svc].ID, op.Route)) }
			after = func() { ct.apply(h.Pool, op, "") }
		case "rmroute":
			ws := obj(op.Svc)
			if registered(op.Svc) {
				node = sx.K("rmroute", sx.H(ws.RootPath()), sx.H(op.Path), sx.H(op.Method))
			}
			call = func() { ws.RemoveRoute(op.Path, op.Method) }
			after = func() { ct.apply(h.Pool, op, "") }
		case "handle":
			node = sx.K("handle", sx.H(op.Pattern), sx.N(op.HID))
			if op.WithFilter {
				call = func() { c.HandleWithFilter(op.Pattern, plainHandler(op.HID)) }
			} else {
				call = func() { c.Handle(op.Pattern, plainHandler(op.HID)) }
			}
			after = func() { ct.apply(h.Pool, op, "") }
		default:
			continue
		}
		if node != nil {
			res.OpNodes = append(res.OpNodes, node)
			res.OpIndex = append(res.OpIndex, oi)
		}
		res.Executed = oi + 1
		if panicked, val := guarded(call); panicked {
			res.PanicIdx, res.PanicVal = oi, val
			if node != nil {
				res.ModelPanic = len(res.OpNodes) - 1
			}
			res.Content = ct
			return res
		}
		after()
		if op.Kind == "add" || op.Kind == "remove" {
			var roots []string
			for _, j := range ct.Services {
				roots = append(roots, NormRoot(h.Pool[j].Root))
			}
			if PrefixesCollide(roots) {
				res.VisitsF11 = true
				res.SharedOps++
			}
		}
		// traffic between the operations (answers not compared here: the final probes are): a
		// container that caches anything derived from its registration state at serving time must
		// still answer like a fresh one afterwards
		if len(h.Probes) > 0 && oi%3 != 2 {
			for k := 0; k < 3; k++ {
				p := h.Probes[(oi*3+k)%len(h.Probes)]
				probe(c, []string{"dispatch", "serve"}[k%2], p)
			}
		}
	}
	res.Content = ct
	// the fresh container: same services (new objects, same declarations) in the same order, then the handlers
	var fc *restful.Container
	res.FreshPanic, res.FreshVal = guarded(func() {
		fc = newContainer(h.Router)
		for _, i := range ct.Services {
			s := h.Pool[i]
			fc.Add(makeWS(s.ID, s.Root, s.Lazy, ct.Dynamic[i], ct.Cur[i].Routes))
		}
		for _, p := range ct.Handlers {
			if p.WithFilter {
				fc.HandleWithFilter(p.Pattern, plainHandler(p.ID))
			} else {
				fc.Handle(p.Pattern, plainHandler(p.ID))
			}
		}
	})
	for _, p := range h.Probes {
		var a [4]string
		a[0] = probe(c, "dispatch", p)
		a[2] = probe(c, "serve", p)
		if SlashTwins && strings.Trim(p.Path, "/") != "" && !strings.HasSuffix(p.Path, "/") {
			// C14 through the ServeMux of a container with a past: when the routers give p and p/ the same
			// outcome, ServeHTTP must too — unless net/http itself redirects one of them
			q := p
			q.Path += "/"
			d2, s2 := probe(c, "dispatch", q), probe(c, "serve", q)
			res.SlashPairs++
			mine := func(x string) bool { // net/http redirected, or a plain handler the user registered on that very pattern answered
				return strings.HasPrefix(x, "(redirect") || strings.HasPrefix(x, "(plain")
			}
			if a[0] == d2 && a[2] != s2 && !mine(a[2]) && !mine(s2) {
				res.SlashDiff = append(res.SlashDiff, fmt.Sprintf("%s %q: ServeHTTP answers %s, with a trailing slash %s (Dispatch answers %s for both)", p.Method, p.Path, a[2], s2, a[0]))
			}
		}
		if res.FreshPanic {
			a[1], a[3] = "(nocontainer)", "(nocontainer)"
		} else {
			a[1] = probe(fc, "dispatch", p)
			a[3] = probe(fc, "serve", p)
		}
		res.Answers = append(res.Answers, a)
	}
	return res
}

func routeSx(r routing.RouteDecl) *sx.Node {
	return sx.K("route", sx.N(r.ID), sx.H(r.Method), sx.H(r.Rel),
		sx.Hs("cons", r.Consumes), sx.Hs("prod", r.Produces), sx.Ns("conds", r.Conds), sx.Hs("noct", r.Noct))
}

// Line is the protocol line of an executed history.
func Line(id int, h *History, res *Result) string {
	ops := sx.K("ops", res.OpNodes...)
	pn := sx.A("-")
	if res.ModelPanic >= 0 {
		pn = sx.N(res.ModelPanic)
	}
	probes := sx.K("probes")
	for i, a := range res.Answers {
		probes.List = append(probes.List, sx.K("probe", h.Probes[i].Sx(), raw(a[0]), raw(a[1]), raw(a[2]), raw(a[3])))
	}
	return sx.K("registry", sx.N(id), sx.A(h.Router), ops,
		sx.K("real", sx.K("panic", pn), sx.K("freshpanic", sx.B(res.FreshPanic))), res.Content.Sx(), probes).String()
}

// raw embeds an already rendered S-expression.
func raw(s string) *sx.Node {
	if i := strings.Index(s, " ;"); i >= 0 {
		s = s[:i]
	}
	return sx.A(s)
}
