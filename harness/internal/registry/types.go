// Package registry is the correspondence stream of C11: histories of Add / Remove / Route /
// RemoveRoute / Handle run on a real Container, a fresh Container built from the final content,
// both probed through ServeHTTP and Dispatch, and the same history sent to the Lean driver.
package registry

import (
	"fmt"
	"strings"

	"verifharness/internal/routing"
	"verifharness/internal/sx"
)

// SvcSpec is one *WebService object of a history as it is first built.
type SvcSpec struct {
	ID      int
	Root    string
	Lazy    bool // Root == "" and Path() is never called: Add does the lazy Path("/")
	Dynamic bool
	Routes  []routing.RouteDecl
}

type Op struct {
	Kind       string // add | remove | route | rmroute | handle
	Svc        int    // index into History.Pool
	Route      routing.RouteDecl
	Path       string // rmroute
	Method     string // rmroute
	Pattern    string // handle
	HID        int    // handle: marker id
	WithFilter bool   // handle: HandleWithFilter instead of Handle
}

type History struct {
	Router string
	Pool   []SvcSpec
	Ops    []Op
	Probes []routing.Req
}

// Content is what the user of the container holds after the history: the registered services in
// order (as indices into the pool, with their current routes) and the plain handlers.
type Content struct {
	Services []int
	Cur      []routing.Service // current declared content of every pool object
	Dynamic  []bool
	Handlers []Plain
}

type Plain struct {
	Pattern    string
	ID         int
	WithFilter bool
}

// FullPath is Route.Path as RouteBuilder.Build computes it (concatPath, default strategy).
func FullPath(root, rel string) string {
	return strings.TrimRight(root, "/") + "/" + strings.TrimLeft(rel, "/")
}

// NormRoot is WebService.RootPath() after Path(root) or the lazy Path("/").
func NormRoot(root string) string {
	if root == "" {
		return "/"
	}
	return root
}

func svcSx(dyn bool, s routing.Service) *sx.Node {
	cfg := routing.Config{Router: "curly", Services: []routing.Service{s}}
	return sx.L(sx.B(dyn), cfg.Sx().List[2])
}

func (c *Content) Sx() *sx.Node {
	svcs := sx.K("svcs")
	for _, i := range c.Services {
		p := svcSx(c.Dynamic[i], c.Cur[i])
		svcs.List = append(svcs.List, sx.K("s", p.List...))
	}
	hs := sx.K("handlers")
	for _, h := range c.Handlers {
		hs.List = append(hs.List, sx.K("h", sx.H(h.Pattern), sx.N(h.ID)))
	}
	return sx.K("content", svcs, hs)
}

func (c *Content) clone() *Content {
	d := &Content{Services: append([]int{}, c.Services...), Dynamic: append([]bool{}, c.Dynamic...),
		Handlers: append([]Plain{}, c.Handlers...)}
	for _, s := range c.Cur {
		s2 := s
		s2.Routes = append([]routing.RouteDecl{}, s.Routes...)
		d.Cur = append(d.Cur, s2)
	}
	return d
}

// Human renders a history readably for replay files.
func (h *History) Human() map[string]interface{} {
	pool := []interface{}{}
	for i, s := range h.Pool {
		rs := []string{}
		for _, r := range s.Routes {
			rs = append(rs, fmt.Sprintf("#%d %s %q", r.ID, r.Method, r.Rel))
		}
		pool = append(pool, fmt.Sprintf("ws%d: id=%d root=%q lazyPath=%v dynamicRoutes=%v routes=%v", i, s.ID, s.Root, s.Lazy, s.Dynamic, rs))
	}
	ops := []string{}
	for _, o := range h.Ops {
		switch o.Kind {
		case "add":
			ops = append(ops, fmt.Sprintf("c.Add(ws%d)  // root %q", o.Svc, h.Pool[o.Svc].Root))
		case "remove":
			ops = append(ops, fmt.Sprintf("c.Remove(ws%d)  // root %q", o.Svc, h.Pool[o.Svc].Root))
		case "route":
			ops = append(ops, fmt.Sprintf("ws%d.Route(ws%d.Method(%q).Path(%q).To(route#%d))", o.Svc, o.Svc, o.Route.Method, o.Route.Rel, o.Route.ID))
		case "rmroute":
			ops = append(ops, fmt.Sprintf("ws%d.RemoveRoute(%q, %q)", o.Svc, o.Path, o.Method))
		case "handle":
			fn := "Handle"
			if o.WithFilter {
				fn = "HandleWithFilter"
			}
			ops = append(ops, fmt.Sprintf("c.%s(%q, plain#%d)", fn, o.Pattern, o.HID))
		}
	}
	probes := []string{}
	for _, p := range h.Probes {
		probes = append(probes, fmt.Sprintf("%s %q", p.Method, p.Path))
	}
	return map[string]interface{}{"router": h.Router, "webservices": pool, "operations": ops, "probes": probes}
}

func (h *History) clone() *History {
	d := &History{Router: h.Router, Ops: append([]Op{}, h.Ops...), Probes: append([]routing.Req{}, h.Probes...)}
	for _, s := range h.Pool {
		s2 := s
		s2.Routes = append([]routing.RouteDecl{}, s.Routes...)
		d.Pool = append(d.Pool, s2)
	}
	return d
}

// ---- classifiers (Lean: Spec.F10b, Spec.F11) ----
//
// F10b is the class of the open finding. F11 was the class of a finding repaired by 093fa53 (services
// with different root paths that want the same ServeMux pattern): it excuses nothing any more; the
// check measures how often the histories visit it, so that a regression there cannot go unnoticed.

// FixedPrefix is the part of a root path before the first "{".
func FixedPrefix(root string) string {
	if i := strings.Index(root, "{"); i >= 0 {
		return root[:i]
	}
	return root
}

func IsRootPattern(root string) bool {
	p := FixedPrefix(root)
	return p == "/" || p == ""
}

// RegPatterns are the ServeMux patterns a service with this (normalised) root wants.
func RegPatterns(root string) []string {
	p := FixedPrefix(root)
	if IsRootPattern(root) {
		return []string{"/"}
	}
	if strings.HasSuffix(p, "/") {
		return []string{p}
	}
	return []string{p, p + "/"}
}

// PatsFrom lists the patterns wanted by services added in this order on a new mux (a pattern
// wanted by two services occurs twice; nothing is wanted after a service landed on "/").
func PatsFrom(roots []string) []string {
	var out []string
	for _, r := range roots {
		out = append(out, RegPatterns(r)...)
		if IsRootPattern(r) {
			break
		}
	}
	return out
}

// PrefixesCollide is the class of the repaired finding F11: two services want the same pattern.
func PrefixesCollide(roots []string) bool {
	seen := map[string]bool{}
	for _, p := range PatsFrom(roots) {
		if seen[p] {
			return true
		}
		seen[p] = true
	}
	return false
}

// HandleBeforeRemove is the class of F10b: some Handle precedes a Remove.
func HandleBeforeRemove(ops []Op) bool {
	seen := false
	for _, o := range ops {
		if o.Kind == "handle" {
			seen = true
		}
		if o.Kind == "remove" && seen {
			return true
		}
	}
	return false
}
