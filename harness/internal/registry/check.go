package registry

import (
	"encoding/json"
	"fmt"
	"os"
	"path/filepath"
	"strings"

	"verifharness/internal/drv"
	"verifharness/internal/report"
	"verifharness/internal/rng"
	"verifharness/internal/routing"
	"verifharness/internal/sx"
)

// ProbeEval is the driver's answer for one probe.
type ProbeEval struct {
	Model [4]string // canonical model answers: histDispatch, freshDispatch, histServe, freshServe
	Spec  bool      // Spec.c11Holds on the REAL observation
	Tag   string
}

// Evaluated is one history run on both sides.
type Evaluated struct {
	H          *History
	Res        *Result
	Line       string
	Answer     string
	ContentOK  bool
	ModelRun   string // "ok" | "(panic i kind)"
	ModelPanic int    // -1 = none
	ModelFresh string // "ok" | "panic"
	ClassF10b  bool
	ClassF11   bool // coverage only: the model's run visits the class of the repaired finding F11
	SpecAdd    bool // Spec.c11AddTotalHolds on the REAL panic outcome
	Probes     []ProbeEval
}

func canonAnswer(n *sx.Node) string {
	switch n.Head() {
	case "sel", "err", "panic":
		return routing.CanonModel(n)
	}
	return n.String()
}

func fill(e *Evaluated, answer string) error {
	e.Answer = answer
	n, err := sx.Parse(answer)
	if err != nil {
		return fmt.Errorf("driver answer %q: %v", answer, err)
	}
	if n.Head() != "out" {
		return fmt.Errorf("driver rejected the history: %s\n%s", answer, e.Line)
	}
	bit := func(kw string, key string) bool {
		for _, c := range n.List {
			if c.Head() == kw {
				a := c.Args()
				if key == "" && len(a) == 1 {
					return a[0].Atom == "1"
				}
				if len(a) == 2 && a[0].Atom == key {
					return a[1].Atom == "1"
				}
			}
		}
		return false
	}
	e.ContentOK = bit("contentok", "")
	e.ClassF10b = bit("class", "F10b")
	e.ClassF11 = bit("class", "F11")
	e.SpecAdd = bit("spec", "C11add")
	e.ModelPanic = -1
	if r := n.Find("run"); r != nil && len(r.Args()) == 1 {
		a := r.Args()[0]
		e.ModelRun = a.String()
		if a.Head() == "panic" {
			e.ModelPanic = a.Args()[0].Int()
		}
	}
	if f := n.Find("fresh"); f != nil && len(f.Args()) == 1 {
		e.ModelFresh = f.Args()[0].Atom
	}
	e.Probes = nil
	if ps := n.Find("probes"); ps != nil {
		for _, p := range ps.Args() {
			a := p.Args()
			if len(a) < 6 {
				return fmt.Errorf("malformed probe answer %s", p)
			}
			pe := ProbeEval{}
			for i := 0; i < 4; i++ {
				pe.Model[i] = canonAnswer(a[i])
			}
			pe.Spec = a[4].Args()[1].Atom == "1"
			pe.Tag = a[5].Args()[0].Atom
			e.Probes = append(e.Probes, pe)
		}
	}
	if len(e.Probes) != len(e.Res.Answers) {
		return fmt.Errorf("driver answered %d probes of %d", len(e.Probes), len(e.Res.Answers))
	}
	return nil
}

// Evaluate runs the histories on the real package and, in one batch, on the driver.
func Evaluate(hs []*History) ([]*Evaluated, error) {
	es := make([]*Evaluated, len(hs))
	lines := make([]string, len(hs))
	for i, h := range hs {
		res := Exec(h)
		es[i] = &Evaluated{H: h, Res: res, Line: Line(i, h, res)}
		lines[i] = es[i].Line
	}
	ans, err := drv.Run(lines)
	if err != nil {
		return nil, err
	}
	for i := range es {
		if err := fill(es[i], ans[i]); err != nil {
			return nil, err
		}
	}
	return es, nil
}

// Verdict of one evaluated history.
type Verdict struct {
	Kind  string // ok | known | spec-probe | spec-add | disagree-panic | disagree-probe | machinery
	Known string // finding id when Kind == known
	Probe int    // first probe concerned (-1)
	What  string
}

func (v Verdict) bad() bool { return v.Kind != "ok" && v.Kind != "known" }

// Judge applies the rules of DESIGN §5/§6 to one history. The only class that excuses a failing
// case is the open finding F10b; the class of F11 (repaired by 093fa53) is measured, never excused:
// a panic of Add or Remove among WebServices with pairwise different root paths is a violation.
func Judge(e *Evaluated) Verdict {
	if !e.ContentOK {
		return Verdict{Kind: "machinery", Probe: -1, What: "the content the harness rebuilt the fresh container from is not the model's content"}
	}
	if e.ClassF10b != HandleBeforeRemove(e.H.Ops[:e.Res.Executed]) {
		return Verdict{Kind: "machinery", Probe: -1, What: "Go and Lean classifiers of F10b disagree"}
	}
	res := e.Res
	if res.PanicIdx >= 0 {
		op := e.H.Ops[res.PanicIdx]
		if res.ModelPanic < 0 {
			return Verdict{Kind: "spec-add", Probe: -1, What: fmt.Sprintf("%s on a WebService outside the container panicked: %s", op.Kind, res.PanicVal)}
		}
		if !e.SpecAdd {
			return Verdict{Kind: "spec-add", Probe: -1, What: fmt.Sprintf("operation %d (%s) panicked or exited: %s", res.PanicIdx, op.Kind, res.PanicVal)}
		}
		if e.ModelPanic != res.ModelPanic {
			return Verdict{Kind: "disagree-panic", Probe: -1, What: fmt.Sprintf("operation %d (%s) panicked (%s), the model says %s", res.PanicIdx, op.Kind, res.PanicVal, e.ModelRun)}
		}
		if e.ClassF11 != res.VisitsF11 {
			return Verdict{Kind: "machinery", Probe: -1, What: "Go and Lean classifiers of the (repaired) class F11 disagree"}
		}
		return Verdict{Kind: "ok", Probe: -1}
	}
	if e.ModelPanic >= 0 {
		return Verdict{Kind: "disagree-panic", Probe: -1, What: "no operation panicked, the model says " + e.ModelRun}
	}
	if e.ClassF11 != res.VisitsF11 {
		return Verdict{Kind: "machinery", Probe: -1, What: "Go and Lean classifiers of the (repaired) class F11 disagree"}
	}
	known := Verdict{Kind: "ok", Probe: -1}
	var disagree *Verdict
	for i, p := range e.Probes {
		agrees := p.Model == res.Answers[i]
		if p.Spec && !agrees && e.ClassF10b {
			// a repaired defect legitimately differs from the model inside its class, provided the predicate holds
			if known.Kind == "ok" && known.What == "" {
				known.What = "differs-inside-known-class:F10b"
			}
			continue
		}
		if !p.Spec {
			if e.ClassF10b && agrees {
				if known.Kind == "ok" {
					known = Verdict{Kind: "known", Known: "F10b", Probe: i}
				}
				continue
			}
			return Verdict{Kind: "spec-probe", Probe: i, What: describeProbe(e, i)}
		}
		if !agrees && disagree == nil {
			disagree = &Verdict{Kind: "disagree-probe", Probe: i, What: describeProbe(e, i)}
		}
	}
	if disagree != nil {
		return *disagree
	}
	return known
}

var entryNames = [4]string{"history-built Dispatch", "fresh-built Dispatch", "history-built ServeHTTP", "fresh-built ServeHTTP"}

func describeProbe(e *Evaluated, i int) string {
	p := e.H.Probes[i]
	var sb strings.Builder
	fmt.Fprintf(&sb, "%s %q:", p.Method, p.Path)
	for k := 0; k < 4; k++ {
		fmt.Fprintf(&sb, " %s=%s", entryNames[k], Pretty(e.Res.Answers[i][k]))
		if e.Probes[i].Model[k] != e.Res.Answers[i][k] {
			fmt.Fprintf(&sb, " (model: %s)", Pretty(e.Probes[i].Model[k]))
		}
		if k < 3 {
			sb.WriteString(";")
		}
	}
	return sb.String()
}

// Pretty decodes the hex atoms of a canonical answer.
func Pretty(s string) string {
	n, err := sx.Parse(s)
	if err != nil {
		return s
	}
	switch n.Head() {
	case "sel":
		out := fmt.Sprintf("route#%s of ws id %s", n.Args()[1].Atom, n.Args()[0].Atom)
		for _, p := range n.Args()[2:] {
			out += fmt.Sprintf(" %s=%q", p.Args()[0].Str(), p.Args()[1].Str())
		}
		return out
	case "err":
		out := "status " + n.Args()[0].Atom
		if a := n.Args()[1]; a.IsL {
			ms := []string{}
			for _, x := range a.Args() {
				ms = append(ms, x.Str())
			}
			out += " Allow=" + strings.Join(ms, ",")
		}
		return out
	case "plain":
		return "plain handler #" + n.Args()[0].Atom
	case "redirect":
		return fmt.Sprintf("301 to %q", n.Args()[0].Str())
	case "nocontainer":
		return "container could not be built (registration panicked)"
	}
	return s
}

func one(h *History) (*Evaluated, Verdict, error) {
	es, err := Evaluate([]*History{h})
	if err != nil {
		return nil, Verdict{}, err
	}
	return es[0], Judge(es[0]), nil
}

// Shrink drops operations, probes, routes and unused WebService objects while the verdict kind stays.
func Shrink(h *History, kind string, probe int) *History {
	budget := 300
	h = h.clone()
	if probe >= 0 && probe < len(h.Probes) {
		h.Probes = []routing.Req{h.Probes[probe]}
	} else if kind == "spec-add" || kind == "disagree-panic" {
		h.Probes = nil // the verdict is about an operation, not about a probe
	}
	still := func(c *History) bool {
		if budget <= 0 {
			return false
		}
		budget--
		_, v, err := one(c)
		return err == nil && v.Kind == kind
	}
	if !still(h) { // the single probe does not reproduce it alone (cannot happen: probes are independent)
		return nil
	}
	changed := true
	for changed && budget > 0 {
		changed = false
		for i := len(h.Ops) - 1; i >= 0; i-- {
			c := h.clone()
			c.Ops = append(c.Ops[:i], c.Ops[i+1:]...)
			if still(c) {
				h, changed = c, true
			}
		}
		for si := range h.Pool {
			for i := len(h.Pool[si].Routes) - 1; i >= 0; i-- {
				c := h.clone()
				c.Pool[si].Routes = append(c.Pool[si].Routes[:i], c.Pool[si].Routes[i+1:]...)
				if still(c) {
					h, changed = c, true
				}
			}
		}
	}
	// drop WebService objects no operation mentions
	used := map[int]int{}
	c := &History{Router: h.Router, Probes: h.Probes}
	for _, o := range h.Ops {
		if o.Kind != "handle" {
			if _, ok := used[o.Svc]; !ok {
				used[o.Svc] = len(c.Pool)
				c.Pool = append(c.Pool, h.Pool[o.Svc])
			}
			o.Svc = used[o.Svc]
		}
		c.Ops = append(c.Ops, o)
	}
	if len(c.Pool) > 0 && still(c) {
		h = c
	}
	return h
}

func violationOf(kind string, e *Evaluated, v Verdict) report.Violation {
	real := map[string]interface{}{"panic_at_operation": e.Res.PanicIdx, "panic_value": e.Res.PanicVal,
		"fresh_container_panicked": e.Res.FreshPanic, "fresh_panic_value": e.Res.FreshVal}
	if v.Probe >= 0 {
		for k := 0; k < 4; k++ {
			real[entryNames[k]] = Pretty(e.Res.Answers[v.Probe][k])
		}
	}
	rb, _ := json.Marshal(real)
	return report.Violation{Kind: kind, What: v.What, Case: []string{e.Line}, Human: e.H.Human(), Model: e.Answer, Real: string(rb)}
}

// Opts of a stream.
type StreamOpts struct {
	Name      string
	Router    string
	Histories int
}

// CheckStream generates, runs and judges one stream.
func CheckStream(run *report.Run, o StreamOpts, seed uint64, st *Stats) error {
	base := rng.New(seed)
	const batch = 250
	reported := map[string]int{}
	for start := 0; start < o.Histories; start += batch {
		var hs []*History
		for i := start; i < o.Histories && i < start+batch; i++ {
			hs = append(hs, GenHistory(base.Fork(uint64(i)), o.Router, st))
		}
		es, err := Evaluate(hs)
		if err != nil {
			return err
		}
		for _, e := range es {
			run.Evaluations++
			run.TracesValidated++
			v := Judge(e)
			account(run, o.Name, e, v)
			switch {
			case v.Kind == "known":
				run.KnownHits[v.Known]++
			case v.Kind == "machinery":
				return fmt.Errorf("%s\n%s", v.What, e.Line)
			case v.bad():
				if reported[v.Kind] >= 2 {
					continue
				}
				reported[v.Kind]++
				report1(run, o, e, v, seed)
			}
		}
	}
	return nil
}

func account(run *report.Run, stream string, e *Evaluated, v Verdict) {
	run.Count(stream + ":verdict:" + v.Kind)
	if v.Kind == "ok" && v.What != "" {
		run.Count(v.What)
	}
	if e.Res.PanicIdx >= 0 {
		run.Count(stream + ":history-ends-in-panic:" + e.H.Ops[e.Res.PanicIdx].Kind)
	} else {
		run.Count(stream + ":history-completes")
		if e.Res.FreshPanic {
			run.Count(stream + ":fresh-container-panics")
		}
	}
	if e.Res.VisitsF11 {
		// the class of the repaired finding F11: services with different roots want one ServeMux pattern
		run.Count(stream + ":visits-former-F11-class")
		if e.Res.PanicIdx < 0 {
			run.Count(stream + ":visits-former-F11-class:history-completes")
		}
		run.Extra["operations_inside_former_F11_class"] = asInt(run.Extra["operations_inside_former_F11_class"]) + e.Res.SharedOps
	}
	nontrivial := false
	for i, p := range e.Probes {
		run.Count(stream + ":probe:" + p.Tag)
		if !strings.HasPrefix(p.Tag, "mux404/") && !strings.HasPrefix(p.Tag, "nocontainer") {
			nontrivial = true
		}
		if !p.Spec {
			run.Count(stream + ":probe-spec-false")
		}
		_ = i
	}
	run.Extra["probes"] = asInt(run.Extra["probes"]) + len(e.Probes)
	if nontrivial || e.Res.PanicIdx >= 0 {
		run.Distinct[stream+"|"+e.Line] = true
	}
	if len(run.Samples) < 4 && len(e.H.Ops) >= 4 && len(e.H.Ops) <= 8 && e.Res.PanicIdx < 0 && run.Evaluations%5 == 0 {
		pr := []string{}
		for i := range e.Probes {
			if i < 6 {
				pr = append(pr, describeProbe(e, i))
			}
		}
		run.Sample(map[string]interface{}{"stream": stream, "history": e.H.Human(), "first_probes": pr})
	}
}

func asInt(x interface{}) int {
	if v, ok := x.(int); ok {
		return v
	}
	return 0
}

func report1(run *report.Run, o StreamOpts, e *Evaluated, v Verdict, seed uint64) {
	if sh := Shrink(e.H, v.Kind, v.Probe); sh != nil {
		if e2, v2, err := one(sh); err == nil && v2.Kind == v.Kind {
			e, v = e2, v2
		}
	}
	switch v.Kind {
	case "spec-probe":
		v.What = "Spec.c11Holds is false on the real answers: " + v.What
		run.AddViolation(violationOf("counterexample", e, v))
	case "spec-add":
		v.What = "Spec.c11AddTotalHolds is false on the real outcome: " + v.What
		run.AddViolation(violationOf("counterexample", e, v))
	default: // model and implementation disagree, the predicate holds on this input: search near it
		run.DisagreementsChecked++
		if ce, cv := searchNear(e.H, seed); ce != nil {
			report1(run, o, ce, cv, seed)
			return
		}
		viol := violationOf("correspondence", e, v)
		viol.NoInput = true
		viol.What = "model and implementation disagree (" + v.What + "); no input falsifying the property was found near it"
		viol.Theorem = "correspondence stream " + o.Name
		run.AddViolation(viol)
	}
}

// searchNear looks for a history close to h on which the property predicate fails on the real code:
// the same operations with fresh probe sets, prefixes of it, single extra operations, then random
// histories from other seeds.
func searchNear(h *History, seed uint64) (*Evaluated, Verdict) {
	r := rng.New(seed ^ 0xc11c11)
	var hs []*History
	for i := 0; i < 150; i++ {
		c := h.clone()
		if i%3 == 1 && len(c.Ops) > 1 {
			c.Ops = c.Ops[:1+r.Intn(len(c.Ops))]
		}
		if i%3 == 2 && len(c.Pool) > 0 {
			extra := []Op{{Kind: "remove", Svc: r.Intn(len(c.Pool))}, {Kind: "add", Svc: r.Intn(len(c.Pool))},
				{Kind: "handle", Pattern: r.Pick(handlePool), HID: 900 + i}}
			at := r.Intn(len(c.Ops) + 1)
			c.Ops = append(c.Ops[:at], append([]Op{extra[r.Intn(len(extra))]}, c.Ops[at:]...)...)
		}
		c.Probes = GenProbes(r, c)
		hs = append(hs, c)
	}
	st := NewStats()
	for i := 0; i < 300; i++ {
		hs = append(hs, GenHistory(r.Fork(uint64(i)), h.Router, st))
	}
	es, err := Evaluate(hs)
	if err != nil {
		return nil, Verdict{}
	}
	for _, e := range es {
		if v := Judge(e); v.Kind == "spec-probe" || v.Kind == "spec-add" {
			return e, v
		}
	}
	return nil, Verdict{}
}

// ---- witness of the open finding, regressions of the repaired one ----

// WitnessFile is the layout of replays/F10b.json: a replay file (DESIGN A.2, same shape as the files
// report.Run writes, so that `bin/check C11 --replay` reads it) plus the history in structured
// form, which is what the check re-runs on the real code.
type WitnessFile struct {
	Property  string           `json:"property"`
	Finding   string           `json:"finding"`
	Theorem   string           `json:"theorem"`
	History   *History         `json:"history"`
	Violation report.Violation `json:"violation"`
}

// BuiltinWitnesses are the minimal histories of the open findings (the same as the `decide`d
// theorem C11_F10b_witness of Props/C11.lean).
func BuiltinWitnesses() map[string]*History {
	get := routing.RouteDecl{ID: 1, Method: "GET", Rel: "/x"}
	return map[string]*History{
		"F10b": {Router: "curly",
			Pool:   []SvcSpec{{ID: 1, Root: "/a", Dynamic: true, Routes: []routing.RouteDecl{get}}},
			Ops:    []Op{{Kind: "handle", Pattern: "/health", HID: 7}, {Kind: "add", Svc: 0}, {Kind: "remove", Svc: 0}},
			Probes: []routing.Req{{Method: "GET", Path: "/health"}}},
	}
}

// Regression is a former witness of a repaired finding (or a neighbour of it): a fixed history that
// must hold on the real code on every run. Want lists, per probe index, the canonical answer the
// history-built container must give through ServeHTTP (beyond agreeing with the fresh container
// and with the model).
type Regression struct {
	Name string
	H    *History
	Want map[int]string
}

func sel(svc, route int, kv ...string) string {
	n := sx.K("sel", sx.N(svc), sx.N(route))
	for i := 0; i+1 < len(kv); i += 2 {
		n.List = append(n.List, sx.K("p", sx.H(kv[i]), sx.H(kv[i+1])))
	}
	return n.String()
}

// RegressionsF11 are the former witnesses of finding F11 (Add panicked with "multiple registrations"
// for distinct root paths that share their fixed prefix), repaired by 093fa53, the same as the
// `decide`d theorems C11_F11_fixed / C11_F11_remove_fixed of Props/C11.lean, plus neighbours: both
// orders, both routers, Remove of one of the sharing services (the shared patterns must stay), the
// shielded pair uncovered by Remove("/"), a plain handler next to the shared prefix.
func RegressionsF11() []Regression {
	x := func(id int) []routing.RouteDecl { return []routing.RouteDecl{{ID: id, Method: "GET", Rel: "/x"}} }
	at := func(id int) []routing.RouteDecl { return []routing.RouteDecl{{ID: id, Method: "GET", Rel: ""}} }
	users := SvcSpec{ID: 1, Root: "/users", Dynamic: true, Routes: x(1)}
	usersB := SvcSpec{ID: 2, Root: "/users/{id}/b", Dynamic: true, Routes: at(2)}
	a := SvcSpec{ID: 1, Root: "/a", Dynamic: true, Routes: x(1)}
	aSlash := SvcSpec{ID: 2, Root: "/a/", Dynamic: true, Routes: x(2)}
	aID := SvcSpec{ID: 3, Root: "/a/{id}", Dynamic: true, Routes: x(3)}
	root := SvcSpec{ID: 9, Root: "/", Dynamic: true, Routes: []routing.RouteDecl{{ID: 9, Method: "GET", Rel: "/zzz"}}}
	add := func(i int) Op { return Op{Kind: "add", Svc: i} }
	rm := func(i int) Op { return Op{Kind: "remove", Svc: i} }
	get := func(ps ...string) []routing.Req {
		var out []routing.Req
		for _, p := range ps {
			out = append(out, routing.Req{Method: "GET", Path: p})
		}
		return out
	}
	usersProbes := get("/users/7/b", "/users/x", "/users", "/users/", "/users/7/b/", "/users/7", "/usersx", "/zzz")
	aProbes := get("/a/x", "/a", "/a/", "/a/5/x", "/ab", "/a//x")
	var out []Regression
	for _, router := range []string{"curly", "jsr"} {
		out = append(out,
			Regression{Name: router + ": Add(/users) Add(/users/{id}/b)",
				H:    &History{Router: router, Pool: []SvcSpec{users, usersB}, Ops: []Op{add(0), add(1)}, Probes: usersProbes},
				Want: map[int]string{0: sel(2, 2, "id", "7"), 1: sel(1, 1)}},
			Regression{Name: router + ": Add(/users/{id}/b) Add(/users)",
				H:    &History{Router: router, Pool: []SvcSpec{users, usersB}, Ops: []Op{add(1), add(0)}, Probes: usersProbes},
				Want: map[int]string{0: sel(2, 2, "id", "7"), 1: sel(1, 1)}},
			Regression{Name: router + ": Add(/) Add(/users) Add(/users/{id}/b) Remove(/)",
				H:    &History{Router: router, Pool: []SvcSpec{users, usersB, root}, Ops: []Op{add(2), add(0), add(1), rm(2)}, Probes: usersProbes},
				Want: map[int]string{0: sel(2, 2, "id", "7"), 1: sel(1, 1)}},
			Regression{Name: router + ": Add(/users) Add(/users/{id}/b) Remove(/users)",
				H:    &History{Router: router, Pool: []SvcSpec{users, usersB}, Ops: []Op{add(0), add(1), rm(0)}, Probes: usersProbes},
				Want: map[int]string{0: sel(2, 2, "id", "7")}},
			Regression{Name: router + ": Add(/users) Add(/users/{id}/b) Remove(/users/{id}/b)",
				H:    &History{Router: router, Pool: []SvcSpec{users, usersB}, Ops: []Op{add(0), add(1), rm(1)}, Probes: usersProbes},
				Want: map[int]string{1: sel(1, 1)}},
			Regression{Name: router + ": Add(/a) Add(/a/{id}) Add(/a/) Remove(/a) Add(/a)",
				H:    &History{Router: router, Pool: []SvcSpec{a, aSlash, aID}, Ops: []Op{add(0), add(2), add(1), rm(0), add(0)}, Probes: aProbes},
				Want: map[int]string{3: sel(3, 3, "id", "5")}},
			Regression{Name: router + ": Handle(/a/plain) Add(/a) Add(/a/{id}) Add(/a/)",
				H: &History{Router: router, Pool: []SvcSpec{a, aSlash, aID},
					Ops:    []Op{{Kind: "handle", Pattern: "/a/plain", HID: 7}, add(0), add(2), add(1)},
					Probes: append(get("/a/plain"), aProbes...)},
				Want: map[int]string{0: sx.K("plain", sx.N(7)).String(), 4: sel(3, 3, "id", "5")}},
		)
	}
	out = append(out,
		Regression{Name: "curly: Add(/a) Add(/a/)",
			H:    &History{Router: "curly", Pool: []SvcSpec{a, aSlash}, Ops: []Op{add(0), add(1)}, Probes: aProbes},
			Want: map[int]string{0: sel(1, 1)}},
		Regression{Name: "curly: Add(/a/) Add(/a)",
			H:    &History{Router: "curly", Pool: []SvcSpec{a, aSlash}, Ops: []Op{add(1), add(0)}, Probes: aProbes},
			Want: map[int]string{0: sel(2, 2)}},
	)
	return out
}

// checkRegression runs one regression on both sides; why == "" when it holds.
func checkRegression(g Regression) (e *Evaluated, v Verdict, why string, err error) {
	e, v, err = one(g.H)
	if err != nil {
		return nil, v, "", err
	}
	switch {
	case v.Kind != "ok" || v.What != "":
		why = v.Kind + " " + v.What
	case e.Res.PanicIdx >= 0:
		why = fmt.Sprintf("operation %d panicked: %s", e.Res.PanicIdx, e.Res.PanicVal)
	case e.Res.FreshPanic:
		why = "the fresh container could not be built: " + e.Res.FreshVal
	case !e.Res.VisitsF11 || !e.ClassF11:
		why = "the history does not lie in the class of the repaired finding (classifier broken)"
	}
	if why == "" {
		for i, want := range g.Want {
			for _, k := range []int{2, 3, 0} { // history-built ServeHTTP, fresh ServeHTTP, Dispatch (the mux aside)
				got := e.Res.Answers[i][k]
				if k == 0 && strings.HasPrefix(want, "(plain") {
					continue // Dispatch never reaches a plain handler
				}
				if got != want {
					p := g.H.Probes[i]
					why = fmt.Sprintf("%s %q: %s answers %s, expected %s", p.Method, p.Path, entryNames[k], Pretty(got), Pretty(want))
					v.Probe = i
				}
			}
		}
	}
	return e, v, why, nil
}

// ReplayRegressions runs the former witnesses of the repaired finding F11: each must hold; a
// failure is a VIOLATION whose replay is that history.
func ReplayRegressions(run *report.Run) error {
	for _, g := range RegressionsF11() {
		e, v, why, err := checkRegression(g)
		if err != nil {
			return err
		}
		if v.Kind == "machinery" {
			return fmt.Errorf("regression %s: %s\n%s", g.Name, v.What, e.Line)
		}
		run.Evaluations++
		run.TracesValidated++
		run.Distinct["regression|"+e.Line] = true
		if why == "" {
			run.Count("regression:F11-fixed:holds")
			continue
		}
		run.Count("regression:F11-fixed:FAILS")
		v.What = "regression of the repaired finding F11 (093fa53, addHandler registers only the ServeMux patterns no earlier WebService mapped): " + g.Name + ": " + why
		kind := "counterexample"
		if strings.HasPrefix(v.Kind, "disagree") {
			kind = "correspondence"
			// the model is proved to satisfy the property here (C11_F11_fixed): is the predicate false on the real answers?
			for i, p := range e.Probes {
				if !p.Spec {
					kind, v.Probe = "counterexample", i
					break
				}
			}
		}
		viol := violationOf(kind, e, v)
		viol.Theorem = "Restful.Props.C11_F11_fixed"
		run.AddViolation(viol)
	}
	return nil
}

// ReplayWitnesses runs the witness of every open C11 finding on the real code: still failing in the
// listed way ⇒ a known hit (one KNOWN-FINDING line); repaired ⇒ silent.
func ReplayWitnesses(run *report.Run) error {
	known, err := report.LoadKnown()
	if err != nil {
		return nil
	}
	for _, f := range known.Findings {
		if f.Property != "C11" || f.Status != "open" {
			continue
		}
		h := BuiltinWitnesses()[f.ID]
		if b, err := os.ReadFile(filepath.Join(report.Root, f.Witness)); err == nil {
			var wf WitnessFile
			if json.Unmarshal(b, &wf) == nil && wf.History != nil {
				h = wf.History
			}
		}
		if h == nil {
			continue
		}
		e, v, err := one(h)
		if err != nil {
			return err
		}
		run.Count("witness:" + f.ID + ":" + v.Kind)
		switch {
		case v.Kind == "known" && v.Known == f.ID:
			run.KnownHits[f.ID]++
		case v.bad():
			// the witness now fails in a way the finding does not describe
			v.What = "witness of " + f.ID + " no longer behaves as listed: " + v.What
			kind := "counterexample"
			if strings.HasPrefix(v.Kind, "disagree") {
				kind = "correspondence"
			}
			run.AddViolation(violationOf(kind, e, v))
		}
	}
	return nil
}

// RegressionFile is the layout of replays/F11.json: the committed record of the regressions of the
// repaired finding F11 (same outer shape as a replay file: `bin/check C11 --replay` re-runs the
// lines on the driver).
type RegressionFile struct {
	Property  string        `json:"property"`
	Finding   string        `json:"finding"`
	Status    string        `json:"status"`
	Theorem   string        `json:"theorem"`
	Expect    string        `json:"expect"`
	Histories []*History    `json:"histories"`
	Violation regressionRec `json:"violation"`
}

type regressionRec struct {
	Kind  string        `json:"kind"`
	What  string        `json:"what"`
	Case  []string      `json:"case"`
	Human []interface{} `json:"human"`
	Model string        `json:"model"`
	Real  string        `json:"real"`
}

// WriteWitnesses (re)creates replays/F10b.json from the built-in history and replays/F11.json, the
// regression record, from RegressionsF11 (every regression must hold when the record is written).
func WriteWitnesses() error {
	th := map[string]string{"F10b": "C11_F10b_witness"}
	for id, h := range BuiltinWitnesses() {
		e, v, err := one(h)
		if err != nil {
			return err
		}
		real := v.Kind + " " + v.Known + " " + v.What
		if v.Probe >= 0 {
			real = describeProbe(e, v.Probe)
		} else if e.Res.PanicIdx >= 0 {
			real = fmt.Sprintf("operation %d panicked: %s", e.Res.PanicIdx, e.Res.PanicVal)
		}
		wf := WitnessFile{Property: "C11", Finding: id, Theorem: th[id], History: h,
			Violation: report.Violation{Kind: "counterexample", What: "witness of the open finding " + id + " (Lean: " + th[id] + ")",
				Case: []string{e.Line}, Human: h.Human(), Model: e.Answer, Real: real, Theorem: th[id], Class: id}}
		b, _ := json.MarshalIndent(wf, "", " ")
		if err := os.WriteFile(filepath.Join(report.Root, "replays", id+".json"), append(b, '\n'), 0o644); err != nil {
			return err
		}
	}
	rf := RegressionFile{Property: "C11", Finding: "F11", Status: "fixed 093fa53", Theorem: "Restful.Props.C11_F11_fixed, Restful.Props.C11_F11_remove_fixed",
		Expect: "PASS: every line carries the answers the real code gives today: no operation panics, (spec C11add 1), every probe (spec C11 1) and equal to the model's answers; the check re-executes every history on the real code on every run and reports a VIOLATION with that history if it does not hold. Before the repair the second Add (resp. the Remove) of each history panicked with 'http: multiple registrations'",
		Violation: regressionRec{Kind: "regression",
			What: "former witnesses of F11 (Add panicked with 'multiple registrations' for distinct root paths that share their fixed prefix) and neighbours, repaired by 093fa53; kept as regressions that must pass"}}
	for gi, g := range RegressionsF11() {
		e, _, why, err := checkRegression(g)
		if err != nil {
			return err
		}
		if why != "" {
			return fmt.Errorf("regression %s fails on the real code: %s", g.Name, why)
		}
		e.Line = Line(gi, g.H, e.Res)
		e.Answer = strings.Replace(e.Answer, "(out 0 ", fmt.Sprintf("(out %d ", gi), 1)
		hu := g.H.Human()
		hu["regression"] = g.Name
		pr := []string{}
		for i := range e.Probes {
			pr = append(pr, describeProbe(e, i))
		}
		hu["answers"] = pr
		rf.Histories = append(rf.Histories, g.H)
		rf.Violation.Case = append(rf.Violation.Case, e.Line)
		rf.Violation.Human = append(rf.Violation.Human, hu)
		if rf.Violation.Model != "" {
			rf.Violation.Model += "\n"
		}
		rf.Violation.Model += e.Answer
	}
	rf.Violation.Real = "no operation panics; every probe is answered alike by the history-built and the fresh container, through Dispatch and ServeHTTP (the answers are inside the lines and under human[i].answers)"
	b, _ := json.MarshalIndent(rf, "", " ")
	return os.WriteFile(filepath.Join(report.Root, "replays", "F11.json"), append(b, '\n'), 0o644)
}

// CheckSlashServe (C14): histories of Add/Remove/Route/RemoveRoute/Handle on a real container, then
// every probe p is sent through ServeHTTP as p and as p/: where Container.Dispatch gives both the same
// outcome, ServeHTTP must too (pairs one of which net/http itself redirects are skipped).
func CheckSlashServe(run *report.Run, n int) error {
	SlashTwins = true
	defer func() { SlashTwins = false }()
	InstallLogger()
	base := rng.New(run.Seed*15485867 + 9)
	st := NewStats()
	bad := 0
	// a small structured family first: a WebService on a literal root with a route AT the root, next to one
	// whose variable root shares its fixed prefix, in both registration orders, with and without a service
	// on "/" shielding them for a while, and every single Remove
	var directed []*History
	for _, router := range []string{"curly", "jsr"} {
		for _, pair := range [][2]string{{"/users", "/users/{id}/b"}, {"/a", "/a/{id}"}, {"/b", "/b/{x}"}} {
			lit := SvcSpec{ID: 1, Root: pair[0], Dynamic: true, Routes: []routing.RouteDecl{{ID: 1, Method: "GET", Rel: ""}, {ID: 2, Method: "GET", Rel: "/x"}}}
			vr := SvcSpec{ID: 2, Root: pair[1], Dynamic: true, Routes: []routing.RouteDecl{{ID: 3, Method: "GET", Rel: ""}}}
			top := SvcSpec{ID: 3, Root: "/", Dynamic: true, Routes: []routing.RouteDecl{{ID: 4, Method: "GET", Rel: "/zzz"}}}
			add := func(i int) Op { return Op{Kind: "add", Svc: i} }
			rm := func(i int) Op { return Op{Kind: "remove", Svc: i} }
			probes := []routing.Req{{Method: "GET", Path: pair[0]}, {Method: "POST", Path: pair[0]}, {Method: "GET", Path: pair[0] + "/x"}, {Method: "GET", Path: pair[0] + "/7/b"}, {Method: "GET", Path: pair[0] + "/7"}}
			for _, ops := range [][]Op{
				{add(0), add(1)}, {add(1), add(0)},
				{add(0), add(1), rm(1)}, {add(1), add(0), rm(1)}, {add(0), add(1), rm(0)}, {add(1), add(0), rm(0)},
				{add(2), add(0), add(1), rm(2)}, {add(2), add(1), add(0), rm(2)}, {add(1), add(2), add(0), rm(2)},
				{add(1), add(0), rm(1), add(1)}, {add(0), add(1), rm(0), add(0)},
			} {
				directed = append(directed, &History{Router: router, Pool: []SvcSpec{lit, vr, top}, Ops: ops, Probes: probes})
			}
		}
	}
	for i := 0; i < n+len(directed); i++ {
		r := base.Fork(uint64(i))
		var h *History
		if i < len(directed) {
			h = directed[i]
			run.Count("serve-level-slash:structured-shared-prefix-histories")
			// on these few histories the answers to p and p/ are also held against the MODEL of the
			// patterns the container registers (root and root/), through both entry points: a root path
			// that net/http redirects although the container should have registered it shows up here
			if e, v, err := one(h); err != nil {
				return err
			} else if v.bad() && v.Known == "" && bad < 3 {
				bad++
				viol := violationOf("counterexample", e, v)
				viol.What = "C14 (root path and root path + '/' through the ServeMux): " + viol.What
				run.AddViolation(viol)
			}
		} else {
			h = GenHistory(r, []string{"curly", "jsr"}[i%2], st)
		}
		// the root paths themselves, as declared without a trailing slash: where the two ServeMux
		// patterns of a WebService (root and root/) matter most
		for _, sp := range h.Pool {
			if root := strings.TrimSuffix(NormRoot(sp.Root), "/"); root != "" && !strings.Contains(root, "{") {
				h.Probes = append(h.Probes, routing.Req{Method: "GET", Path: root}, routing.Req{Method: "POST", Path: root})
			}
		}
		res := Exec(h)
		run.Evaluations += res.SlashPairs
		run.TracesValidated += 4 * res.SlashPairs
		run.Count("serve-level-slash-pairs-on-containers-with-a-past")
		for _, d := range res.SlashDiff {
			if bad < 3 {
				bad++
				ops := []string{}
				for _, n := range res.OpNodes {
					ops = append(ops, Pretty(n.String()))
				}
				run.AddViolation(report.Violation{Kind: "counterexample", What: "C14: " + d,
					Human: map[string]interface{}{"router": h.Router, "history": ops}})
			}
		}
	}
	return nil
}
