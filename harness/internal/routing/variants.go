package routing

import (
	"fmt"
	"strings"

	"verifharness/internal/drv"
	"verifharness/internal/report"
	"verifharness/internal/rng"
	"verifharness/internal/sx"
)

// Variant is a table and, per base request, the request to send to it (nil = not applicable).
type Variant struct {
	Name string
	Cfg  Config
	Reqs []*Req
}

// PairCase is a base case with its counterpart in one variant.
type PairCase struct {
	Variant string
	A, B    *Case
	Same    string            // Spec.sameOutcomeB on the two REAL outcomes ("1"/"0")
	Class   map[string]string // table/request classes of the base case
}

func realNode(o Outcome) *sx.Node {
	return sx.K("real", o.Sx(), sx.H(o.SelPath), sx.N(o.Invocations))
}

// RunVariants draws tables and requests, builds the variants, runs everything on the real code and the driver.
func RunVariants(seed uint64, nCfg, perCfg int, o Opts, mk func(r *rng.R, cfg Config, reqs []Req) []Variant) ([]*PairCase, error) {
	return runVariants(seed, nCfg, perCfg, o, nil, mk)
}

// Table is a given table with given requests (RunVariantsOn).
type Table struct {
	Cfg  Config
	Reqs []Req
}

// RunVariantsOn is RunVariants on given tables instead of generated ones: the search around a case on
// which model and implementation disagree uses it to hold the pair property against that very table.
func RunVariantsOn(seed uint64, tables []Table, o Opts, mk func(r *rng.R, cfg Config, reqs []Req) []Variant) ([]*PairCase, error) {
	return runVariants(seed, len(tables), 0, o, tables, mk)
}

func runVariants(seed uint64, nCfg, perCfg int, o Opts, given []Table, mk func(r *rng.R, cfg Config, reqs []Req) []Variant) ([]*PairCase, error) {
	base := rng.New(seed)
	var lines []string
	var all []*Case
	type pend struct {
		variant string
		a, b    *Case
	}
	var pends []pend
	addCase := func(cfg *Config, cfgLine string, req Req, cont interface{ dispatch(Req) Outcome }) *Case {
		real := cont.dispatch(req)
		c := &Case{Cfg: cfg, CfgLine: cfgLine, Req: req, Real: real, RealS: real.Sx().String()}
		c.ReqLine = sx.K("route", sx.N(len(all)), req.Sx(), realNode(real)).String()
		lines = append(lines, c.ReqLine)
		all = append(all, c)
		return c
	}
	for ci := 0; ci < nCfg; ci++ {
		r := base.Fork(uint64(ci))
		var cfg Config
		if given != nil {
			cfg = given[ci].Cfg
		} else {
			cfg = GenConfig(r, o)
		}
		cont, err := Build(cfg)
		if err != nil {
			if strings.Contains(err.Error(), "multiple registrations") {
				SkippedBuild++
				continue
			}
			return nil, fmt.Errorf("config %d does not build: %v", ci, err)
		}
		reqs := make([]Req, perCfg)
		if given != nil {
			reqs = given[ci].Reqs
		} else {
			for i := range reqs {
				reqs[i] = GenReq(r, o, cfg)
			}
		}
		perCfg := len(reqs)
		cfgLine := sx.K("cfg", sx.N(ci), cfg.Sx()).String()
		lines = append(lines, cfgLine)
		baseCases := make([]*Case, perCfg)
		cfgCopy := cfg
		for i, rq := range reqs {
			baseCases[i] = addCase(&cfgCopy, cfgLine, rq, realCont{cont, o.ViaServe})
		}
		for _, v := range mk(r, cfg, reqs) {
			vc := v.Cfg
			vcont, err := Build(vc)
			if err != nil {
				if strings.Contains(err.Error(), "multiple registrations") {
					SkippedBuild++
					continue
				}
				return nil, fmt.Errorf("variant %s of config %d does not build: %v", v.Name, ci, err)
			}
			vLine := sx.K("cfg", sx.N(ci), vc.Sx()).String()
			lines = append(lines, vLine)
			for i, rq := range v.Reqs {
				if rq == nil {
					continue
				}
				b := addCase(&vc, vLine, *rq, realCont{vcont, o.ViaServe})
				pends = append(pends, pend{v.Name, baseCases[i], b})
			}
		}
	}
	answers, err := drv.Run(lines)
	if err != nil {
		return nil, err
	}
	k := 0
	for _, a := range answers {
		if a == "(ok)" {
			continue
		}
		if k >= len(all) {
			return nil, fmt.Errorf("driver answered too many lines")
		}
		if err := fillAnswer(all[k], a); err != nil {
			return nil, err
		}
		k++
	}
	if k != len(all) {
		return nil, fmt.Errorf("driver answered %d of %d cases", k, len(all))
	}
	// second batch: comparison of the real outcomes and the classes of the base case
	var l2 []string
	for i, p := range pends {
		l2 = append(l2, sx.K("same", sx.N(i), p.a.Real.Sx(), p.b.Real.Sx()).String())
		l2 = append(l2, sx.K("class", sx.N(i), p.a.Cfg.Sx(), p.a.Req.Sx()).String())
	}
	a2, err := drv.Run(l2)
	if err != nil {
		return nil, err
	}
	out := make([]*PairCase, len(pends))
	for i, p := range pends {
		pc := &PairCase{Variant: p.variant, A: p.a, B: p.b, Class: map[string]string{}}
		n, err := sx.Parse(a2[2*i])
		if err != nil || n.Head() != "out" {
			return nil, fmt.Errorf("driver rejected: %s", a2[2*i])
		}
		for _, s := range n.List {
			if s.Head() == "spec" {
				pc.Same = s.Args()[1].Atom
			}
		}
		n, err = sx.Parse(a2[2*i+1])
		if err != nil || n.Head() != "out" {
			return nil, fmt.Errorf("driver rejected: %s", a2[2*i+1])
		}
		for _, s := range n.List {
			if s.Head() == "spec" {
				pc.Class[s.Args()[0].Atom] = s.Args()[1].Atom
			}
		}
		out[i] = pc
	}
	return out, nil
}

type realCont struct {
	c        interface{}
	viaServe bool
}

func (rc realCont) dispatch(r Req) Outcome {
	return DispatchVia(rc.c.(contT), r, rc.viaServe)
}

// PairSpec says how a pair property reads the variants.
type PairSpec struct {
	ID string
	// Applies: is the pair inside the property's quantifier (given the classes)?
	Applies func(p *PairCase) bool
	// Known: id of the known finding whose class the pair lies in ("" = none).
	Known func(p *PairCase) string
	// Single: a single-outcome predicate of the same property; when set, the real outcome of every
	// member of every pair (base tables and variants alike) must satisfy it too.
	Single *PropSpec
	// Opts: the generator options of the stream; when set together with Single, a member that
	// disagrees with the model has its table searched for a request falsifying Single.
	Opts *Opts
	// NoModel: the real outcomes are compared with one another only (the model-free twin oracle): the
	// requests went through Container.ServeHTTP, and the routing model does not describe what the
	// ServeMux in front of the dispatcher answers by itself (redirects of unclean paths, its own 404).
	NoModel bool
}

// CheckPairs: the two real outcomes must be the same (the property), and each must agree with the model.
func CheckPairs(run *report.Run, ps PairSpec, stream string, pairs []*PairCase) {
	bad, dis, single := 0, 0, 0
	near := false
	seen := map[*Case]bool{}
	for _, p := range pairs {
		if sp := ps.Single; sp != nil && sp.SpecKey != "" {
			for _, c := range []*Case{p.A, p.B} {
				if seen[c] {
					continue
				}
				seen[c] = true
				if (!sp.NeedWF || c.Spec["WF"] == "1") && c.Spec[sp.SpecKey] == "0" {
					if id := knownOf(*sp, c); id != "" && sp.Proj(c.RealS) == sp.Proj(c.ModelS) {
						run.KnownHits[id]++
					} else if single < 3 {
						single++
						reportSpecFailure(run, *sp, c)
					}
				}
			}
		}
		run.Evaluations++
		run.TracesValidated += 2
		run.Count(stream + ":" + p.Variant + ":" + p.A.Tag)
		if p.A.Tag != "404-nosvc" {
			run.Distinct[stream+"|"+p.Variant+"|"+p.A.CfgLine+"|"+p.A.ReqLine+"|"+p.B.CfgLine+"|"+p.B.ReqLine] = true
		}
		if len(run.Samples) < 4 && p.A.Tag == "sel" && run.Evaluations%11 == 0 {
			run.Sample(map[string]interface{}{"stream": stream, "variant": p.Variant, "base": Human(p.A.Cfg, p.A.Req), "variant_request_path": p.B.Req.Path,
				"real_base": p.A.RealS, "real_variant": p.B.RealS})
		}
		applies := ps.Applies == nil || ps.Applies(p)
		if !applies {
			run.Count(stream + ":outside-quantifier")
		}
		known := ""
		if ps.Known != nil {
			known = ps.Known(p)
		}
		if applies && p.Same != "1" {
			// a listed finding is one the model reproduces on both members of the pair
			if known != "" && p.A.RealS == p.A.ModelS && p.B.RealS == p.B.ModelS {
				run.KnownHits[known]++
			} else if bad < 3 {
				bad++
				run.AddViolation(report.Violation{Kind: "counterexample",
					What: fmt.Sprintf("%s: the two requests/tables must have the same outcome but the real outcomes differ (variant %s)", ps.ID, p.Variant),
					Case: append(p.A.Lines(), p.B.Lines()...), Human: map[string]interface{}{"base": Human(p.A.Cfg, p.A.Req), "variant": Human(p.B.Cfg, p.B.Req)},
					Real: p.A.RealS + " vs " + p.B.RealS, Model: p.A.ModelS + " vs " + p.B.ModelS})
			}
			continue
		}
		for _, c := range []*Case{p.A, p.B} {
			if ps.NoModel {
				break
			}
			if c.RealS != c.ModelS && known == "" && dis < 3 {
				dis++
				run.DisagreementsChecked++
				if ps.Single != nil && ps.Opts != nil && !near && searchFalsifying(run, *ps.Single, *ps.Opts, *c.Cfg, c.Req, BuildOpts{}) {
					near = true // one falsifying input is enough; further disagreements are listed as such
					continue
				}
				run.AddViolation(report.Violation{Kind: "correspondence", NoInput: true,
					What:    fmt.Sprintf("model and implementation disagree on a case of stream %s (%s); the pair property itself held on the real outcomes", stream, ps.ID),
					Theorem: "correspondence stream " + stream, Case: c.Lines(), Human: Human(c.Cfg, c.Req), Real: c.RealS, Model: c.ModelS})
			}
		}
	}
}

// Permute returns the table with services and routes in another order (ids unchanged).
func Permute(r *rng.R, cfg Config) Config {
	out := Config{Router: cfg.Router}
	for _, i := range r.Perm(len(cfg.Services)) {
		s := cfg.Services[i]
		s2 := s
		s2.Routes = nil
		for _, j := range r.Perm(len(s.Routes)) {
			s2.Routes = append(s2.Routes, s.Routes[j])
		}
		out.Services = append(out.Services, s2)
	}
	return out
}
