package routing

// Witnesses of open findings, replayed on the real code by every run (mirrors of the `decide`d
// Lean witnesses in Props/*.lean).

func simpleRoute(id int, method, rel string) RouteDecl {
	return RouteDecl{ID: id, Method: method, Rel: rel}
}

// WitnessF05: two registration orders of the same two services answer differently.
func WitnessF05() bool {
	a := Service{ID: 0, Root: "/{a}/{b}/{c}/{d}/{e}/{f}/{g}/{h}/{i}/{j}", Routes: []RouteDecl{simpleRoute(0, "GET", "")}}
	b := Service{ID: 1, Root: "/x", Routes: []RouteDecl{simpleRoute(1, "GET", "/{r:*}")}}
	req := Req{Method: "GET", Path: "/x/2/3/4/5/6/7/8/9/10"}
	c1, err1 := Build(Config{Router: "curly", Services: []Service{a, b}})
	c2, err2 := Build(Config{Router: "curly", Services: []Service{b, a}})
	if err1 != nil || err2 != nil {
		return false
	}
	o1, o2 := Dispatch(c1, req), Dispatch(c2, req)
	return o1.Kind == "sel" && o2.Kind == "sel" && o1.Svc != o2.Svc
}

// WitnessF19: RouterJSR311, /a is 404 while /a/ runs the route with an empty regex variable.
func WitnessF19() bool {
	s := Service{ID: 0, Root: "/a", Routes: []RouteDecl{simpleRoute(1, "GET", "/{v:[a-z]*}")}}
	c, err := Build(Config{Router: "jsr", Services: []Service{s}})
	if err != nil {
		return false
	}
	o1, o2 := Dispatch(c, Req{Method: "GET", Path: "/a"}), Dispatch(c, Req{Method: "GET", Path: "/a/"})
	return o1.Kind == "err" && o1.Code == 404 && o2.Kind == "sel"
}

// RegressionF03 (finding repaired by 19aa57d): true when CurlyRouter ignores the regex of a root-path
// variable again: /123 is a 404 although the second root claims it.
func RegressionF03() bool {
	a := Service{ID: 0, Root: "/{name:[a-z]+}", Routes: []RouteDecl{simpleRoute(0, "GET", "")}}
	b := Service{ID: 1, Root: "/{id:[0-9]+}", Routes: []RouteDecl{simpleRoute(1, "GET", "")}}
	c, err := Build(Config{Router: "curly", Services: []Service{a, b}})
	if err != nil {
		return false
	}
	o := Dispatch(c, Req{Method: "GET", Path: "/123"})
	return o.Kind == "err" && o.Code == 404
}

// RegressionF04 (finding repaired by e9138e1): true when a chunked POST with a consumed Content-Type and
// an unsatisfiable Accept is answered 415 again instead of 406.
func RegressionF04() bool {
	r := simpleRoute(0, "POST", "")
	r.Consumes, r.Produces = []string{"application/json"}, []string{"application/json"}
	c, err := Build(Config{Router: "curly", Services: []Service{{ID: 0, Root: "/u", Routes: []RouteDecl{r}}}})
	if err != nil {
		return false
	}
	o := Dispatch(c, Req{Method: "POST", Path: "/u", CT: "application/json", Accept: "text/plain", CL: -1})
	return o.Kind == "err" && o.Code == 415
}

// WitnessF16: RouterJSR311 answers 404 when a variable segment contains a newline.
func WitnessF16() bool {
	s := Service{ID: 0, Root: "/w", Routes: []RouteDecl{simpleRoute(0, "GET", "/{x}/b")}}
	c, err := Build(Config{Router: "jsr", Services: []Service{s}})
	if err != nil {
		return false
	}
	o := Dispatch(c, Req{Method: "GET", Path: "/w/a\nb/b"})
	return o.Kind == "err" && o.Code == 404
}

func twinOutcomes(s Service, req Req) (Outcome, Outcome, bool) {
	c1, err1 := Build(Config{Router: "curly", Services: []Service{s}})
	c2, err2 := Build(Config{Router: "jsr", Services: []Service{s}})
	if err1 != nil || err2 != nil {
		return Outcome{}, Outcome{}, false
	}
	return Dispatch(c1, req), Dispatch(c2, req), true
}

// WitnessF15: an empty segment: CurlyRouter selects, RouterJSR311 answers 404.
func WitnessF15() bool {
	a, b, ok := twinOutcomes(Service{ID: 0, Root: "/w", Routes: []RouteDecl{simpleRoute(0, "GET", "/{x}/b")}}, Req{Method: "GET", Path: "/w//b"})
	return ok && a.Kind == "sel" && b.Kind == "err" && b.Code == 404
}

// WitnessF16pair: a newline in a variable segment: CurlyRouter selects, RouterJSR311 answers 404.
func WitnessF16pair() bool {
	a, b, ok := twinOutcomes(Service{ID: 0, Root: "/w", Routes: []RouteDecl{simpleRoute(0, "GET", "/{x}/b")}}, Req{Method: "GET", Path: "/w/a\nb/b"})
	return ok && a.Kind == "sel" && b.Kind == "err" && b.Code == 404
}

// WitnessF17: the two routers rank same-method candidates differently.
func WitnessF17() bool {
	s := Service{ID: 0, Root: "/w", Routes: []RouteDecl{simpleRoute(0, "GET", "/abcdef/{x}/{y}"), simpleRoute(1, "GET", "/{x}/b/c")}}
	a, b, ok := twinOutcomes(s, Req{Method: "GET", Path: "/w/abcdef/b/c"})
	return ok && a.Kind == "sel" && b.Kind == "sel" && a.Route != b.Route
}

// WitnessF21: RouterJSR311, roots /{x} and /a: GET /a/b is served by the variable root in both orders.
func WitnessF21() bool {
	a := Service{ID: 0, Root: "/{x}", Routes: []RouteDecl{simpleRoute(0, "GET", "/{y}")}}
	b := Service{ID: 1, Root: "/a", Routes: []RouteDecl{simpleRoute(1, "GET", "/{z}")}}
	for _, svcs := range [][]Service{{a, b}, {b, a}} {
		c, err := Build(Config{Router: "jsr", Services: svcs})
		if err != nil {
			return false
		}
		if o := Dispatch(c, Req{Method: "GET", Path: "/a/b"}); o.Kind != "sel" || o.Svc != 0 {
			return false
		}
	}
	return true
}
