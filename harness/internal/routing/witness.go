package routing

// Witnesses of open findings, replayed on the real code by every run (mirrors of the `decide`d
// Lean witnesses in Props/*.lean).

func simpleRoute(id int, method, rel string) RouteDecl {
	return RouteDecl{ID: id, Method: method, Rel: rel}
}

// WitnessF05: two registration orders of the same two services answer differently.
func WitnessF05() bool {
	a := Service{ID: 0, Root: "/{a}/{b}/{c}/{d}/{e}/{f}/{g}/{h}/{i}/{j}", Routes: []RouteDecl{simpleRoute(0, "GET", "")}}
	b := Service{ID: 1, Root: "/x", Routes: []RouteDecl{simpleRoute(1, "GET", "/{r:*}")}}
	req := Req{Method: "GET", Path: "/x/2/3/4/5/6/7/8/9/10"}
	c1, err1 := Build(Config{Router: "curly", Services: []Service{a, b}})
	c2, err2 := Build(Config{Router: "curly", Services: []Service{b, a}})
	if err1 != nil || err2 != nil {
		return false
	}
	o1, o2 := Dispatch(c1, req), Dispatch(c2, req)
	return o1.Kind == "sel" && o2.Kind == "sel" && o1.Svc != o2.Svc
}

// WitnessF19: RouterJSR311, /a is 404 while /a/ runs the route with an empty regex variable.
func WitnessF19() bool {
	s := Service{ID: 0, Root: "/a", Routes: []RouteDecl{simpleRoute(1, "GET", "/{v:[a-z]*}")}}
	c, err := Build(Config{Router: "jsr", Services: []Service{s}})
	if err != nil {
		return false
	}
	o1, o2 := Dispatch(c, Req{Method: "GET", Path: "/a"}), Dispatch(c, Req{Method: "GET", Path: "/a/"})
	return o1.Kind == "err" && o1.Code == 404 && o2.Kind == "sel"
}
