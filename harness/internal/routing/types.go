// Package routing is the correspondence stream shared by C01–C04, C14, C17, C18:
// route tables and requests, run on the real package and encoded for the Lean driver.
package routing

import (
	"sort"
	"strings"

	"verifharness/internal/sx"
)

type RouteDecl struct {
	ID       int
	Method   string
	Rel      string
	Consumes []string
	Produces []string
	Conds    []int
	Noct     []string
	// generator's structured view (not sent): tokens of the full template
	Toks []Tok
}

type Service struct {
	ID       int
	Root     string
	Consumes []string
	Produces []string
	Routes   []RouteDecl
	RootToks []Tok
}

type Config struct {
	Router   string // "curly" | "jsr"
	Services []Service
}

type Req struct {
	Method   string
	Path     string
	CT       string
	Accept   string
	CLHeader string
	CL       int64
	Conds    []bool
}

// Outcome is the projection of a dispatch that the routing properties constrain.
type Outcome struct {
	Kind        string // "sel" | "err" | "panic"
	Svc, Route  int
	Params      map[string]string
	Code        int
	Allow       []string // nil = no Allow header
	SelPath     string   // Request.SelectedRoutePath() seen by the handler
	Invocations int
	PanicVal    string
	// SeenOther: stages (observing filters, the handler) to which Request.SelectedRoute() was another
	// route than the one whose function ran ("stage=operation"); empty = all saw the route that ran
	SeenOther []string
}

func (c Config) Sx() *sx.Node {
	n := sx.K("cfg", sx.A(c.Router))
	for _, s := range c.Services {
		sn := sx.K("svc", sx.N(s.ID), sx.H(s.Root), sx.Hs("cons", s.Consumes), sx.Hs("prod", s.Produces))
		for _, r := range s.Routes {
			sn.List = append(sn.List, sx.K("route", sx.N(r.ID), sx.H(r.Method), sx.H(r.Rel),
				sx.Hs("cons", r.Consumes), sx.Hs("prod", r.Produces), sx.Ns("conds", r.Conds), sx.Hs("noct", r.Noct)))
		}
		n.List = append(n.List, sn)
	}
	return n
}

func (r Req) Sx() *sx.Node {
	cs := sx.K("conds")
	for _, b := range r.Conds {
		cs.List = append(cs.List, sx.B(b))
	}
	return sx.K("req", sx.H(r.Method), sx.H(r.Path), sx.H(r.CT), sx.H(r.Accept), sx.H(r.CLHeader), sx.I64(r.CL), cs)
}

func sortedKeys(m map[string]string) []string {
	ks := make([]string, 0, len(m))
	for k := range m {
		ks = append(ks, k)
	}
	sort.Strings(ks)
	return ks
}

// AllowSet canonicalises an Allow header value: split on ",", trim, sort, de-duplicate.
func AllowSet(v string) []string {
	seen := map[string]bool{}
	out := []string{}
	for _, p := range strings.Split(v, ",") {
		p = strings.TrimSpace(p)
		if !seen[p] {
			seen[p] = true
			out = append(out, p)
		}
	}
	sort.Strings(out)
	return out
}

// Sx renders an outcome in the driver's syntax, canonicalised (params sorted by name, Allow as a sorted set).
func (o Outcome) Sx() *sx.Node {
	switch o.Kind {
	case "sel":
		n := sx.K("sel", sx.N(o.Svc), sx.N(o.Route))
		for _, k := range sortedKeys(o.Params) {
			n.List = append(n.List, sx.K("p", sx.H(k), sx.H(o.Params[k])))
		}
		return n
	case "err":
		if o.Allow == nil {
			return sx.K("err", sx.N(o.Code), sx.A("-"))
		}
		return sx.K("err", sx.N(o.Code), sx.Hs("allow", o.Allow))
	default:
		return sx.K("panic", sx.A("x"))
	}
}

// CanonModel canonicalises the driver's outcome the same way.
func CanonModel(n *sx.Node) string {
	switch n.Head() {
	case "sel":
		ps := map[string]string{}
		for _, p := range n.Args()[2:] {
			ps[p.Args()[0].Str()] = p.Args()[1].Str()
		}
		o := Outcome{Kind: "sel", Svc: n.Args()[0].Int(), Route: n.Args()[1].Int(), Params: ps}
		return o.Sx().String()
	case "err":
		o := Outcome{Kind: "err", Code: n.Args()[0].Int()}
		if a := n.Args()[1]; a.IsL {
			names := []string{}
			for _, x := range a.Args() {
				names = append(names, x.Str())
			}
			o.Allow = AllowSet(strings.Join(names, ","))
		}
		return o.Sx().String()
	default:
		return "(panic x)"
	}
}
