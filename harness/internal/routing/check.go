package routing

import (
	"fmt"
	"strings"
	"sync"

	"verifharness/internal/drv"
	"verifharness/internal/report"
	"verifharness/internal/rng"
	"verifharness/internal/sx"
)

// Projection maps a canonical outcome to the part a property constrains.
type Projection func(canon string) string

// ProjWhich keeps only which function ran: "(sel s r)" or "none".
func ProjWhich(canon string) string {
	if strings.HasPrefix(canon, "(sel ") {
		f := strings.Fields(strings.TrimSuffix(canon, ")"))
		if len(f) >= 3 {
			return "(sel " + f[1] + " " + strings.TrimSuffix(f[2], ")") + ")"
		}
	}
	return "none"
}

// ProjStatus keeps status class, Allow set, panic: "(sel)" | "(err code allow)" | "(panic)".
func ProjStatus(canon string) string {
	if strings.HasPrefix(canon, "(sel ") {
		return "(sel)"
	}
	return canon
}

// ProjParams keeps the parameter bindings of a selected route.
func ProjParams(canon string) string {
	if strings.HasPrefix(canon, "(sel ") {
		return canon
	}
	return "none"
}

func ProjAll(canon string) string { return canon }

// Human renders a case readably for replay files.
func Human(cfg *Config, req Req) map[string]interface{} {
	svcs := []interface{}{}
	for _, s := range cfg.Services {
		rs := []interface{}{}
		for _, r := range s.Routes {
			rs = append(rs, map[string]interface{}{"id": r.ID, "method": r.Method, "path": r.Rel, "consumes": r.Consumes, "produces": r.Produces, "if": r.Conds, "allowedMethodsWithoutContentType": r.Noct})
		}
		svcs = append(svcs, map[string]interface{}{"id": s.ID, "root": s.Root, "consumes": s.Consumes, "produces": s.Produces, "routes": rs})
	}
	return map[string]interface{}{"router": cfg.Router, "services": svcs,
		"request": map[string]interface{}{"method": req.Method, "path": req.Path, "content_type": req.CT, "accept": req.Accept,
			"content_length_header": req.CLHeader, "content_length": req.CL, "if_bits": req.Conds}}
}

// One evaluates a single (table, request) on the real code and the driver.
func One(cfg *Config, req Req) (*Case, error) { return OneWith(cfg, req, BuildOpts{}) }

// OneWith: the same on a container built with the given build options.
func OneWith(cfg *Config, req Req, bo BuildOpts) (*Case, error) {
	built, err := BuildWith(*cfg, bo)
	if err != nil {
		return nil, err
	}
	real := Dispatch(built.C, req)
	c := &Case{Cfg: cfg, Req: req, Real: real, RealS: real.Sx().String(), BO: bo}
	if bo.Reuse != 0 {
		c.Note = "routes declared with RouteBuilder values that are used again for the next route of their WebService (Method, Path, Operation, Consumes, Produces, To set anew)"
	}
	c.CfgLine = sx.K("cfg", sx.N(0), cfg.Sx()).String()
	c.ReqLine = sx.K("route", sx.N(0), req.Sx(), sx.K("real", real.Sx(), sx.H(real.SelPath), sx.N(real.Invocations))).String()
	ans, err := drv.Run(c.Lines())
	if err != nil {
		return nil, err
	}
	if err := fillAnswer(c, ans[1]); err != nil {
		return nil, err
	}
	return c, nil
}

func fillAnswer(c *Case, a string) error {
	n, err := sx.Parse(a)
	if err != nil {
		return fmt.Errorf("driver answer %q: %v", a, err)
	}
	if n.Head() != "out" {
		return fmt.Errorf("driver rejected the case: %s", a)
	}
	c.ModelS = CanonModel(n.Args()[1])
	if t := n.Find("tag"); t != nil && len(t.Args()) > 0 {
		c.Tag = t.Args()[0].Atom
	}
	c.Spec = map[string]string{}
	for _, s := range n.List {
		if s.Head() == "spec" {
			c.Spec[s.Args()[0].Atom] = s.Args()[1].Atom
		}
	}
	return nil
}

// Shrink removes services, routes, list entries and request parts while `bad` stays true.
func Shrink(cfg Config, req Req, bad func(*Config, Req) bool) (Config, Req) {
	budget := 400
	try := func(c Config, r Req) bool {
		if budget <= 0 {
			return false
		}
		budget--
		return bad(&c, r)
	}
	changed := true
	for changed && budget > 0 {
		changed = false
		// drop services
		for i := 0; i < len(cfg.Services) && len(cfg.Services) > 1; i++ {
			c2 := cfg
			c2.Services = append(append([]Service{}, cfg.Services[:i]...), cfg.Services[i+1:]...)
			if try(c2, req) {
				cfg, changed = c2, true
				i--
			}
		}
		// drop routes
		for si := range cfg.Services {
			for i := 0; i < len(cfg.Services[si].Routes); i++ {
				c2 := cloneCfg(cfg)
				rs := c2.Services[si].Routes
				c2.Services[si].Routes = append(append([]RouteDecl{}, rs[:i]...), rs[i+1:]...)
				if try(c2, req) {
					cfg, changed = c2, true
					i--
				}
			}
		}
		// simplify route attributes
		for si := range cfg.Services {
			for ri := range cfg.Services[si].Routes {
				for _, f := range []func(*RouteDecl) bool{
					func(r *RouteDecl) bool { ok := len(r.Consumes) > 0; r.Consumes = nil; return ok },
					func(r *RouteDecl) bool { ok := len(r.Produces) > 0; r.Produces = nil; return ok },
					func(r *RouteDecl) bool { ok := len(r.Conds) > 0; r.Conds = nil; return ok },
					func(r *RouteDecl) bool { ok := len(r.Noct) > 0; r.Noct = nil; return ok },
				} {
					c2 := cloneCfg(cfg)
					if f(&c2.Services[si].Routes[ri]) && try(c2, req) {
						cfg, changed = c2, true
					}
				}
			}
			c2 := cloneCfg(cfg)
			if len(c2.Services[si].Consumes)+len(c2.Services[si].Produces) > 0 {
				c2.Services[si].Consumes, c2.Services[si].Produces = nil, nil
				if try(c2, req) {
					cfg, changed = c2, true
				}
			}
		}
		// simplify the request
		for _, f := range []func(*Req) bool{
			func(r *Req) bool { ok := r.CT != ""; r.CT = ""; return ok },
			func(r *Req) bool { ok := r.Accept != ""; r.Accept = ""; return ok },
			func(r *Req) bool { ok := r.CLHeader != "" || r.CL != 0; r.CLHeader, r.CL = "", 0; return ok },
			func(r *Req) bool { ok := len(r.Conds) > 0; r.Conds = nil; return ok },
		} {
			r2 := req
			if f(&r2) && try(cfg, r2) {
				req, changed = r2, true
			}
		}
	}
	return cfg, req
}

func cloneCfg(c Config) Config {
	c2 := c
	c2.Services = append([]Service{}, c.Services...)
	for i := range c2.Services {
		c2.Services[i].Routes = append([]RouteDecl{}, c.Services[i].Routes...)
	}
	return c2
}

// StreamSpec is one correspondence stream of a property check.
type StreamSpec struct {
	Name   string
	Opts   Opts
	NCfg   int
	PerCfg int
}

// PropSpec says how a property reads the shared routing stream.
type PropSpec struct {
	ID      string
	SpecKey string     // the Lean predicate evaluated on the real outcome
	Proj    Projection // the projection on which model and implementation must agree
	// Known maps a failing case to the id of the known finding whose class it lies in ("" = none).
	Known func(c *Case) string
	// NeedWF: the predicate is only required on well-formed tables (the theorem's hypothesis).
	NeedWF bool
	// Classes: further Boolean lines of the driver's answer that are counted per stream when they
	// are 1 (coverage classes of the property, printed in the evidence file).
	Classes []string
	// SeenSelected: the property also says that the route filters and the handler see as the selected
	// one is the route whose function runs (C01): a stage that saw another one is a counterexample.
	SeenSelected bool
	// Near: a further search for a falsifying input around a case on which model and implementation
	// disagree, specific to the property (C03: the same table in other registration orders); it reports
	// what it finds itself and returns true when it found a concrete counterexample.
	Near func(run *report.Run, o Opts, cfg Config, req Req) bool
}

// humanOf: the readable input of a case, with its history when it has one
func humanOf(c *Case, cfg *Config, req Req) map[string]interface{} {
	h := Human(cfg, req)
	if c != nil && c.Note != "" {
		h["history"] = c.Note
	}
	return h
}

// CheckStreams runs the streams, compares, shrinks and searches; results go into run.
func CheckStreams(run *report.Run, p PropSpec, streams []StreamSpec) error {
	for si, st := range streams {
		cases, err := Run(run.Seed*1000003+uint64(si), st.NCfg, st.PerCfg, st.Opts)
		if err != nil {
			return err
		}
		run.Extra["skipped_tables_F11"] = SkippedBuild
		specFail, disagree, seenBad := 0, 0, 0
		for _, c := range cases {
			run.Evaluations++
			run.TracesValidated++
			run.Count(st.Name + ":" + c.Tag)
			if c.Spec["WF"] == "1" {
				run.Count(st.Name + ":wf")
			}
			for _, k := range p.Classes {
				if c.Spec[k] == "1" {
					run.Count(st.Name + ":" + k)
				}
			}
			if c.Tag != "404-nosvc" && c.Tag != "" {
				run.Distinct[st.Name+"|"+c.CfgLine+"|"+c.ReqLine] = true
			}
			if len(run.Samples) < 4 && c.Tag == "sel" && run.Evaluations%7 == 0 {
				run.Sample(map[string]interface{}{"stream": st.Name, "input": Human(c.Cfg, c.Req), "real": c.RealS, "model": c.ModelS})
			}
			if c.Note != "" {
				run.Count(st.Name + ":with-history-or-filters")
			}
			if p.SeenSelected && len(c.Real.SeenOther) > 0 && seenBad < 3 {
				seenBad++
				run.AddViolation(report.Violation{Kind: "counterexample",
					What: fmt.Sprintf("%s: the function of route %s ran, but to these stages Request.SelectedRoute() was another route: %s", p.ID, OpName(c.Real.Svc, c.Real.Route), strings.Join(c.Real.SeenOther, ", ")),
					Case: c.Lines(), Human: humanOf(c, c.Cfg, c.Req), Model: c.ModelS, Real: c.RealS})
				continue
			}
			wfOK := !p.NeedWF || c.Spec["WF"] == "1"
			if p.SpecKey != "" && wfOK && c.Spec[p.SpecKey] == "0" {
				// a listed finding is one the model reproduces: the shared outcome falsifies the predicate.
				// A predicate failure inside a class on which model and implementation DIFFER is a
				// different defect that merely lands in the same class, and is reported.
				if id := knownOf(p, c); id != "" && p.Proj(c.RealS) == p.Proj(c.ModelS) {
					run.KnownHits[id]++
				} else if specFail < 3 {
					specFail++
					reportSpecFailure(run, p, c)
				}
				continue
			}
			if p.Proj(c.RealS) != p.Proj(c.ModelS) {
				if id := knownOf(p, c); id != "" {
					// inside a known class a repaired defect may legitimately differ from the model,
					// provided the predicate holds (checked above)
					run.Count("differs-inside-known-class:" + id)
					continue
				}
				if disagree < 3 {
					disagree++
					reportDisagreement(run, p, st, c)
				}
			}
		}
	}
	return nil
}

func knownOf(p PropSpec, c *Case) string {
	if p.Known == nil {
		return ""
	}
	return p.Known(c)
}

func reportSpecFailure(run *report.Run, p PropSpec, c *Case) {
	// (fresh containers built the way the case's container was built: BuildOpts is part of the input)
	cfg, req := Shrink(*c.Cfg, c.Req, func(cf *Config, r Req) bool {
		o, err := OneWith(cf, r, c.BO)
		return err == nil && (!p.NeedWF || o.Spec["WF"] == "1") && o.Spec[p.SpecKey] == "0" && (knownOf(p, o) == "" || p.Proj(o.RealS) != p.Proj(o.ModelS))
	})
	o, err := OneWith(&cfg, req, c.BO)
	if err != nil || o.Spec[p.SpecKey] != "0" {
		// not reproducible on a fresh container built from the table alone: the case as it was observed,
		// with its history
		o, cfg, req = c, *c.Cfg, c.Req
	}
	run.AddViolation(report.Violation{Kind: "counterexample",
		What: fmt.Sprintf("the real outcome falsifies Spec.%sHolds", strings.ToLower(p.ID)),
		Case: o.Lines(), Human: humanOf(o, &cfg, req), Model: o.ModelS, Real: o.RealS})
}

func reportDisagreement(run *report.Run, p PropSpec, st StreamSpec, c *Case) {
	run.DisagreementsChecked++
	differs := func(o *Case) bool { return p.Proj(o.RealS) != p.Proj(o.ModelS) }
	cfg, req := Shrink(*c.Cfg, c.Req, func(cf *Config, r Req) bool {
		o, err := OneWith(cf, r, c.BO)
		return err == nil && differs(o) && knownOf(p, o) == ""
	})
	o, err := OneWith(&cfg, req, c.BO)
	if err != nil || !differs(o) {
		o, cfg, req = c, *c.Cfg, c.Req
	}
	// search the neighbourhood of the shrunk case for an input on which the property itself fails
	if searchFalsifying(run, p, st.Opts, cfg, req, c.BO) {
		return
	}
	run.AddViolation(report.Violation{Kind: "correspondence", NoInput: true,
		What:    fmt.Sprintf("model and implementation disagree on the %s projection of stream %s; no input falsifying the property was found near it", p.ID, st.Name),
		Theorem: "correspondence stream " + st.Name + " (projection of " + p.ID + ")",
		Case:    o.Lines(), Human: humanOf(o, &cfg, req), Model: o.ModelS, Real: o.RealS})
}

// searchFalsifying evaluates the property's predicate on 2,000 further requests to the table (every
// fourth one keeps the path and method of req) and reports the first real outcome that falsifies it.
func searchFalsifying(run *report.Run, p PropSpec, opts Opts, cfg Config, req Req, bo BuildOpts) bool {
	if p.Near != nil && p.Near(run, opts, cfg, req) {
		return true
	}
	if p.SpecKey == "" {
		return false
	}
	r := rng.New(run.Seed ^ 0xabcdef)
	built, err := BuildWith(cfg, bo)
	if err != nil {
		return false
	}
	cont := built.C
	var lines []string
	var cs []*Case
	cfgLine := sx.K("cfg", sx.N(0), cfg.Sx()).String()
	lines = append(lines, cfgLine)
	for i := 0; i < 2000; i++ {
		rq := GenReq(r, opts, cfg)
		if i%4 == 0 { // stay close to the disagreeing request
			rq.Path, rq.Method = req.Path, req.Method
		}
		real := Dispatch(cont, rq)
		cc := &Case{Cfg: &cfg, CfgLine: cfgLine, Req: rq, Real: real, RealS: real.Sx().String(), BO: bo}
		cc.ReqLine = sx.K("route", sx.N(i), rq.Sx(), sx.K("real", real.Sx(), sx.H(real.SelPath), sx.N(real.Invocations))).String()
		lines = append(lines, cc.ReqLine)
		cs = append(cs, cc)
	}
	ans, err := drv.Run(lines)
	if err != nil {
		return false
	}
	for i, cc := range cs {
		if fillAnswer(cc, ans[i+1]) == nil && (!p.NeedWF || cc.Spec["WF"] == "1") && cc.Spec[p.SpecKey] == "0" && knownOf(p, cc) == "" {
			reportSpecFailure(run, p, cc)
			return true
		}
	}
	return false
}

// CheckHammer: every request of a table is first dispatched alone, then all of them are dispatched
// again and again from eight goroutines at once (no rendezvous: plain parallel traffic, what a server
// does); every outcome — which function ran, the parameter values, status, Allow set — must be the
// one the request gets alone. It is the search for shared working storage on the routing path
// (buffers, memos, pools) that sequential traffic can never show.
func CheckHammer(run *report.Run, propID string, o Opts, seed uint64, nCfg, perCfg, rounds int) {
	base := rng.New(seed)
	bad := 0
	for ci := 0; ci < nCfg; ci++ {
		r := base.Fork(uint64(ci))
		cfg := GenConfig(r, o)
		cont, err := Build(cfg)
		if err != nil {
			continue
		}
		reqs := make([]Req, perCfg)
		alone := make([]string, perCfg)
		for i := range reqs {
			reqs[i] = GenReq(r, o, cfg)
			alone[i] = Dispatch(cont, reqs[i]).Sx().String()
		}
		var mu sync.Mutex
		var wg sync.WaitGroup
		for g := 0; g < 8; g++ {
			wg.Add(1)
			go func(g int) {
				defer wg.Done()
				for k := 0; k < rounds; k++ {
					for j := range reqs {
						i := (j*7 + g*3 + k) % len(reqs)
						got := Dispatch(cont, reqs[i]).Sx().String()
						if got != alone[i] {
							mu.Lock()
							if bad < 3 {
								bad++
								run.AddViolation(report.Violation{Kind: "counterexample",
									What:  propID + ": a request dispatched while seven other goroutines dispatch requests on the same container gets another outcome than alone",
									Human: Human(&cfg, reqs[i]), Real: got, Model: alone[i]})
							}
							mu.Unlock()
						}
					}
				}
			}(g)
		}
		wg.Wait()
		run.Evaluations += 8 * rounds * len(reqs)
		run.TracesValidated += 8 * rounds * len(reqs)
		run.Count("hammer:" + o.Router + ":tables")
	}
}
