package routing

import (
	"fmt"
	"strings"

	"verifharness/internal/rng"
)

// Tok is the generator's structured view of one template token.
type Tok struct {
	Kind   string // lit | var | re | suf | wild
	Lit    string
	Name   string
	Re     int // index into the regex pool
	Suffix string
	Verb   string // custom verb on the last token
}

type rePool struct {
	Expr string
	Hit  []string // segments that satisfy it (search semantics and full-match semantics alike)
	Miss []string // segments that do not (neither semantics)
	Part []string // segments that contain a match but are not matched in full (CurlyRouter admits, RouterJSR311 does not)
}

// CurlyRes: expressions the CurlyRouter stream uses (regexp.MatchString semantics).
var CurlyRes = []rePool{
	{"[0-9]+", []string{"12", "7"}, []string{"ab", "", "x"}, []string{"a1b", "1a"}},
	{"^[a-z]+$", []string{"abc", "x"}, []string{"12", "", "aB"}, nil},
	{"[A-Z][A-Z]", []string{"ZX"}, []string{"Z", "zx", ""}, []string{"aZXb"}},
	{"^x", []string{"x"}, []string{"ax", ""}, []string{"x1"}},
	{"[a-z]*", []string{"abc", ""}, nil, []string{"12", "A"}},
	{"^(a|bc)+d$", []string{"abcd", "ad"}, []string{"d", "abc", ""}, nil},
	{"^\\d\\d$", []string{"42"}, []string{"4", "423", "ab"}, nil},
	{"^[^.]+\\.txt$", []string{"a.txt"}, []string{".txt", "a.b.txt", "atxt"}, nil},
	{"^prefix-", []string{"prefix-"}, []string{"prefix", "xprefix-"}, []string{"prefix-user"}},
	// expressions that match everything: still ONE segment, not the {v:*} tail wildcard
	{".*", []string{"abc", "a.b", "12"}, nil, nil},
	{".+", []string{"abc", "x"}, []string{""}, nil},
}

// CurlyResWide / JsrResWide: the pools of the widened streams (Opts.Wide). They extend the base pools
// (same indices) by expressions with COUNTED REPETITIONS: the expression itself contains '{' and '}',
// so the closing brace of the variable is not the first '}' of the token.
var CurlyResWide = append(append([]rePool{}, CurlyRes...),
	rePool{"^[0-9]{4}$", []string{"2020", "0007"}, []string{"202", "20201", "abcd", ""}, nil},
	rePool{"[a-f0-9]{2}", []string{"a0", "ff"}, []string{"g", "a", ""}, []string{"xa0y", "a0b"}},
	rePool{"^\\d{2}-\\d{2}$", []string{"12-31"}, []string{"1-31", "12-3", "12.31"}, nil},
	rePool{"^[a-z]{2,3}$", []string{"ab", "abc"}, []string{"a", "abcd", "AB"}, nil},
	rePool{"^x{2,}$", []string{"xx", "xxxx"}, []string{"x", ""}, nil},
)

var JsrResWide = append(append([]rePool{}, JsrRes...),
	rePool{"[0-9]{4}", []string{"2020", "0007"}, []string{"202", "abcd", ""}, []string{"20201", "a2020"}},
	rePool{"[a-z]{2,3}", []string{"ab", "abc"}, []string{"a", "", "AB"}, []string{"abcd", "ab1"}},
)

// JsrRes: segment-local expressions (positive classes, no anchors, no groups): the forms RouterJSR311 documents.
var JsrRes = []rePool{
	{"[0-9]+", []string{"12", "7"}, []string{"ab", "", "x"}, []string{"a1b", "1a"}},
	{"[a-z]+", []string{"abc", "x"}, []string{"12", "", "AB"}, []string{"aB", "1a"}},
	{"[A-Z][A-Z]", []string{"ZX"}, []string{"Z", "zx", ""}, []string{"aZXb", "ZXY"}},
	{"[a-z]*", []string{"abc", ""}, nil, []string{"12", "A", "ab1"}},
	{"[a-z0-9_]+", []string{"a_1"}, []string{"", "-"}, []string{"a-1"}},
	{"\\d\\d", []string{"42"}, []string{"4", "ab"}, []string{"423"}},
}

// literals with characters that mean something to regexp or to URL escaping are in on purpose: a
// literal segment must be matched as text
var Lits = []string{"a", "b", "users", "x1", "a.b", "abcdef", "v1", "c", "my docs", "caf\xc3\xa9", "(x)", "100%", "a+b", "cash$", "a|b", "x*y", "[ab]", "v1.0"}
var Verbs = []string{"run", "stop"}
var Suffixes = []string{".foo", "_x", "-bar"}
var VarVals = []string{"1", "42", "abc", "x", "a.b", "q.foo", "y_x", "Z9", "\xc3\xa9", "a:b", "%41", " ", "b", "users", "a", "z-bar", "12:run", "{v}", "*"}
// ExtVals: values that end like a file name (the last segment of /reports/2020.json): a router must
// not read anything into the "extension" of a path segment.
var ExtVals = []string{"r.json", "d.xml", "p.html", "n.txt", "2020.json", "a.b.json", ".json"}

// SubDelims: text with the characters RFC 3986 allows inside a path segment besides letters and digits
// (sub-delimiters, ':' and '@'): matrix parameters, ;jsessionid, comma lists. To the routers of this
// package they are ordinary segment text.
var SubDelims = []string{";a=b", ";", ";jsessionid=1A", ",x", "=", "&k=v", "!", "'", "(1)", "+", "$", "@h", "~", ";v=1;w=2"}

// SufStems: what stands before the suffix in a literal that ends like a suffixed variable
var SufStems = []string{"index", "q", "a"}

var Methods = []string{"GET", "POST", "PUT", "DELETE", "PATCH", "HEAD", "OPTIONS", "FOO"}

// ExtMethods are extension methods whose names contain one another (PATCH in PROPPATCH, LOCK in
// UNLOCK, FOO in FOOBAR): a set-valued answer (Allow) must not treat method names as substrings.
var ExtMethods = []string{"PROPPATCH", "PATCH", "UNLOCK", "LOCK", "FOOBAR", "FOO"}
var Medias = []string{"application/json", "application/xml", "text/plain", "*/*", "text/html"}

// Opts selects the template forms a stream may use.
type Opts struct {
	Router      string
	AllowRe     bool
	AllowSuf    bool
	AllowWild   bool
	AllowVerb   bool
	RootVars    bool // variables in root paths
	RootRe      bool // regex variables in root paths
	Conds       bool
	Media       bool
	MaxSvcs     int
	MaxRoutes   int
	WildHeavy   bool // most routes end in a tail wildcard (streams about the value it is bound to)
	Faults      bool // fault traffic between the judged requests (routing.Fault)
	Contest     bool // now and then a table of masks of one literal path (genContest)
	Adversarial bool // free-form paths, odd bytes
	Trace       bool // run the real side with trace logging enabled
	// Wide switches the dimensions added for the round-6 changes on (other packages that draw tables with
	// their own Opts keep their distributions): regex pool with counted repetitions, literal twins of
	// suffixed variables, representation twins (same method and template, other Consumes/Produces/If),
	// root paths that are string prefixes of one another, root paths with 3–7 variables, values made of the
	// characters of the token's own verb/suffix, file-name endings, sub-delimiters inside segments.
	Wide bool
	// PlainRoots: every root path is one or two literal segments, never "/", declared without a trailing
	// slash (the tables on which the ServeMux patterns do not depend on the registration order).
	PlainRoots bool
	// ViaServe: RunVariants sends the requests through Container.ServeHTTP instead of Container.Dispatch.
	ViaServe bool
	// Observe: some tables are built with pass-through filters that record the route they see as selected.
	Observe bool
	// Changes: some tables change after warm-up traffic (ws.Route after Add, RemoveRoute with dynamic routes).
	Changes bool
	// OnlyNegotiation: every table is a negotiation table (genNegotiation): streams about the media stages.
	OnlyNegotiation bool
	// ManyVarRoots: every root path consists of 3, 5, 6 or 7 variables (streams about the variable names a
	// request is bound to when root and route both declare some).
	ManyVarRoots bool
	// Specials: the special token forms at high density — most last tokens carry a custom verb, most
	// variables are regex variables (match-all expressions among them, also in the MIDDLE of a template),
	// and the requests are mutated twice as often (streams about what a token form admits).
	Specials bool
	// Builders: half of the tables are declared the way client code that keeps a RouteBuilder declares
	// them: one RouteBuilder value given to WebService.Route for several routes, with Method, Path, To …
	// changed in between (BuildOpts.Reuse).
	Builders bool
}

func (o Opts) res() []rePool {
	switch {
	case o.Router == "jsr" && o.Wide:
		return JsrResWide
	case o.Router == "jsr":
		return JsrRes
	case o.Wide:
		return CurlyResWide
	}
	return CurlyRes
}

func (t Tok) Render(res []rePool) string {
	s := ""
	switch t.Kind {
	case "lit":
		s = t.Lit
	case "var":
		s = "{" + t.Name + "}"
	case "re":
		s = "{" + t.Name + ":" + res[t.Re].Expr + "}"
	case "suf":
		s = "{" + t.Name + "}" + t.Suffix
	case "wild":
		s = "{" + t.Name + ":*}"
	}
	if t.Verb != "" {
		s += ":" + t.Verb
	}
	return s
}

func RenderPath(ts []Tok, res []rePool) string {
	if len(ts) == 0 {
		return "/"
	}
	var sb strings.Builder
	for _, t := range ts {
		sb.WriteString("/")
		sb.WriteString(t.Render(res))
	}
	return sb.String()
}

func genTok(r *rng.R, o Opts, names *int, last, root bool) Tok {
	*names++
	nm := fmt.Sprintf("v%d", *names)
	k := r.Intn(20)
	if o.Specials && o.AllowRe && (!root || o.RootRe) && k >= 4 && k < 13 {
		re := pickRe(r, o)
		if o.Router != "jsr" && r.Chance(1, 3) {
			re = len(CurlyRes) - 1 - r.Intn(2) // ".*" / ".+": one segment, whatever stands behind it in the template
		}
		return Tok{Kind: "re", Name: nm, Re: re}
	}
	switch {
	case k < 8:
		return Tok{Kind: "lit", Lit: r.Pick(Lits)}
	case k < 13:
		if root && !o.RootVars {
			return Tok{Kind: "lit", Lit: r.Pick(Lits)}
		}
		return Tok{Kind: "var", Name: nm}
	case k < 16 && o.AllowRe && (!root || o.RootRe):
		return Tok{Kind: "re", Name: nm, Re: pickRe(r, o)}
	case k < 18 && o.AllowSuf && !root:
		return Tok{Kind: "suf", Name: nm, Suffix: r.Pick(Suffixes)}
	case last && !root && o.AllowWild:
		return Tok{Kind: "wild", Name: nm}
	default:
		if root && !o.RootVars {
			return Tok{Kind: "lit", Lit: r.Pick(Lits)}
		}
		return Tok{Kind: "var", Name: nm}
	}
}

// pickRe: an index into o.res(). The widened pools keep the base expressions at their old density:
// three out of four draws come from the base pool, one from the extension.
func pickRe(r *rng.R, o Opts) int {
	base := len(CurlyRes)
	if o.Router == "jsr" {
		base = len(JsrRes)
	}
	if n := len(o.res()); o.Wide && n > base && r.Chance(1, 4) {
		return base + r.Intn(n-base)
	}
	return r.Intn(base)
}

func genToks(r *rng.R, o Opts, n int, names *int, root bool) []Tok {
	out := make([]Tok, 0, n)
	for i := 0; i < n; i++ {
		out = append(out, genTok(r, o, names, i == n-1, root))
	}
	return out
}

func pickMedia(r *rng.R, o Opts) []string {
	if !o.Media || r.Chance(1, 2) {
		return nil
	}
	n := 1 + r.Intn(2)
	out := []string{}
	for i := 0; i < n; i++ {
		out = append(out, r.Pick(Medias))
	}
	return out
}

// GenConfig draws a route table. Root paths are pairwise distinct (Add would os.Exit otherwise).
// genContest draws a table whose templates are masks of one literal path: every position is held by
// the literal in some templates and by a variable in others, in random registration order, over two
// methods — several routes (and, with root variables allowed, several roots) admit the same URL and
// the ranking has to decide between them.
func genContest(r *rng.R, o Opts) Config {
	cfg := Config{Router: o.Router}
	names, rid := 0, 0
	nroot, nrel := r.Intn(3), 1+r.Intn(3)
	base := make([]string, nroot+nrel)
	for i := range base {
		base[i] = r.Pick(Lits[:8])
		if o.Wide && o.AllowSuf && i >= nroot && r.Chance(1, 4) {
			base[i] = r.Pick(SufStems) + r.Pick(Suffixes) // a literal that a suffixed variable admits too
		}
	}
	mask := func(lits []string, allowVar bool) []Tok {
		out := make([]Tok, len(lits))
		for i, l := range lits {
			if allowVar && r.Chance(1, 2) {
				names++
				out[i] = Tok{Kind: "var", Name: fmt.Sprintf("v%d", names)}
				if suf := suffixOf(l); o.Wide && o.AllowSuf && suf != "" && r.Chance(1, 2) {
					out[i] = Tok{Kind: "suf", Name: out[i].Name, Suffix: suf}
				}
			} else {
				out[i] = Tok{Kind: "lit", Lit: l}
			}
		}
		return out
	}
	methods := []string{r.Pick(Methods[:5]), r.Pick(Methods[:5])}
	nsvc := 1
	if nroot > 0 && o.RootVars {
		nsvc = 1 + r.Intn(3)
	}
	seen := map[string]bool{}
	for si := 0; si < nsvc; si++ {
		rootToks := mask(base[:nroot], o.RootVars && nsvc > 1)
		root := RenderPath(rootToks, o.res())
		if seen[root] {
			continue
		}
		seen[root] = true
		s := Service{ID: len(cfg.Services), Root: root, RootToks: rootToks}
		for ri, n := 0, 3+r.Intn(3); ri < n; ri++ {
			rel := mask(base[nroot:], true)
			if ri == 0 && r.Chance(1, 2) {
				rel = mask(base[nroot:], false) // the exact route, registered first
			}
			rd := RouteDecl{ID: rid, Method: r.Pick(methods), Rel: RenderPath(rel, o.res()), Toks: append(append([]Tok{}, rootToks...), rel...)}
			rid++
			if o.Media && r.Chance(1, 4) {
				rd.Produces = pickMedia(r, o)
			}
			if o.Wide && o.Media && r.Chance(1, 2) {
				// contestants that differ in what they consume: the more specific template is not always
				// the one that can take the request's Content-Type
				rd.Consumes = []string{r.Pick(Medias[:2])}
			}
			s.Routes = append(s.Routes, rd)
		}
		cfg.Services = append(cfg.Services, s)
	}
	return cfg
}

// genNegotiation draws a table in which the decision between routes is made by the representation
// alone: one WebService, one or two templates, several routes with the SAME method and template that
// differ in what they produce and consume (and now and then in an If-condition), in random order. It is
// to the media stages of route selection what genContest is to the ranking of templates.
func genNegotiation(r *rng.R, o Opts) Config {
	cfg := Config{Router: o.Router}
	names, rid := 0, 0
	var rootToks []Tok
	for n := r.Intn(2); len(rootToks) < n; {
		rootToks = append(rootToks, Tok{Kind: "lit", Lit: r.Pick(Lits[:8])})
	}
	var templates [][]Tok
	for n := 1 + r.Intn(2); len(templates) < n; {
		var rel []Tok
		for k := 1 + r.Intn(2); len(rel) < k; {
			rel = append(rel, Tok{Kind: "lit", Lit: r.Pick(Lits[:8])})
		}
		if r.Chance(2, 3) {
			names++
			rel[len(rel)-1] = Tok{Kind: "var", Name: fmt.Sprintf("v%d", names)}
		}
		templates = append(templates, rel)
	}
	methods := []string{r.Pick(Methods[:5]), r.Pick(Methods[:5])}
	s := Service{ID: 0, Root: RenderPath(rootToks, o.res()), RootToks: rootToks}
	for n := 3 + r.Intn(4); len(s.Routes) < n; {
		rel := templates[r.Intn(len(templates))]
		rd := RouteDecl{ID: rid, Method: methods[0], Rel: RenderPath(rel, o.res()), Toks: append(append([]Tok{}, rootToks...), rel...)}
		rid++
		if r.Chance(1, 3) {
			rd.Method = methods[1]
		}
		if r.Chance(3, 4) {
			rd.Produces = []string{r.Pick(Medias)}
			if r.Chance(1, 4) {
				rd.Produces = append(rd.Produces, r.Pick(Medias))
			}
		}
		if r.Chance(1, 3) {
			rd.Consumes = []string{r.Pick(Medias[:3])}
		}
		if o.Conds && r.Chance(1, 6) {
			rd.Conds = []int{r.Intn(3)}
		}
		s.Routes = append(s.Routes, rd)
	}
	cfg.Services = append(cfg.Services, s)
	return cfg
}

// suffixOf: the suffix of the pool a literal ends in ("" = none); the literal must have text before it
func suffixOf(lit string) string {
	for _, s := range Suffixes {
		if len(lit) > len(s) && strings.HasSuffix(lit, s) {
			return s
		}
	}
	return ""
}

func GenConfig(r *rng.R, o Opts) Config {
	if !o.OnlyNegotiation && o.Contest && r.Chance(1, 5) {
		return genContest(r, o)
	}
	if o.OnlyNegotiation || o.Wide && o.Media && !o.PlainRoots && r.Chance(1, 8) {
		return genNegotiation(r, o)
	}
	cfg := Config{Router: o.Router}
	names := 0
	nsvc := 1 + r.Intn(o.MaxSvcs)
	seenRoot := map[string]bool{}
	rid := 0
	for si := 0; si < nsvc; si++ {
		var rootToks []Tok
		var root string
		for try := 0; ; try++ {
			rootToks = genToks(r, o, r.Intn(3), &names, true)
			if o.PlainRoots {
				rootToks = genToks(r, o, 1+r.Intn(2), &names, true)
			}
			// which kind of root: the shares of the nested and twisted roots are what they were before the
			// wide dimensions were added (a quarter each of the later roots); string-prefix siblings and
			// many-variable roots take their share from the plain draws
			kind := r.Intn(100)
			var sib []Tok
			if o.Wide && si > 0 && try < 5 && kind >= 50 && kind < 60 {
				sib = stringPrefixSibling(r, cfg)
			}
			if o.ManyVarRoots || o.Wide && o.RootVars && !o.PlainRoots && kind >= 60 && kind < 66 {
				// a root path with many variables: all variables with a count at which append leaves spare
				// capacity (3, 5, 6, 7) when asked for, else 3–7 tokens with a literal here and there
				rootToks = nil
				n := 3 + r.Intn(5)
				if o.ManyVarRoots {
					n = []int{3, 5, 6, 7}[r.Intn(4)]
				}
				for len(rootToks) < n {
					names++
					if o.ManyVarRoots || r.Chance(3, 4) {
						rootToks = append(rootToks, Tok{Kind: "var", Name: fmt.Sprintf("v%d", names)})
					} else {
						rootToks = append(rootToks, Tok{Kind: "lit", Lit: r.Pick(Lits[:8])})
					}
				}
			} else if sib != nil {
				rootToks = sib
			} else if si > 0 && try < 5 && kind < 25 {
				// a root nested in or around an earlier one (/a, /a/b, /a/b/c in any registration order): the
				// longest matching root must win whatever came first
				prev := cfg.Services[r.Intn(len(cfg.Services))].RootToks
				switch {
				case len(prev) > 0 && r.Chance(1, 2):
					rootToks = append([]Tok{}, prev[:len(prev)-1]...)
				default:
					rootToks = append(append([]Tok{}, prev...), Tok{Kind: "lit", Lit: r.Pick(Lits[:8])})
				}
			} else if si > 0 && o.RootVars && try < 5 && kind >= 25 && kind < 50 {
				// a twist of an earlier root: same length, literal and variable positions flipped here and
				// there (LV next to VL, LVV / VLV / VVL …): roots of different shape that claim the same URLs
				prev := cfg.Services[r.Intn(len(cfg.Services))].RootToks
				if len(prev) > 0 {
					rootToks = make([]Tok, len(prev))
					// half of the twists MIRROR the mask (LV -> VL, LVV -> VVL): as many literals and variables
					// as the earlier root, at other positions — roots that only a positional weight tells apart
					nl := 0
					for _, t := range prev {
						if t.Kind == "lit" {
							nl++
						}
					}
					mirror := nl > 0 && nl < len(prev) && r.Chance(1, 2)
					for i, t := range prev {
						switch {
						case mirror:
							if prev[len(prev)-1-i].Kind == "lit" {
								rootToks[i] = Tok{Kind: "lit", Lit: r.Pick(Lits[:8])}
							} else {
								names++
								rootToks[i] = Tok{Kind: "var", Name: fmt.Sprintf("v%d", names)}
							}
						case r.Chance(1, 2):
							rootToks[i] = t
							if t.Kind != "lit" {
								names++
								rootToks[i].Name = fmt.Sprintf("v%d", names)
							}
						case t.Kind == "lit":
							names++
							rootToks[i] = Tok{Kind: "var", Name: fmt.Sprintf("v%d", names)}
						default:
							rootToks[i] = Tok{Kind: "lit", Lit: r.Pick(Lits[:8])}
						}
					}
				}
			}
			if o.PlainRoots && len(rootToks) == 0 && try <= 20 {
				continue
			}
			root = RenderPath(rootToks, o.res())
			if len(rootToks) == 0 && r.Chance(1, 3) {
				root = "" // WebService.Path("") normalises to "/"
			}
			key := root
			if key == "" {
				key = "/"
			}
			if !seenRoot[key] {
				seenRoot[key] = true
				break
			}
			if try > 20 {
				rootToks = []Tok{{Kind: "lit", Lit: fmt.Sprintf("s%d", si)}}
				root = RenderPath(rootToks, o.res())
				seenRoot[root] = true
				break
			}
		}
		if len(rootToks) > 0 && !o.PlainRoots && r.Chance(1, 6) {
			root += "/" // trailing slash on the declared root
		}
		s := Service{ID: si, Root: root, RootToks: rootToks}
		if o.Media && r.Chance(1, 5) {
			s.Consumes = pickMedia(r, o)
			s.Produces = pickMedia(r, o)
		}
		nroutes := 1 + r.Intn(o.MaxRoutes)
		extFamily := r.Chance(1, 7) // this service declares WebDAV-like extension methods
		if extFamily && nroutes < 3 {
			nroutes = 3
		}
		for ri := 0; ri < nroutes; ri++ {
			var rel []Tok
			var twinOf *RouteDecl
			if ri > 0 && r.Chance(1, 3) {
				// sibling of an earlier route: same shape, one token changed, or another method
				prev := s.Routes[r.Intn(len(s.Routes))]
				rel = append([]Tok{}, prev.Toks[len(rootToks):]...)
				if o.Wide && r.Chance(1, 4) {
					// a representation twin: same method and template, another Consumes/Produces/If
					twinOf = &prev
				} else if len(rel) > 0 && r.Chance(2, 3) {
					i := r.Intn(len(rel))
					switch {
					case o.Wide && rel[i].Kind == "suf" && rel[i].Verb == "" && r.Chance(1, 2):
						// the same place held by a literal that ends in the suffix
						rel[i] = Tok{Kind: "lit", Lit: r.Pick(SufStems) + rel[i].Suffix}
					case o.Wide && o.AllowSuf && rel[i].Kind == "lit" && rel[i].Verb == "" && suffixOf(rel[i].Lit) != "" && r.Chance(2, 3):
						// … or a literal's place by a suffixed variable that admits it
						names++
						rel[i] = Tok{Kind: "suf", Name: fmt.Sprintf("v%d", names), Suffix: suffixOf(rel[i].Lit)}
					case rel[i].Kind == "lit" && rel[i].Verb == "" && r.Chance(1, 2):
						// the same place held by a variable: a less specific twin of the earlier route
						names++
						rel[i] = Tok{Kind: "var", Name: fmt.Sprintf("v%d", names)}
					case rel[i].Kind == "var" && rel[i].Verb == "" && r.Chance(1, 2):
						// … or a more specific one
						rel[i] = Tok{Kind: "lit", Lit: r.Pick(Lits[:8])}
					default:
						rel[i] = genTok(r, o, &names, i == len(rel)-1, false)
					}
				}
			} else {
				rel = genToks(r, o, r.Intn(4), &names, false)
			}
			if o.WildHeavy && o.AllowWild && r.Chance(2, 3) {
				names++
				w := Tok{Kind: "wild", Name: fmt.Sprintf("v%d", names)}
				if len(rel) > 0 && r.Chance(1, 2) {
					rel[len(rel)-1] = w
				} else {
					rel = append(rel, w)
				}
			}
			// a tail wildcard may only be last
			for i := range rel {
				if rel[i].Kind == "wild" && i != len(rel)-1 {
					rel[i] = Tok{Kind: "var", Name: rel[i].Name}
				}
			}
			if o.AllowVerb && len(rel) > 0 && rel[len(rel)-1].Kind != "wild" && (o.Specials && r.Chance(3, 5) || r.Chance(1, 5)) {
				rel[len(rel)-1].Verb = r.Pick(Verbs)
			}
			relStr := RenderPath(rel, o.res())
			switch {
			case twinOf != nil && r.Chance(2, 3):
				relStr = twinOf.Rel
			case len(rel) == 0 && r.Chance(1, 2):
				relStr = ""
			case len(rel) > 0 && r.Chance(1, 8):
				relStr = strings.TrimPrefix(relStr, "/")
			case len(rel) > 0 && r.Chance(1, 10):
				relStr += "/"
			}
			method := r.Pick(Methods[:5+r.Intn(4)])
			if extFamily {
				method = r.Pick(ExtMethods)
			}
			rd := RouteDecl{ID: rid, Method: method, Rel: relStr,
				Toks: append(append([]Tok{}, rootToks...), rel...)}
			rid++
			rd.Consumes = pickMedia(r, o)
			rd.Produces = pickMedia(r, o)
			if o.Conds && r.Chance(1, 5) {
				rd.Conds = []int{r.Intn(3)}
				if r.Chance(1, 3) {
					rd.Conds = append(rd.Conds, r.Intn(3))
				}
			}
			if twinOf != nil {
				rd.Method = twinOf.Method
				if o.Media && r.Chance(2, 3) {
					rd.Produces = []string{r.Pick(Medias)}
				}
				if o.Media && r.Chance(1, 3) {
					rd.Consumes = []string{r.Pick(Medias[:3])}
				}
			}
			if o.Media && r.Chance(1, 10) {
				rd.Noct = []string{r.Pick(Methods)}
			}
			s.Routes = append(s.Routes, rd)
		}
		cfg.Services = append(cfg.Services, s)
	}
	return cfg
}

// stringPrefixSibling: a root whose last segment CONTINUES the last segment of an earlier root, or
// stops inside it (/api next to /apidocs, /users next to /user): a string prefix that is not a segment
// prefix. nil when the earlier root drawn does not end in a literal.
func stringPrefixSibling(r *rng.R, cfg Config) []Tok {
	prev := cfg.Services[r.Intn(len(cfg.Services))].RootToks
	if len(prev) == 0 || prev[len(prev)-1].Kind != "lit" {
		return nil
	}
	last := prev[len(prev)-1].Lit
	if len(last) > 1 && isAlnum(last) && r.Chance(1, 3) {
		// only letters and digits are cut: the package compiles every template into a regular expression
		// and calls os.Exit(1) when that fails (half a UTF-8 sequence; and, should literals ever reach the
		// expression unquoted, half a bracket pair) — an exit of the check process would hide the verdict
		last = last[:1+r.Intn(len(last)-1)]
	} else {
		last += r.Pick([]string{"docs", "s", "2", "-x", ".v2"})
	}
	return append(append([]Tok{}, prev[:len(prev)-1]...), Tok{Kind: "lit", Lit: last})
}

func isAlnum(s string) bool {
	for i := 0; i < len(s); i++ {
		c := s[i]
		if !(c >= 'a' && c <= 'z' || c >= 'A' && c <= 'Z' || c >= '0' && c <= '9') {
			return false
		}
	}
	return true
}

// echo draws a value whose tail is made of the characters of the token's own decoration (the custom
// verb with its colon, the literal suffix): what is cut off a segment must be the decoration itself,
// once, and not characters that merely occur in it.
func echo(r *rng.R, deco string) string {
	stem := r.Pick([]string{"job", "7", "", "a.b"})
	switch r.Intn(4) {
	case 0:
		return stem + deco // the decoration twice, once it is appended
	case 1:
		return stem + strings.TrimLeft(deco, ":.-_") // the word without its separator
	}
	tail := ""
	for n := 1 + r.Intn(3); n > 0; n-- {
		tail += string(deco[r.Intn(len(deco))])
	}
	return stem + tail
}

// instantiate draws a URL segment for one template token: mostly satisfying, sometimes narrowly missing.
func instantiate(r *rng.R, o Opts, t Tok) []string {
	miss := r.Chance(1, 8)
	seg := ""
	switch t.Kind {
	case "lit":
		seg = t.Lit
		if miss {
			seg = r.Pick(append([]string{t.Lit + "x", "", strings.ToUpper(t.Lit)}, Lits...))
		}
	case "var":
		seg = r.Pick(VarVals)
		if miss && r.Chance(1, 2) {
			seg = ""
		}
		switch {
		case o.Wide && t.Verb != "" && r.Chance(1, 3):
			seg = echo(r, ":"+t.Verb)
		}
	case "re":
		p := o.res()[t.Re]
		switch {
		case miss && len(p.Miss) > 0:
			seg = r.Pick(p.Miss)
		case r.Chance(1, 5) && len(p.Part) > 0:
			seg = r.Pick(p.Part)
		default:
			seg = r.Pick(p.Hit)
		}
	case "suf":
		seg = r.Pick(VarVals) + t.Suffix
		switch {
		case o.Wide && t.Verb != "" && r.Chance(1, 4):
			seg = echo(r, ":"+t.Verb) + t.Suffix
		case o.Wide && r.Chance(1, 4):
			seg = echo(r, t.Suffix) + t.Suffix
		}
		if miss {
			seg = r.Pick([]string{r.Pick(VarVals), t.Suffix, t.Suffix[1:], "x" + t.Suffix + "y", "", "q"})
		}
	case "wild":
		n := r.Intn(4)
		out := []string{}
		for i := 0; i < n; i++ {
			out = append(out, r.Pick(VarVals))
		}
		if n == 0 && r.Chance(1, 2) {
			return nil
		}
		if n == 0 {
			return []string{""}
		}
		return out
	}
	if t.Verb != "" {
		switch k := r.Intn(8); {
		case k < 5:
			seg += ":" + t.Verb
		case k < 6:
			// no verb at all
		default:
			// near misses of the verb: other case, longer, shorter, and text that merely ENDS in the verb's letters
			seg += r.Pick([]string{":RUN", ":runx", ":sto", ":", ":x:" + t.Verb + "x", ":re" + t.Verb, t.Verb, ":x" + t.Verb, "-" + t.Verb})
		}
	}
	return []string{seg}
}

var advPaths = []string{"", "/", "//", "///", "/:", "/{", "/}", "/{}", "/a//b", "//a", "/a/", "/a//", "/%2F", "/a\nb", "/\x00",
	"/a/b/c/d/e/f/g/h", "/:run", "/a:run", "/{v}", "/{v:*}", "/*", "/a/*", "a", "a/b", "/\xff\xfe", "/ ", " /a", "/a /b"}

// GenReq draws a request for the table: instantiate a route's template, then mutate.
func GenReq(r *rng.R, o Opts, cfg Config) Req {
	var req Req
	var routes []RouteDecl
	for _, s := range cfg.Services {
		routes = append(routes, s.Routes...)
	}
	rt := routes[r.Intn(len(routes))]
	segs := []string{}
	contested := r.Chance(1, 5) // every variable takes a literal another template has at its position
	for i, t := range rt.Toks {
		if (t.Kind == "var" || t.Kind == "re" || t.Kind == "suf" && o.Wide) && t.Verb == "" && (contested || r.Chance(1, 3)) {
			// the literal another template has at this position: a URL that several templates
			// (of the same or of another service) admit, so that the ranking has something to decide
			var lits []string
			for _, other := range routes {
				if i < len(other.Toks) && other.Toks[i].Kind == "lit" && other.Toks[i].Verb == "" &&
					(t.Kind != "suf" || strings.HasSuffix(other.Toks[i].Lit, t.Suffix)) {
					lits = append(lits, other.Toks[i].Lit)
				}
			}
			if len(lits) > 0 {
				segs = append(segs, r.Pick(lits))
				continue
			}
		}
		segs = append(segs, instantiate(r, o, t)...)
	}
	if n := len(rt.Toks); o.Wide && n > 0 && len(segs) == n && rt.Toks[n-1].Kind == "var" && rt.Toks[n-1].Verb == "" && r.Chance(1, 4) {
		segs[n-1] = r.Pick(ExtVals) // the resource is named like a file
	}
	if n := len(rt.Toks); o.Wide && n > 0 && len(segs) == n && rt.Toks[n-1].Kind == "re" && rt.Toks[n-1].Verb == "" && r.Chance(1, 5) {
		// one segment MORE than the template, behind a regex variable (only the {v:*} form may take it)
		segs = append(segs, r.Pick(VarVals))
	}
	// mutations
	mut := 6
	if o.Specials {
		mut = 3
	}
	for m := r.Intn(mut); m < 2; m++ {
		switch r.Intn(9) {
		case 0: // swap a segment with a literal of the alphabet
			if len(segs) > 0 {
				segs[r.Intn(len(segs))] = r.Pick(Lits)
			}
		case 1: // drop a segment
			if len(segs) > 0 {
				i := r.Intn(len(segs))
				segs = append(segs[:i:i], segs[i+1:]...)
			}
		case 2: // add a segment
			i := r.Intn(len(segs) + 1)
			segs = append(segs[:i:i], append([]string{r.Pick(VarVals)}, segs[i:]...)...)
		case 3: // empty segment
			if o.Adversarial || r.Chance(1, 3) {
				i := r.Intn(len(segs) + 1)
				segs = append(segs[:i:i], append([]string{""}, segs[i:]...)...)
			}
		case 4: // verb suffix
			if len(segs) > 0 {
				segs[len(segs)-1] += ":" + r.Pick(Verbs)
			}
		case 5: // odd bytes
			if o.Adversarial && len(segs) > 0 {
				segs[r.Intn(len(segs))] = r.Pick([]string{"\xff", "a\nb", "\x00", "{", "}", ":", "a b", strings.Repeat("z", 300)})
			}
		case 7: // near miss of one segment: one byte replaced, dropped or doubled (a literal that is treated
			// as a pattern — '.', '+', '(', '$', '%' — admits exactly such neighbours)
			if len(segs) > 0 {
				i := r.Intn(len(segs))
				// prefer a segment with a non-alphanumeric byte
				for k := range segs {
					if strings.ContainsAny(segs[k], ".+$|*[]()%") && r.Chance(2, 3) {
						i = k
						break
					}
				}
				if b := []byte(segs[i]); len(b) > 0 {
					j := r.Intn(len(b))
					// prefer a non-alphanumeric byte when there is one
					for k, c := range b {
						if !(c >= 'a' && c <= 'z' || c >= 'A' && c <= 'Z' || c >= '0' && c <= '9') && r.Chance(2, 3) {
							j = k
							break
						}
					}
					switch r.Intn(4) {
					case 0:
						b[j] = "xX0-"[r.Intn(4)]
					case 1:
						b = append(b[:j:j], b[j+1:]...)
					case 2:
						b = append(b[:j+1:j+1], b[j:]...)
					default:
						if j > 0 {
							b[j] = b[j-1] // "a+b" -> "aab"
						} else {
							b[j] = 'x'
						}
					}
					segs[i] = string(b)
				}
			}
		case 6: // a segment from another route of the table
			other := routes[r.Intn(len(routes))]
			if len(other.Toks) > 0 && len(segs) > 0 {
				s := instantiate(r, o, other.Toks[r.Intn(len(other.Toks))])
				if len(s) > 0 {
					segs[r.Intn(len(segs))] = s[0]
				}
			}
		}
	}
	if o.Wide && len(segs) > 0 {
		switch r.Intn(16) {
		case 0, 1:
			// sub-delimiters inside a segment (matrix parameters, ;jsessionid, comma lists …): behind the
			// segment's text, in front of it, or in the middle
			i, d := r.Intn(len(segs)), r.Pick(SubDelims)
			switch k := r.Intn(5); {
			case k < 3 || len(segs[i]) < 2:
				segs[i] += d
			case k == 3:
				segs[i] = d + segs[i]
			default:
				j := 1 + r.Intn(len(segs[i])-1)
				segs[i] = segs[i][:j] + d + segs[i][j:]
			}
		case 2:
			// the last segment ends like a file name
			segs[len(segs)-1] += r.Pick([]string{".json", ".xml", ".html", ".txt"})
		}
	}
	path := "/" + strings.Join(segs, "/")
	if len(segs) == 0 {
		path = "/"
	}
	switch {
	case r.Chance(1, 7):
		path += "/"
	case o.Adversarial && r.Chance(1, 12):
		path = r.Pick(advPaths)
	case o.Adversarial && r.Chance(1, 25):
		path = strings.TrimPrefix(path, "/")
	case o.Adversarial && r.Chance(1, 25):
		path = "/" + path
	}
	req.Path = path
	req.Method = rt.Method
	if r.Chance(1, 4) {
		req.Method = r.Pick(Methods)
	}
	if r.Chance(1, 16) {
		req.Method = r.Pick(ExtMethods)
	}
	if o.Adversarial && r.Chance(1, 40) {
		req.Method = r.Pick([]string{"get", "", "Get", "GET ", "TRACE"})
	}
	if o.Conds {
		req.Conds = []bool{r.Chance(3, 4), r.Chance(3, 4), r.Chance(3, 4)}
	}
	if o.Media {
		req.CT, req.Accept = genCT(r, rt, routes), genAccept(r, rt, routes)
		switch r.Intn(6) {
		case 0:
			req.CL, req.CLHeader = 5, "5"
		case 1:
			req.CL, req.CLHeader = 0, "0"
		case 2:
			req.CL, req.CLHeader = -1, "" // chunked
		case 3:
			req.CL, req.CLHeader = 5, "" // httptest.NewRequest style: field without header
		default:
			req.CL, req.CLHeader = 0, ""
		}
	}
	return req
}

func withParams(r *rng.R, m string) string {
	switch r.Intn(8) {
	case 0:
		return m + ";charset=utf-8"
	case 1:
		return m + "; q=0.5"
	case 2:
		return " " + m + " "
	case 3:
		return m + " ;q=1"
	}
	return m
}

func genCT(r *rng.R, rt RouteDecl, all []RouteDecl) string {
	switch r.Intn(10) {
	case 0, 1, 2:
		return ""
	case 3, 4, 5:
		if len(rt.Consumes) > 0 {
			return withParams(r, r.Pick(rt.Consumes))
		}
		return withParams(r, r.Pick(Medias))
	case 6:
		o := all[r.Intn(len(all))]
		if len(o.Consumes) > 0 {
			return withParams(r, r.Pick(o.Consumes))
		}
		return r.Pick(Medias)
	case 7:
		return r.Pick(Medias) + "," + r.Pick(Medias)
	case 8:
		return r.Pick([]string{"garbage", ";", ",", " ", "application/json,", ",application/json", "application/jsonx", "APPLICATION/JSON", "application/octet-stream"})
	}
	return r.Pick(Medias)
}

func genAccept(r *rng.R, rt RouteDecl, all []RouteDecl) string {
	switch r.Intn(10) {
	case 0, 1, 2:
		return ""
	case 3, 4:
		if len(rt.Produces) > 0 {
			return withParams(r, r.Pick(rt.Produces))
		}
		return withParams(r, r.Pick(Medias))
	case 5:
		o := all[r.Intn(len(all))]
		if len(o.Produces) > 0 {
			return withParams(r, r.Pick(o.Produces))
		}
		return r.Pick(Medias)
	case 6:
		n := 2 + r.Intn(3)
		parts := []string{}
		for i := 0; i < n; i++ {
			parts = append(parts, withParams(r, r.Pick(Medias)))
		}
		return strings.Join(parts, r.Pick([]string{",", ", ", " , "}))
	case 7:
		return r.Pick([]string{"garbage", ";", ",", " ", "text/plain,", ",text/plain", "*/*;q=0.1", "text/*", "*", "application/jsonx", "TEXT/PLAIN", ", ,"})
	}
	return r.Pick(Medias)
}

// FullOpts is the widest generator for a router: every documented template form, media, conditions, adversarial paths.
func FullOpts(router string) Opts {
	return Opts{Router: router, AllowRe: true, AllowSuf: router == "curly", AllowWild: true, AllowVerb: router == "curly",
		RootVars: true, RootRe: true, Conds: true, Media: true, MaxSvcs: 4, MaxRoutes: 6, Adversarial: true, Contest: true, Faults: true,
		Wide: true, Observe: true, Changes: true, Builders: true}
}
