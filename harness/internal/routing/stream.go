package routing

import (
	"fmt"
	"io"
	stdlog "log"
	"strings"

	restful "github.com/emicklei/go-restful/v3"

	"verifharness/internal/drv"
	"verifharness/internal/rng"
	"verifharness/internal/sx"
)

// Case is one (table, request) pair with what the real code and the model said.
type Case struct {
	Cfg     *Config
	CfgLine string
	Req     Req
	ReqLine string
	Real    Outcome
	RealS   string // canonical real outcome
	ModelS  string // canonical model outcome
	Tag     string
	Spec    map[string]string // property id -> "1" | "0:reason" (the Lean predicate evaluated on the REAL outcome)
	// Note: how the container of this case came to be when that is more than "built from Cfg, fresh"
	// (observing filters, requests served before, changes of the table after registration); Cfg is
	// always the table in force when the request was dispatched
	Note string
	// BO: how the table was put on the container (observing filters, dynamic routes, reused RouteBuilders)
	BO BuildOpts
}

// SkippedBuild counts generated tables that Container.Add refused (F11).
var SkippedBuild int

// FaultsSent counts fault-traffic requests; Hung collects containers that no longer accepted a
// registration after fault traffic (TakeHung hands them to the check and forgets them).
var FaultsSent int
var Hung []string

func TakeHung() []string {
	h := Hung
	Hung = nil
	return h
}

// Changed counts the tables that were changed after warm-up traffic.
var Changed int

// Change alters the table on the registered WebServices of b: RemoveRoute (needs dynamic routes) or a
// late WebService.Route. It returns the table now in force, the table requests are drawn from (nothing
// is ever removed from that one) and a description ("" = nothing was changed).
func Change(r *rng.R, o Opts, b *Built, cur, gen Config) (Config, Config, string) {
	var withRoutes []int
	for i, s := range cur.Services {
		if len(s.Routes) > 0 {
			withRoutes = append(withRoutes, i)
		}
	}
	if len(withRoutes) == 0 {
		return cur, gen, ""
	}
	si := withRoutes[r.Intn(len(withRoutes))]
	ws, svc := b.WS[si], cur.Services[si]
	next := cloneCfg(cur)
	if b.BO.Dynamic && r.Chance(2, 3) {
		// RemoveRoute(path, method) takes the full path of the route: read it from the WebService
		rts := ws.Routes()
		if len(rts) != len(svc.Routes) {
			return cur, gen, ""
		}
		j := r.Intn(len(rts))
		if err := ws.RemoveRoute(rts[j].Path, rts[j].Method); err != nil {
			return cur, gen, ""
		}
		var keep []RouteDecl
		for k, rd := range svc.Routes {
			if !(rts[k].Path == rts[j].Path && rts[k].Method == rts[j].Method) {
				keep = append(keep, rd)
			}
		}
		next.Services[si].Routes = keep
		return next, gen, fmt.Sprintf("WebService %d (dynamic routes) RemoveRoute(%q, %q)", svc.ID, rts[j].Path, rts[j].Method)
	}
	// a late route: the template of a route of this WebService under another method, or a twin of it
	maxID := 0
	for _, s := range gen.Services {
		for _, rd := range s.Routes {
			if rd.ID >= maxID {
				maxID = rd.ID + 1
			}
		}
	}
	rd := svc.Routes[r.Intn(len(svc.Routes))]
	rd.ID = maxID
	if r.Chance(2, 3) {
		rd.Method = r.Pick(Methods[:5])
	}
	rd.Consumes, rd.Produces, rd.Conds, rd.Noct = pickMedia(r, o), pickMedia(r, o), nil, nil
	// (declared with the RouteBuilder that built this WebService's last route when builders are reused)
	ws.Route(b.SB[si].next(ws, svc, rd, b.BO))
	next.Services[si].Routes = append(next.Services[si].Routes, rd)
	g2 := cloneCfg(gen)
	g2.Services[si].Routes = append(g2.Services[si].Routes, rd)
	return next, g2, fmt.Sprintf("WebService %d gets another route by WebService.Route: %s %q (id %d)", svc.ID, rd.Method, rd.Rel, rd.ID)
}

// Lines are the two protocol lines that replay this case on the driver.
func (c *Case) Lines() []string { return []string{c.CfgLine, c.ReqLine} }

// Run draws nCfg tables with perCfg requests each, executes the real code and the driver.
func Run(seed uint64, nCfg, perCfg int, o Opts) ([]*Case, error) {
	if o.Trace {
		restful.TraceLogger(stdlog.New(io.Discard, "", 0)) // sets the trace logger and enables tracing
		defer restful.EnableTracing(false)
	}
	base := rng.New(seed)
	var cases []*Case
	var lines []string
	for ci := 0; ci < nCfg; ci++ {
		r := base.Fork(uint64(ci))
		cfg := GenConfig(r, o)
		// how the table is put on the container, and whether it changes after warm-up traffic
		var bo BuildOpts
		changeAt := -1
		if o.Observe && r.Chance(1, 3) {
			bo.Observe = 1 + r.Intn(3)
		}
		if o.Changes && perCfg >= 8 && r.Chance(1, 4) {
			bo.Dynamic = r.Chance(2, 3)
			changeAt = perCfg/4 + r.Intn(perCfg/2)
		}
		if br := r.Fork(0xb111de5); o.Builders && br.Chance(1, 2) {
			// how the routes are declared: RouteBuilder values used for several routes (an own stream of
			// the PRNG: the tables and requests drawn are the same with and without this dimension)
			bo.Reuse = br.U64() | 1
		}
		built, err := BuildWith(cfg, bo)
		var cont *restful.Container
		if built != nil {
			cont = built.C
		}
		if err != nil {
			// Container.Add panics for some tables whose roots share a fixed prefix (that is C11's
			// subject, finding F11); such a table cannot be dispatched at all and is skipped here.
			if strings.Contains(err.Error(), "multiple registrations") {
				SkippedBuild++
				continue
			}
			return nil, fmt.Errorf("config %d does not build: %v\n%s", ci, err, cfg.Sx())
		}
		cfgLine := sx.K("cfg", sx.N(ci), cfg.Sx()).String()
		lines = append(lines, cfgLine)
		hung := false
		cur, genCfg, note := &cfg, cfg, ""
		if bo.Observe > 0 {
			note = fmt.Sprintf("container built with observing pass-through filters (level %d: container%s%s); ", bo.Observe,
				map[bool]string{true: ", every WebService"}[bo.Observe >= 2], map[bool]string{true: ", every route"}[bo.Observe >= 3])
		}
		if bo.Reuse != 0 {
			note += "routes declared with RouteBuilder values that are used again for the next route of their WebService (Method, Path, Operation, Consumes, Produces, To set anew) three times out of four; "
		}
		for qi := 0; qi < perCfg && !hung; qi++ {
			if qi == changeAt {
				// the table changes on the registered WebServices, after warm-up traffic: from here on the
				// requests are judged against the table now in force; they are still drawn for the routes
				// that ever existed
				next, gen, what := Change(r, o, built, *cur, genCfg)
				if what != "" {
					cur, genCfg = &next, gen
					cfgLine = sx.K("cfg", sx.N(ci), next.Sx()).String()
					lines = append(lines, cfgLine)
					note += fmt.Sprintf("after %d requests on this container: %s; ", qi, what)
					Changed++
				}
			}
			req := GenReq(r, o, genCfg)
			if o.Faults && r.Chance(1, 8) {
				// fault traffic before the request that is judged: the same kind of request, but user code
				// panics while it is served (the route function after it looked at its parameters, or an
				// If-condition during route selection); now and then the container must also still accept a
				// registration afterwards
				kind := []string{"handler", "cond"}[r.Intn(2)]
				Fault(cont, GenReq(r, o, genCfg), kind)
				FaultsSent++
				if r.Chance(1, 6) && !StillUsable(cont) {
					Hung = append(Hung, fmt.Sprintf("after a request whose %s panicked, Container.Add/Remove did not return within 2 s (router %s); table: %s", map[string]string{"handler": "route function", "cond": "If-condition"}[kind], cfg.Router, cfg.Sx()))
					hung = true // this container is lost: every later request would wait behind the blocked writer
					break
				}
			}
			real := Dispatch(cont, req)
			c := &Case{Cfg: cur, CfgLine: cfgLine, Req: req, Real: real, RealS: real.Sx().String(), BO: bo}
			if note != "" {
				c.Note = note + fmt.Sprintf("this is request %d on this container", qi+1)
			}
			c.ReqLine = sx.K("route", sx.N(len(cases)), req.Sx(), sx.K("real", real.Sx(), sx.H(real.SelPath), sx.N(real.Invocations))).String()
			lines = append(lines, c.ReqLine)
			cases = append(cases, c)
		}
	}
	answers, err := drv.Run(lines)
	if err != nil {
		return nil, err
	}
	k := 0
	for _, a := range answers {
		n, err := sx.Parse(a)
		if err != nil {
			return nil, fmt.Errorf("driver answer %q: %v", a, err)
		}
		switch n.Head() {
		case "ok":
		case "out":
			c := cases[k]
			k++
			c.ModelS = CanonModel(n.Args()[1])
			if t := n.Find("tag"); t != nil && len(t.Args()) > 0 {
				c.Tag = t.Args()[0].Atom
			}
			c.Spec = map[string]string{}
			for _, s := range n.List {
				if s.Head() == "spec" {
					v := s.Args()[1].Atom
					if len(s.Args()) > 2 {
						v += ":" + s.Args()[2].Atom
					}
					c.Spec[s.Args()[0].Atom] = v
				}
			}
		default:
			return nil, fmt.Errorf("driver rejected a line: %s", a)
		}
	}
	if k != len(cases) {
		return nil, fmt.Errorf("driver answered %d of %d cases", k, len(cases))
	}
	return cases, nil
}
