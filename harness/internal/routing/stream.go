package routing

import (
	"fmt"
	"io"
	stdlog "log"
	"strings"

	restful "github.com/emicklei/go-restful/v3"

	"verifharness/internal/drv"
	"verifharness/internal/rng"
	"verifharness/internal/sx"
)

// Case is one (table, request) pair with what the real code and the model said.
type Case struct {
	Cfg     *Config
	CfgLine string
	Req     Req
	ReqLine string
	Real    Outcome
	RealS   string // canonical real outcome
	ModelS  string // canonical model outcome
	Tag     string
	Spec    map[string]string // property id -> "1" | "0:reason" (the Lean predicate evaluated on the REAL outcome)
}

// SkippedBuild counts generated tables that Container.Add refused (F11).
var SkippedBuild int

// FaultsSent counts fault-traffic requests; Hung collects containers that no longer accepted a
// registration after fault traffic (TakeHung hands them to the check and forgets them).
var FaultsSent int
var Hung []string

func TakeHung() []string {
	h := Hung
	Hung = nil
	return h
}

// Lines are the two protocol lines that replay this case on the driver.
func (c *Case) Lines() []string { return []string{c.CfgLine, c.ReqLine} }

// Run draws nCfg tables with perCfg requests each, executes the real code and the driver.
func Run(seed uint64, nCfg, perCfg int, o Opts) ([]*Case, error) {
	if o.Trace {
		restful.TraceLogger(stdlog.New(io.Discard, "", 0)) // sets the trace logger and enables tracing
		defer restful.EnableTracing(false)
	}
	base := rng.New(seed)
	var cases []*Case
	var lines []string
	for ci := 0; ci < nCfg; ci++ {
		r := base.Fork(uint64(ci))
		cfg := GenConfig(r, o)
		cont, err := Build(cfg)
		if err != nil {
			// Container.Add panics for some tables whose roots share a fixed prefix (that is C11's
			// subject, finding F11); such a table cannot be dispatched at all and is skipped here.
			if strings.Contains(err.Error(), "multiple registrations") {
				SkippedBuild++
				continue
			}
			return nil, fmt.Errorf("config %d does not build: %v\n%s", ci, err, cfg.Sx())
		}
		cfgLine := sx.K("cfg", sx.N(ci), cfg.Sx()).String()
		lines = append(lines, cfgLine)
		hung := false
		for qi := 0; qi < perCfg && !hung; qi++ {
			req := GenReq(r, o, cfg)
			if o.Faults && r.Chance(1, 8) {
				// fault traffic before the request that is judged: the same kind of request, but user code
				// panics while it is served (the route function after it looked at its parameters, or an
				// If-condition during route selection); now and then the container must also still accept a
				// registration afterwards
				kind := []string{"handler", "cond"}[r.Intn(2)]
				Fault(cont, GenReq(r, o, cfg), kind)
				FaultsSent++
				if r.Chance(1, 6) && !StillUsable(cont) {
					Hung = append(Hung, fmt.Sprintf("after a request whose %s panicked, Container.Add/Remove did not return within 2 s (router %s); table: %s", map[string]string{"handler": "route function", "cond": "If-condition"}[kind], cfg.Router, cfg.Sx()))
					hung = true // this container is lost: every later request would wait behind the blocked writer
					break
				}
			}
			real := Dispatch(cont, req)
			c := &Case{Cfg: &cfg, CfgLine: cfgLine, Req: req, Real: real, RealS: real.Sx().String()}
			c.ReqLine = sx.K("route", sx.N(len(cases)), req.Sx(), sx.K("real", real.Sx(), sx.H(real.SelPath), sx.N(real.Invocations))).String()
			lines = append(lines, c.ReqLine)
			cases = append(cases, c)
		}
	}
	answers, err := drv.Run(lines)
	if err != nil {
		return nil, err
	}
	k := 0
	for _, a := range answers {
		n, err := sx.Parse(a)
		if err != nil {
			return nil, fmt.Errorf("driver answer %q: %v", a, err)
		}
		switch n.Head() {
		case "ok":
		case "out":
			c := cases[k]
			k++
			c.ModelS = CanonModel(n.Args()[1])
			if t := n.Find("tag"); t != nil && len(t.Args()) > 0 {
				c.Tag = t.Args()[0].Atom
			}
			c.Spec = map[string]string{}
			for _, s := range n.List {
				if s.Head() == "spec" {
					v := s.Args()[1].Atom
					if len(s.Args()) > 2 {
						v += ":" + s.Args()[2].Atom
					}
					c.Spec[s.Args()[0].Atom] = v
				}
			}
		default:
			return nil, fmt.Errorf("driver rejected a line: %s", a)
		}
	}
	if k != len(cases) {
		return nil, fmt.Errorf("driver answered %d of %d cases", k, len(cases))
	}
	return cases, nil
}
