package routing

import (
	"context"
	"fmt"
	"io"
	stdlog "log"
	"net/http"
	"net/http/httptest"
	"net/url"
	"strings"
	"time"

	restful "github.com/emicklei/go-restful/v3"

	"verifharness/internal/rng"
)

func init() {
	restful.SetLogger(stdlog.New(io.Discard, "", 0))
}

type ctxKey struct{}

// capture is what the generated route functions record about their own invocation.
type capture struct {
	invocations int
	svc, route  int
	params      map[string]string
	selPath     string
	seen        []string // "<stage>=<operation of Request.SelectedRoute()>" for every observing filter and the handler
}

// OpName is the Operation every generated route carries: it names the declaration, so that a stage
// can say which route it sees as the selected one (Request.SelectedRoute().Operation()).
func OpName(svc, route int) string { return fmt.Sprintf("s%dr%d", svc, route) }

func selectedOp(req *restful.Request) string {
	if sr := req.SelectedRoute(); sr != nil {
		return sr.Operation()
	}
	return "-"
}

// observer is a pass-through filter that records which route it sees as the selected one.
func observer(stage string) restful.FilterFunction {
	return func(req *restful.Request, resp *restful.Response, chain *restful.FilterChain) {
		if cp, ok := req.Request.Context().Value(ctxKey{}).(*capture); ok {
			cp.seen = append(cp.seen, stage+"="+selectedOp(req))
		}
		chain.ProcessFilter(req, resp)
	}
}

// BuildOpts: how a table is put on a container besides the table itself.
type BuildOpts struct {
	// Observe: 0 = no filter at all; 1 = an observing container filter; 2 = … and one on every
	// WebService; 3 = … and one on every route
	Observe int
	// Dynamic: WebService.SetDynamicRoutes(true) on every WebService (RemoveRoute is allowed)
	Dynamic bool
	// Reuse: 0 = every route comes from a RouteBuilder of its own (ws.Method(...)); otherwise the seed
	// that decides, route by route, whether the RouteBuilder value that built the previous route of the
	// WebService is used again with everything the next declaration says set anew (Method, Path,
	// Operation, Consumes, Produces, AllowedMethodsWithoutContentType, To; If only appends, so a builder
	// is used again only for a route whose conditions extend the ones it already carries). The table
	// that results is the one a builder per route gives.
	Reuse uint64
}

// svcBuilders is the RouteBuilder a WebService's routes are being declared with when builders are
// reused (BuildOpts.Reuse): the builder last given to WebService.Route and the conditions it carries.
type svcBuilders struct {
	r     *rng.R
	last  *restful.RouteBuilder
	conds []int
}

func newSvcBuilders(bo BuildOpts, svcID int) *svcBuilders {
	if bo.Reuse == 0 {
		return &svcBuilders{}
	}
	return &svcBuilders{r: rng.New(bo.Reuse).Fork(uint64(svcID))}
}

// Reused counts the routes that were declared with a RouteBuilder that had built a route before.
var Reused int

// next returns the builder for declaration r: the previous one set anew (three times out of four when
// that is possible), else a fresh one.
func (sb *svcBuilders) next(ws *restful.WebService, s Service, r RouteDecl, bo BuildOpts) *restful.RouteBuilder {
	if sb.r != nil && sb.last != nil && len(r.Conds) >= len(sb.conds) && sb.r.Chance(3, 4) {
		ok := true
		for i, ci := range sb.conds {
			ok = ok && r.Conds[i] == ci
		}
		if ok {
			extra := r
			extra.Conds = r.Conds[len(sb.conds):]
			configure(sb.last, s, extra, true)
			sb.conds = append([]int{}, r.Conds...)
			Reused++
			return sb.last
		}
	}
	rb := RouteBuilder(ws, s, r)
	if bo.Observe >= 3 {
		rb.Filter(observer("route-filter"))
	}
	if sb.r != nil {
		sb.last, sb.conds = rb, append([]int{}, r.Conds...)
	}
	return rb
}

// Built is a container with the handles of its WebServices (in the order of cfg.Services).
type Built struct {
	C  *restful.Container
	WS []*restful.WebService
	BO BuildOpts
	// SB: the builders the routes of each WebService were declared with (a late route may use them again)
	SB []*svcBuilders
}

// CondHeader carries the If-condition bits of a request ("101" = conditions 0 and 2 true).
const CondHeader = "X-Verif-Conds"

func condFn(i int) restful.RouteSelectionConditionFunction {
	return func(r *http.Request) bool {
		if r.Header.Get(FaultHeader) == "cond" {
			panic("verif: fault traffic, the route condition panics")
		}
		v := r.Header.Get(CondHeader)
		return i < len(v) && v[i] == '1'
	}
}

// Build constructs a real container from the configuration. Public API only.
type contT = *restful.Container

func Build(cfg Config) (c *restful.Container, err error) {
	b, err := BuildWith(cfg, BuildOpts{})
	if err != nil {
		return nil, err
	}
	return b.C, nil
}

// BuildWith constructs a real container from the configuration with the given build options.
func BuildWith(cfg Config, bo BuildOpts) (b *Built, err error) {
	defer func() {
		if r := recover(); r != nil {
			b, err = nil, fmt.Errorf("build panic: %v", r)
		}
	}()
	c := restful.NewContainer()
	if cfg.Router == "jsr" {
		c.Router(restful.RouterJSR311{})
	} else {
		c.Router(restful.CurlyRouter{})
	}
	if bo.Observe >= 1 {
		c.Filter(observer("container-filter"))
	}
	b = &Built{C: c, BO: bo}
	for _, s := range cfg.Services {
		ws, sb := buildService(s, bo)
		c.Add(ws)
		b.WS = append(b.WS, ws)
		b.SB = append(b.SB, sb)
	}
	return b, nil
}

func BuildService(s Service) *restful.WebService {
	ws, _ := buildService(s, BuildOpts{})
	return ws
}

func buildService(s Service, bo BuildOpts) (*restful.WebService, *svcBuilders) {
	ws := new(restful.WebService)
	ws.Path(s.Root)
	if bo.Dynamic {
		ws.SetDynamicRoutes(true)
	}
	if bo.Observe >= 2 {
		ws.Filter(observer("service-filter"))
	}
	if len(s.Consumes) > 0 {
		ws.Consumes(s.Consumes...)
	}
	if len(s.Produces) > 0 {
		ws.Produces(s.Produces...)
	}
	sb := newSvcBuilders(bo, s.ID)
	for _, r := range s.Routes {
		ws.Route(sb.next(ws, s, r, bo))
	}
	return ws, sb
}

func RouteBuilder(ws *restful.WebService, s Service, r RouteDecl) *restful.RouteBuilder {
	return configure(ws.Method(r.Method), s, r, false)
}

// Reconfigure says declaration r on a builder that has built a route before (everything a declaration
// can say is set anew; r.Conds are the conditions to ADD to the ones b carries; To is the caller's).
func Reconfigure(b *restful.RouteBuilder, s Service, r RouteDecl) *restful.RouteBuilder {
	return configure(b, s, r, true)
}

// configure says declaration r on builder b. again: b has built a route before, so what r leaves
// unsaid is set to "nothing said" explicitly (r.Conds are then the conditions to add to the ones b has).
func configure(b *restful.RouteBuilder, s Service, r RouteDecl, again bool) *restful.RouteBuilder {
	sid, rid := s.ID, r.ID
	b.Method(r.Method).Path(r.Rel).Operation(OpName(sid, rid))
	if len(r.Consumes) > 0 || again {
		b.Consumes(r.Consumes...)
	}
	if len(r.Produces) > 0 || again {
		b.Produces(r.Produces...)
	}
	for _, ci := range r.Conds {
		b.If(condFn(ci))
	}
	if len(r.Noct) > 0 || again {
		b.AllowedMethodsWithoutContentType(r.Noct)
	}
	b.To(func(req *restful.Request, resp *restful.Response) {
		if cp, ok := req.Request.Context().Value(ctxKey{}).(*capture); ok {
			cp.invocations++
			cp.svc, cp.route = sid, rid
			cp.params = map[string]string{}
			for k, v := range req.PathParameters() {
				cp.params[k] = v
			}
			cp.selPath = req.SelectedRoutePath()
			cp.seen = append(cp.seen, "handler="+selectedOp(req))
		}
		if req.Request.Header.Get(FaultHeader) == "handler" {
			panic("verif: fault traffic, the route function panics")
		}
		resp.WriteHeader(200)
	})
	return b
}

// HTTPRequest builds the *http.Request by hand so that arbitrary path bytes get through.
func HTTPRequest(r Req) *http.Request {
	h := http.Header{}
	if r.CT != "" {
		h.Set("Content-Type", r.CT)
	}
	if r.Accept != "" {
		h.Set("Accept", r.Accept)
	}
	if r.CLHeader != "" {
		h.Set("Content-Length", r.CLHeader)
	}
	var sb strings.Builder
	for _, b := range r.Conds {
		if b {
			sb.WriteByte('1')
		} else {
			sb.WriteByte('0')
		}
	}
	if sb.Len() > 0 {
		h.Set(CondHeader, sb.String())
	}
	return &http.Request{Method: r.Method, URL: &url.URL{Path: r.Path}, Header: h, Body: http.NoBody,
		ContentLength: r.CL, Proto: "HTTP/1.1", ProtoMajor: 1, ProtoMinor: 1, Host: "example.test"}
}

// FaultHeader marks fault traffic: "handler" makes the route function panic after it has looked at its
// parameters, "cond" makes every If-condition of the table panic (user code that runs during route
// selection). The answers to fault traffic are not looked at; what it leaves behind is.
const FaultHeader = "X-Verif-Fault"

// Fault sends r as fault traffic of the given kind.
func Fault(c *restful.Container, r Req, kind string) {
	hr := HTTPRequest(r)
	hr.Header.Set(FaultHeader, kind)
	defer func() { recover() }()
	c.Dispatch(httptest.NewRecorder(), hr)
}

// StillUsable registers and removes a WebService on c (what needs the container's write lock) and
// reports whether that came back within two seconds.
func StillUsable(c *restful.Container) bool {
	done := make(chan struct{})
	go func() {
		defer close(done)
		defer func() { recover() }()
		ws := new(restful.WebService).Path("/verif-still-usable")
		c.Add(ws)
		c.Remove(ws)
	}()
	select {
	case <-done:
		return true
	case <-time.After(2 * time.Second):
		return false
	}
}

// Dispatch runs one request through Container.Dispatch and projects the outcome.
func Dispatch(c *restful.Container, r Req) (o Outcome) { return DispatchVia(c, r, false) }

// DispatchVia: through Container.Dispatch, or (viaServe) through Container.ServeHTTP — the http.Handler
// side: the container's ServeMux decides first (its own 404, its redirects for unclean paths).
func DispatchVia(c *restful.Container, r Req, viaServe bool) (o Outcome) {
	cp := &capture{}
	hr := HTTPRequest(r)
	hr = hr.WithContext(context.WithValue(context.Background(), ctxKey{}, cp))
	rec := httptest.NewRecorder()
	defer func() {
		if p := recover(); p != nil {
			o = Outcome{Kind: "panic", PanicVal: fmt.Sprint(p), Invocations: cp.invocations}
		}
	}()
	if viaServe {
		c.ServeHTTP(rec, hr)
	} else {
		c.Dispatch(rec, hr)
	}
	if cp.invocations > 0 {
		o = Outcome{Kind: "sel", Svc: cp.svc, Route: cp.route, Params: cp.params, SelPath: cp.selPath,
			Invocations: cp.invocations, Code: rec.Code}
		// every stage that looked must have seen the route whose function ran as the selected one
		for _, s := range cp.seen {
			if !strings.HasSuffix(s, "="+OpName(cp.svc, cp.route)) {
				o.SeenOther = append(o.SeenOther, s)
			}
		}
		return o
	}
	o = Outcome{Kind: "err", Code: rec.Code}
	if vs, ok := rec.Result().Header["Allow"]; ok { // the headers as sent, not the live map
		o.Allow = AllowSet(strings.Join(vs, ","))
	}
	return o
}
