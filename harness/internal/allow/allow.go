// Package allow is the correspondence stream of C17: every generated URL is probed with nine methods
// on a container without and with the OPTIONS filter; Allow headers are compared with routability.
package allow

import (
	"context"
	"fmt"
	"net/http/httptest"
	"sort"
	"strings"

	restful "github.com/emicklei/go-restful/v3"

	"verifharness/internal/drv"
	"verifharness/internal/report"
	"verifharness/internal/rng"
	"verifharness/internal/routing"
	"verifharness/internal/sx"
)

var Methods = []string{"GET", "POST", "PUT", "PATCH", "DELETE", "HEAD", "OPTIONS", "TRACE", "FOO", "PROPPATCH", "LOCK", "UNLOCK", "FOOBAR"}

type Probe struct {
	Method string
	Status int
	Allow  []string // nil unless a 405 carried an Allow header
	Ran    bool
}

// Preflight is one OPTIONS probe through the OPTIONS filter that carried Access-Control-Request-Method
// (what a browser sends before a cross-origin call): the filter's two lists and whether a route function ran.
type Preflight struct {
	ACRM  string
	Allow []string
	ACAM  []string
	Ran   bool
}

type Obs struct {
	Probes     []Probe
	OptAllow   []string
	OptACAM    []string
	OptRan     bool
	Untouched  bool
	Preflights []Preflight
}

func splitList(v string) []string {
	out := []string{}
	for _, p := range strings.Split(v, ",") {
		p = strings.TrimSpace(p)
		if p != "" {
			out = append(out, p)
		}
	}
	return out
}

func probe(c *restful.Container, rq routing.Req) (Probe, string) {
	o := routing.Dispatch(c, rq)
	p := Probe{Method: rq.Method, Status: o.Code, Ran: o.Kind == "sel"}
	if o.Kind == "sel" {
		p.Status = 200
	}
	if o.Kind == "panic" {
		p.Status = 500
	}
	if o.Code == 405 && o.Allow != nil {
		p.Allow = o.Allow
	}
	return p, o.Sx().String()
}

// World is a pair of twin containers (without / with the OPTIONS filter) holding the same table,
// whose WebService objects stay at hand so that the route table of a REGISTERED WebService can be
// changed afterwards (ws.Route after Container.Add; ws.RemoveRoute with dynamic routes).
type World struct {
	Plain, Filtered *restful.Container
	Cfg             routing.Config // the table the containers hold NOW
	ws              [2][]*restful.WebService
	hits            int // route filters run so far: every route carries one, it runs exactly when its route function is about to
}

// route builds the route with a route-level filter that counts: a request made a route function run
// iff the counter moved (routing.Dispatch sees that through the request context for requests it
// builds itself; the preflight probes carry headers routing.Req does not have).
func (w *World) route(ws *restful.WebService, s routing.Service, rd routing.RouteDecl) *restful.RouteBuilder {
	return routing.RouteBuilder(ws, s, rd).Filter(func(req *restful.Request, resp *restful.Response, chain *restful.FilterChain) {
		w.hits++
		chain.ProcessFilter(req, resp)
	})
}

// service is routing.BuildService with the counting filter on every route.
func (w *World) service(s routing.Service) *restful.WebService {
	ws := new(restful.WebService)
	ws.Path(s.Root)
	if len(s.Consumes) > 0 {
		ws.Consumes(s.Consumes...)
	}
	if len(s.Produces) > 0 {
		ws.Produces(s.Produces...)
	}
	for _, rd := range s.Routes {
		ws.Route(w.route(ws, s, rd))
	}
	return ws
}

// NewWorld builds the twins. Public API only. dynamic = SetDynamicRoutes(true) on every WebService.
func NewWorld(cfg routing.Config, dynamic bool) (w *World, err error) {
	defer func() {
		if r := recover(); r != nil {
			w, err = nil, fmt.Errorf("build panic: %v", r)
		}
	}()
	w = &World{Cfg: cloneCfg(cfg)}
	for k := 0; k < 2; k++ {
		c := restful.NewContainer()
		if cfg.Router == "jsr" {
			c.Router(restful.RouterJSR311{})
		} else {
			c.Router(restful.CurlyRouter{})
		}
		for _, s := range cfg.Services {
			ws := w.service(s)
			if dynamic {
				ws.SetDynamicRoutes(true)
			}
			c.Add(ws)
			w.ws[k] = append(w.ws[k], ws)
		}
		if k == 0 {
			w.Plain = c
		} else {
			c.Filter(c.OPTIONSFilter)
			w.Filtered = c
		}
	}
	return w, nil
}

func cloneCfg(c routing.Config) routing.Config {
	d := routing.Config{Router: c.Router, Services: append([]routing.Service{}, c.Services...)}
	for i := range d.Services {
		d.Services[i].Routes = append([]routing.RouteDecl{}, c.Services[i].Routes...)
	}
	return d
}

func (w *World) containers() []*restful.Container { return []*restful.Container{w.Plain, w.Filtered} }

// Traffic sends, to both containers, what fills anything a container might remember about a URL:
// a bare OPTIONS request, a preflight (OPTIONS naming a method in Access-Control-Request-Method) and a GET.
func (w *World) Traffic(base routing.Req) {
	for _, c := range w.containers() {
		for _, m := range []string{"OPTIONS", "OPTIONS+ACRM", "GET"} {
			rq := base
			rq.Method = strings.TrimSuffix(m, "+ACRM")
			hr := routing.HTTPRequest(rq)
			if m == "OPTIONS+ACRM" {
				hr.Header.Set("Origin", "http://verif.example")
				hr.Header.Set("Access-Control-Request-Method", "GET")
			}
			func() {
				defer func() { recover() }()
				c.Dispatch(httptest.NewRecorder(), hr)
			}()
		}
	}
}

// RemoveService removes the WebService at index si from both containers (Container.Remove).
func (w *World) RemoveService(si int) error {
	for k, c := range w.containers() {
		if err := c.Remove(w.ws[k][si]); err != nil {
			return err
		}
		w.ws[k] = append(w.ws[k][:si:si], w.ws[k][si+1:]...)
	}
	w.Cfg.Services = append(w.Cfg.Services[:si:si], w.Cfg.Services[si+1:]...)
	return nil
}

// AddRoute adds a route to the REGISTERED WebService at index si (WebService.Route after Container.Add:
// nothing passes through the container).
func (w *World) AddRoute(si int, rd routing.RouteDecl) (err error) {
	defer func() {
		if r := recover(); r != nil {
			err = fmt.Errorf("ws.Route panicked: %v", r)
		}
	}()
	for k := range w.containers() {
		ws := w.ws[k][si]
		ws.Route(w.route(ws, w.Cfg.Services[si], rd))
	}
	w.Cfg.Services[si].Routes = append(w.Cfg.Services[si].Routes, rd)
	return nil
}

// RemoveRoute removes route k of the registered WebService at index si with WebService.RemoveRoute
// (needs dynamic routes). The library removes every route of that service with the same method and
// full path; which those are is read off the exported Route values before the call.
func (w *World) RemoveRoute(si, k int) error {
	var gone []bool
	for c := range w.containers() {
		ws := w.ws[c][si]
		before := ws.Routes()
		if len(before) != len(w.Cfg.Services[si].Routes) || k >= len(before) {
			return fmt.Errorf("the WebService holds %d routes, the harness thinks %d", len(before), len(w.Cfg.Services[si].Routes))
		}
		gone = make([]bool, len(before))
		for j, rt := range before {
			gone[j] = rt.Method == before[k].Method && rt.Path == before[k].Path
		}
		if err := ws.RemoveRoute(before[k].Path, before[k].Method); err != nil {
			return err
		}
	}
	keep := []routing.RouteDecl{}
	for j, rd := range w.Cfg.Services[si].Routes {
		if !gone[j] {
			keep = append(keep, rd)
		}
	}
	w.Cfg.Services[si].Routes = keep
	return nil
}

// junkACRM: values of Access-Control-Request-Method that name no method of the table.
var junkACRM = []string{"", " ", "GET,PUT", "*", "x y", "BREW", "GET ", "options"}

func pathHash(p string) int {
	h := uint32(2166136261)
	for i := 0; i < len(p); i++ {
		h = (h ^ uint32(p[i])) * 16777619
	}
	return int(h >> 4)
}

// acrmFor chooses the requested methods of the preflight probes for one URL from what the probes of
// the container WITHOUT the filter found: the first routable method, the last routable method in
// lower case, one method that is not routable there, one junk value (the latter two rotate with the URL).
func acrmFor(path string, probes []Probe) []string {
	var routable, not []string
	for _, p := range probes {
		if p.Status != 404 && p.Status != 405 {
			routable = append(routable, p.Method)
		} else if p.Method != "OPTIONS" {
			not = append(not, p.Method)
		}
	}
	h := pathHash(path)
	var out []string
	if len(routable) > 0 {
		out = append(out, routable[0], strings.ToLower(routable[len(routable)-1]))
		if len(routable) > 2 {
			out = append(out, routable[1+h%(len(routable)-2)])
		}
	}
	if len(not) > 0 {
		out = append(out, not[h%len(not)])
	}
	return append(out, junkACRM[h%len(junkACRM)])
}

// Observe probes one URL on twin containers (without / with the OPTIONS filter).
func Observe(cfg routing.Config, base routing.Req) (*Obs, error) {
	w, err := NewWorld(cfg, false)
	if err != nil {
		return nil, err
	}
	return w.ObserveAt(base), nil
}

// ObserveAfterRemove: the twin containers are built with `extra` registered last, answer OPTIONS
// and GET for the URL once, and then Remove that service again; the observation that follows must be
// the one of containers that never held it.
func ObserveAfterRemove(cfg routing.Config, extra routing.Service, base routing.Req) (*Obs, error) {
	full := cfg
	full.Services = append(append([]routing.Service{}, cfg.Services...), extra)
	w, err := NewWorld(full, false)
	if err != nil {
		return nil, err
	}
	w.Traffic(base)
	if err := w.RemoveService(len(full.Services) - 1); err != nil {
		return nil, err
	}
	return w.ObserveAt(base), nil
}

// optionsThrough sends one OPTIONS request (optionally a preflight naming acrm) to the container with
// the filter and decodes the two lists from the headers as sent.
func (w *World) optionsThrough(rq routing.Req, preflight bool, acrm string) (allow, acam []string, ran bool) {
	hr := routing.HTTPRequest(rq).WithContext(context.Background())
	if preflight {
		hr.Header.Set("Origin", "http://verif.example")
		hr.Header["Access-Control-Request-Method"] = []string{acrm}
	}
	rec := httptest.NewRecorder()
	before := w.hits
	func() {
		defer func() { recover() }()
		w.Filtered.Dispatch(rec, hr)
	}()
	sent := rec.Result().Header // the headers as sent, not the live map
	return splitList(strings.Join(sent["Allow"], ",")), splitList(strings.Join(sent["Access-Control-Allow-Methods"], ",")), w.hits > before
}

// ObserveAt probes one URL on the twins as they are now.
func (w *World) ObserveAt(base routing.Req) *Obs {
	o := &Obs{Untouched: true}
	for _, m := range Methods {
		rq := base
		rq.Method = m
		p, canon := probe(w.Plain, rq)
		o.Probes = append(o.Probes, p)
		if m == "OPTIONS" {
			o.OptAllow, o.OptACAM, o.OptRan = w.optionsThrough(rq, false, "")
			continue
		}
		_, canon2 := probe(w.Filtered, rq)
		if canon != canon2 {
			o.Untouched = false
		}
	}
	// OPTIONS probes that carry Access-Control-Request-Method (browser preflights)
	rq := base
	rq.Method = "OPTIONS"
	for _, a := range acrmFor(base.Path, o.Probes) {
		pf := Preflight{ACRM: a}
		pf.Allow, pf.ACAM, pf.Ran = w.optionsThrough(rq, true, a)
		o.Preflights = append(o.Preflights, pf)
	}
	return o
}

func (o *Obs) Sx() *sx.Node {
	ps := sx.K("probes")
	for _, p := range o.Probes {
		al := sx.A("-")
		if p.Allow != nil {
			al = sx.Hs("allow", p.Allow)
		}
		ps.List = append(ps.List, sx.K("p", sx.H(p.Method), sx.N(p.Status), al))
	}
	return sx.K("obs", ps, sx.Hs("optallow", o.OptAllow), sx.Hs("acam", o.OptACAM), sx.B(o.OptRan), sx.B(o.Untouched))
}

// PfSx renders the preflight probes for the driver.
func (o *Obs) PfSx() *sx.Node {
	n := sx.K("preflights")
	for _, p := range o.Preflights {
		n.List = append(n.List, sx.K("pf", sx.H(p.ACRM), sx.Hs("allow", p.Allow), sx.Hs("acam", p.ACAM), sx.B(p.Ran)))
	}
	return n
}

func sortedJoin(xs []string) string {
	a := append([]string{}, xs...)
	sort.Strings(a)
	return strings.Join(a, ",")
}

// canonSets renders an observation with every list as a SET (what C17 speaks about): used to compare
// containers with a past with fresh ones.
func canonSets(o *Obs) string {
	set := func(xs []string) string {
		seen, out := map[string]bool{}, []string{}
		for _, x := range xs {
			if !seen[x] {
				seen[x] = true
				out = append(out, x)
			}
		}
		return sortedJoin(out)
	}
	var sb strings.Builder
	for _, p := range o.Probes {
		al := "-"
		if p.Allow != nil {
			al = set(p.Allow)
		}
		fmt.Fprintf(&sb, "%s=%d[%s] ", p.Method, p.Status, al)
	}
	fmt.Fprintf(&sb, "| options: allow{%s} acam{%s} ran=%v untouched=%v | preflights:", set(o.OptAllow), set(o.OptACAM), o.OptRan, o.Untouched)
	for _, p := range o.Preflights {
		fmt.Fprintf(&sb, " %q→allow{%s} acam{%s} ran=%v", p.ACRM, set(p.Allow), set(p.ACAM), p.Ran)
	}
	return sb.String()
}

// canonReal: statuses and Allow sets of the probes, the Allow list of the OPTIONS filter.
func canonReal(o *Obs) string {
	var sb strings.Builder
	for _, p := range o.Probes {
		al := "-"
		if p.Allow != nil {
			al = sortedJoin(p.Allow)
		}
		fmt.Fprintf(&sb, "%s=%d[%s] ", p.Method, p.Status, al)
	}
	return sb.String() + "| options: " + sortedJoin(o.OptAllow)
}

// canonRealPf adds the filter's Access-Control-Allow-Methods set and the answers to the preflight probes.
func canonRealPf(o *Obs) string {
	var sb strings.Builder
	sb.WriteString(canonReal(o) + " acam: " + sortedJoin(o.OptACAM) + " | preflights:")
	for _, p := range o.Preflights {
		fmt.Fprintf(&sb, " %q→allow[%s] acam[%s] ran=%v", p.ACRM, sortedJoin(p.Allow), sortedJoin(p.ACAM), p.Ran)
	}
	return sb.String()
}

func canonModel(n *sx.Node) string {
	var sb strings.Builder
	for _, p := range n.Find("probes").Args() {
		a := p.Args()
		al := "-"
		if a[2].IsL {
			names := []string{}
			for _, x := range a[2].Args() {
				names = append(names, x.Str())
			}
			al = strings.Join(routing.AllowSet(strings.Join(names, ",")), ",")
		}
		fmt.Fprintf(&sb, "%s=%d[%s] ", a[0].Str(), a[1].Int(), al)
	}
	comp := []string{}
	if c := n.Find("computed"); c != nil {
		for _, x := range c.Args() {
			comp = append(comp, x.Str())
		}
	}
	return sb.String() + "| options: " + sortedJoin(comp)
}

// canonModelPf: the model's side of canonRealPf (the filter model puts the computed list into both
// headers; its preflight answers are Spec.modelPreflight).
func canonModelPf(n *sx.Node) string {
	comp := []string{}
	if c := n.Find("computed"); c != nil {
		for _, x := range c.Args() {
			comp = append(comp, x.Str())
		}
	}
	var sb strings.Builder
	sb.WriteString(canonModel(n) + " acam: " + sortedJoin(comp) + " | preflights:")
	if pfs := n.Find("preflights"); pfs != nil {
		for _, p := range pfs.Args() {
			a := p.Args()
			strs := func(x *sx.Node) string {
				var out []string
				for _, y := range x.Args() {
					out = append(out, y.Str())
				}
				return sortedJoin(out)
			}
			fmt.Fprintf(&sb, " %q→allow[%s] acam[%s] ran=%v", a[0].Str(), strs(a[1]), strs(a[2]), a[3].Atom == "1")
		}
	}
	return sb.String()
}

// Check runs the stream for one router.
func Check(run *report.Run, router string, nCfg, perCfg int) error {
	return check(run, router, nCfg, perCfg, false)
}

// CheckHistory is Check on containers with a past. After traffic to the URL (bare OPTIONS, a
// preflight, GET) the registration state changes in one of three ways, then the URL is observed:
//   - service-removed: the last WebService of the generated table is registered and removed again
//     (Container.Remove);
//   - route-added: a route of the generated table is missing at first and is added with ws.Route to
//     its WebService AFTER Container.Add (the library supports that without dynamic routes);
//   - route-removed: a route of the generated table is removed with ws.RemoveRoute
//     (SetDynamicRoutes(true)) from its registered WebService.
//
// Route changes are chosen, three times out of four, among those that change what the OPTIONS filter
// of a fresh container lists for the URL. The model and the predicate are given the FINAL table, and
// the observation must equal the one of freshly built containers holding the final table.
func CheckHistory(run *report.Run, router string, nCfg, perCfg int) error {
	return check(run, router, nCfg, perCfg, true)
}

// freshAllow: what the OPTIONS filter of a fresh container holding cfg lists for the URL.
func freshAllow(cfg routing.Config, rq routing.Req) (string, bool) {
	w, err := NewWorld(cfg, false)
	if err != nil {
		return "", false
	}
	rq.Method = "OPTIONS"
	al, _, _ := w.optionsThrough(rq, false, "")
	return sortedJoin(al), true
}

// withoutRoute / routeLast: the table without route k of service si; with that route moved to the end
// of its service (where ws.Route puts it).
func withoutRoute(cfg routing.Config, si, k int) routing.Config {
	d := cloneCfg(cfg)
	rs := d.Services[si].Routes
	d.Services[si].Routes = append(rs[:k:k], rs[k+1:]...)
	return d
}

// tableString renders a table on one line.
func tableString(cfg routing.Config) string {
	var sb strings.Builder
	for i, s := range cfg.Services {
		if i > 0 {
			sb.WriteString(" ; ")
		}
		fmt.Fprintf(&sb, "ws[root %q]:", s.Root)
		for _, rd := range s.Routes {
			fmt.Fprintf(&sb, " %s %q", rd.Method, rd.Rel)
		}
	}
	return sb.String()
}

// routeChange is one change of the route table of a registered WebService.
type routeChange struct {
	Kind  string // "route-added" | "route-removed"
	Svc   int    // index of the WebService
	Index int    // route-removed: index of the route in the service's list
	Route routing.RouteDecl
}

func (ch routeChange) String(cfg routing.Config) string {
	if ch.Kind == "route-added" {
		return fmt.Sprintf("ws[root %q].Route(%s %q) after Container.Add", cfg.Services[ch.Svc].Root, ch.Route.Method, ch.Route.Rel)
	}
	return fmt.Sprintf("ws[root %q].RemoveRoute(path of %q, %s) (dynamic routes)", cfg.Services[ch.Svc].Root, ch.Route.Rel, ch.Route.Method)
}

// genRouteChange draws a route change for the generated table `full` and the URL of rq. It returns
// the table to start from and the change; the final table is whatever World.Cfg is afterwards.
func genRouteChange(r *rng.R, full routing.Config, rq routing.Req) (routing.Config, routeChange, bool) {
	type cand struct{ si, k int }
	var all []cand
	for si, s := range full.Services {
		for k := range s.Routes {
			all = append(all, cand{si, k})
		}
	}
	if len(all) == 0 {
		return full, routeChange{}, false
	}
	add := r.Chance(1, 2)
	pick := all[r.Intn(len(all))]
	if r.Chance(3, 4) {
		// a change that matters at this URL
		with, ok := freshAllow(full, rq)
		for _, i := range r.Perm(len(all)) {
			c := all[i]
			if without, ok2 := freshAllow(withoutRoute(full, c.si, c.k), rq); ok && ok2 && with != without {
				pick = c
				break
			}
		}
	}
	rd := full.Services[pick.si].Routes[pick.k]
	if add {
		return withoutRoute(full, pick.si, pick.k), routeChange{Kind: "route-added", Svc: pick.si, Route: rd}, true
	}
	return full, routeChange{Kind: "route-removed", Svc: pick.si, Index: pick.k, Route: rd}, true
}

// apply performs the change on both twins.
func (ch routeChange) apply(w *World) error {
	if ch.Kind == "route-added" {
		return w.AddRoute(ch.Svc, ch.Route)
	}
	return w.RemoveRoute(ch.Svc, ch.Index)
}

func check(run *report.Run, router string, nCfg, perCfg int, history bool) error {
	o := routing.FullOpts(router)
	o.AllowRe, o.AllowSuf, o.AllowWild, o.AllowVerb, o.RootVars, o.RootRe, o.Conds = false, false, false, false, false, false, false
	base := rng.New(run.Seed*999331 + uint64(len(router)))
	if history {
		base = rng.New(run.Seed*999331 + 77 + uint64(len(router)))
	}
	type cs struct {
		cfg   routing.Config
		req   routing.Req
		obs   *Obs
		fresh *Obs // history: freshly built twins holding the final table
		past  []string
		line  string
	}
	var cases []cs
	var lines []string
	for ci := 0; ci < nCfg; ci++ {
		r := base.Fork(uint64(ci))
		cfg := routing.GenConfig(r, o)
		// nested literal roots on purpose: extend a root of another service now and then
		if len(cfg.Services) > 1 && r.Chance(1, 2) {
			a, b := r.Intn(len(cfg.Services)), r.Intn(len(cfg.Services))
			if a != b && len(cfg.Services[a].RootToks) > 0 {
				sb := &cfg.Services[b]
				oldN := len(sb.RootToks)
				lit := r.Pick(routing.Lits)
				newToks := append(append([]routing.Tok{}, cfg.Services[a].RootToks...), routing.Tok{Kind: "lit", Lit: lit})
				newRoot := strings.TrimSuffix(cfg.Services[a].Root, "/") + "/" + lit
				dup := false
				for _, s := range cfg.Services {
					if strings.TrimSuffix(s.Root, "/") == newRoot {
						dup = true
					}
				}
				if !dup {
					sb.Root, sb.RootToks = newRoot, newToks
					for i := range sb.Routes {
						rel := sb.Routes[i].Toks[oldN:]
						sb.Routes[i].Toks = append(append([]routing.Tok{}, newToks...), rel...)
					}
				}
			}
		}
		if _, err := routing.Build(cfg); err != nil {
			routing.SkippedBuild++
			continue
		}
		full := cfg
		for qi := 0; qi < perCfg; qi++ {
			rq := routing.GenReq(r, o, full) // URLs of removed services and routes too
			c := cs{cfg: cfg, req: rq}
			var err error
			switch {
			case !history:
				c.obs, err = Observe(cfg, rq)
			case len(full.Services) >= 2 && r.Chance(1, 3):
				last := full.Services[len(full.Services)-1]
				c.cfg = routing.Config{Router: full.Router, Services: full.Services[:len(full.Services)-1]}
				c.obs, err = ObserveAfterRemove(c.cfg, last, rq)
				c.past = []string{fmt.Sprintf("Container.Add(ws[root %q]) last", last.Root), "OPTIONS, OPTIONS + Access-Control-Request-Method, GET for the URL", "Container.Remove of that WebService"}
				run.Count(router + ":observed-after-add-traffic-remove")
			default:
				start, ch, ok := genRouteChange(r, full, rq)
				if !ok {
					continue
				}
				w, err2 := NewWorld(start, ch.Kind == "route-removed" || r.Chance(1, 4))
				if err2 != nil {
					return err2
				}
				w.Traffic(rq)
				if err = ch.apply(w); err == nil {
					c.obs = w.ObserveAt(rq)
					c.cfg = w.Cfg
					c.past = []string{"table at first (router " + start.Router + "): " + tableString(start), "OPTIONS, OPTIONS + Access-Control-Request-Method, GET for the URL", ch.String(start)}
					run.Count(router + ":observed-after-traffic-" + ch.Kind)
				}
			}
			if err != nil {
				return err
			}
			if history {
				if c.fresh, err = Observe(c.cfg, rq); err != nil {
					return err
				}
				if sortedJoin(c.fresh.OptAllow) != func() string { s, _ := freshAllow(full, rq); return s }() {
					run.Count(router + ":history-changes-what-the-filter-lists-for-the-URL")
				}
			}
			c.line = sx.K("allow", sx.N(len(cases)), c.cfg.Sx(), rq.Sx(), sx.Hs("methods", Methods), c.obs.Sx(), c.obs.PfSx()).String()
			lines = append(lines, c.line)
			cases = append(cases, c)
		}
	}
	ans, err := drv.Run(lines)
	if err != nil {
		return err
	}
	bad, dis := 0, 0
	for i, c := range cases {
		n, err := sx.Parse(ans[i])
		if err != nil || n.Head() != "out" {
			return fmt.Errorf("driver rejected an allow line: %.200s", ans[i])
		}
		spec := map[string]string{}
		for _, s := range n.List {
			if s.Head() == "spec" {
				spec[s.Args()[0].Atom] = s.Args()[1].Atom
			}
		}
		run.Evaluations++
		run.TracesValidated += 2*len(Methods) + len(c.obs.Preflights)
		real, model := canonRealPf(c.obs), canonModelPf(n)
		nontrivial := false
		for _, p := range c.obs.Probes {
			run.Count(fmt.Sprintf("%s:status:%d", router, p.Status))
			if p.Status != 404 {
				nontrivial = true
			}
		}
		run.Count(fmt.Sprintf("%s:preflight-probes:%d", router, len(c.obs.Preflights)))
		if nontrivial {
			run.Distinct[router+"|"+c.line] = true
		}
		if len(run.Samples) < 3 && nontrivial && run.Evaluations%13 == 0 {
			run.Sample(map[string]interface{}{"input": routing.Human(&c.cfg, c.req), "observed": real})
		}
		human := routing.Human(&c.cfg, c.req)
		if c.past != nil {
			human = map[string]interface{}{"history_before_the_observation": c.past, "final_table_and_url": human}
		}
		known := ""
		switch {
		case spec["severalRootsMatch"] == "1":
			known = "F14"
		case router == "curly" && strings.Contains(c.req.Path, "\n"):
			known = "F16"
		case router == "curly" && spec["normalPath"] == "0":
			known = "F15"
		}
		// containers with a past answer like fresh ones (model-free oracle; no known class excuses a difference)
		if c.fresh != nil {
			if f, h := canonSets(c.fresh), canonSets(c.obs); f != h {
				if bad < 3 {
					bad++
					run.AddViolation(report.Violation{Kind: "counterexample", What: "C17: after traffic to the URL and a change of the registration state (see history), the statuses / Allow sets / method sets listed by the OPTIONS filter differ from those of freshly built containers holding the same final table (for which the sets are the routable methods, or the case lies in a known class)",
						Case: []string{c.line}, Human: human, Real: h, Model: "fresh containers: " + f})
				}
				continue
			}
		}
		if spec["C17"] != "1" {
			if known != "" && real == model {
				run.KnownHits[known]++
			} else if bad < 3 {
				bad++
				what := "the real Allow headers falsify Spec.c17HoldsAll (Allow of a 405 / of the OPTIONS filter ≠ the methods not answered 404 or 405, or the filter ran a route function or changed another method)"
				if spec["C17bare"] == "1" {
					what = "the answer of the OPTIONS filter to an OPTIONS request that carries Access-Control-Request-Method falsifies Spec.c17HoldsAll (its Allow or Access-Control-Allow-Methods list ≠ the methods not answered 404 or 405, or a route function ran)"
				}
				run.AddViolation(report.Violation{Kind: "counterexample", What: what,
					Case: []string{c.line}, Human: human, Real: real, Model: model})
			}
			continue
		}
		if real != model && known == "" && dis < 3 {
			dis++
			run.DisagreementsChecked++
			run.AddViolation(report.Violation{Kind: "correspondence", NoInput: true, What: "model and implementation disagree on statuses / Allow sets / computed methods / preflight answers of the C17 stream (" + router + "); the property held on the real observation",
				Theorem: "correspondence stream allow-" + router, Case: []string{c.line}, Human: human, Real: real, Model: model})
		}
	}
	run.Extra["skipped_tables_F11"] = routing.SkippedBuild
	return nil
}

// CheckSlash (C14): the OPTIONS filter's Allow / Access-Control-Allow-Methods and the statuses and
// Allow sets of every probed method are the same for p and for p/ — on freshly built containers, and
// (every other pair) on ONE pair of containers with a past: traffic to only one of the two forms, then
// a route added to / removed from a registered WebService, then both forms are observed.
func CheckSlash(run *report.Run, router string, nCfg, perCfg int) error {
	o := routing.FullOpts(router)
	o.AllowRe, o.AllowSuf, o.AllowWild, o.AllowVerb, o.RootVars, o.RootRe, o.Conds = false, false, false, false, false, false, false
	base := rng.New(run.Seed*999331 + 131 + uint64(len(router)))
	bad := 0
	for ci := 0; ci < nCfg; ci++ {
		r := base.Fork(uint64(ci))
		cfg := routing.GenConfig(r, o)
		if _, err := routing.Build(cfg); err != nil {
			routing.SkippedBuild++
			continue
		}
		for qi := 0; qi < perCfg; qi++ {
			rq := routing.GenReq(r, o, cfg)
			if strings.Trim(rq.Path, "/") == "" || strings.HasSuffix(rq.Path, "/") || strings.Contains(rq.Path, "//") || !strings.HasPrefix(rq.Path, "/") {
				continue
			}
			rq2 := rq
			rq2.Path += "/"
			var a, b *Obs
			var err error
			human := map[string]interface{}{"table": routing.Human(&cfg, rq), "p": rq.Path, "p/": rq2.Path}
			if qi%2 == 1 {
				// one pair of containers with a past
				if start, ch, ok := genRouteChange(r, cfg, rq); ok {
					w, err2 := NewWorld(start, ch.Kind == "route-removed" || r.Chance(1, 4))
					if err2 != nil {
						return err2
					}
					first := rq
					if r.Chance(1, 2) {
						first = rq2
					}
					w.Traffic(first)
					if err = ch.apply(w); err != nil {
						return err
					}
					a, b = w.ObserveAt(rq), w.ObserveAt(rq2)
					human = map[string]interface{}{"history_before_the_observation": []string{"table at first (router " + start.Router + "): " + tableString(start),
						fmt.Sprintf("OPTIONS, OPTIONS + Access-Control-Request-Method, GET for %q only", first.Path), ch.String(start), "then p and p/ are observed on the same containers"},
						"final_table": routing.Human(&w.Cfg, rq), "p": rq.Path, "p/": rq2.Path}
					run.Count(router + ":slash-pairs-after-traffic-to-one-form-and-" + ch.Kind)
				}
			}
			if a == nil {
				if a, err = Observe(cfg, rq); err != nil {
					return err
				}
				if b, err = Observe(cfg, rq2); err != nil {
					return err
				}
			}
			run.Evaluations++
			run.TracesValidated += 4 * len(Methods)
			ca, cb := canonReal(a)+" acam: "+sortedJoin(a.OptACAM), canonReal(b)+" acam: "+sortedJoin(b.OptACAM)
			if len(a.OptAllow) > 0 {
				run.Distinct[router+"|slash|"+cfg.Sx().String()+rq.Path] = true
				run.Count(router + ":options-allow-nonempty")
			}
			if ca != cb && bad < 3 {
				bad++
				run.AddViolation(report.Violation{Kind: "counterexample", What: "C14: the Allow headers (405 answers, OPTIONS filter) or statuses differ between p and p/",
					Human: human, Real: ca, Model: cb})
			}
		}
	}
	return nil
}

// WitnessF20: root /a with route GET /{t:*} under CurlyRouter: the OPTIONS filter lists nothing for /a and
// GET for /a/ (and GET /a/ is a 404).
func WitnessF20() bool {
	cfg := routing.Config{Router: "curly", Services: []routing.Service{{ID: 0, Root: "/a", Routes: []routing.RouteDecl{{ID: 0, Method: "GET", Rel: "/{t:*}"}}}}}
	a, err := Observe(cfg, routing.Req{Path: "/a"})
	if err != nil {
		return false
	}
	b, err := Observe(cfg, routing.Req{Path: "/a/"})
	if err != nil {
		return false
	}
	get404 := false
	for _, p := range b.Probes {
		if p.Method == "GET" && p.Status == 404 {
			get404 = true
		}
	}
	return len(a.OptAllow) == 0 && len(b.OptAllow) == 1 && b.OptAllow[0] == "GET" && get404
}

// WitnessF14: nested literal roots: OPTIONS lists a method that is answered 405.
func WitnessF14() bool {
	a := routing.Service{ID: 0, Root: "/a", Routes: []routing.RouteDecl{{ID: 0, Method: "PUT", Rel: "/{p}/{q}"}}}
	b := routing.Service{ID: 1, Root: "/a/b", Routes: []routing.RouteDecl{{ID: 1, Method: "GET", Rel: "/{x}"}}}
	o, err := Observe(routing.Config{Router: "curly", Services: []routing.Service{a, b}}, routing.Req{Path: "/a/b/x"})
	if err != nil {
		return false
	}
	listed := false
	for _, m := range o.OptAllow {
		if m == "PUT" {
			listed = true
		}
	}
	for _, p := range o.Probes {
		if p.Method == "PUT" && p.Status == 405 && listed {
			return true
		}
	}
	return false
}
