// Package allow is the correspondence stream of C17: every generated URL is probed with nine methods
// on a container without and with the OPTIONS filter; Allow headers are compared with routability.
package allow

import (
	"context"
	"fmt"
	"net/http/httptest"
	"sort"
	"strings"

	restful "github.com/emicklei/go-restful/v3"

	"verifharness/internal/drv"
	"verifharness/internal/report"
	"verifharness/internal/rng"
	"verifharness/internal/routing"
	"verifharness/internal/sx"
)

var Methods = []string{"GET", "POST", "PUT", "PATCH", "DELETE", "HEAD", "OPTIONS", "TRACE", "FOO", "PROPPATCH", "LOCK", "UNLOCK", "FOOBAR"}

type Probe struct {
	Method string
	Status int
	Allow  []string // nil unless a 405 carried an Allow header
	Ran    bool
}

type Obs struct {
	Probes    []Probe
	OptAllow  []string
	OptACAM   []string
	OptRan    bool
	Untouched bool
}

func splitList(v string) []string {
	out := []string{}
	for _, p := range strings.Split(v, ",") {
		p = strings.TrimSpace(p)
		if p != "" {
			out = append(out, p)
		}
	}
	return out
}

func probe(c *restful.Container, rq routing.Req) (Probe, string) {
	o := routing.Dispatch(c, rq)
	p := Probe{Method: rq.Method, Status: o.Code, Ran: o.Kind == "sel"}
	if o.Kind == "sel" {
		p.Status = 200
	}
	if o.Kind == "panic" {
		p.Status = 500
	}
	if o.Code == 405 && o.Allow != nil {
		p.Allow = o.Allow
	}
	return p, o.Sx().String()
}

// Observe probes one URL on twin containers (without / with the OPTIONS filter).
func Observe(cfg routing.Config, base routing.Req) (*Obs, error) {
	return observe(cfg, nil, base)
}

// ObserveAfterRemove: the twin containers are built with `extra` registered last, answer OPTIONS
// and GET for the URL once, and then Remove that service again; the observation that follows must be
// the one of containers that never held it.
func ObserveAfterRemove(cfg routing.Config, extra routing.Service, base routing.Req) (*Obs, error) {
	return observe(cfg, &extra, base)
}

func observe(cfg routing.Config, extra *routing.Service, base routing.Req) (*Obs, error) {
	full := cfg
	if extra != nil {
		full.Services = append(append([]routing.Service{}, cfg.Services...), *extra)
	}
	plain, err := routing.Build(full)
	if err != nil {
		return nil, err
	}
	filtered, err := routing.Build(full)
	if err != nil {
		return nil, err
	}
	filtered.Filter(filtered.OPTIONSFilter)
	if extra != nil {
		for _, c := range []*restful.Container{plain, filtered} {
			for _, m := range []string{"OPTIONS", "GET"} {
				rq := base
				rq.Method = m
				func() {
					defer func() { recover() }()
					c.Dispatch(httptest.NewRecorder(), routing.HTTPRequest(rq))
				}()
			}
			var victim *restful.WebService
			for _, ws := range c.RegisteredWebServices() {
				victim = ws // registered last
			}
			if err := c.Remove(victim); err != nil {
				return nil, err
			}
		}
	}
	o := &Obs{Untouched: true}
	for _, m := range Methods {
		rq := base
		rq.Method = m
		p, canon := probe(plain, rq)
		o.Probes = append(o.Probes, p)
		if m == "OPTIONS" {
			hr := routing.HTTPRequest(rq)
			hr = hr.WithContext(context.Background())
			rec := httptest.NewRecorder()
			ran := false
			func() {
				defer func() { recover() }()
				out := routing.Dispatch(filtered, rq)
				ran = out.Kind == "sel"
			}()
			filtered.Dispatch(rec, hr)
			sent := rec.Result().Header // the headers as sent, not the live map
			o.OptAllow = splitList(strings.Join(sent["Allow"], ","))
			o.OptACAM = splitList(strings.Join(sent["Access-Control-Allow-Methods"], ","))
			o.OptRan = ran
			continue
		}
		_, canon2 := probe(filtered, rq)
		if canon != canon2 {
			o.Untouched = false
		}
	}
	return o, nil
}

func (o *Obs) Sx() *sx.Node {
	ps := sx.K("probes")
	for _, p := range o.Probes {
		al := sx.A("-")
		if p.Allow != nil {
			al = sx.Hs("allow", p.Allow)
		}
		ps.List = append(ps.List, sx.K("p", sx.H(p.Method), sx.N(p.Status), al))
	}
	return sx.K("obs", ps, sx.Hs("optallow", o.OptAllow), sx.Hs("acam", o.OptACAM), sx.B(o.OptRan), sx.B(o.Untouched))
}

func canonReal(o *Obs) string {
	var sb strings.Builder
	for _, p := range o.Probes {
		al := "-"
		if p.Allow != nil {
			a := append([]string{}, p.Allow...)
			sort.Strings(a)
			al = strings.Join(a, ",")
		}
		fmt.Fprintf(&sb, "%s=%d[%s] ", p.Method, p.Status, al)
	}
	oa := append([]string{}, o.OptAllow...)
	sort.Strings(oa)
	return sb.String() + "| options: " + strings.Join(oa, ",")
}

func canonModel(n *sx.Node) string {
	var sb strings.Builder
	for _, p := range n.Find("probes").Args() {
		a := p.Args()
		al := "-"
		if a[2].IsL {
			names := []string{}
			for _, x := range a[2].Args() {
				names = append(names, x.Str())
			}
			al = strings.Join(routing.AllowSet(strings.Join(names, ",")), ",")
		}
		fmt.Fprintf(&sb, "%s=%d[%s] ", a[0].Str(), a[1].Int(), al)
	}
	comp := []string{}
	if c := n.Find("computed"); c != nil {
		for _, x := range c.Args() {
			comp = append(comp, x.Str())
		}
	}
	sort.Strings(comp)
	return sb.String() + "| options: " + strings.Join(comp, ",")
}

// Check runs the stream for one router.
func Check(run *report.Run, router string, nCfg, perCfg int) error {
	return check(run, router, nCfg, perCfg, false)
}

// CheckHistory is Check on containers with a past: the last WebService of the generated table is
// registered, sees traffic (OPTIONS included) and is removed again before the observation; the
// model and the predicate are given the table without it.
func CheckHistory(run *report.Run, router string, nCfg, perCfg int) error {
	return check(run, router, nCfg, perCfg, true)
}

func check(run *report.Run, router string, nCfg, perCfg int, history bool) error {
	o := routing.FullOpts(router)
	o.AllowRe, o.AllowSuf, o.AllowWild, o.AllowVerb, o.RootVars, o.RootRe, o.Conds = false, false, false, false, false, false, false
	base := rng.New(run.Seed*999331 + uint64(len(router)))
	if history {
		base = rng.New(run.Seed*999331 + 77 + uint64(len(router)))
	}
	type cs struct {
		cfg  routing.Config
		req  routing.Req
		obs  *Obs
		line string
	}
	var cases []cs
	var lines []string
	for ci := 0; ci < nCfg; ci++ {
		r := base.Fork(uint64(ci))
		cfg := routing.GenConfig(r, o)
		// nested literal roots on purpose: extend a root of another service now and then
		if len(cfg.Services) > 1 && r.Chance(1, 2) {
			a, b := r.Intn(len(cfg.Services)), r.Intn(len(cfg.Services))
			if a != b && len(cfg.Services[a].RootToks) > 0 {
				sb := &cfg.Services[b]
				oldN := len(sb.RootToks)
				lit := r.Pick(routing.Lits)
				newToks := append(append([]routing.Tok{}, cfg.Services[a].RootToks...), routing.Tok{Kind: "lit", Lit: lit})
				newRoot := strings.TrimSuffix(cfg.Services[a].Root, "/") + "/" + lit
				dup := false
				for _, s := range cfg.Services {
					if strings.TrimSuffix(s.Root, "/") == newRoot {
						dup = true
					}
				}
				if !dup {
					sb.Root, sb.RootToks = newRoot, newToks
					for i := range sb.Routes {
						rel := sb.Routes[i].Toks[oldN:]
						sb.Routes[i].Toks = append(append([]routing.Tok{}, newToks...), rel...)
					}
				}
			}
		}
		if _, err := routing.Build(cfg); err != nil {
			routing.SkippedBuild++
			continue
		}
		var removed *routing.Service
		full := cfg
		if history {
			if len(cfg.Services) < 2 {
				continue
			}
			last := cfg.Services[len(cfg.Services)-1]
			removed = &last
			cfg.Services = cfg.Services[:len(cfg.Services)-1]
		}
		for qi := 0; qi < perCfg; qi++ {
			rq := routing.GenReq(r, o, full) // URLs of the removed service too
			var obs *Obs
			var err error
			if removed != nil {
				obs, err = ObserveAfterRemove(cfg, *removed, rq)
				run.Count(router + ":observed-after-add-traffic-remove")
			} else {
				obs, err = Observe(cfg, rq)
			}
			if err != nil {
				return err
			}
			c := cs{cfg: cfg, req: rq, obs: obs}
			c.line = sx.K("allow", sx.N(len(cases)), cfg.Sx(), rq.Sx(), sx.Hs("methods", Methods), obs.Sx()).String()
			lines = append(lines, c.line)
			cases = append(cases, c)
		}
	}
	ans, err := drv.Run(lines)
	if err != nil {
		return err
	}
	bad, dis := 0, 0
	for i, c := range cases {
		n, err := sx.Parse(ans[i])
		if err != nil || n.Head() != "out" {
			return fmt.Errorf("driver rejected an allow line: %.200s", ans[i])
		}
		spec := map[string]string{}
		for _, s := range n.List {
			if s.Head() == "spec" {
				spec[s.Args()[0].Atom] = s.Args()[1].Atom
			}
		}
		run.Evaluations++
		run.TracesValidated += 2 * len(Methods)
		real, model := canonReal(c.obs), canonModel(n)
		nontrivial := false
		for _, p := range c.obs.Probes {
			run.Count(fmt.Sprintf("%s:status:%d", router, p.Status))
			if p.Status != 404 {
				nontrivial = true
			}
		}
		if nontrivial {
			run.Distinct[router+"|"+c.line] = true
		}
		if len(run.Samples) < 3 && nontrivial && run.Evaluations%13 == 0 {
			run.Sample(map[string]interface{}{"input": routing.Human(&c.cfg, c.req), "observed": real})
		}
		known := ""
		switch {
		case spec["severalRootsMatch"] == "1":
			known = "F14"
		case router == "curly" && strings.Contains(c.req.Path, "\n"):
			known = "F16"
		case router == "curly" && spec["normalPath"] == "0":
			known = "F15"
		}
		if spec["C17"] != "1" {
			if known != "" && real == model {
				run.KnownHits[known]++
			} else if bad < 3 {
				bad++
				run.AddViolation(report.Violation{Kind: "counterexample", What: "the real Allow headers falsify Spec.c17Holds (Allow of a 405 / of the OPTIONS filter ≠ the methods not answered 404 or 405, or the filter ran a route function or changed another method)",
					Case: []string{c.line}, Human: routing.Human(&c.cfg, c.req), Real: real, Model: model})
			}
			continue
		}
		if real != model && known == "" && dis < 3 {
			dis++
			run.DisagreementsChecked++
			run.AddViolation(report.Violation{Kind: "correspondence", NoInput: true, What: "model and implementation disagree on statuses / Allow sets / computed methods of the C17 stream (" + router + "); the property held on the real observation",
				Theorem: "correspondence stream allow-" + router, Case: []string{c.line}, Human: routing.Human(&c.cfg, c.req), Real: real, Model: model})
		}
	}
	run.Extra["skipped_tables_F11"] = routing.SkippedBuild
	return nil
}

// CheckSlash (C14): the OPTIONS filter's Allow / Access-Control-Allow-Methods and the statuses and
// Allow sets of every probed method are the same for p and for p/.
func CheckSlash(run *report.Run, router string, nCfg, perCfg int) error {
	o := routing.FullOpts(router)
	o.AllowRe, o.AllowSuf, o.AllowWild, o.AllowVerb, o.RootVars, o.RootRe, o.Conds = false, false, false, false, false, false, false
	base := rng.New(run.Seed*999331 + 131 + uint64(len(router)))
	bad := 0
	for ci := 0; ci < nCfg; ci++ {
		r := base.Fork(uint64(ci))
		cfg := routing.GenConfig(r, o)
		if _, err := routing.Build(cfg); err != nil {
			routing.SkippedBuild++
			continue
		}
		for qi := 0; qi < perCfg; qi++ {
			rq := routing.GenReq(r, o, cfg)
			if strings.Trim(rq.Path, "/") == "" || strings.HasSuffix(rq.Path, "/") || strings.Contains(rq.Path, "//") || !strings.HasPrefix(rq.Path, "/") {
				continue
			}
			rq2 := rq
			rq2.Path += "/"
			a, err := Observe(cfg, rq)
			if err != nil {
				return err
			}
			b, err := Observe(cfg, rq2)
			if err != nil {
				return err
			}
			run.Evaluations++
			run.TracesValidated += 4 * len(Methods)
			ca, cb := canonReal(a), canonReal(b)
			if len(a.OptAllow) > 0 {
				run.Distinct[router+"|slash|"+cfg.Sx().String()+rq.Path] = true
				run.Count(router + ":options-allow-nonempty")
			}
			if ca != cb && bad < 3 {
				bad++
				run.AddViolation(report.Violation{Kind: "counterexample", What: "C14: the Allow headers (405 answers, OPTIONS filter) or statuses differ between p and p/",
					Human: map[string]interface{}{"table": routing.Human(&cfg, rq), "p": rq.Path, "p/": rq2.Path}, Real: ca, Model: cb})
			}
		}
	}
	return nil
}

// WitnessF20: root /a with route GET /{t:*} under CurlyRouter: the OPTIONS filter lists nothing for /a and
// GET for /a/ (and GET /a/ is a 404).
func WitnessF20() bool {
	cfg := routing.Config{Router: "curly", Services: []routing.Service{{ID: 0, Root: "/a", Routes: []routing.RouteDecl{{ID: 0, Method: "GET", Rel: "/{t:*}"}}}}}
	a, err := Observe(cfg, routing.Req{Path: "/a"})
	if err != nil {
		return false
	}
	b, err := Observe(cfg, routing.Req{Path: "/a/"})
	if err != nil {
		return false
	}
	get404 := false
	for _, p := range b.Probes {
		if p.Method == "GET" && p.Status == 404 {
			get404 = true
		}
	}
	return len(a.OptAllow) == 0 && len(b.OptAllow) == 1 && b.OptAllow[0] == "GET" && get404
}

// WitnessF14: nested literal roots: OPTIONS lists a method that is answered 405.
func WitnessF14() bool {
	a := routing.Service{ID: 0, Root: "/a", Routes: []routing.RouteDecl{{ID: 0, Method: "PUT", Rel: "/{p}/{q}"}}}
	b := routing.Service{ID: 1, Root: "/a/b", Routes: []routing.RouteDecl{{ID: 1, Method: "GET", Rel: "/{x}"}}}
	o, err := Observe(routing.Config{Router: "curly", Services: []routing.Service{a, b}}, routing.Req{Path: "/a/b/x"})
	if err != nil {
		return false
	}
	listed := false
	for _, m := range o.OptAllow {
		if m == "PUT" {
			listed = true
		}
	}
	for _, p := range o.Probes {
		if p.Method == "PUT" && p.Status == 405 && listed {
			return true
		}
	}
	return false
}
