package response

import (
	"fmt"
	"strconv"
	"strings"

	"verifharness/internal/drv"
	"verifharness/internal/report"
	"verifharness/internal/rng"
	"verifharness/internal/sx"
)

// Case is one sequence with what the real code and the model said.
type Case struct {
	Seq    Seq
	Real   Real
	Line   string
	Answer string
	// projections the property constrains: per call (StatusCode(), ContentLength(), returned error —
	// which one: nil, the value of which Write beneath the Response, another) and the filter's final reading
	RealProj, ModelProj string
	// everything the model predicts (adds the underlying events and Error() != nil)
	RealFull, ModelFull string
	Spec                string // "1" | "0": Spec.c15Holds on the real history
	Disc, DCalls        bool
	MClean              bool // every entity of the sequence marshals (Spec.marshalClean)
	OutOfQ              int  // calls in which a Write failed AND the value does not marshal: outside the quantifier of "returns THAT error"
	Tags                []string
}

func (c *Case) Lines() []string { return []string{c.Line} }

// LineOf builds the protocol line of a case from what was observed.  Initial settings: the
// package default of pretty printing, and no Accept (a fresh Response finds no entity writer).
func LineOf(id int, s Seq, real Real) string {
	ops := sx.K("ops")
	for _, o := range s.Ops {
		ops.List = append(ops.List, o.Sx())
	}
	obs := sx.K("obs")
	for _, c := range real.Calls {
		n := sx.K("c", sx.N(c.Status), sx.N(c.Length), sx.A(c.Ret), sx.B(c.ErrSet))
		for _, e := range c.Events {
			n.List = append(n.List, e.Sx())
		}
		obs.List = append(obs.List, n)
	}
	fin := sx.K("final")
	if real.Final != nil {
		fin.List = append(fin.List, sx.N(real.Final[0]), sx.N(real.Final[1]))
	}
	return sx.K("resp", sx.N(id), sx.K("set", sx.B(real.Pretty), sx.A("n")), sx.K("coding", sx.B(s.Coding() != "")), ops, obs, fin).String()
}

func projOf(calls []*sx.Node, full bool) string {
	var sb strings.Builder
	for _, c := range calls {
		a := c.Args()
		if len(a) < 4 {
			sb.WriteString("(?)")
			continue
		}
		sb.WriteString("(" + a[0].Atom + " " + a[1].Atom + " " + a[2].Atom)
		if full {
			sb.WriteString(" " + a[3].Atom)
			for _, e := range a[4:] {
				sb.WriteString(" " + e.String())
			}
		}
		sb.WriteString(")")
	}
	return sb.String()
}

// fill parses the driver's answer into the case.
func (c *Case) fill(answer string) error {
	c.Answer = answer
	n, err := sx.Parse(answer)
	if err != nil {
		return fmt.Errorf("driver answer %q: %v", answer, err)
	}
	if n.Head() != "out" {
		return fmt.Errorf("driver rejected the case: %s\n%s", answer, c.Line)
	}
	mc := n.Find("calls")
	fin := n.Find("fin")
	if mc == nil || fin == nil || len(fin.Args()) != 2 {
		return fmt.Errorf("driver answer without calls/fin: %s", answer)
	}
	c.ModelProj, c.ModelFull = projOf(mc.Args(), false), projOf(mc.Args(), true)
	line, _ := sx.Parse(c.Line)
	ro := line.Find("obs")
	c.RealProj, c.RealFull = projOf(ro.Args(), false), projOf(ro.Args(), true)
	if c.Real.Final != nil {
		c.RealProj += fmt.Sprintf(" fin(%d %d)", c.Real.Final[0], c.Real.Final[1])
		c.ModelProj += " fin(" + fin.Args()[0].Atom + " " + fin.Args()[1].Atom + ")"
	}
	if len(c.Real.Calls) != len(c.Seq.Ops) {
		c.RealProj += fmt.Sprintf(" (only %d of %d calls returned)", len(c.Real.Calls), len(c.Seq.Ops))
	}
	for _, s := range n.List {
		switch s.Head() {
		case "spec":
			if s.Args()[0].Atom == "C15" {
				c.Spec = s.Args()[1].Atom
			}
		case "disc":
			c.Disc = s.Args()[0].Atom == "1"
		case "dcalls":
			c.DCalls = s.Args()[0].Atom == "1"
		case "mclean":
			c.MClean = s.Args()[0].Atom == "1"
		case "oq":
			c.OutOfQ, _ = strconv.Atoi(s.Args()[0].Atom)
		case "tag":
			c.Tags = nil
			for _, t := range s.Args() {
				c.Tags = append(c.Tags, t.Atom)
			}
		}
	}
	return nil
}

// One evaluates a single sequence on the real code and the driver.
func One(s Seq) (*Case, error) {
	c := &Case{Seq: s, Real: Execute(s)}
	c.Line = LineOf(0, s, c.Real)
	ans, err := drv.Run(c.Lines())
	if err != nil {
		return nil, err
	}
	return c, c.fill(ans[0])
}

// Batch executes the sequences and asks the driver about all of them in one go.
func Batch(seqs []Seq) ([]*Case, error) {
	cases := make([]*Case, len(seqs))
	lines := make([]string, len(seqs))
	for i, s := range seqs {
		c := &Case{Seq: s, Real: Execute(s)}
		c.Line = LineOf(i, s, c.Real)
		cases[i], lines[i] = c, c.Line
	}
	ans, err := drv.Run(lines)
	if err != nil {
		return nil, err
	}
	for i, c := range cases {
		if err := c.fill(ans[i]); err != nil {
			return nil, err
		}
	}
	return cases, nil
}

// how a case fails, "" when it does not
const (
	failSpec   = "spec"   // the real history falsifies Spec.c15Holds
	failSanity = "sanity" // the length is not what reached the network before coding / recorder and bottom disagree
	failPanic  = "panic"
	failDiffer = "differ" // model ≠ implementation on the projection
)

func (c *Case) failure() string {
	switch {
	case c.Real.Panic != "":
		return failPanic
	case c.Spec == "0":
		return failSpec
	case c.Real.Sanity != "":
		return failSanity
	case c.RealProj != c.ModelProj:
		return failDiffer
	}
	return ""
}

// Shrink drops calls, shortens payloads and simplifies the failure and the mode while `bad` holds.
func Shrink(s Seq, bad func(Seq) bool) Seq {
	budget := 800
	try := func(t Seq) bool {
		if budget <= 0 {
			return false
		}
		budget--
		return bad(t)
	}
	clone := func(s Seq) Seq {
		t := s
		t.Ops = append([]Op{}, s.Ops...)
		return t
	}
	changed := true
	for changed && budget > 0 {
		changed = false
		for i := 0; i < len(s.Ops); i++ {
			if s.Mode == "route-miss" && s.Handler == "default" {
				break // the one call is the container's, not the generator's
			}
			// dropping a call shifts the bottom writer's call indices: also try an earlier failure
			for shift := 0; shift <= 3; shift++ {
				if shift > 0 && s.Fail.From-shift < 0 {
					break
				}
				t := clone(s)
				t.Ops = append(t.Ops[:i], t.Ops[i+1:]...)
				if shift > 0 {
					t.Fail.From -= shift
				}
				if try(t) {
					s, changed = t, true
					i--
					break
				}
			}
		}
		for i := range s.Ops {
			for _, f := range []func(*Op) bool{
				func(o *Op) bool { ok := o.N > 0; o.N /= 2; return ok },
				func(o *Op) bool { ok := o.N > 0; o.N--; return ok },
				func(o *Op) bool { ok := o.Val.Size > 0; o.Val.Size /= 2; return ok },
				func(o *Op) bool { ok := o.Val.Size > 0; o.Val.Size--; return ok },
			} {
				t := clone(s)
				if f(&t.Ops[i]) && try(t) {
					s, changed = t, true
				}
			}
		}
		for _, f := range []func(*Seq) bool{
			func(t *Seq) bool {
				ok := t.Fail.From >= 0
				t.Fail = FailSpec{From: -1, HTTPLike: t.Fail.HTTPLike}
				return ok
			},
			func(t *Seq) bool { ok := t.Fail.HTTPLike; t.Fail.HTTPLike = false; return ok },
			func(t *Seq) bool { ok := t.Fail.Err != ""; t.Fail.Err = ""; return ok },
			func(t *Seq) bool { ok := t.Mode == "route-miss" && t.Miss != "404"; t.Miss = "404"; return ok },
			func(t *Seq) bool { ok := t.Mode == "route-miss" && t.JSR; t.JSR = false; return ok },
			func(t *Seq) bool { ok := t.Fail.From > 0; t.Fail.From--; return ok },
			func(t *Seq) bool { ok := t.Fail.Partial > 0; t.Fail.Partial /= 2; return ok },
			func(t *Seq) bool { ok := t.Fail.From >= 0 && !t.Fail.Transient; t.Fail.Transient = true; return ok },
			func(t *Seq) bool { ok := t.Mode != "direct"; t.Mode = "direct"; return ok },
		} {
			t := clone(s)
			if f(&t) && try(t) {
				s, changed = t, true
			}
		}
	}
	return s
}

func whatOf(kind string, c *Case) string {
	switch kind {
	case failSpec:
		return "the real history falsifies Spec.c15Holds (StatusCode()/ContentLength()/returned error do not match what the underlying writer received, accepted and returned)"
	case failSanity:
		return "cross-check between the Response, the recorder beneath it and the bottom writer failed: " + c.Real.Sanity
	case failPanic:
		return "the real code panicked: " + c.Real.Panic
	}
	return "model and implementation disagree on (StatusCode(), ContentLength(), which error was returned)"
}

// Stats is what a run measured besides the verdicts.
type Stats struct {
	AuxDiffers int
	AuxSample  string
}

// BoundaryCases are the cases at the edge of the error clause's quantifier, built deterministically:
// a value that does not marshal (BadTail) whose padding makes xml.Encoder flush its 4096-byte buffer
// while it writes the start tag of the unsupported field, with the bottom writer failing at exactly
// that Write — Encode then returns its own error, not the writer's (Facts.EXMask) — and, one byte of
// padding further, the ordinary case in which the same failing Write surfaces as itself.  The
// padding sizes are searched, not assumed (they depend on what the escaping does to the text).
func BoundaryCases() (seqs []Seq, masked int) {
	for size := 0; size <= 5000; size++ {
		v := Value{Kind: "badtail", Size: size}
		f := FactsOf(v)
		for i, m := range f.EXMask {
			if !m {
				continue
			}
			masked++
			for _, sz := range []int{size, size + 1} {
				for _, mode := range []string{"direct", "route"} {
					for _, kind := range []string{"wax", "whx", "wen"} {
						ops := []Op{{Kind: "pp", B: false}}
						if kind == "wen" {
							ops = append(ops, Op{Kind: "acc", Acc: "x", Mime: AcceptMimes["x"][0]})
						}
						ops = append(ops, Op{Kind: kind, Status: 200, Val: Value{Kind: "badtail", Size: sz}}, Op{Kind: "w", N: 5})
						seqs = append(seqs, Seq{Mode: mode, Stream: "boundary", Ops: ops, Fail: FailSpec{From: i, Partial: 17, Transient: true}})
					}
				}
			}
		}
	}
	return seqs, masked
}

// Check runs n sequences, compares, shrinks, reports.
func Check(run *report.Run, n int) error {
	base := rng.New(run.Seed*1000003 + 15)
	reported := map[string]int{}
	shown := map[string]bool{}
	var st Stats
	// the boundary of the quantifier first: these cases must agree with the model like any other, and
	// they must really be what they are built to be (a failing Write, another error returned)
	bseqs, masked := BoundaryCases()
	bcases, err := Batch(bseqs)
	if err != nil {
		return err
	}
	hit := 0
	for _, c := range bcases {
		account(run, c)
		for _, oc := range c.Real.Calls {
			for _, e := range oc.Events {
				if !e.Header && e.Failed && oc.Ret == "x" {
					hit++
				}
			}
		}
		if kind := c.failure(); kind != "" {
			run.Count("failing:" + kind)
			if reported[kind] < 2 {
				reported[kind]++
				reportFailure(run, c, kind, shown)
			}
		}
	}
	run.Extra["boundary_cases"] = map[string]int{"cases": len(bcases), "masked_write_positions_found": masked, "calls_returning_the_marshallers_error_after_a_failed_write": hit}
	if masked == 0 || hit == 0 {
		// the stream no longer visits the boundary (encoding/xml or the value recipe changed): say so
		run.Count("boundary:not-reproduced")
	}
	const batch = 5000
	for lo := 0; lo < n; lo += batch {
		hi := lo + batch
		if hi > n {
			hi = n
		}
		seqs := make([]Seq, 0, hi-lo)
		for i := lo; i < hi; i++ {
			seqs = append(seqs, GenSeq(base.Fork(uint64(i))))
		}
		cases, err := Batch(seqs)
		if err != nil {
			return err
		}
		for _, c := range cases {
			account(run, c)
			if c.Real.Panic == "" && c.RealProj == c.ModelProj && c.RealFull != c.ModelFull {
				st.AuxDiffers++
				if st.AuxSample == "" {
					st.AuxSample = "real " + c.RealFull + " model " + c.ModelFull
				}
			}
			kind := c.failure()
			if kind == "" {
				continue
			}
			run.Count("failing:" + kind)
			if reported[kind] >= 2 || len(shown) >= 3 {
				continue
			}
			reported[kind]++
			reportFailure(run, c, kind, shown)
		}
	}
	run.Extra["aux_differences_events_or_err_field"] = st.AuxDiffers
	if st.AuxSample != "" {
		run.Extra["aux_difference_sample"] = st.AuxSample
	}
	return nil
}

func account(run *report.Run, c *Case) {
	run.Evaluations++
	run.TracesValidated++
	run.Count("mode:" + c.Seq.Mode)
	run.Count("stream:" + c.Seq.Stream)
	if c.Seq.Coding() != "" {
		run.Count("coding:yes")
	} else {
		run.Count("coding:no")
	}
	run.Count("calls:" + strconv.Itoa(len(c.Seq.Ops)))
	for i, o := range c.Seq.Ops {
		run.Count("kind:" + o.Kind)
		if o.Kind == "hd" && strings.EqualFold(o.HName, "Content-Length") && o.Via != "del" && len(c.Real.Calls) == len(c.Seq.Ops) {
			// a declared length against what the Response had counted when it was declared and at the end
			d, err := strconv.Atoi(o.HValue)
			at, end := c.Real.Calls[i].Length, c.Real.Calls[len(c.Real.Calls)-1].Length
			switch {
			case err != nil:
				run.Count("declared-content-length:not-an-integer")
			case d > end:
				run.Count("declared-content-length:larger-than-all-that-is-written")
			case d == end && end == 0:
				run.Count("declared-content-length:zero,no-body")
			case d == end:
				run.Count("declared-content-length:equal-to-what-is-written")
			case d >= at:
				run.Count("declared-content-length:smaller-than-what-is-written,not-yet-reached-when-declared")
			default:
				run.Count("declared-content-length:smaller-than-what-was-already-written")
			}
		}
	}
	for _, t := range c.Tags {
		run.Count("branch:" + t)
	}
	if c.Seq.Fail.From < 0 {
		run.Count("fail-from:never")
	} else {
		run.Count("fail-from:" + strconv.Itoa(c.Seq.Fail.From))
		if c.Seq.Fail.Err == "" {
			run.Count("fail-error-value:private")
		} else {
			run.Count("fail-error-value:" + c.Seq.Fail.Err)
		}
	}
	if c.Seq.Fail.HTTPLike {
		refused := false
		for _, w := range c.Real.Bottom.Writes {
			refused = refused || (w.Failed && w.Accepted == 0 && !bodyAllowed(c.Real.Bottom.status))
		}
		if refused {
			run.Count("bottom-writer:net/http-like,body-refused-after-1xx/204/304")
		} else {
			run.Count("bottom-writer:net/http-like,no-body-refused")
		}
	}
	if c.Seq.Mode == "route-miss" {
		run.Count("route-miss:" + c.Seq.Miss)
		run.Count("route-miss-handler:" + c.Seq.Handler)
	}
	// position (index of the high-level call) at which the Response first saw a failing Write
	pos, events := -1, 0
	for i, oc := range c.Real.Calls {
		events += len(oc.Events)
		for _, e := range oc.Events {
			if !e.Header && e.Failed && pos < 0 {
				pos = i
			}
		}
	}
	if pos < 0 {
		run.Count("first-failing-call:none")
	} else {
		run.Count("first-failing-call:" + strconv.Itoa(pos))
	}
	if c.MClean {
		run.Count("marshal:every-entity-marshals")
	} else {
		run.Count("marshal:some-entity-has-an-error-of-its-own")
	}
	if c.OutOfQ > 0 {
		// a failing Write in a call whose value does not marshal: two errors compete, which one the
		// call returns is outside the quantifier of the error clause (the model still predicts it)
		run.Count("out-of-quantifier:failing-write-in-call-whose-value-does-not-marshal")
	}
	for _, oc := range c.Real.Calls {
		for _, e := range oc.Events {
			if !e.Header && e.Failed {
				switch {
				case oc.Ret == "x":
					run.Count("failing-call-returned:another-error")
				case oc.Ret == "0":
					run.Count("failing-call-returned:nil")
				case oc.Ret == strconv.Itoa(e.Err):
					run.Count("failing-call-returned:the-writers-error-value")
				default:
					run.Count("failing-call-returned:the-error-of-another-write")
				}
			}
		}
	}
	if c.DCalls {
		run.Count("discipline:obeyed")
	} else {
		run.Count("discipline:violated")
	}
	if c.Seq.Stream == "main" && !c.DCalls {
		run.Count("generator-bug:main-stream-sequence-violates-discipline")
	}
	if c.Disc != c.DCalls {
		run.Count("discipline:events-vs-calls-differ")
	}
	if events > 0 {
		i := strings.Index(c.Line, "(set ")
		run.Distinct[c.Line[i:]] = true
	}
	if len(run.Samples) < 5 && events > 2 && run.Evaluations%11 == 0 {
		run.Sample(map[string]interface{}{"input": c.Seq.Human(), "real": c.RealProj, "model": c.ModelProj, "spec_C15": c.Spec})
	}
}

func reportFailure(run *report.Run, c *Case, kind string, shown map[string]bool) {
	still := func(k string) func(Seq) bool {
		return func(t Seq) bool {
			o, err := One(t)
			return err == nil && o.failure() == k
		}
	}
	s := Shrink(c.Seq, still(kind))
	o, err := One(s)
	if err != nil || o.failure() != kind {
		o, s = c, c.Seq
	}
	if kind != failDiffer {
		if !shown[o.Line] { // different failing cases often shrink to the same minimal one
			shown[o.Line] = true
			run.AddViolation(report.Violation{Kind: "counterexample", What: whatOf(kind, o),
				Case: o.Lines(), Human: s.Human(), Model: o.ModelFull, Real: o.RealFull})
		}
		return
	}
	if shown[o.Line] {
		return
	}
	shown[o.Line] = true
	// model ≠ implementation: look near the shrunk case for an input on which the property itself fails
	run.DisagreementsChecked++
	r := rng.New(run.Seed ^ 0xc15c15)
	var near []Seq
	for i := 0; i < 2000; i++ {
		t := GenSeq(r.Fork(uint64(i)))
		if i%2 == 0 { // keep the disagreeing calls as a prefix or suffix
			if i%4 == 0 {
				t.Ops = append(append([]Op{}, s.Ops...), t.Ops...)
			} else {
				t.Ops = append(t.Ops, s.Ops...)
			}
			if len(t.Ops) > 14 {
				t.Ops = t.Ops[:14]
			}
		}
		if i%3 == 0 {
			t.Mode = s.Mode
		}
		near = append(near, t)
	}
	if cs, err := Batch(near); err == nil {
		for _, nc := range cs {
			if k := nc.failure(); k == failSpec || k == failSanity {
				reportFailure(run, nc, k, shown)
				return
			}
		}
	}
	run.AddViolation(report.Violation{Kind: "correspondence", NoInput: true,
		What:    whatOf(kind, o) + "; no input falsifying the property was found near it",
		Theorem: "correspondence stream response (projection of C15)",
		Case:    o.Lines(), Human: s.Human(), Model: o.ModelProj, Real: o.RealProj})
}
