package response

import (
	"encoding/json"
	"encoding/xml"
	"errors"
	"sync"

	restful "github.com/emicklei/go-restful/v3"
)

// Item is a marshalable struct (JSON and XML).
type Item struct {
	XMLName xml.Name `xml:"item" json:"-"`
	ID      int      `xml:"id,attr" json:"id"`
	Name    string   `xml:"name" json:"name"`
	Tags    []string `xml:"tags>tag" json:"tags"`
}

// BadTail marshals its padding first and then hits a field no marshaller supports: json fails
// before writing anything, the xml encoder may already have flushed full buffers.
type BadTail struct {
	Pad string
	C   chan int
}

const pattern = "abc <&> \"q\" é世 \\ \n\t0123456789 xyz/"

// text is a deterministic string of exactly n bytes (cut inside the pattern; json/xml escape or
// replace what needs it — the sizes are measured, not computed).
func text(n int) string {
	b := make([]byte, n)
	for i := range b {
		b[i] = pattern[i%len(pattern)]
	}
	return string(b)
}

func payload(n int) []byte { return []byte(text(n)) }

// Build makes the value.
func (v Value) Build() interface{} {
	switch v.Kind {
	case "nil":
		return nil
	case "str":
		return text(v.Size)
	case "item":
		return Item{ID: v.Size, Name: text(v.Size), Tags: []string{"a", text(v.Size % 17)}}
	case "map":
		return map[string]interface{}{"k": text(v.Size), "n": v.Size, "nested": map[string]interface{}{"b": true}}
	case "chan":
		return make(chan int)
	case "badtail":
		return BadTail{Pad: text(v.Size)}
	case "nilptr":
		return (*Item)(nil)
	case "svcerr":
		return restful.NewError(1, text(v.Size))
	case "int":
		return v.Size
	case "slice":
		n := v.Size / 64
		out := make([]Item, n)
		for i := range out {
			out[i] = Item{ID: i, Name: text(40)}
		}
		return out
	}
	return nil
}

// failFrom is a writer that fails from its k-th Write on, always with the same error value.
type failFrom struct {
	n, from int
	err     error
	failed  bool
}

func (f *failFrom) Write(p []byte) (int, error) {
	i := f.n
	f.n++
	if i >= f.from {
		f.failed = true
		return 0, f.err
	}
	return len(p), nil
}

type chunkRec struct{ chunks []int }

func (c *chunkRec) Write(p []byte) (int, error) {
	c.chunks = append(c.chunks, len(p))
	return len(p), nil
}

var (
	factsMu    sync.Mutex
	factsCache = map[Value]Facts{}
)

// FactsOf measures what encoding/json and encoding/xml do with the value: MarshalIndent with the
// indentation entity_accessors.go uses, and the Write calls of the two encoders on a writer that
// never fails.  This is the "abstract marshalling" of the model: standard-library behaviour,
// obtained without go-restful.
func FactsOf(v Value) Facts {
	factsMu.Lock()
	defer factsMu.Unlock()
	if f, ok := factsCache[v]; ok {
		return f
	}
	val := v.Build()
	f := Facts{PJ: -1, PX: -1}
	if val == nil {
		f.IsNil = true
		factsCache[v] = f
		return f
	}
	if out, err := json.MarshalIndent(val, "", " "); err == nil {
		f.PJ = len(out)
	}
	if out, err := xml.MarshalIndent(val, " ", " "); err == nil {
		f.PX = len(out)
	}
	rj := &chunkRec{}
	f.EJFail = json.NewEncoder(rj).Encode(val) != nil
	f.EJ = rj.chunks
	rx := &chunkRec{}
	f.EXFail = xml.NewEncoder(rx).Encode(val) != nil
	f.EX = rx.chunks
	if f.EXFail {
		// a value that does not marshal: which error does Encode return when its i-th Write fails?
		any := false
		mask := make([]bool, len(f.EX))
		for i := range f.EX {
			w := &failFrom{from: i, err: errors.New("shadow write failure")}
			err := xml.NewEncoder(w).Encode(val)
			mask[i] = w.failed && err != w.err
			any = any || mask[i]
		}
		if any {
			f.EXMask = mask
		}
	}
	if len(factsCache) > 20000 {
		factsCache = map[Value]Facts{}
	}
	factsCache[v] = f
	return f
}
