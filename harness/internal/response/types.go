// Package response is the correspondence stream of C15 (status and length bookkeeping of
// restful.Response): random sequences of the non-deprecated writing calls over a counting,
// optionally failing http.ResponseWriter, executed on the real code (directly and through a route
// with a trailing filter, with and without a CompressingResponseWriter underneath) and on the Lean
// model; the Lean predicate Spec.c15Holds is evaluated on what the real code did.
package response

import (
	"fmt"
	"strconv"

	"verifharness/internal/sx"
)

// Value is a recipe for an entity value; Build makes it deterministic.
type Value struct {
	Kind string // nil str item map chan badtail nilptr svcerr int slice
	Size int    // payload size the value is built around (0..5000)
}

// Facts is what the standard marshallers do with a value (measured by a shadow run of
// encoding/json and encoding/xml on a recording writer that never fails).
type Facts struct {
	IsNil  bool
	PJ, PX int // len(MarshalIndent) or -1 when it fails
	EJ, EX []int
	EJFail bool
	EXFail bool
	// EXMask[i]: when the i-th Write of xml.Encoder.Encode fails, Encode still runs into its own
	// marshalling error and returns that instead of the writer's (only measured when EXFail; nil = never)
	EXMask []bool
}

// Op is one call on the Response.
type Op struct {
	Kind   string // pp acc hd wh w wes we wse whe wen waj wax wj whj whx
	Status int
	N      int    // payload size of w / wes / we
	ErrNil bool   // we: err == nil
	B      bool   // pp
	Acc    string // acc: n j x
	Mime   string // acc: the Accept string that was set (one of several leading to the same accessor)
	Val    Value
	// hd: a change of the response's header map (the one the Response shares with the writer beneath
	// it): Via = set | add | addheader | raw | del, HName as spelled, HValue the declared value
	Via, HName, HValue string
}

// FailSpec tells the bottom writer when to fail, and with WHICH error value.
type FailSpec struct {
	From      int  // index of the first failing Write call on the bottom writer, -1 = never
	Partial   int  // bytes accepted by that call (clamped to what was offered)
	Transient bool // only that call fails
	// Err names the error VALUE a failing Write returns: "" = a fresh private value per failing
	// call; otherwise one of ErrValues (sentinels of net/http, io, net — the same value every time —
	// or a fresh error wrapping one of them): what a real connection hands up
	Err string
	// HTTPLike: the bottom writer refuses a body the way net/http's does — once the status it
	// received (first WriteHeader, 200 at the first Write) is one that does not allow a body (1xx,
	// 204, 304) every Write answers (0, http.ErrBodyNotAllowed); independent of From
	HTTPLike bool
}

// Seq is one case.
type Seq struct {
	Mode   string // direct | direct-gzip | direct-deflate | route | route-gzip | route-deflate | route-miss
	Stream string // main (generated to obey the discipline) | free
	Ops    []Op
	Fail   FailSpec
	// route-miss only: why route selection fails (404 | 405 | 406 | 415), and who then makes the
	// calls: "custom" = a ServiceErrorHandler installed with Container.ServiceErrorHandler performs
	// Ops on the Response it is given; "default" = the container's own handler (Ops is then the one
	// WriteErrorString it is measured to make, see MissFacts)
	Miss    string
	Handler string
	JSR     bool // route-miss only: RouterJSR311 instead of the default CurlyRouter
}

func (s Seq) Coding() string {
	switch s.Mode {
	case "direct-gzip", "route-gzip":
		return "gzip"
	case "direct-deflate", "route-deflate":
		return "deflate"
	}
	return ""
}

func (s Seq) Route() bool { return len(s.Mode) >= 5 && s.Mode[:5] == "route" }

// Event is a call received by the writer directly beneath the Response.
type Event struct {
	Header   bool
	Status   int
	Offered  int
	Accepted int
	Failed   bool
	Err      int // identity of the error value the Write returned: 0 = nil, equal tags = the same value
}

func (e Event) Sx() *sx.Node {
	if e.Header {
		return sx.K("h", sx.N(e.Status))
	}
	return sx.K("w", sx.N(e.Offered), sx.N(e.Accepted), sx.N(e.Err))
}

// Obs is what was observed after one call.
type Obs struct {
	Status int
	Length int
	RetErr bool
	// Ret names the error the call returned: "0" nil, "<tag>" the very value a Write beneath the
	// Response returned (the tag of that event), "x" anything else
	Ret    string
	ErrSet bool
	Events []Event
}

func entSx(f Facts) *sx.Node {
	if f.IsNil {
		return sx.A("nil")
	}
	on := func(n int) *sx.Node {
		if n < 0 {
			return sx.A("fail")
		}
		return sx.N(n)
	}
	ej := sx.K("ej", sx.B(f.EJFail))
	for _, c := range f.EJ {
		ej.List = append(ej.List, sx.N(c))
	}
	ex := sx.K("ex", sx.B(f.EXFail))
	for _, c := range f.EX {
		ex.List = append(ex.List, sx.N(c))
	}
	if len(f.EXMask) == 0 {
		return sx.K("v", on(f.PJ), on(f.PX), ej, ex)
	}
	exm := sx.K("exm")
	for _, m := range f.EXMask {
		exm.List = append(exm.List, sx.B(m))
	}
	return sx.K("v", on(f.PJ), on(f.PX), ej, ex, exm)
}

// Sx encodes the op for the driver (entity values as their marshalling facts).
func (o Op) Sx() *sx.Node {
	switch o.Kind {
	case "pp":
		return sx.K("pp", sx.B(o.B))
	case "acc":
		return sx.K("acc", sx.A(o.Acc))
	case "hd":
		return sx.K("hd", sx.A(o.Via), sx.H(o.HName), sx.H(o.HValue))
	case "wh":
		return sx.K("wh", sx.N(o.Status))
	case "w":
		return sx.K("w", sx.N(o.N))
	case "wes":
		return sx.K("wes", sx.N(o.Status), sx.N(o.N))
	case "we":
		return sx.K("we", sx.N(o.Status), sx.B(o.ErrNil), sx.N(o.N))
	case "wse", "whe", "whj", "whx":
		return sx.K(o.Kind, sx.N(o.Status), entSx(FactsOf(o.Val)))
	default: // wen waj wax wj
		return sx.K(o.Kind, entSx(FactsOf(o.Val)))
	}
}

// Human renders the op as the Go call it stands for.
func (o Op) Human() string {
	v := fmt.Sprintf("<%s value built around %d bytes>", o.Val.Kind, o.Val.Size)
	if o.Val.Kind == "nil" {
		v = "nil"
	}
	switch o.Kind {
	case "pp":
		return "resp.PrettyPrint(" + strconv.FormatBool(o.B) + ")"
	case "acc":
		return fmt.Sprintf("resp.SetRequestAccepts(%q)", o.Mime)
	case "hd":
		switch o.Via {
		case "add":
			return fmt.Sprintf("resp.Header().Add(%q, %q)", o.HName, o.HValue)
		case "addheader":
			return fmt.Sprintf("resp.AddHeader(%q, %q)", o.HName, o.HValue)
		case "raw":
			return fmt.Sprintf("resp.Header()[%q] = []string{%q}", o.HName, o.HValue)
		case "del":
			return fmt.Sprintf("resp.Header().Del(%q)", o.HName)
		}
		return fmt.Sprintf("resp.Header().Set(%q, %q)", o.HName, o.HValue)
	case "wh":
		return fmt.Sprintf("resp.WriteHeader(%d)", o.Status)
	case "w":
		return fmt.Sprintf("resp.Write(<%d bytes>)", o.N)
	case "wes":
		return fmt.Sprintf("resp.WriteErrorString(%d, <%d bytes>)", o.Status, o.N)
	case "we":
		if o.ErrNil {
			return fmt.Sprintf("resp.WriteError(%d, nil)", o.Status)
		}
		return fmt.Sprintf("resp.WriteError(%d, errors.New(<%d bytes>))", o.Status, o.N)
	case "wse":
		return fmt.Sprintf("resp.WriteServiceError(%d, restful.NewError(1, <%d bytes>))", o.Status, o.Val.Size)
	case "whe":
		return fmt.Sprintf("resp.WriteHeaderAndEntity(%d, %s)", o.Status, v)
	case "wen":
		return "resp.WriteEntity(" + v + ")"
	case "waj":
		return "resp.WriteAsJson(" + v + ")"
	case "wax":
		return "resp.WriteAsXml(" + v + ")"
	case "wj":
		return "resp.WriteJson(" + v + ", \"application/json\")"
	case "whj":
		return fmt.Sprintf("resp.WriteHeaderAndJson(%d, %s, \"application/json\")", o.Status, v)
	case "whx":
		return fmt.Sprintf("resp.WriteHeaderAndXml(%d, %s)", o.Status, v)
	}
	return o.Kind
}

// Human renders the whole case readably for replay files.
func (s Seq) Human() map[string]interface{} {
	calls := []string{}
	for _, o := range s.Ops {
		calls = append(calls, o.Human())
	}
	fail := "the bottom writer never fails"
	if s.Fail.From >= 0 {
		fail = fmt.Sprintf("the bottom writer fails at its Write call #%d (0-based), accepting min(%d, offered) bytes", s.Fail.From, s.Fail.Partial)
		if s.Fail.Transient {
			fail += ", only that call"
		} else {
			fail += ", and every later call (accepting 0)"
		}
		if s.Fail.Err == "" {
			fail += "; every failing call returns a fresh private error value"
		} else {
			fail += "; the error returned is " + ErrValueHuman(s.Fail.Err)
		}
	}
	if s.Fail.HTTPLike {
		if s.Fail.From < 0 {
			fail = "the bottom writer fails"
		} else {
			fail += "; besides, it fails"
		}
		fail += " the way net/http's writer does: after a status that allows no body (1xx, 204, 304) every Write returns (0, http.ErrBodyNotAllowed)"
	}
	h := map[string]interface{}{"mode": s.Mode, "stream": s.Stream, "calls": calls, "failure": fail}
	if s.Mode == "route-miss" {
		h["request"] = MissHuman(s.Miss)
		if s.JSR {
			h["router"] = "RouterJSR311"
		} else {
			h["router"] = "CurlyRouter (default)"
		}
		if s.Handler == "default" {
			h["calls_made_by"] = "the container's default ServiceErrorHandler (the call listed is what it is measured to do)"
		} else {
			h["calls_made_by"] = "a ServiceErrorHandler installed with Container.ServiceErrorHandler, on the Response it is handed"
		}
		h["observer"] = "a container filter reads resp.StatusCode()/resp.ContentLength() after chain.ProcessFilter returned"
	}
	return h
}
