package response

import (
	"strconv"

	"verifharness/internal/rng"
)

var validStatuses = []int{200, 200, 201, 202, 204, 301, 304, 400, 404, 406, 415, 500, 500, 503, 100, 599, 999}
var oddStatuses = []int{0, 0, 1, 99, 1000, 200, 404}

var entityKinds = []string{"whe", "wen", "waj", "wax", "wj", "whj", "whx", "wse"}
var statusKinds = []string{"wh", "wes", "we", "whe", "wen", "waj", "wax", "wj", "whj", "whx", "wse"}
var valueKinds = []string{"nil", "str", "str", "item", "item", "map", "chan", "badtail", "nilptr", "svcerr", "int", "slice"}

var takesStatus = map[string]bool{"wh": true, "wes": true, "we": true, "wse": true, "whe": true, "whj": true, "whx": true}

func genSize(r *rng.R) int {
	switch r.Intn(10) {
	case 0:
		return 0
	case 1, 2, 3:
		return r.Intn(64)
	case 4, 5:
		return r.Intn(1024)
	case 6:
		return 4000 + r.Intn(200) // around the 4096-byte buffer of the xml encoder
	case 7:
		return 4097 + r.Intn(904)
	default:
		return r.Intn(5001)
	}
}

func genValue(r *rng.R) Value {
	return Value{Kind: valueKinds[r.Intn(len(valueKinds))], Size: genSize(r)}
}

func genAcc(r *rng.R) Op {
	a := []string{"n", "j", "j", "x", "x"}[r.Intn(5)]
	ms := AcceptMimes[a]
	return Op{Kind: "acc", Acc: a, Mime: ms[r.Intn(len(ms))]}
}

func genOp(r *rng.R, kind string, statuses []int) Op {
	o := Op{Kind: kind}
	switch kind {
	case "pp":
		o.B = r.Chance(1, 2)
	case "acc":
		return genAcc(r)
	case "wh":
		o.Status = statuses[r.Intn(len(statuses))]
	case "w":
		o.N = genSize(r)
	case "wes":
		o.Status, o.N = statuses[r.Intn(len(statuses))], genSize(r)
	case "we":
		o.Status = statuses[r.Intn(len(statuses))]
		if o.ErrNil = r.Chance(1, 4); !o.ErrNil {
			o.N = genSize(r)
		}
	case "wse":
		o.Status = statuses[r.Intn(len(statuses))]
		o.Val = Value{Kind: "svcerr", Size: genSize(r)}
	case "whe", "whj", "whx":
		o.Status = statuses[r.Intn(len(statuses))]
		o.Val = genValue(r)
	default:
		o.Val = genValue(r)
	}
	return o
}

// emitsNothing: an entity call that returns a marshalling error before anything is written
// (pretty printing on, MarshalIndent fails) — the only entity calls a disciplined sequence may
// contain besides the one that sets the status.
func silentEntity(r *rng.R, pretty bool, acc string) (Op, bool) {
	if !pretty {
		return Op{}, false
	}
	switch r.Intn(3) {
	case 0:
		return Op{Kind: "waj", Val: Value{Kind: "chan"}}, true
	case 1:
		return Op{Kind: "wax", Val: Value{Kind: "map", Size: r.Intn(100)}}, true
	default:
		if acc == "j" || acc == "x" {
			return Op{Kind: "wen", Val: Value{Kind: "chan"}}, true
		}
	}
	return Op{}, false
}

// lengthSpellings / otherHeaders: the names a handler (or an earlier filter) declares on the response
// before, between and after its writes; Content-Length in the spellings net/http canonicalises and
// one it does not (reached with a direct map assignment only).
var lengthSpellings = []string{"Content-Length", "content-length", "CONTENT-LENGTH", "Content-length"}
var otherHeaders = []string{"Content-Type", "Content-Encoding", "Transfer-Encoding", "Content-Range", "X-Content-Length", "Trailer", "Etag"}

// bodyOf estimates the body bytes a call hands down when nothing fails (what a handler that declares
// a length would count).
func bodyOf(o Op) int {
	switch o.Kind {
	case "w", "wes":
		return o.N
	case "we":
		if !o.ErrNil {
			return o.N
		}
	case "wse", "whe", "wen", "waj", "wax", "wj", "whj", "whx":
		if f := FactsOf(o.Val); f.PJ > 0 {
			return f.PJ
		}
	}
	return 0
}

// genHdr draws a header change made before ops[at]: mostly a declared Content-Length that is
// larger than, equal to or smaller than what the sequence writes (in all, so far, in the next call),
// or not a length at all; sometimes another header, or the removal of one.
func genHdr(r *rng.R, ops []Op, at int) Op {
	o := Op{Kind: "hd", Via: []string{"set", "set", "add", "addheader", "raw", "del"}[r.Intn(6)]}
	if r.Chance(1, 4) {
		o.HName = otherHeaders[r.Intn(len(otherHeaders))]
		o.HValue = []string{"text/plain", "gzip", "chunked", "bytes 0-9/10", "17", "0", ""}[r.Intn(7)]
		return o
	}
	o.HName = lengthSpellings[r.Intn(len(lengthSpellings))]
	total, sofar, next := 0, 0, 0
	for i, p := range ops {
		b := bodyOf(p)
		total += b
		if i < at {
			sofar += b
		}
		if i == at {
			next = b
		}
	}
	base := []int{total, total, sofar, next, sofar + next, genSize(r)}[r.Intn(6)]
	switch r.Intn(12) {
	case 0, 1, 2, 3:
		o.HValue = strconv.Itoa(base)
	case 4, 5:
		o.HValue = strconv.Itoa(base + 1 + r.Intn(3))
	case 6:
		o.HValue = strconv.Itoa(base + genSize(r))
	case 7:
		if base -= 1 + r.Intn(3); base < 0 {
			base = 0
		}
		o.HValue = strconv.Itoa(base)
	case 8:
		o.HValue = strconv.Itoa(base / 2)
	case 9:
		o.HValue = []string{"0", "1", "4294967296", "9223372036854775807", "99999999999999999999"}[r.Intn(5)]
	case 10:
		o.HValue = []string{"+" + strconv.Itoa(base+1), " " + strconv.Itoa(base+1), strconv.Itoa(base+1) + " ", "0x10", "1e3", "007"}[r.Intn(6)]
	default:
		o.HValue = []string{"", "-1", "chunked", "12, 12", "١٢"}[r.Intn(5)]
	}
	return o
}

// declareHeaders inserts header changes into a drawn sequence (they obey the discipline: a header
// change hands nothing to the underlying writer).
func declareHeaders(r *rng.R, s *Seq) {
	k := 1 + r.Intn(3)
	for ; k > 0; k-- {
		at := r.Intn(len(s.Ops) + 1)
		h := genHdr(r, s.Ops, at)
		s.Ops = append(s.Ops[:at], append([]Op{h}, s.Ops[at:]...)...)
	}
}

// GenSeq draws one case.  80 % obey the discipline by construction (setters, at most one call that
// sets the status, then only Write / setters / calls that write nothing); 20 % are free.
func GenSeq(r *rng.R) Seq {
	var s Seq
	switch r.Intn(11) {
	case 0, 1, 2:
		s.Mode = "direct"
	case 3:
		// a request that FAILS route selection: whoever answers it (the container's default
		// ServiceErrorHandler, or one the application installed, which may write anything) does so
		// on the Response the container filters observe
		s.Mode = "route-miss"
		s.Miss = MissKinds[r.Intn(len(MissKinds))]
		s.JSR = r.Chance(1, 2)
		s.Handler = "custom"
		if r.Chance(1, 3) {
			s.Handler = "default"
		}
	case 10:
		s.Mode = "direct"
	case 4:
		s.Mode = "direct-gzip"
	case 5:
		s.Mode = "direct-deflate"
	case 6, 7:
		s.Mode = "route"
	case 8:
		s.Mode = "route-gzip"
	default:
		if r.Chance(1, 2) {
			s.Mode = "route-deflate"
		} else {
			s.Mode = "route-gzip"
		}
	}
	n := 1 + r.Intn(12)
	if r.Chance(4, 5) {
		s.Stream = "main"
		pretty, acc := true, "n"
		track := func(o Op) {
			if o.Kind == "pp" {
				pretty = o.B
			}
			if o.Kind == "acc" {
				acc = o.Acc
			}
		}
		lead := r.Intn(4)
		for i := 0; i < lead && len(s.Ops) < n; i++ {
			o := genOp(r, []string{"pp", "acc", "acc"}[r.Intn(3)], validStatuses)
			if o.Kind == "pp" && r.Chance(1, 2) {
				o.B = false // the encoders are only reached with pretty printing off
			}
			track(o)
			s.Ops = append(s.Ops, o)
		}
		if r.Chance(5, 6) && len(s.Ops) < n {
			s.Ops = append(s.Ops, genOp(r, statusKinds[r.Intn(len(statusKinds))], validStatuses))
		}
		for len(s.Ops) < n {
			var o Op
			switch k := r.Intn(20); {
			case k < 14:
				o = genOp(r, "w", nil)
			case k < 16:
				o = genOp(r, "pp", nil)
			case k < 18:
				o = genAcc(r)
			default:
				var ok bool
				if o, ok = silentEntity(r, pretty, acc); !ok {
					o = genOp(r, "w", nil)
				}
			}
			track(o)
			s.Ops = append(s.Ops, o)
		}
	} else {
		s.Stream = "free"
		all := []string{"pp", "acc", "wh", "w", "w", "wes", "we", "whe", "wen", "waj", "wax", "wj", "whj", "whx", "wse"}
		st := validStatuses
		if r.Chance(1, 4) {
			st = oddStatuses
		}
		for len(s.Ops) < n {
			s.Ops = append(s.Ops, genOp(r, all[r.Intn(len(all))], st))
		}
	}
	hdr := r.Fork(0x4844)
	if s.Handler != "default" && hdr.Chance(3, 10) {
		// the handler (or whoever runs before it) also declares headers on the response, a
		// Content-Length first of all; in one case of five it declares and writes no body at all
		if hdr.Chance(1, 5) {
			keep := s.Ops[:0:0]
			for _, o := range s.Ops {
				if o.Kind == "pp" || o.Kind == "acc" || o.Kind == "wh" {
					keep = append(keep, o)
				}
			}
			s.Ops = keep
		}
		declareHeaders(hdr, &s)
	}
	s.Fail = FailSpec{From: -1}
	if s.Handler == "default" {
		// the container's own handler: its one call is measured, its returned error is not observable
		code, n := MissFacts(s.Miss, s.JSR)
		s.Stream = "main"
		s.Ops = []Op{{Kind: "wes", Status: code, N: n}}
		return s
	}
	if r.Chance(3, 20) {
		// a bottom writer that refuses a body after 1xx/204/304 like net/http's; half of these cases
		// are steered towards such a status
		s.Fail.HTTPLike = true
		if r.Chance(1, 2) {
			for i := range s.Ops {
				if o := &s.Ops[i]; takesStatus[o.Kind] {
					o.Status = []int{204, 304, 100, 101, 199, 204}[r.Intn(6)]
				}
			}
		}
	}
	if r.Chance(11, 20) {
		s.Fail.From = r.Intn(4)
		if r.Chance(1, 3) {
			s.Fail.From = r.Intn(14)
		}
		switch r.Intn(4) {
		case 0:
			s.Fail.Partial = 0
		case 1:
			s.Fail.Partial = 1 << 20 // accepts everything and still reports an error
		case 2:
			s.Fail.Partial = r.Intn(40)
		default:
			s.Fail.Partial = r.Intn(5000)
		}
		s.Fail.Transient = r.Chance(3, 10)
		if r.Chance(2, 5) {
			// the error VALUE: one of net/http's, io's, net's own instead of a private one
			s.Fail.Err = ErrValues[r.Intn(len(ErrValues))]
		}
	}
	return s
}
