package response

import (
	"bytes"
	"compress/gzip"
	"compress/zlib"
	"errors"
	"fmt"
	"io"
	stdlog "log"
	"net/http"
	"net/url"
	"strconv"

	restful "github.com/emicklei/go-restful/v3"
)

func init() {
	restful.SetLogger(stdlog.New(io.Discard, "", 0))
}

// bottomErr is what the bottom writer returns: a fresh value for every failing Write call, so that
// "the call returned THE error that Write returned" can be checked by identity.
type bottomErr struct{ call int }

func (e *bottomErr) Error() string {
	return fmt.Sprintf("bottom writer: injected failure of Write call #%d", e.call)
}

// sameErr: identity of error values (== on interfaces panics on uncomparable dynamic types).
func sameErr(a, b error) (same bool) {
	defer func() {
		if recover() != nil {
			same = false
		}
	}()
	return a == b
}

// WEv is one Write call received by the bottom writer.
type WEv struct {
	Offered, Accepted int
	Failed            bool
}

// Bottom is the counting, optionally failing http.ResponseWriter at the very bottom (the
// "network").  It records every WriteHeader status and every Write (offered, accepted, failed) and
// keeps the accepted bytes.
type Bottom struct {
	hdr      http.Header
	Statuses []int
	Writes   []WEv
	Body     bytes.Buffer
	fail     FailSpec
}

func NewBottom(f FailSpec) *Bottom { return &Bottom{hdr: http.Header{}, fail: f} }

func (b *Bottom) Header() http.Header { return b.hdr }

func (b *Bottom) WriteHeader(s int) { b.Statuses = append(b.Statuses, s) }

func (b *Bottom) Write(p []byte) (int, error) {
	i := len(b.Writes)
	if b.fail.From >= 0 && (i == b.fail.From || (i > b.fail.From && !b.fail.Transient)) {
		n := 0
		if i == b.fail.From {
			n = b.fail.Partial
			if n > len(p) {
				n = len(p)
			}
		}
		b.Body.Write(p[:n])
		b.Writes = append(b.Writes, WEv{len(p), n, true})
		return n, &bottomErr{call: i}
	}
	b.Body.Write(p)
	b.Writes = append(b.Writes, WEv{len(p), len(p), false})
	return len(p), nil
}

// Spy sits directly beneath the Response (above the CompressingResponseWriter when there is one)
// and records what the Response handed down and what came back.
type Spy struct {
	inner  http.ResponseWriter
	Events []Event
	errs   []error // the distinct error values its Write handed up, in order of first appearance
}

// Tag names an error value: 0 = nil, k+1 = the k-th distinct value a Write beneath the Response
// returned, -1 = none of them.
func (s *Spy) Tag(err error, add bool) int {
	if err == nil {
		return 0
	}
	for i, e := range s.errs {
		if sameErr(e, err) {
			return i + 1
		}
	}
	if !add {
		return -1
	}
	s.errs = append(s.errs, err)
	return len(s.errs)
}

func (s *Spy) Header() http.Header { return s.inner.Header() }

func (s *Spy) WriteHeader(status int) {
	s.Events = append(s.Events, Event{Header: true, Status: status})
	s.inner.WriteHeader(status)
}

func (s *Spy) Write(p []byte) (int, error) {
	n, err := s.inner.Write(p)
	s.Events = append(s.Events, Event{Offered: len(p), Accepted: n, Failed: err != nil, Err: s.Tag(err, true)})
	return n, err
}

// Real is what one execution of a sequence on the real code produced.
type Real struct {
	Calls  []Obs
	Final  *[2]int // StatusCode(), ContentLength() read by the trailing filter (route modes)
	Pretty bool    // restful.PrettyPrintResponses when the Response was created
	Panic  string
	Bottom *Bottom
	Sanity string // a harness-side cross-check that failed ("" = all fine)
}

// AcceptMimes: the Accept strings used for each accessor class (n = no entity writer is found).
var AcceptMimes = map[string][]string{
	"j": {restful.MIME_JSON},
	"x": {restful.MIME_XML},
	"n": {"text/plain", "*/*", ""},
}

// apply performs one call and hands back the error it returned.
func apply(resp *restful.Response, o Op) error {
	switch o.Kind {
	case "pp":
		resp.PrettyPrint(o.B)
	case "acc":
		resp.SetRequestAccepts(o.Mime)
	case "wh":
		resp.WriteHeader(o.Status)
	case "w":
		_, err := resp.Write(payload(o.N))
		return err
	case "wes":
		return resp.WriteErrorString(o.Status, text(o.N))
	case "we":
		var e error
		if !o.ErrNil {
			e = errors.New(text(o.N))
		}
		return resp.WriteError(o.Status, e)
	case "wse":
		return resp.WriteServiceError(o.Status, o.Val.Build().(restful.ServiceError))
	case "whe":
		return resp.WriteHeaderAndEntity(o.Status, o.Val.Build())
	case "wen":
		return resp.WriteEntity(o.Val.Build())
	case "waj":
		return resp.WriteAsJson(o.Val.Build())
	case "wax":
		return resp.WriteAsXml(o.Val.Build())
	case "wj":
		return resp.WriteJson(o.Val.Build(), restful.MIME_JSON)
	case "whj":
		return resp.WriteHeaderAndJson(o.Status, o.Val.Build(), restful.MIME_JSON)
	case "whx":
		return resp.WriteHeaderAndXml(o.Status, o.Val.Build())
	default:
		panic("harness: unknown op " + o.Kind)
	}
	return nil
}

// runOps performs the calls on resp, reading the getters after each one.
func runOps(resp *restful.Response, spy *Spy, ops []Op, out *Real) {
	for _, o := range ops {
		before := len(spy.Events)
		err := apply(resp, o)
		ret := "x"
		if t := spy.Tag(err, false); t >= 0 {
			ret = strconv.Itoa(t)
		}
		out.Calls = append(out.Calls, Obs{Status: resp.StatusCode(), Length: resp.ContentLength(), RetErr: err != nil, Ret: ret,
			ErrSet: resp.Error() != nil, Events: append([]Event{}, spy.Events[before:]...)})
	}
}

// Execute runs the sequence on the real code.  Public API only.
func Execute(s Seq) (out Real) {
	out.Pretty = restful.PrettyPrintResponses
	bottom := NewBottom(s.Fail)
	out.Bottom = bottom
	var spy *Spy
	defer func() {
		if r := recover(); r != nil {
			out.Panic = fmt.Sprint(r)
		}
		if out.Panic == "" && spy != nil {
			out.Sanity = crossCheck(s, &out, spy)
		}
	}()
	if restful.DefaultResponseMimeType != "" {
		panic("harness: DefaultResponseMimeType is set")
	}
	coding := s.Coding()
	if !s.Route() {
		var under http.ResponseWriter = bottom
		var cw *restful.CompressingResponseWriter
		if coding != "" {
			var err error
			if cw, err = restful.NewCompressingResponseWriter(bottom, coding); err != nil {
				panic("harness: " + err.Error())
			}
			under = cw
		}
		spy = &Spy{inner: under}
		resp := restful.NewResponse(spy)
		func() {
			if cw != nil {
				defer cw.Close() // releases the pooled compressor also when a call panics
			}
			runOps(resp, spy, s.Ops, &out)
		}()
		return out
	}
	// through a container: route function = the calls, trailing container filter = the observer
	c := restful.NewContainer()
	c.EnableContentEncoding(coding != "")
	ws := new(restful.WebService)
	ws.Path("/r")
	ran := false
	viaHandle := len(s.Ops)%3 == 2 // every third sequence: a plain http.Handler registered with HandleWithFilter makes the calls
	if viaHandle {
		c.HandleWithFilter("/r/x", http.HandlerFunc(func(w http.ResponseWriter, r *http.Request) {
			ran = true
			// HandleWithFilter hands the handler the Response the container filters see, as its
			// http.ResponseWriter; a handler that finds something else can only wrap it itself
			resp, ok := w.(*restful.Response)
			if !ok {
				resp = restful.NewResponse(w)
			}
			runOps(resp, spy, s.Ops, &out)
		}))
	}
	ws.Route(ws.GET("/x").To(func(req *restful.Request, resp *restful.Response) {
		ran = true
		runOps(resp, spy, s.Ops, &out)
	}))
	c.Filter(func(req *restful.Request, resp *restful.Response, chain *restful.FilterChain) {
		// slide the recorder between the Response and whatever the container put beneath it
		spy = &Spy{inner: resp.ResponseWriter}
		resp.ResponseWriter = spy
		chain.ProcessFilter(req, resp)
		out.Final = &[2]int{resp.StatusCode(), resp.ContentLength()}
	})
	if len(s.Ops)%2 == 1 && !viaHandle {
		// every other sequence: a net/http middleware adapted with HttpMiddlewareHandlerToFilter sits between
		// the observing filter and the route function (it only passes on); what the observer reads
		// afterwards must still be what the handler did
		ws.Filter(restful.HttpMiddlewareHandlerToFilter(func(next http.Handler) http.Handler {
			return http.HandlerFunc(func(w http.ResponseWriter, r *http.Request) { next.ServeHTTP(w, r) })
		}))
	}
	if !viaHandle {
		c.Add(ws)
	}
	req := &http.Request{Method: "GET", URL: &url.URL{Path: "/r/x"}, Header: http.Header{}, Body: http.NoBody}
	if coding != "" {
		req.Header.Set("Accept-Encoding", coding)
	}
	if viaHandle {
		c.ServeMux.ServeHTTP(bottom, req)
	} else {
		c.Dispatch(bottom, req)
	}
	if !ran {
		panic("harness: the route function did not run")
	}
	return out
}

// crossCheck relates the recorder beneath the Response to the bottom writer.
func crossCheck(s Seq, out *Real, spy *Spy) string {
	var hs []int
	var ws []WEv
	for _, e := range spy.Events {
		if e.Header {
			hs = append(hs, e.Status)
		} else {
			ws = append(ws, WEv{e.Offered, e.Accepted, e.Failed})
		}
	}
	if fmt.Sprint(hs) != fmt.Sprint(out.Bottom.Statuses) {
		return fmt.Sprintf("statuses handed down %v, bottom writer received %v", hs, out.Bottom.Statuses)
	}
	coding := s.Coding()
	if coding == "" {
		if fmt.Sprint(ws) != fmt.Sprint(out.Bottom.Writes) {
			return fmt.Sprintf("writes handed down %v, bottom writer received %v", ws, out.Bottom.Writes)
		}
		return ""
	}
	if _, isCW := spy.inner.(*restful.CompressingResponseWriter); !isCW {
		return "no CompressingResponseWriter beneath the Response although a coding was requested"
	}
	bottomFailed := false
	for _, w := range out.Bottom.Writes {
		bottomFailed = bottomFailed || w.Failed
	}
	if bottomFailed {
		return ""
	}
	// the compressor accepted everything it was offered, and what reached the bottom decodes to
	// exactly ContentLength() bytes: the length is counted before the coding
	total := 0
	for _, w := range ws {
		if w.Failed || w.Accepted != w.Offered {
			return fmt.Sprintf("compressor answered (%d of %d, failed=%v) although the bottom writer never failed", w.Accepted, w.Offered, w.Failed)
		}
		total += w.Accepted
	}
	if len(out.Bottom.Writes) == 0 && total == 0 {
		return ""
	}
	var rd io.Reader
	var err error
	if coding == "gzip" {
		rd, err = gzip.NewReader(bytes.NewReader(out.Bottom.Body.Bytes()))
	} else {
		rd, err = zlib.NewReader(bytes.NewReader(out.Bottom.Body.Bytes()))
	}
	if err != nil {
		return "bottom bytes do not decode: " + err.Error()
	}
	dec, err := io.ReadAll(rd)
	if err != nil {
		return "bottom bytes do not decode: " + err.Error()
	}
	want := total
	if n := len(out.Calls); n > 0 && out.Calls[n-1].Length != want {
		return fmt.Sprintf("ContentLength() = %d, the compressor accepted %d bytes", out.Calls[n-1].Length, want)
	}
	if len(dec) != want {
		return fmt.Sprintf("the bottom writer received a %s stream of %d decoded bytes, the compressor accepted %d", coding, len(dec), want)
	}
	return ""
}
