package response

import (
	"bytes"
	"compress/gzip"
	"compress/zlib"
	"errors"
	"fmt"
	"io"
	stdlog "log"
	"net"
	"net/http"
	"net/url"
	"os"
	"strconv"
	"sync"
	"syscall"

	restful "github.com/emicklei/go-restful/v3"
)

func init() {
	restful.SetLogger(stdlog.New(io.Discard, "", 0))
}

// bottomErr is what the bottom writer returns: a fresh value for every failing Write call, so that
// "the call returned THE error that Write returned" can be checked by identity.
type bottomErr struct{ call int }

func (e *bottomErr) Error() string {
	return fmt.Sprintf("bottom writer: injected failure of Write call #%d", e.call)
}

// sameErr: identity of error values (== on interfaces panics on uncomparable dynamic types).
func sameErr(a, b error) (same bool) {
	defer func() {
		if recover() != nil {
			same = false
		}
	}()
	return a == b
}

// ErrValues are the error values a failing bottom writer can be told to return besides its private
// ones (FailSpec.Err): the sentinels a net/http connection really hands up — the same VALUE at every
// failing call — and fresh errors that wrap one (errors.Is finds the sentinel, == does not).
var ErrValues = []string{
	"http.ErrBodyNotAllowed", "http.ErrHijacked", "http.ErrContentLength", "http.ErrHandlerTimeout",
	"io.ErrShortWrite", "io.ErrClosedPipe", "io.EOF", "net.ErrClosed", "os.ErrDeadlineExceeded",
	"wrapped(http.ErrBodyNotAllowed)", "wrapped(http.ErrContentLength)", "wrapped(io.ErrClosedPipe)", "net.OpError(EPIPE)",
}

var sentinels = map[string]error{
	"http.ErrBodyNotAllowed": http.ErrBodyNotAllowed, "http.ErrHijacked": http.ErrHijacked,
	"http.ErrContentLength": http.ErrContentLength, "http.ErrHandlerTimeout": http.ErrHandlerTimeout,
	"io.ErrShortWrite": io.ErrShortWrite, "io.ErrClosedPipe": io.ErrClosedPipe, "io.EOF": io.EOF,
	"net.ErrClosed": net.ErrClosed, "os.ErrDeadlineExceeded": os.ErrDeadlineExceeded,
}

// errValue makes the error of the failing Write call #call.
func errValue(name string, call int) error {
	if e, ok := sentinels[name]; ok {
		return e
	}
	switch name {
	case "wrapped(http.ErrBodyNotAllowed)":
		return fmt.Errorf("bottom writer, Write call #%d: %w", call, http.ErrBodyNotAllowed)
	case "wrapped(http.ErrContentLength)":
		return fmt.Errorf("bottom writer, Write call #%d: %w", call, http.ErrContentLength)
	case "wrapped(io.ErrClosedPipe)":
		return fmt.Errorf("bottom writer, Write call #%d: %w", call, io.ErrClosedPipe)
	case "net.OpError(EPIPE)":
		return &net.OpError{Op: "write", Net: "tcp", Err: os.NewSyscallError("write", syscall.EPIPE)}
	}
	return &bottomErr{call: call}
}

// ErrValueHuman describes FailSpec.Err for replay files.
func ErrValueHuman(name string) string {
	if _, ok := sentinels[name]; ok {
		return "the sentinel " + name + " (the same value at every failing call)"
	}
	return "a fresh " + name + " per failing call"
}

// bodyAllowed is net/http's bodyAllowedForStatus.
func bodyAllowed(status int) bool {
	switch {
	case status >= 100 && status <= 199:
		return false
	case status == 204, status == 304:
		return false
	}
	return true
}

// WEv is one Write call received by the bottom writer.
type WEv struct {
	Offered, Accepted int
	Failed            bool
}

// Bottom is the counting, optionally failing http.ResponseWriter at the very bottom (the
// "network").  It records every WriteHeader status and every Write (offered, accepted, failed) and
// keeps the accepted bytes.
type Bottom struct {
	hdr      http.Header
	Statuses []int
	Writes   []WEv
	Body     bytes.Buffer
	fail     FailSpec
	status   int // the status sent: the first WriteHeader's, 200 once a Write came first; 0 = none yet
}

func NewBottom(f FailSpec) *Bottom { return &Bottom{hdr: http.Header{}, fail: f} }

func (b *Bottom) Header() http.Header { return b.hdr }

func (b *Bottom) WriteHeader(s int) {
	b.Statuses = append(b.Statuses, s)
	if b.status == 0 {
		b.status = s
	}
}

func (b *Bottom) Write(p []byte) (int, error) {
	i := len(b.Writes)
	if b.fail.HTTPLike {
		// net/http: the status is the first WriteHeader's, 200 when Write comes first; a body after a
		// status that allows none is refused, nothing is accepted
		if b.status == 0 {
			b.status = 200
		}
		if !bodyAllowed(b.status) {
			b.Writes = append(b.Writes, WEv{len(p), 0, true})
			return 0, http.ErrBodyNotAllowed
		}
	}
	if b.fail.From >= 0 && (i == b.fail.From || (i > b.fail.From && !b.fail.Transient)) {
		n := 0
		if i == b.fail.From {
			n = b.fail.Partial
			if n > len(p) {
				n = len(p)
			}
		}
		b.Body.Write(p[:n])
		b.Writes = append(b.Writes, WEv{len(p), n, true})
		return n, errValue(b.fail.Err, i)
	}
	b.Body.Write(p)
	b.Writes = append(b.Writes, WEv{len(p), len(p), false})
	return len(p), nil
}

// Spy sits directly beneath the Response (above the CompressingResponseWriter when there is one)
// and records what the Response handed down and what came back.
type Spy struct {
	inner  http.ResponseWriter
	Events []Event
	errs   []error // the distinct error values its Write handed up, in order of first appearance
}

// Tag names an error value: 0 = nil, k+1 = the k-th distinct value a Write beneath the Response
// returned, -1 = none of them.
func (s *Spy) Tag(err error, add bool) int {
	if err == nil {
		return 0
	}
	for i, e := range s.errs {
		if sameErr(e, err) {
			return i + 1
		}
	}
	if !add {
		return -1
	}
	s.errs = append(s.errs, err)
	return len(s.errs)
}

func (s *Spy) Header() http.Header { return s.inner.Header() }

func (s *Spy) WriteHeader(status int) {
	s.Events = append(s.Events, Event{Header: true, Status: status})
	s.inner.WriteHeader(status)
}

func (s *Spy) Write(p []byte) (int, error) {
	n, err := s.inner.Write(p)
	s.Events = append(s.Events, Event{Offered: len(p), Accepted: n, Failed: err != nil, Err: s.Tag(err, true)})
	return n, err
}

// Real is what one execution of a sequence on the real code produced.
type Real struct {
	Calls  []Obs
	Final  *[2]int // StatusCode(), ContentLength() read by the trailing filter (route modes)
	Pretty bool    // restful.PrettyPrintResponses when the Response was created
	Panic  string
	Bottom *Bottom
	Sanity string // a harness-side cross-check that failed ("" = all fine)
}

// AcceptMimes: the Accept strings used for each accessor class (n = no entity writer is found).
var AcceptMimes = map[string][]string{
	"j": {restful.MIME_JSON},
	"x": {restful.MIME_XML},
	"n": {"text/plain", "*/*", ""},
}

// apply performs one call and hands back the error it returned.
func apply(resp *restful.Response, o Op) error {
	switch o.Kind {
	case "pp":
		resp.PrettyPrint(o.B)
	case "acc":
		resp.SetRequestAccepts(o.Mime)
	case "hd":
		switch o.Via {
		case "add":
			resp.Header().Add(o.HName, o.HValue)
		case "addheader":
			resp.AddHeader(o.HName, o.HValue)
		case "raw":
			resp.Header()[o.HName] = []string{o.HValue}
		case "del":
			resp.Header().Del(o.HName)
		default:
			resp.Header().Set(o.HName, o.HValue)
		}
	case "wh":
		resp.WriteHeader(o.Status)
	case "w":
		_, err := resp.Write(payload(o.N))
		return err
	case "wes":
		return resp.WriteErrorString(o.Status, text(o.N))
	case "we":
		var e error
		if !o.ErrNil {
			e = errors.New(text(o.N))
		}
		return resp.WriteError(o.Status, e)
	case "wse":
		return resp.WriteServiceError(o.Status, o.Val.Build().(restful.ServiceError))
	case "whe":
		return resp.WriteHeaderAndEntity(o.Status, o.Val.Build())
	case "wen":
		return resp.WriteEntity(o.Val.Build())
	case "waj":
		return resp.WriteAsJson(o.Val.Build())
	case "wax":
		return resp.WriteAsXml(o.Val.Build())
	case "wj":
		return resp.WriteJson(o.Val.Build(), restful.MIME_JSON)
	case "whj":
		return resp.WriteHeaderAndJson(o.Status, o.Val.Build(), restful.MIME_JSON)
	case "whx":
		return resp.WriteHeaderAndXml(o.Status, o.Val.Build())
	default:
		panic("harness: unknown op " + o.Kind)
	}
	return nil
}

// runOps performs the calls on resp, reading the getters after each one.
func runOps(resp *restful.Response, spy *Spy, ops []Op, out *Real) {
	for _, o := range ops {
		before := len(spy.Events)
		err := apply(resp, o)
		ret := "x"
		if t := spy.Tag(err, false); t >= 0 {
			ret = strconv.Itoa(t)
		}
		out.Calls = append(out.Calls, Obs{Status: resp.StatusCode(), Length: resp.ContentLength(), RetErr: err != nil, Ret: ret,
			ErrSet: resp.Error() != nil, Events: append([]Event{}, spy.Events[before:]...)})
	}
}

// Execute runs the sequence on the real code.  Public API only.
func Execute(s Seq) (out Real) {
	out.Pretty = restful.PrettyPrintResponses
	bottom := NewBottom(s.Fail)
	out.Bottom = bottom
	var spy *Spy
	defer func() {
		if r := recover(); r != nil {
			out.Panic = fmt.Sprint(r)
		}
		if out.Panic == "" && spy != nil {
			out.Sanity = crossCheck(s, &out, spy)
		}
	}()
	if restful.DefaultResponseMimeType != "" {
		panic("harness: DefaultResponseMimeType is set")
	}
	coding := s.Coding()
	if !s.Route() {
		var under http.ResponseWriter = bottom
		var cw *restful.CompressingResponseWriter
		if coding != "" {
			var err error
			if cw, err = restful.NewCompressingResponseWriter(bottom, coding); err != nil {
				panic("harness: " + err.Error())
			}
			under = cw
		}
		spy = &Spy{inner: under}
		resp := restful.NewResponse(spy)
		func() {
			if cw != nil {
				defer cw.Close() // releases the pooled compressor also when a call panics
			}
			runOps(resp, spy, s.Ops, &out)
		}()
		return out
	}
	if s.Mode == "route-miss" {
		// through a container, but route selection fails: the service error handler makes the calls
		// on the Response the container filters see; a container filter is the observer
		c, req := missSetup(s.Miss, s.JSR)
		ran := false
		if s.Handler != "default" {
			c.ServiceErrorHandler(func(se restful.ServiceError, req *restful.Request, resp *restful.Response) {
				ran = true
				runOps(resp, spy, s.Ops, &out)
			})
		}
		c.Filter(func(req *restful.Request, resp *restful.Response, chain *restful.FilterChain) {
			spy = &Spy{inner: resp.ResponseWriter}
			resp.ResponseWriter = spy
			if s.Handler == "default" {
				// the container's own handler makes the call: observe around it
				chain.ProcessFilter(req, resp)
				if len(s.Ops) == 1 {
					// the container discards what its handler's WriteErrorString returned; GenSeq lets no
					// Write fail in these cases, and then nil is all it can return
					out.Calls = append(out.Calls, Obs{Status: resp.StatusCode(), Length: resp.ContentLength(), Ret: "0",
						ErrSet: resp.Error() != nil, Events: append([]Event{}, spy.Events...)})
				}
			} else {
				chain.ProcessFilter(req, resp)
			}
			out.Final = &[2]int{resp.StatusCode(), resp.ContentLength()}
		})
		if len(s.Ops)%3 == 1 {
			// a second container filter that only passes on
			c.Filter(func(req *restful.Request, resp *restful.Response, chain *restful.FilterChain) {
				chain.ProcessFilter(req, resp)
			})
		}
		c.Dispatch(bottom, req)
		if s.Handler != "default" && !ran {
			panic("harness: the service error handler did not run")
		}
		if out.Final == nil {
			panic("harness: the container filter did not run")
		}
		return out
	}
	// through a container: route function = the calls, trailing container filter = the observer
	c := restful.NewContainer()
	c.EnableContentEncoding(coding != "")
	ws := new(restful.WebService)
	ws.Path("/r")
	ran := false
	viaHandle := len(s.Ops)%3 == 2 // every third sequence: a plain http.Handler registered with HandleWithFilter makes the calls
	if viaHandle {
		c.HandleWithFilter("/r/x", http.HandlerFunc(func(w http.ResponseWriter, r *http.Request) {
			ran = true
			// HandleWithFilter hands the handler the Response the container filters see, as its
			// http.ResponseWriter; a handler that finds something else can only wrap it itself
			resp, ok := w.(*restful.Response)
			if !ok {
				resp = restful.NewResponse(w)
			}
			runOps(resp, spy, s.Ops, &out)
		}))
	}
	ws.Route(ws.GET("/x").To(func(req *restful.Request, resp *restful.Response) {
		ran = true
		runOps(resp, spy, s.Ops, &out)
	}))
	c.Filter(func(req *restful.Request, resp *restful.Response, chain *restful.FilterChain) {
		// slide the recorder between the Response and whatever the container put beneath it
		spy = &Spy{inner: resp.ResponseWriter}
		resp.ResponseWriter = spy
		chain.ProcessFilter(req, resp)
		out.Final = &[2]int{resp.StatusCode(), resp.ContentLength()}
	})
	if len(s.Ops)%2 == 1 && !viaHandle {
		// every other sequence: a net/http middleware adapted with HttpMiddlewareHandlerToFilter sits between
		// the observing filter and the route function (it only passes on); what the observer reads
		// afterwards must still be what the handler did
		ws.Filter(restful.HttpMiddlewareHandlerToFilter(func(next http.Handler) http.Handler {
			return http.HandlerFunc(func(w http.ResponseWriter, r *http.Request) { next.ServeHTTP(w, r) })
		}))
	}
	if !viaHandle {
		c.Add(ws)
	}
	req := &http.Request{Method: "GET", URL: &url.URL{Path: "/r/x"}, Header: http.Header{}, Body: http.NoBody}
	if coding != "" {
		req.Header.Set("Accept-Encoding", coding)
	}
	if viaHandle {
		c.ServeMux.ServeHTTP(bottom, req)
	} else {
		c.Dispatch(bottom, req)
	}
	if !ran {
		panic("harness: the route function did not run")
	}
	return out
}

// MissKinds are the ways route selection fails.
var MissKinds = []string{"404", "404-no-service", "405", "406", "415"}

// missSetup builds a container with one web service and the request of the given kind, which no
// route of it admits.
func missSetup(kind string, jsr bool) (*restful.Container, *http.Request) {
	c := restful.NewContainer()
	if jsr {
		c.Router(restful.RouterJSR311{})
	}
	ws := new(restful.WebService)
	ws.Path("/r")
	nop := func(req *restful.Request, resp *restful.Response) {
		panic("harness: a route function ran on a request built to miss")
	}
	ws.Route(ws.GET("/x").Produces(restful.MIME_XML).To(nop))
	ws.Route(ws.POST("/y").Consumes(restful.MIME_JSON).To(nop))
	c.Add(ws)
	req := &http.Request{Method: "GET", URL: &url.URL{Path: "/r/x"}, Header: http.Header{}, Body: http.NoBody}
	switch kind {
	case "404":
		req.URL.Path = "/r/nope"
	case "404-no-service":
		req.URL.Path = "/elsewhere"
	case "405":
		req.Method = "DELETE"
	case "406":
		req.Header.Set("Accept", restful.MIME_JSON)
	case "415":
		req.Method, req.URL.Path = "POST", "/r/y"
		req.Header.Set("Content-Type", "text/plain")
		req.Header.Set("Content-Length", "5")
		req.ContentLength = 5
		req.Body = io.NopCloser(bytes.NewReader([]byte("hello")))
	default:
		panic("harness: unknown miss kind " + kind)
	}
	return c, req
}

// MissHuman describes the request of a miss kind.
func MissHuman(kind string) string {
	const cfg = " on a container whose only web service (root /r) has GET /x producing application/xml and POST /y consuming application/json"
	switch kind {
	case "404":
		return "GET /r/nope" + cfg
	case "404-no-service":
		return "GET /elsewhere" + cfg
	case "405":
		return "DELETE /r/x" + cfg
	case "406":
		return "GET /r/x with Accept: application/json" + cfg
	case "415":
		return "POST /r/y with Content-Type: text/plain and a 5-byte body" + cfg
	}
	return kind
}

var (
	missMu    sync.Mutex
	missCache = map[string][2]int{}
)

// MissFacts measures, by a shadow run with a ServiceErrorHandler that only records, which
// ServiceError route selection produces for the request of the kind: its Code and len(Message).
// What the container's default handler does with it is WriteErrorString(Code, Message)
// (container.go writeServiceError); which code and text a miss gets is C02/C03's subject, here it
// is data.
func MissFacts(kind string, jsr bool) (code, msgLen int) {
	key := kind + fmt.Sprint(jsr)
	missMu.Lock()
	defer missMu.Unlock()
	if f, ok := missCache[key]; ok {
		return f[0], f[1]
	}
	c, req := missSetup(kind, jsr)
	code = -1
	c.ServiceErrorHandler(func(se restful.ServiceError, req *restful.Request, resp *restful.Response) {
		code, msgLen = se.Code, len(se.Message)
	})
	c.Dispatch(NewBottom(FailSpec{From: -1}), req)
	if code < 0 {
		panic("harness: the request of miss kind " + kind + " was routed")
	}
	missCache[key] = [2]int{code, msgLen}
	return code, msgLen
}

// crossCheck relates the recorder beneath the Response to the bottom writer.
func crossCheck(s Seq, out *Real, spy *Spy) string {
	var hs []int
	var ws []WEv
	for _, e := range spy.Events {
		if e.Header {
			hs = append(hs, e.Status)
		} else {
			ws = append(ws, WEv{e.Offered, e.Accepted, e.Failed})
		}
	}
	if fmt.Sprint(hs) != fmt.Sprint(out.Bottom.Statuses) {
		return fmt.Sprintf("statuses the observed Response handed down %v, bottom writer received %v", hs, out.Bottom.Statuses)
	}
	coding := s.Coding()
	if coding == "" {
		if fmt.Sprint(ws) != fmt.Sprint(out.Bottom.Writes) {
			return fmt.Sprintf("writes the observed Response handed down %v, bottom writer received %v", ws, out.Bottom.Writes)
		}
		return ""
	}
	if _, isCW := spy.inner.(*restful.CompressingResponseWriter); !isCW {
		return "no CompressingResponseWriter beneath the Response although a coding was requested"
	}
	bottomFailed := false
	for _, w := range out.Bottom.Writes {
		bottomFailed = bottomFailed || w.Failed
	}
	if bottomFailed {
		return ""
	}
	// the compressor accepted everything it was offered, and what reached the bottom decodes to
	// exactly ContentLength() bytes: the length is counted before the coding
	total := 0
	for _, w := range ws {
		if w.Failed || w.Accepted != w.Offered {
			return fmt.Sprintf("compressor answered (%d of %d, failed=%v) although the bottom writer never failed", w.Accepted, w.Offered, w.Failed)
		}
		total += w.Accepted
	}
	if len(out.Bottom.Writes) == 0 && total == 0 {
		return ""
	}
	var rd io.Reader
	var err error
	if coding == "gzip" {
		rd, err = gzip.NewReader(bytes.NewReader(out.Bottom.Body.Bytes()))
	} else {
		rd, err = zlib.NewReader(bytes.NewReader(out.Bottom.Body.Bytes()))
	}
	if err != nil {
		return "bottom bytes do not decode: " + err.Error()
	}
	dec, err := io.ReadAll(rd)
	if err != nil {
		return "bottom bytes do not decode: " + err.Error()
	}
	want := total
	if n := len(out.Calls); n > 0 && out.Calls[n-1].Length != want {
		return fmt.Sprintf("ContentLength() = %d, the compressor accepted %d bytes", out.Calls[n-1].Length, want)
	}
	if len(dec) != want {
		return fmt.Sprintf("the bottom writer received a %s stream of %d decoded bytes, the compressor accepted %d", coding, len(dec), want)
	}
	return ""
}
