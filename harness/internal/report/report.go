// Package report turns what a check found into the interface of the task:
// evidence/<id>.json, VIOLATION / KNOWN-FINDING lines, replay files, exit status.
package report

import (
	"crypto/sha1"
	"encoding/hex"
	"encoding/json"
	"fmt"
	"os"
	"path/filepath"
	"sort"
	"strings"
	"time"
)

var Root = func() string {
	if r := os.Getenv("VERIF_ROOT"); r != "" {
		return r
	}
	return "/verif"
}()

func OutDir() string {
	if r := os.Getenv("VERIF_OUT"); r != "" {
		return r
	}
	return filepath.Join(Root, "out")
}

// LeanStatus is what bin/lean-status wrote.
type LeanStatus struct {
	Property string `json:"property"`
	BuildOK  bool   `json:"build_ok"`
	Theorems []struct {
		Name   string   `json:"name"`
		Axioms []string `json:"axioms"`
		OK     bool     `json:"ok"`
	} `json:"theorems"`
	Forbidden   []string `json:"forbidden"`
	FailedDecls []string `json:"failed_decls"`
	Log         string   `json:"log"`
	Gen         *struct {
		OK  bool   `json:"ok"`
		Log string `json:"log"`
	} `json:"gen"`
	LeanChecker *struct {
		OK  bool   `json:"ok"`
		Log string `json:"log"`
	} `json:"leanchecker"`
	WallS float64 `json:"wall_s"`
}

func LoadLean(path string) (*LeanStatus, error) {
	b, err := os.ReadFile(path)
	if err != nil {
		return nil, err
	}
	var s LeanStatus
	return &s, json.Unmarshal(b, &s)
}

// Broken lists the proof obligations that did not check (empty = all discharged).
func (s *LeanStatus) Broken() []string {
	var out []string
	if !s.BuildOK {
		msg := "lake build Restful.Props." + s.Property + " failed"
		if len(s.FailedDecls) > 0 {
			msg += " at " + strings.Join(s.FailedDecls, " | ")
		}
		out = append(out, msg)
		// the theorems of the property could not be audited because the build stopped: say so once
		n := 0
		for _, t := range s.Theorems {
			if !t.OK {
				n++
			}
		}
		if n > 0 {
			out = append(out, fmt.Sprintf("%d theorems of the property not audited because the build failed", n))
		}
		return out
	}
	for _, t := range s.Theorems {
		if !t.OK {
			out = append(out, "theorem "+t.Name+" not checked or uses disallowed axioms "+fmt.Sprint(t.Axioms))
		}
	}
	for _, f := range s.Forbidden {
		out = append(out, "forbidden construct: "+f)
	}
	if s.Gen != nil && !s.Gen.OK {
		out = append(out, "fact generation from the source failed")
	}
	if s.LeanChecker != nil && !s.LeanChecker.OK {
		out = append(out, "leanchecker rejected the compiled module")
	}
	if len(s.Theorems) == 0 {
		out = append(out, "no theorems registered for "+s.Property)
	}
	return out
}

// Finding is an entry of known_findings.json.
type Finding struct {
	ID       string `json:"id"`
	Property string `json:"property"`
	Status   string `json:"status"`
	Class    string `json:"class"`
	Witness  string `json:"witness"`
	What     string `json:"what"`
}

type KnownFile struct {
	Findings []Finding `json:"findings"`
	Fixed    []string  `json:"fixed"`
}

func LoadKnown() (*KnownFile, error) {
	b, err := os.ReadFile(filepath.Join(Root, "known_findings.json"))
	if err != nil {
		return nil, err
	}
	var k KnownFile
	return &k, json.Unmarshal(b, &k)
}

// Violation is one falsifying input (or a broken obligation when Case is empty).
type Violation struct {
	Kind    string      `json:"kind"` // counterexample | correspondence | proof-obligation
	What    string      `json:"what"`
	Case    interface{} `json:"case,omitempty"`  // protocol lines that replay it
	Human   interface{} `json:"human,omitempty"` // the same input, readable
	Model   string      `json:"model,omitempty"`
	Real    string      `json:"real,omitempty"`
	Theorem string      `json:"theorem,omitempty"`
	NoInput bool        `json:"no_failing_input_found,omitempty"`
	Class   string      `json:"class,omitempty"` // known-finding class it falls in, if any
}

// Run collects the result of one check.
type Run struct {
	Property string
	Tier     string
	Seed     uint64
	Level    string
	Start    time.Time
	Lean     *LeanStatus

	Evaluations          int
	Distinct             map[string]bool // distinct non-trivial case signatures
	Rule                 string
	Samples              []interface{}
	Dist                 map[string]int // measured distribution (tags, statuses, …)
	Extra                map[string]interface{}
	TracesValidated      int
	DisagreementsChecked int
	Exhaustive           bool
	Assumptions          []string
	Trusted              []string

	Violations []Violation
	KnownHits  map[string]int // finding id -> cases that fell into its class and failed
}

func NewRun(prop, tier string, seed uint64, lean *LeanStatus) *Run {
	return &Run{Property: prop, Tier: tier, Seed: seed, Level: "proof", Start: time.Now(), Lean: lean,
		Distinct: map[string]bool{}, Dist: map[string]int{}, Extra: map[string]interface{}{}, KnownHits: map[string]int{}}
}

func (r *Run) Sample(x interface{}) {
	if len(r.Samples) < 6 {
		r.Samples = append(r.Samples, x)
	}
}

func (r *Run) Count(key string) { r.Dist[key]++ }

// AddViolation records a violation unless an identical one was already recorded.
func (r *Run) AddViolation(v Violation) {
	if len(r.Violations) < 20 {
		r.Violations = append(r.Violations, v)
	}
}

func (r *Run) writeReplay(v Violation) string {
	b, _ := json.MarshalIndent(map[string]interface{}{"property": r.Property, "seed": r.Seed, "tier": r.Tier, "violation": v}, "", " ")
	h := sha1.Sum(b)
	dir := filepath.Join(OutDir(), "replays")
	os.MkdirAll(dir, 0o755)
	p := filepath.Join(dir, fmt.Sprintf("%s-%s.json", r.Property, hex.EncodeToString(h[:5])))
	os.WriteFile(p, b, 0o644)
	return p
}

// Finish writes the evidence file, prints the verdict lines and returns the exit status.
func (r *Run) Finish() int {
	known, _ := LoadKnown()
	// proof obligations
	var broken []string
	obligations, discharged := 0, 0
	if r.Lean != nil {
		broken = r.Lean.Broken()
		obligations = len(r.Lean.Theorems)
		for _, t := range r.Lean.Theorems {
			if t.OK && r.Lean.BuildOK {
				discharged++
			}
		}
	}
	status := 0
	// known_findings.json is authoritative: failing cases counted under a class that the file does not
	// list as open for this property are violations (the class was repaired, or never recorded)
	for id, n := range r.KnownHits {
		open := false
		if known != nil {
			for _, f := range known.Findings {
				if f.ID == id && f.Property == r.Property && f.Status == "open" {
					open = true
				}
			}
		}
		if !open {
			r.Violations = append(r.Violations, Violation{Kind: "counterexample",
				What: fmt.Sprintf("%d failing cases fell into the class of %s, which known_findings.json does not list as an open finding of %s", n, id, r.Property)})
		}
	}
	// concrete violations first
	concrete := 0
	for _, v := range r.Violations {
		if !v.NoInput {
			concrete++
		}
	}
	for _, v := range r.Violations {
		if v.NoInput && concrete > 0 {
			continue // a falsifying input was found; report that instead
		}
		p := r.writeReplay(v)
		line := fmt.Sprintf("VIOLATION property=%s replay=%s", r.Property, p)
		if v.NoInput {
			line += " no-failing-input-found"
		}
		fmt.Println(line)
		fmt.Fprintf(os.Stderr, "  %s: %s\n", v.Kind, v.What)
		status = 1
	}
	if len(broken) > 0 && concrete == 0 && !hasProofViolation(r.Violations) {
		v := Violation{Kind: "proof-obligation", What: strings.Join(broken, "; "), Theorem: strings.Join(broken, "; "), NoInput: true}
		if r.Lean != nil {
			v.Model = tail(r.Lean.Log, 3000)
		}
		p := r.writeReplay(v)
		fmt.Printf("VIOLATION property=%s replay=%s no-failing-input-found\n", r.Property, p)
		fmt.Fprintf(os.Stderr, "  proof obligations not discharged: %s\n", strings.Join(broken, "; "))
		status = 1
	}
	if known != nil {
		ids := []string{}
		for id := range r.KnownHits {
			ids = append(ids, id)
		}
		sort.Strings(ids)
		for _, id := range ids {
			for _, f := range known.Findings {
				if f.ID == id && f.Property == r.Property && f.Status == "open" {
					fmt.Printf("KNOWN-FINDING: property=%s %s: %s (%d cases this run)\n", r.Property, f.ID, f.What, r.KnownHits[id])
				}
			}
		}
	}
	// evidence
	cov := map[string]interface{}{
		"obligations": obligations, "discharged": discharged,
		"checker_cmd":  "bin/lean-status " + r.Property + " (lake build Restful.Props." + r.Property + "; #print axioms per theorem; forbidden-construct grep" + map[bool]string{true: "; leanchecker", false: ""}[r.Tier == "thorough"] + ")",
		"trusted_base": append([]string{"Lean 4.33.0 kernel", "axioms allowed: propext, Classical.choice, Quot.sound", "hand-written model tied to /repo by the correspondence stream measured below"}, r.Trusted...),
		"evaluations":  r.Evaluations, "distinct_nontrivial": len(r.Distinct), "rule": r.Rule, "samples": r.Samples,
		"traces_validated_against_impl": r.TracesValidated, "disagreements_checked": r.DisagreementsChecked,
		"distribution": r.Dist, "exhaustive": r.Exhaustive,
	}
	if r.Lean != nil {
		th := []map[string]interface{}{}
		for _, t := range r.Lean.Theorems {
			th = append(th, map[string]interface{}{"name": t.Name, "axioms": t.Axioms, "ok": t.OK})
		}
		cov["theorems"] = th
		cov["lean_build_ok"] = r.Lean.BuildOK
		cov["lean_wall_s"] = r.Lean.WallS
	}
	for k, v := range r.Extra {
		cov[k] = v
	}
	if len(r.Samples) == 0 {
		cov["samples"] = []interface{}{"(no case was generated)"}
	}
	if r.Assumptions == nil {
		r.Assumptions = []string{}
	}
	ev := map[string]interface{}{
		"property_id": r.Property, "tier": r.Tier, "seed": int64(r.Seed), "level": r.Level,
		"coverage": cov, "assumptions": r.Assumptions, "wall_s": time.Since(r.Start).Seconds() + leanWall(r.Lean),
		"violations": map[bool]int{true: 0, false: len(r.Violations)}[status == 0],
	}
	if status != 0 && len(r.Violations) == 0 {
		ev["violations"] = 1
	}
	b, _ := json.MarshalIndent(ev, "", " ")
	// runs against a mutated copy of the library (bin/seedtest, bin/controltest) keep their evidence apart
	evDir := filepath.Join(Root, "evidence")
	if d := os.Getenv("VERIF_EVIDENCE"); d != "" {
		evDir = d
	}
	os.MkdirAll(evDir, 0o755)
	os.WriteFile(filepath.Join(evDir, r.Property+".json"), b, 0o644)
	if status == 0 {
		fmt.Printf("OK property=%s tier=%s obligations=%d/%d evaluations=%d distinct=%d\n", r.Property, r.Tier, discharged, obligations, r.Evaluations, len(r.Distinct))
	}
	return status
}

func leanWall(l *LeanStatus) float64 {
	if l == nil {
		return 0
	}
	return l.WallS
}

func hasProofViolation(vs []Violation) bool {
	for _, v := range vs {
		if v.Kind == "proof-obligation" {
			return true
		}
	}
	return false
}

func tail(s string, n int) string {
	if len(s) > n {
		return s[len(s)-n:]
	}
	return s
}
