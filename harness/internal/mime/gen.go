package mime

import (
	"regexp"
	"strconv"

	restful "github.com/emicklei/go-restful/v3"

	"verifharness/internal/rng"
)

var (
	otherMedia   = []string{"text/html", "image/png", "application/xhtml+xml", "text/plain", "application/octet-stream"}
	partialMedia = []string{"application/*", "text/*", "*"}
	garbageMedia = []string{"", "x", "application/json/extra", "a b", "APPLICATION/JSON", "application/jsonx", "json", "*/*/*", "a=b"}
	// q values that strconv.ParseFloat rejects (the model's "unparsable"); nothing here may be a
	// sign, exponent, inf/nan, hex float, underscore or 4+ fraction digits (boundary of the model)
	garbageQ    = []string{"x", "", "0.5.1", "high", "1 0", "0.5x", "\xc2\xbd", "-", ".", "0..1", "q", "0,5", "1;", "0.5=1", "=0.2"}
	extraParams = []Param{{Name: "level", Val: "1"}, {Name: "charset", Val: "utf-8"}, {Name: "v", Val: "b3"},
		{Name: "x", Bare: true}, {Name: "a", Val: "b=c"}, {Name: "Q", Val: "0.3"}, {Name: "qs", Val: "0.1"}, {Name: "", Val: "1"}}
	presetTypes = []string{"text/plain; charset=utf-8", "text/plain", "text/html; charset=utf-8", "application/octet-stream", "application/problem+json", "application/json; charset=utf-8", "application/xml; charset=utf-8"}
	defaults    = []string{"", "", "", "", "", "", "", "", "", "",
		restful.MIME_JSON, restful.MIME_JSON, restful.MIME_JSON, restful.MIME_JSON,
		restful.MIME_XML, restful.MIME_XML, restful.MIME_XML, restful.MIME_XML,
		restful.MIME_ZIP, "text/plain"}
)

// decimalQ is the model's parsable quality: D+ | D+. | D*.D{1,3}
var decimalQ = regexp.MustCompile(`^([0-9]+\.?|[0-9]*\.[0-9]{1,3})$`)

// ModelParsesQ says whether Mime.parseQ accepts the (already trimmed) text.
func ModelParsesQ(s string) bool { return decimalQ.MatchString(s) }

// GoParsesQ is what the real code asks.
func GoParsesQ(s string) bool { _, err := strconv.ParseFloat(s, 64); return err == nil }

func genValidQ(r *rng.R) string {
	switch r.Intn(12) {
	case 0:
		return "1"
	case 1:
		return "0"
	case 2:
		return "1.0"
	case 3:
		return "." + digits(r, 1+r.Intn(3))
	case 4:
		return r.Pick([]string{"0.", "1.", "2", "10", "007", "1.5"})
	}
	s := "0"
	if n := r.Intn(4); n > 0 {
		s += "." + digits(r, n)
	}
	return s
}

func digits(r *rng.R, n int) string {
	b := make([]byte, n)
	for i := range b {
		b[i] = byte('0' + r.Intn(10))
	}
	return string(b)
}

func genMedia(r *rng.R, produces []string) string {
	switch x := r.Intn(100); {
	case x < 48:
		return r.Pick(produces)
	case x < 60:
		return r.Pick(AllMedia)
	case x < 74:
		return r.Pick(otherMedia)
	case x < 89:
		return "*/*"
	case x < 94:
		return r.Pick(partialMedia)
	default:
		return r.Pick(garbageMedia)
	}
}

func genRange(r *rng.R, produces []string) Range {
	if r.Chance(1, 25) {
		return Range{} // empty list element
	}
	rg := Range{Media: genMedia(r, produces)}
	for r.Chance(1, 5) { // parameters before q
		rg.Params = append(rg.Params, extraParams[r.Intn(len(extraParams))])
	}
	switch x := r.Intn(100); {
	case x < 35: // no q
	case x < 88:
		rg.Params = append(rg.Params, Param{Name: "q", Val: genValidQ(r)})
	default:
		rg.Params = append(rg.Params, Param{Name: "q", Val: r.Pick(garbageQ)})
	}
	for r.Chance(1, 6) { // parameters after q (now and then a second q)
		if r.Chance(1, 4) {
			rg.Params = append(rg.Params, Param{Name: "q", Val: genValidQ(r)})
		} else {
			rg.Params = append(rg.Params, extraParams[r.Intn(len(extraParams))])
		}
	}
	return rg
}

// Gen draws one case.
func Gen(r *rng.R) *Case {
	c := &Case{Router: "curly"}
	if r.Chance(1, 3) {
		c.Router = "jsr"
	}
	perm := r.Perm(len(AllMedia))
	n := 1 + r.Intn(3)
	if r.Chance(1, 8) {
		n = 4
	}
	for _, i := range perm[:n] {
		c.Produces = append(c.Produces, AllMedia[i])
	}
	c.Compact = r.Chance(1, 3)
	c.Default = defaults[r.Intn(len(defaults))]
	if r.Chance(1, 4) {
		// a Content-Type is on the response before the entity is written
		c.PresetBy = r.Pick(PresetBys)
		switch r.Intn(4) {
		case 0:
			c.Preset = r.Pick(AllMedia) // a registered type, produced or not
		case 1:
			c.Preset = r.Pick(c.Produces) + "; charset=utf-8"
		default:
			c.Preset = r.Pick(presetTypes)
		}
	}
	switch x := r.Intn(100); {
	case x < 8:
		c.Absent = true
	case x < 10: // present but empty
	default:
		k := 1 + r.Intn(3)
		if r.Chance(1, 3) {
			k = 1 + r.Intn(6)
		}
		if r.Chance(1, 12) {
			k = 13 + r.Intn(10) // longer than the 12 elements up to which sort.Sort is a stable insertion sort
		}
		for i := 0; i < k; i++ {
			c.Ranges = append(c.Ranges, genRange(r, c.Produces))
		}
	}
	if r.Chance(2, 5) {
		c.WS1 = r.U64() | 1
	}
	c.WS2 = r.U64() | 1
	if r.Chance(1, 6) {
		c.WS2 = 0
	}
	return c
}

// GenHist gives a drawn case a history: the route object exists before the judged request, has
// served 1–5 other requests (Accept headers from the same grammar), and 1–2 of its produced types
// got their writer only at some point of that history — mostly after the route had been served.
// The judged request keeps its Accept header, in half of the cases rewritten to prefer a late type.
func GenHist(r *rng.R, c *Case) {
	h := &Hist{}
	k := 1
	if r.Chance(1, 4) {
		k = 2
	}
	for _, i := range r.Perm(len(LateFormats))[:k] {
		l := LateFormats[i]
		l.Name = l.At(0)
		h.Late = append(h.Late, l)
		at := r.Intn(len(c.Produces) + 1)
		if r.Chance(1, 2) {
			at = 0 // the type the route prefers
		}
		c.Produces = append(c.Produces[:at], append([]string{l.Name}, c.Produces[at:]...)...)
	}
	n := 1 + r.Intn(3)
	if r.Chance(1, 4) {
		n = 1 + r.Intn(5)
	}
	for i := 0; i < n; i++ {
		t := &Case{}
		switch x := r.Intn(10); {
		case x == 0:
			t.Absent = true
		case x == 1: // present but empty
		default:
			for j, m := 0, 1+r.Intn(3); j < m; j++ {
				t.Ranges = append(t.Ranges, genRange(r, c.Produces))
			}
		}
		if r.Chance(1, 3) {
			t.WS1 = r.U64() | 1
		}
		h.Traffic = append(h.Traffic, t)
	}
	h.RegAt = n
	if r.Chance(2, 5) {
		h.RegAt = r.Intn(n + 1)
	}
	if !c.Absent && r.Chance(1, 2) {
		// the judged request names a late type, alone or in front of what it asked for
		rg := Range{Media: h.Late[r.Intn(len(h.Late))].Name}
		if r.Chance(1, 2) {
			c.Ranges = append([]Range{rg}, c.Ranges...)
		} else {
			for i := range c.Ranges {
				if p := c.Ranges[i].Params; len(p) == 0 || p[len(p)-1].Name != "q" {
					c.Ranges[i].Params = append(p, Param{Name: "q", Val: "0." + digits(r, 1)})
				}
			}
			c.Ranges = append(c.Ranges, rg)
		}
	}
	c.Hist = h
}
