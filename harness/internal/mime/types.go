// Package mime is the correspondence stream of C05: routes whose handler calls
// Response.WriteEntity, Accept headers drawn from a grammar, registry and default-content-type
// variations, run on the real package and encoded for the Lean driver (Restful/Driver/Mime.lean).
package mime

import (
	"strings"

	"verifharness/internal/rng"
	"verifharness/internal/sx"
)

// Param is one ";name=value" of a media range (Bare: no "=" at all).
type Param struct {
	Name, Val string
	Bare      bool
}

// Range is one element of the comma-separated Accept list (Media "" and no params = empty element).
type Range struct {
	Media  string
	Params []Param
}

// Case is one request against one route.
type Case struct {
	Router   string // "curly" | "jsr"
	Produces []string
	Absent   bool // no Accept header at all
	Ranges   []Range
	WS1, WS2 uint64 // whitespace seeds of the two spellings of the header (0 = none)
	Default  string // restful.DefaultResponseContentType
	Compact  bool   // the handler switches pretty printing off for its response (the writers' other code path; the choice of representation must not depend on it, so the model is not told)
	// history within the request: a Content-Type header is already on the response when the entity
	// is written (Preset, "" = none), put there by PresetBy: the handler itself (resp.AddHeader or
	// resp.Header().Set before WriteEntity) or a container / web-service / route filter that gives
	// every response a default Content-Type.  The entity's label must be the negotiated type all the
	// same, so the model is not told
	Preset   string
	PresetBy string // handler-AddHeader | handler-Header().Set | container-filter | webservice-filter | route-filter
}

// PresetBys are the places a Content-Type can come from before the entity is written.
var PresetBys = []string{"handler-AddHeader", "handler-Header().Set", "container-filter", "webservice-filter", "route-filter"}

// whitespace next to "," (i.e. around the media type) is mostly blanks: the ROUTER's Accept test
// trims blanks only, so a tab there makes it reject the request before any entity is written
var owsChoices = []string{"", "", " ", " ", "\t", "  ", " \t", "\t "}
var owsMediaChoices = []string{"", "", "", " ", " ", " ", " ", "  ", "  ", "   ", " ", "\t", " \t "}

// Render spells the header; every optional-whitespace slot (both sides of "," ";" "=", both ends)
// is filled from the seed, so two seeds give two spellings with one dropOWS normal form.
func (c *Case) Render(seed uint64) string {
	if c.Absent {
		return ""
	}
	var r *rng.R
	if seed != 0 {
		r = rng.New(seed)
	}
	ws := func() string {
		if r == nil {
			return ""
		}
		return r.Pick(owsChoices)
	}
	wsm := func() string {
		if r == nil {
			return ""
		}
		return r.Pick(owsMediaChoices)
	}
	var sb strings.Builder
	for i, rg := range c.Ranges {
		if i > 0 {
			sb.WriteString(",")
		}
		sb.WriteString(wsm())
		sb.WriteString(rg.Media)
		for j, p := range rg.Params {
			if j == 0 {
				sb.WriteString(wsm())
			} else {
				sb.WriteString(ws())
			}
			sb.WriteString(";" + ws() + p.Name)
			if !p.Bare {
				sb.WriteString(ws() + "=" + ws() + p.Val)
			}
		}
		if len(rg.Params) == 0 {
			sb.WriteString(wsm())
		} else {
			sb.WriteString(ws())
		}
	}
	return sb.String()
}

func (c *Case) Accept() string  { return c.Render(c.WS1) }
func (c *Case) Variant() string { return c.Render(c.WS2) }

// Obs is what one dispatch answered.
type Obs struct {
	Kind   string // "ct" | "e406" (entity writer) | "r406" (router, handler did not run) | "other"
	CT     string
	Detail string // for "other": what was seen (never compared)
}

func (o Obs) Sx() *sx.Node {
	if o.Kind == "ct" {
		return sx.K("ct", sx.H(o.CT))
	}
	return sx.K(o.Kind)
}

func (o Obs) String() string {
	switch o.Kind {
	case "ct":
		return "200 " + o.CT
	case "e406":
		return "406 (entity writer)"
	case "r406":
		return "406 (router)"
	}
	return "other: " + o.Detail
}

func obsList(kw string, os []Obs) *sx.Node {
	n := sx.K(kw)
	for _, o := range os {
		n.List = append(n.List, o.Sx())
	}
	return n
}

// Line is the protocol line of the case with the observed answers.
func (c *Case) Line(id int, real, realv []Obs) string { return c.LineReg(id, real, realv, Registry) }

// LineReg is Line for a given registry (recorded regressions name the registry they were recorded with).
func (c *Case) LineReg(id int, real, realv []Obs, reg []string) string {
	return sx.K("mime", sx.N(id), sx.K("acc", sx.H(c.Accept())), sx.K("var", sx.H(c.Variant())),
		sx.Hs("prod", c.Produces), sx.Hs("reg", reg), sx.K("def", sx.H(c.Default)),
		obsList("real", real), obsList("realv", realv)).String()
}

// Signature identifies the input (without the observed answers).
func (c *Case) Signature() string {
	return c.Router + "|" + strings.Join(c.Produces, ",") + "|" + c.Default + "|" + map[bool]string{true: "absent", false: "present"}[c.Absent] + "|" + c.Accept() + "|" + c.Variant() + "|" + c.Preset + "|" + c.PresetBy
}

func (c *Case) Clone() Case {
	d := *c
	d.Produces = append([]string{}, c.Produces...)
	d.Ranges = make([]Range, len(c.Ranges))
	for i, r := range c.Ranges {
		d.Ranges[i] = Range{Media: r.Media, Params: append([]Param{}, r.Params...)}
	}
	return d
}
