// Package mime is the correspondence stream of C05: routes whose handler calls
// Response.WriteEntity, Accept headers drawn from a grammar, registry and default-content-type
// variations, run on the real package and encoded for the Lean driver (Restful/Driver/Mime.lean).
package mime

import (
	"fmt"
	"strings"

	"verifharness/internal/rng"
	"verifharness/internal/sx"
)

// Param is one ";name=value" of a media range (Bare: no "=" at all).
type Param struct {
	Name, Val string
	Bare      bool
}

// Range is one element of the comma-separated Accept list (Media "" and no params = empty element).
type Range struct {
	Media  string
	Params []Param
}

// Case is one request against one route.
type Case struct {
	Router   string // "curly" | "jsr"
	Produces []string
	Absent   bool // no Accept header at all
	Ranges   []Range
	WS1, WS2 uint64 // whitespace seeds of the two spellings of the header (0 = none)
	Default  string // restful.DefaultResponseContentType
	Compact  bool   // the handler switches pretty printing off for its response (the writers' other code path; the choice of representation must not depend on it, so the model is not told)
	// history within the request: a Content-Type header is already on the response when the entity
	// is written (Preset, "" = none), put there by PresetBy: the handler itself (resp.AddHeader or
	// resp.Header().Set before WriteEntity) or a container / web-service / route filter that gives
	// every response a default Content-Type.  The entity's label must be the negotiated type all the
	// same, so the model is not told
	Preset   string
	PresetBy string // handler-AddHeader | handler-Header().Set | container-filter | webservice-filter | route-filter
	// Hist: the history of the ROUTE OBJECT before the judged request (nil: container and route are
	// created for this request alone).  The route, its web service and its container are created
	// once; earlier requests are served on them, and writers for some of the produced types are
	// registered only at some point of that history (late, lazy registration).  The judged request
	// comes last; what it must be answered depends on the registry of that moment only, so the model
	// is told that registry and nothing of the history
	Hist *Hist
}

// Late is a produced media type whose writer is registered during the history of the route.
type Late struct {
	Format string // name pattern, %d = a number that makes the name new in this process (the registry cannot forget)
	Codec  string // json | xml | csv
	Name   string // the name in force (renewed by every execution)
}

// Hist is what happened to the route object before the judged request.
type Hist struct {
	Late    []Late
	Traffic []*Case // earlier requests on the same route: only Absent, Ranges, WS1 are used
	RegAt   int     // the late writers are registered after this many of the earlier requests (0 … len(Traffic))
}

// LateFormats: the names late writers are registered under; some contain names that are registered
// all along (the reverse lookup of accessorAt finds a writer for them even before their own exists).
// Every pattern ends after the number, so that no such name is a substring of another one.
var LateFormats = []Late{
	{Format: "application/vnd.late%d+json", Codec: "json"},
	{Format: "application/vnd.late%d+xml", Codec: "xml"},
	{Format: "text/late%d-csv", Codec: "csv"},
	{Format: "application/json-late%d-v", Codec: "json"},
	{Format: "application/xml-late%d-v", Codec: "xml"},
	{Format: "application/x-late%d+xml", Codec: "xml"},
}

func (l Late) At(k int) string { return fmt.Sprintf(l.Format, k) }

// rename replaces a media type name everywhere in the case.
func (c *Case) rename(old, new string) {
	for i, p := range c.Produces {
		if p == old {
			c.Produces[i] = new
		}
	}
	for i := range c.Ranges {
		if c.Ranges[i].Media == old {
			c.Ranges[i].Media = new
		}
	}
	c.Preset = strings.Replace(c.Preset, old, new, -1)
	if c.Hist != nil {
		for _, t := range c.Hist.Traffic {
			for i := range t.Ranges {
				if t.Ranges[i].Media == old {
					t.Ranges[i].Media = new
				}
			}
		}
	}
}

// RegistryAtJudgement is the registry the judged request meets: the process-wide one plus the late
// writers of this case's history.
func (c *Case) RegistryAtJudgement() []string {
	reg := append([]string{}, Registry...)
	if c.Hist != nil {
		for _, l := range c.Hist.Late {
			reg = append(reg, l.Name)
		}
	}
	return reg
}

// PresetBys are the places a Content-Type can come from before the entity is written.
var PresetBys = []string{"handler-AddHeader", "handler-Header().Set", "container-filter", "webservice-filter", "route-filter"}

// whitespace next to "," (i.e. around the media type) is mostly blanks: the ROUTER's Accept test
// trims blanks only, so a tab there makes it reject the request before any entity is written
var owsChoices = []string{"", "", " ", " ", "\t", "  ", " \t", "\t "}
var owsMediaChoices = []string{"", "", "", " ", " ", " ", " ", "  ", "  ", "   ", " ", "\t", " \t "}

// Render spells the header; every optional-whitespace slot (both sides of "," ";" "=", both ends)
// is filled from the seed, so two seeds give two spellings with one dropOWS normal form.
func (c *Case) Render(seed uint64) string {
	if c.Absent {
		return ""
	}
	var r *rng.R
	if seed != 0 {
		r = rng.New(seed)
	}
	ws := func() string {
		if r == nil {
			return ""
		}
		return r.Pick(owsChoices)
	}
	wsm := func() string {
		if r == nil {
			return ""
		}
		return r.Pick(owsMediaChoices)
	}
	var sb strings.Builder
	for i, rg := range c.Ranges {
		if i > 0 {
			sb.WriteString(",")
		}
		sb.WriteString(wsm())
		sb.WriteString(rg.Media)
		for j, p := range rg.Params {
			if j == 0 {
				sb.WriteString(wsm())
			} else {
				sb.WriteString(ws())
			}
			sb.WriteString(";" + ws() + p.Name)
			if !p.Bare {
				sb.WriteString(ws() + "=" + ws() + p.Val)
			}
		}
		if len(rg.Params) == 0 {
			sb.WriteString(wsm())
		} else {
			sb.WriteString(ws())
		}
	}
	return sb.String()
}

func (c *Case) Accept() string  { return c.Render(c.WS1) }
func (c *Case) Variant() string { return c.Render(c.WS2) }

// Obs is what one dispatch answered.
type Obs struct {
	Kind   string // "ct" | "e406" (entity writer) | "r406" (router, handler did not run) | "other"
	CT     string
	Detail string // for "other": what was seen (never compared)
}

func (o Obs) Sx() *sx.Node {
	if o.Kind == "ct" {
		return sx.K("ct", sx.H(o.CT))
	}
	return sx.K(o.Kind)
}

func (o Obs) String() string {
	switch o.Kind {
	case "ct":
		return "200 " + o.CT
	case "e406":
		return "406 (entity writer)"
	case "r406":
		return "406 (router)"
	}
	return "other: " + o.Detail
}

func obsList(kw string, os []Obs) *sx.Node {
	n := sx.K(kw)
	for _, o := range os {
		n.List = append(n.List, o.Sx())
	}
	return n
}

// Line is the protocol line of the case with the observed answers.
func (c *Case) Line(id int, real, realv []Obs) string {
	return c.LineReg(id, real, realv, c.RegistryAtJudgement())
}

// LineReg is Line for a given registry (recorded regressions name the registry they were recorded with).
func (c *Case) LineReg(id int, real, realv []Obs, reg []string) string {
	return sx.K("mime", sx.N(id), sx.K("acc", sx.H(c.Accept())), sx.K("var", sx.H(c.Variant())),
		sx.Hs("prod", c.Produces), sx.Hs("reg", reg), sx.K("def", sx.H(c.Default)),
		obsList("real", real), obsList("realv", realv)).String()
}

// Signature identifies the input (without the observed answers).
func (c *Case) Signature() string {
	sig := c.Router + "|" + strings.Join(c.Produces, ",") + "|" + c.Default + "|" + map[bool]string{true: "absent", false: "present"}[c.Absent] + "|" + c.Accept() + "|" + c.Variant() + "|" + c.Preset + "|" + c.PresetBy
	if c.Hist != nil {
		sig += fmt.Sprintf("|history:%d", c.Hist.RegAt)
		for _, t := range c.Hist.Traffic {
			sig += "|" + map[bool]string{true: "absent", false: "present"}[t.Absent] + ":" + t.Accept()
		}
	}
	return sig
}

func (c *Case) Clone() Case {
	d := *c
	d.Produces = append([]string{}, c.Produces...)
	d.Ranges = make([]Range, len(c.Ranges))
	for i, r := range c.Ranges {
		d.Ranges[i] = Range{Media: r.Media, Params: append([]Param{}, r.Params...)}
	}
	if c.Hist != nil {
		h := &Hist{Late: append([]Late{}, c.Hist.Late...), RegAt: c.Hist.RegAt}
		for _, t := range c.Hist.Traffic {
			tc := t.Clone()
			h.Traffic = append(h.Traffic, &tc)
		}
		d.Hist = h
	}
	return d
}
