package mime

import (
	"bytes"
	"encoding/json"
	"encoding/xml"
	"fmt"
	"net/http"
	"net/http/httptest"
	"net/url"
	"sync"

	restful "github.com/emicklei/go-restful/v3"
)

// Custom media types registered (once, the registry is global in the package) next to the built-in
// application/json and application/xml.  Every writer writes its registration key as Content-Type.
// "application/x" is a substring of "application/xml" on purpose: it exercises the map-order
// dependent substring fallback of accessorAt.
const (
	VndJSON = "application/vnd.x+json"
	VndXML  = "application/vnd.y+xml"
	CSV     = "text/csv"
	AppX    = "application/x"
)

// AllMedia are the media types routes may declare in Produces; a writer is registered for each of
// them sooner or later (the package's registry is global and can only grow).
var AllMedia = []string{restful.MIME_JSON, restful.MIME_XML, VndJSON, VndXML, CSV, AppX}

// Registry is the key set of the global registry as the model is told: the built-in writers first,
// the custom ones as SetupPhase registers them.
var Registry = []string{restful.MIME_JSON, restful.MIME_XML}

// codec of each registered key: how the body is checked
var codec = map[string]string{restful.MIME_JSON: "json", restful.MIME_XML: "xml", VndJSON: "json", VndXML: "xml", CSV: "csv", AppX: "xml"}

const csvBody = "a,n\nhello,7\n"

// csvAccess is a tiny custom EntityReaderWriter.
type csvAccess struct{}

func (csvAccess) Read(req *restful.Request, v interface{}) error { return nil }
func (csvAccess) Write(resp *restful.Response, status int, v interface{}) error {
	resp.Header().Set(restful.HEADER_ContentType, CSV)
	resp.WriteHeader(status)
	_, err := resp.Write([]byte(csvBody))
	return err
}

var phaseMu sync.Mutex
var phase int

// SetupPhase registers the custom accessors in two steps, so that requests are served both before
// and after a writer for a produced type exists (phase 0: built-ins only; 1: + vnd.x+json, text/csv;
// 2: all). Phases only go up: the registry has no way to forget a writer.
func SetupPhase(k int) {
	phaseMu.Lock()
	defer phaseMu.Unlock()
	if k >= 1 && phase < 1 {
		restful.RegisterEntityAccessor(VndJSON, restful.NewEntityAccessorJSON(VndJSON))
		restful.RegisterEntityAccessor(CSV, csvAccess{})
		Registry = append(Registry, VndJSON, CSV)
		phase = 1
	}
	if k >= 2 && phase < 2 {
		restful.RegisterEntityAccessor(VndXML, restful.NewEntityAccessorXML(VndXML))
		restful.RegisterEntityAccessor(AppX, restful.NewEntityAccessorXML(AppX))
		Registry = append(Registry, VndXML, AppX)
		phase = 2
	}
}

// Setup registers every custom accessor (idempotent).
func Setup() { SetupPhase(2) }

// Entity is the value every handler writes.
type Entity struct {
	XMLName xml.Name `json:"-" xml:"entity"`
	A       string   `json:"a" xml:"a"`
	N       int      `json:"n" xml:"n"`
}

var theEntity = Entity{A: "hello", N: 7}

func decodes(kind string, body []byte) bool {
	var e Entity
	switch kind {
	case "json":
		if json.Unmarshal(body, &e) != nil {
			return false
		}
	case "xml":
		if xml.Unmarshal(body, &e) != nil {
			return false
		}
	case "csv":
		return bytes.Equal(body, []byte(csvBody))
	default:
		return false
	}
	return e.A == theEntity.A && e.N == theEntity.N
}

// Dispatches is how often each request is sent (map iteration order may differ between them).
const Dispatches = 3

// Execute sends the request n times through Container.Dispatch on a fresh container.
func Execute(c *Case, accept string, n int) (out []Obs) {
	restful.DefaultResponseContentType(c.Default)
	defer restful.DefaultResponseContentType("")
	ran := false
	build := func() (cont *restful.Container, err error) {
		defer func() {
			if r := recover(); r != nil {
				err = fmt.Errorf("build panic: %v", r)
			}
		}()
		cont = restful.NewContainer()
		if c.Router == "jsr" {
			cont.Router(restful.RouterJSR311{})
		} else {
			cont.Router(restful.CurlyRouter{})
		}
		ws := new(restful.WebService)
		ws.Path("/w")
		ws.Route(ws.GET("/x").Produces(c.Produces...).To(func(req *restful.Request, resp *restful.Response) {
			ran = true
			if c.Compact {
				resp.PrettyPrint(false)
			}
			resp.WriteEntity(theEntity)
		}))
		cont.Add(ws)
		return cont, nil
	}
	cont, err := build()
	if err != nil {
		for i := 0; i < n; i++ {
			out = append(out, Obs{Kind: "other", Detail: err.Error()})
		}
		return out
	}
	for i := 0; i < n; i++ {
		out = append(out, one(cont, c, accept, &ran))
	}
	return out
}

func one(cont *restful.Container, c *Case, accept string, ran *bool) (o Obs) {
	defer func() {
		if r := recover(); r != nil {
			o = Obs{Kind: "other", Detail: fmt.Sprintf("panic: %v", r)}
		}
	}()
	h := http.Header{}
	if !c.Absent {
		h["Accept"] = []string{accept}
	}
	req := &http.Request{Method: "GET", URL: &url.URL{Path: "/w/x"}, Header: h, Body: http.NoBody, Proto: "HTTP/1.1", ProtoMajor: 1, ProtoMinor: 1}
	rec := httptest.NewRecorder()
	*ran = false
	cont.Dispatch(rec, req)
	ct := rec.Result().Header.Get("Content-Type") // as sent: a header set after WriteHeader never reaches the client
	switch {
	case rec.Code == http.StatusNotAcceptable && !*ran:
		return Obs{Kind: "r406"}
	case rec.Code == http.StatusNotAcceptable && *ran:
		return Obs{Kind: "e406"}
	case rec.Code == http.StatusOK && *ran:
		kind, known := codec[ct]
		if !known {
			return Obs{Kind: "other", Detail: fmt.Sprintf("200 with unregistered Content-Type %q", ct)}
		}
		if !decodes(kind, rec.Body.Bytes()) {
			return Obs{Kind: "other", Detail: fmt.Sprintf("200 Content-Type %q but the body does not decode as %s: %q", ct, kind, rec.Body.String())}
		}
		return Obs{Kind: "ct", CT: ct}
	}
	return Obs{Kind: "other", Detail: fmt.Sprintf("status %d ran=%v Content-Type %q", rec.Code, *ran, ct)}
}
