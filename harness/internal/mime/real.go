package mime

import (
	"bytes"
	"encoding/json"
	"encoding/xml"
	"fmt"
	"net/http"
	"net/http/httptest"
	"net/url"
	"sync"

	restful "github.com/emicklei/go-restful/v3"
)

// Custom media types registered (once, the registry is global in the package) next to the built-in
// application/json and application/xml.  Every writer writes its registration key as Content-Type.
// Several names contain, or are contained in, other registered names, on purpose — a lookup that
// prefers anything to the exact registration answers with another writer's Content-Type:
// "application/x" is a substring of "application/xml" (and of "application/xml-dtd"; it exercises
// the map-order dependent substring fallback of accessorAt), "application/json-patch+json" and
// "application/xml-dtd" contain the built-in names, "text/csv-schema" contains the custom "text/csv".
const (
	VndJSON   = "application/vnd.x+json"
	VndXML    = "application/vnd.y+xml"
	CSV       = "text/csv"
	AppX      = "application/x"
	JSONPatch = "application/json-patch+json"
	XMLDTD    = "application/xml-dtd"
	CSVSchema = "text/csv-schema"
)

// custom registrations: key, how the body is checked, the accessor
var customs = []struct {
	Key, Codec string
	Make       func() restful.EntityReaderWriter
}{
	{VndJSON, "json", func() restful.EntityReaderWriter { return restful.NewEntityAccessorJSON(VndJSON) }},
	{CSV, "csv", func() restful.EntityReaderWriter { return csvAccess{CSV} }},
	{VndXML, "xml", func() restful.EntityReaderWriter { return restful.NewEntityAccessorXML(VndXML) }},
	{AppX, "xml", func() restful.EntityReaderWriter { return restful.NewEntityAccessorXML(AppX) }},
	{JSONPatch, "json", func() restful.EntityReaderWriter { return restful.NewEntityAccessorJSON(JSONPatch) }},
	{XMLDTD, "xml", func() restful.EntityReaderWriter { return restful.NewEntityAccessorXML(XMLDTD) }},
	{CSVSchema, "csv", func() restful.EntityReaderWriter { return csvAccess{CSVSchema} }},
}

// AllMedia are the media types routes may declare in Produces; a writer is registered for each of
// them sooner or later (the package's registry is global and can only grow).
var AllMedia = []string{restful.MIME_JSON, restful.MIME_XML, VndJSON, VndXML, CSV, AppX, JSONPatch, XMLDTD, CSVSchema}

// Registry is the key set of the global registry as the model is told: the built-in writers first,
// the custom ones in the order SetupPhase registers them.
var Registry = []string{restful.MIME_JSON, restful.MIME_XML}

// codec of each registered key: how the body is checked
var codec = map[string]string{restful.MIME_JSON: "json", restful.MIME_XML: "xml"}

func init() {
	for _, c := range customs {
		codec[c.Key] = c.Codec
	}
}

const csvBody = "a,n\nhello,7\n"

// csvAccess is a tiny custom EntityReaderWriter (registered under two keys, one containing the other).
type csvAccess struct{ key string }

func (csvAccess) Read(req *restful.Request, v interface{}) error { return nil }
func (a csvAccess) Write(resp *restful.Response, status int, v interface{}) error {
	resp.Header().Set(restful.HEADER_ContentType, a.key)
	resp.WriteHeader(status)
	_, err := resp.Write([]byte(csvBody))
	return err
}

var phaseMu sync.Mutex
var phase int

// regOrder is the order in which the custom accessors get registered (indices into customs); the
// first half in phase 1, the rest in phase 2.  SetOrder may change it while nothing is registered.
var regOrder = []int{0, 1, 2, 3, 4, 5, 6}

// SetOrder chooses the registration order of the custom accessors (a permutation of the indices of
// customs) — "contains" relations between keys then meet every relative order across seeds.  It
// has no effect once a custom accessor is registered (the registry cannot forget).  Reports the
// order in force.
func SetOrder(perm []int) []string {
	phaseMu.Lock()
	defer phaseMu.Unlock()
	if phase == 0 && len(perm) == len(customs) {
		seen := map[int]bool{}
		for _, i := range perm {
			if i >= 0 && i < len(customs) {
				seen[i] = true
			}
		}
		if len(seen) == len(customs) {
			regOrder = append([]int{}, perm...)
		}
	}
	var keys []string
	for _, i := range regOrder {
		keys = append(keys, customs[i].Key)
	}
	return keys
}

// SetupPhase registers the custom accessors in two steps, so that requests are served both before
// and after a writer for a produced type exists (phase 0: built-ins only; 1: + the first three of
// the registration order; 2: all). Phases only go up: the registry has no way to forget a writer.
func SetupPhase(k int) {
	phaseMu.Lock()
	defer phaseMu.Unlock()
	reg := func(idx []int) {
		for _, i := range idx {
			restful.RegisterEntityAccessor(customs[i].Key, customs[i].Make())
			Registry = append(Registry, customs[i].Key)
		}
	}
	if k >= 1 && phase < 1 {
		reg(regOrder[:3])
		phase = 1
	}
	if k >= 2 && phase < 2 {
		reg(regOrder[3:])
		phase = 2
	}
}

// Setup registers every custom accessor (idempotent).
func Setup() { SetupPhase(2) }

// Entity is the value every handler writes.
type Entity struct {
	XMLName xml.Name `json:"-" xml:"entity"`
	A       string   `json:"a" xml:"a"`
	N       int      `json:"n" xml:"n"`
}

var theEntity = Entity{A: "hello", N: 7}

func decodes(kind string, body []byte) bool {
	var e Entity
	switch kind {
	case "json":
		if json.Unmarshal(body, &e) != nil {
			return false
		}
	case "xml":
		if xml.Unmarshal(body, &e) != nil {
			return false
		}
	case "csv":
		return bytes.Equal(body, []byte(csvBody))
	default:
		return false
	}
	return e.A == theEntity.A && e.N == theEntity.N
}

// Dispatches is how often each request is sent (map iteration order may differ between them).
const Dispatches = 3

// build makes the container with the one route of the case; *ran is set whenever its handler runs.
func build(c *Case, ran *bool) (cont *restful.Container, err error) {
	defer func() {
		if r := recover(); r != nil {
			err = fmt.Errorf("build panic: %v", r)
		}
	}()
	cont = restful.NewContainer()
	if c.Router == "jsr" {
		cont.Router(restful.RouterJSR311{})
	} else {
		cont.Router(restful.CurlyRouter{})
	}
	ws := new(restful.WebService)
	ws.Path("/w")
	preset := func(req *restful.Request, resp *restful.Response, chain *restful.FilterChain) {
		resp.Header().Set(restful.HEADER_ContentType, c.Preset) // "a default Content-Type for every response"
		chain.ProcessFilter(req, resp)
	}
	if c.Preset != "" {
		switch c.PresetBy {
		case "container-filter":
			cont.Filter(preset)
		case "webservice-filter":
			ws.Filter(preset)
		}
	}
	// the route gets its own copy of the list: what the package does to the slice it was handed must
	// not reach the description of the case the model is told
	rb := ws.GET("/x").Produces(append([]string{}, c.Produces...)...)
	if c.Preset != "" && c.PresetBy == "route-filter" {
		rb = rb.Filter(preset)
	}
	ws.Route(rb.To(func(req *restful.Request, resp *restful.Response) {
		*ran = true
		if c.Compact {
			resp.PrettyPrint(false)
		}
		if c.Preset != "" {
			switch c.PresetBy {
			case "handler-AddHeader":
				resp.AddHeader(restful.HEADER_ContentType, c.Preset)
			case "handler-Header().Set":
				resp.Header().Set(restful.HEADER_ContentType, c.Preset)
			}
		}
		resp.WriteEntity(theEntity)
	}))
	cont.Add(ws)
	return cont, nil
}

// Execute sends the request n times through Container.Dispatch on a fresh container.
func Execute(c *Case, accept string, n int) (out []Obs) {
	restful.DefaultResponseContentType(c.Default)
	defer restful.DefaultResponseContentType("")
	ran := false
	cont, err := build(c, &ran)
	if err != nil {
		for i := 0; i < n; i++ {
			out = append(out, Obs{Kind: "other", Detail: err.Error()})
		}
		return out
	}
	for i := 0; i < n; i++ {
		out = append(out, one(cont, c, accept, &ran))
	}
	return out
}

var lateSeq int

// freshen gives the late types of the history names that are new in this process, so that every
// execution (the first, a shrinking step, a replay) really starts without writers for them.
func (c *Case) freshen() {
	phaseMu.Lock()
	defer phaseMu.Unlock()
	for i := range c.Hist.Late {
		l := &c.Hist.Late[i]
		lateSeq++
		fresh := l.At(lateSeq)
		c.rename(l.Name, fresh)
		l.Name = fresh
	}
}

func registerLate(c *Case) {
	for _, l := range c.Hist.Late {
		var w restful.EntityReaderWriter
		switch l.Codec {
		case "json":
			w = restful.NewEntityAccessorJSON(l.Name)
		case "xml":
			w = restful.NewEntityAccessorXML(l.Name)
		default:
			w = csvAccess{l.Name}
		}
		codec[l.Name] = l.Codec
		restful.RegisterEntityAccessor(l.Name, w)
	}
}

// ExecuteHist runs a case that has a history: ONE container, web service and route for all of it;
// the earlier requests are served (their answers are traffic, not judged: a produced type may have
// no writer yet), the late writers are registered where the history says, then the judged request
// is dispatched n times in each of its two spellings — on the route object that has the history.
func ExecuteHist(c *Case, n int) (real, realv []Obs) {
	c.freshen()
	restful.DefaultResponseContentType(c.Default)
	defer restful.DefaultResponseContentType("")
	ran := false
	cont, err := build(c, &ran)
	if err != nil {
		for i := 0; i < n; i++ {
			real = append(real, Obs{Kind: "other", Detail: err.Error()})
			realv = append(realv, Obs{Kind: "other", Detail: err.Error()})
		}
		return real, realv
	}
	registered := false
	for i, t := range c.Hist.Traffic {
		if i >= c.Hist.RegAt && !registered {
			registerLate(c)
			registered = true
		}
		one(cont, t, t.Accept(), &ran)
	}
	if !registered {
		registerLate(c)
	}
	for i := 0; i < n; i++ {
		real = append(real, one(cont, c, c.Accept(), &ran))
	}
	for i := 0; i < n; i++ {
		realv = append(realv, one(cont, c, c.Variant(), &ran))
	}
	return real, realv
}

func one(cont *restful.Container, c *Case, accept string, ran *bool) (o Obs) {
	defer func() {
		if r := recover(); r != nil {
			o = Obs{Kind: "other", Detail: fmt.Sprintf("panic: %v", r)}
		}
	}()
	h := http.Header{}
	if !c.Absent {
		h["Accept"] = []string{accept}
	}
	req := &http.Request{Method: "GET", URL: &url.URL{Path: "/w/x"}, Header: h, Body: http.NoBody, Proto: "HTTP/1.1", ProtoMajor: 1, ProtoMinor: 1}
	rec := httptest.NewRecorder()
	*ran = false
	cont.Dispatch(rec, req)
	ct := rec.Result().Header.Get("Content-Type") // as sent: a header set after WriteHeader never reaches the client
	if vs := rec.Result().Header.Values("Content-Type"); len(vs) > 1 {
		return Obs{Kind: "other", Detail: fmt.Sprintf("status %d with %d Content-Type header lines %q", rec.Code, len(vs), vs)}
	}
	switch {
	case rec.Code == http.StatusNotAcceptable && !*ran:
		return Obs{Kind: "r406"}
	case rec.Code == http.StatusNotAcceptable && *ran:
		return Obs{Kind: "e406"}
	case rec.Code == http.StatusOK && *ran:
		kind, known := codec[ct]
		if !known {
			return Obs{Kind: "other", Detail: fmt.Sprintf("200 with unregistered Content-Type %q", ct)}
		}
		if !decodes(kind, rec.Body.Bytes()) {
			return Obs{Kind: "other", Detail: fmt.Sprintf("200 Content-Type %q but the body does not decode as %s: %q", ct, kind, rec.Body.String())}
		}
		return Obs{Kind: "ct", CT: ct}
	}
	return Obs{Kind: "other", Detail: fmt.Sprintf("status %d ran=%v Content-Type %q", rec.Code, *ran, ct)}
}
