package mime

import (
	"strings"

	restful "github.com/emicklei/go-restful/v3"
)

// The Go side of the class of the open finding F07b (Lean: Spec.F07b) and of the class of the
// finding F07 that d89a7d4 repaired (Lean: Spec.F07; a coverage class only: nothing is excused inside
// it).  Written independently of the package under test; the driver's class bits are cross-checked
// against these on every case.

func trimOWS(s string) string { return strings.Trim(s, " \t") }

// wellFormedRanges: media types of the ranges whose weight is a decimal number (or absent);
// qSeen collects every q text met (for the generator's boundary check).
func wellFormedRanges(accept string, qSeen *[]string) (media []string) {
	for _, el := range strings.Split(accept, ",") {
		parts := strings.Split(el, ";")
		ok := true
		for _, p := range parts[1:] {
			kv := strings.Split(p, "=")
			if len(kv) == 2 && trimOWS(kv[0]) == "q" {
				v := trimOWS(kv[1])
				if qSeen != nil {
					*qSeen = append(*qSeen, v)
				}
				ok = ModelParsesQ(v)
				break
			}
		}
		if ok {
			media = append(media, trimOWS(parts[0]))
		}
	}
	return media
}

func contains(xs []string, x string) bool {
	for _, y := range xs {
		if x == y {
			return true
		}
	}
	return false
}

// AcceptOK is Spec.acceptOK: some element (cut at ';', blanks trimmed) is */* or a produced type.
func AcceptOK(produces []string, accept string) bool {
	if accept == "" {
		accept = "*/*"
	}
	for _, el := range strings.Split(accept, ",") {
		if i := strings.Index(el, ";"); i >= 0 {
			el = el[:i]
		}
		m := strings.Trim(el, " ")
		if m == "*/*" || contains(produces, m) {
			return true
		}
	}
	return false
}

func DefaultSet(d string) bool {
	return d == restful.MIME_JSON || d == restful.MIME_XML || d == restful.MIME_ZIP
}

// ClassFormerF07: no Accept header value and a default response content type is set — the class of
// the REPAIRED finding F07.  It excuses nothing; the check measures that the stream keeps visiting it.
func ClassFormerF07(accept, dflt string) bool { return accept == "" && DefaultSet(dflt) }

// ClassF07b: non-empty header the router admits, none of whose well-formed ranges is satisfiable
// (all produced types are registered in this stream, so "satisfiable" = */* or produced).  Since
// 8b400b4 the answer inside the class is a function of the request (the registered type that occurs
// first in the raw header, else the default type, else the first produced type: C05_F07b_inside) —
// a failing case is excused only when the real answers are exactly the model's.
func ClassF07b(accept string, produces []string) bool {
	if accept == "" || !AcceptOK(produces, accept) {
		return false
	}
	for _, m := range wellFormedRanges(accept, nil) {
		if m == "*/*" || contains(produces, m) {
			return false
		}
	}
	return true
}
