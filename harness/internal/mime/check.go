package mime

import (
	"fmt"
	"strings"

	"verifharness/internal/drv"
	"verifharness/internal/report"
	"verifharness/internal/rng"
	"verifharness/internal/sx"
)

// Result is a case with what the real code and the driver said.
type Result struct {
	Case        *Case
	Line        string
	Real, RealV []Obs
	Model       *sx.Node // (r406) | (e406) | (w k…)
	ModelV      *sx.Node
	Tag         string
	Spec        map[string]bool // C05, C05v, OWS
	WF, OwsEq   bool
	Class       map[string]bool // F07, F07b of the primary spelling
	ClassV      map[string]bool
	Best        string
}

func (c *Case) run() (real, realv []Obs) {
	return Execute(c, c.Accept(), Dispatches), Execute(c, c.Variant(), Dispatches)
}

// Eval runs the cases on the real code and the driver (one batch).
func Eval(cases []*Case) ([]*Result, error) {
	res := make([]*Result, len(cases))
	lines := make([]string, len(cases))
	for i, c := range cases {
		real, realv := c.run()
		res[i] = &Result{Case: c, Real: real, RealV: realv, Line: c.Line(i, real, realv)}
		lines[i] = res[i].Line
	}
	ans, err := drv.Run(lines)
	if err != nil {
		return nil, err
	}
	for i, a := range ans {
		if err := res[i].fill(a); err != nil {
			return nil, err
		}
	}
	return res, nil
}

func (r *Result) fill(a string) error {
	n, err := sx.Parse(a)
	if err != nil {
		return fmt.Errorf("driver answer %q: %v", a, err)
	}
	if n.Head() != "out" {
		return fmt.Errorf("driver rejected a line: %s\n  line: %s", a, r.Line)
	}
	r.Spec, r.Class, r.ClassV = map[string]bool{}, map[string]bool{}, map[string]bool{}
	for _, s := range n.List {
		switch s.Head() {
		case "m":
			r.Model = s.Args()[0]
		case "mv":
			r.ModelV = s.Args()[0]
		case "tag":
			r.Tag = s.Args()[0].Atom
		case "wf":
			r.WF = s.Args()[0].Atom == "1"
		case "owseq":
			r.OwsEq = s.Args()[0].Atom == "1"
		case "spec":
			r.Spec[s.Args()[0].Atom] = s.Args()[1].Atom == "1"
		case "class":
			r.Class[s.Args()[0].Atom] = s.Args()[1].Atom == "1"
		case "classv":
			r.ClassV[s.Args()[0].Atom] = s.Args()[1].Atom == "1"
		case "best":
			if s.Args()[0].Atom == "none" {
				r.Best = "(none)"
			} else {
				r.Best = s.Args()[0].Str()
			}
		}
	}
	if r.Model == nil || r.ModelV == nil {
		return fmt.Errorf("driver answer without model outcome: %s", a)
	}
	return nil
}

// agrees: every observed answer is one the model allows.
func agrees(model *sx.Node, obs []Obs) bool {
	for _, o := range obs {
		switch model.Head() {
		case "r406", "e406":
			if o.Kind != model.Head() {
				return false
			}
		case "w":
			ok := false
			for _, k := range model.Args() {
				if o.Kind == "ct" && o.CT == k.Str() {
					ok = true
				}
			}
			if !ok {
				return false
			}
		default:
			return false
		}
	}
	return true
}

func modelString(m *sx.Node) string {
	if m.Head() != "w" {
		return m.Head()
	}
	var ks []string
	for _, k := range m.Args() {
		ks = append(ks, k.Str())
	}
	return "one of [" + strings.Join(ks, ", ") + "]"
}

func obsString(os []Obs) string {
	var s []string
	for _, o := range os {
		s = append(s, o.String())
	}
	return strings.Join(s, " | ")
}

// Verdict of one case.
type Verdict struct {
	Kind  string // "" ok | "known" | "counterexample" | "correspondence" | "repaired"
	Known string // finding id
	What  string
}

// Open is the set of C05 findings listed as open in known_findings.json (set by Check).  A class
// only excuses a failing case while its finding is listed; otherwise the case is a VIOLATION.
var Open = map[string]bool{}

// known class of one spelling, decided on the Go side
func goClass(accept string, c *Case) string {
	switch {
	case Open["F07"] && ClassF07(accept, c.Default):
		return "F07"
	case Open["F07b"] && ClassF07b(accept, c.Produces):
		return "F07b"
	}
	return ""
}

// Judge applies DESIGN §5: predicate on the real outcome first, then model agreement.
func (r *Result) Judge() Verdict {
	c := r.Case
	type side struct {
		name, accept string
		spec         bool
		model        *sx.Node
		obs          []Obs
	}
	sides := []side{{"Accept", c.Accept(), r.Spec["C05"], r.Model, r.Real}, {"Accept (second spelling)", c.Variant(), r.Spec["C05v"], r.ModelV, r.RealV}}
	repaired := false
	for _, s := range sides {
		cls := goClass(s.accept, c)
		ag := agrees(s.model, s.obs)
		if !s.spec {
			if cls != "" && ag {
				return Verdict{Kind: "known", Known: cls}
			}
			return Verdict{Kind: "counterexample", What: fmt.Sprintf("the real answers to %s %q falsify Spec.c05Holds (demanded: %s)", s.name, s.accept, r.Best)}
		}
		if !ag {
			if cls != "" {
				repaired = true // predicate holds inside a known class: someone repaired the defect
				continue
			}
			return Verdict{Kind: "correspondence", What: fmt.Sprintf("model and implementation disagree on %s %q", s.name, s.accept)}
		}
	}
	if !r.Spec["OWS"] {
		// two spellings with one normal form were answered differently
		for _, s := range sides {
			if cls := goClass(s.accept, c); cls == "F07b" && agrees(s.model, s.obs) {
				return Verdict{Kind: "known", Known: cls}
			}
		}
		return Verdict{Kind: "counterexample", What: "two spellings of one Accept header that differ only in optional whitespace were answered differently (C05_ows on the real code)"}
	}
	if repaired {
		return Verdict{Kind: "repaired"}
	}
	return Verdict{}
}

// CrossCheck compares the Go classifiers with the driver's class bits and the generator with the
// boundary of the q model; an error here is a defect of the machinery.
func (r *Result) CrossCheck() error {
	c := r.Case
	for _, s := range []struct {
		accept string
		cls    map[string]bool
	}{{c.Accept(), r.Class}, {c.Variant(), r.ClassV}} {
		if ClassF07(s.accept, c.Default) != s.cls["F07"] || ClassF07b(s.accept, c.Produces) != s.cls["F07b"] {
			return fmt.Errorf("class predicates differ between Go (F07=%v F07b=%v) and Lean (%v) on %q produces=%v default=%q",
				ClassF07(s.accept, c.Default), ClassF07b(s.accept, c.Produces), s.cls, s.accept, c.Produces, c.Default)
		}
		var qs []string
		wellFormedRanges(s.accept, &qs)
		for _, q := range qs {
			if ModelParsesQ(q) != GoParsesQ(q) {
				return fmt.Errorf("generator left the modelled q grammar: %q (model %v, ParseFloat %v)", q, ModelParsesQ(q), GoParsesQ(q))
			}
		}
	}
	if !r.WF {
		return fmt.Errorf("generated case outside the quantifier (Spec.wfMime false): produces=%v", c.Produces)
	}
	if !r.OwsEq {
		return fmt.Errorf("the two spellings do not have one dropOWS normal form: %q / %q", c.Accept(), c.Variant())
	}
	return nil
}

// One evaluates a single case.
func One(c *Case) (*Result, error) {
	rs, err := Eval([]*Case{c})
	if err != nil {
		return nil, err
	}
	return rs[0], nil
}

// Human renders a case readably for replay files.
func (r *Result) Human() map[string]interface{} {
	c := r.Case
	acc := interface{}(c.Accept())
	if c.Absent {
		acc = nil
	}
	return map[string]interface{}{
		"router": c.Router, "route": "GET /w/x, handler calls resp.WriteEntity(value)", "produces": c.Produces,
		"registered_writers": Registry, "DefaultResponseContentType": c.Default,
		"accept": acc, "accept_second_spelling": c.Variant(), "dispatches_each": Dispatches,
		"real": obsString(r.Real), "real_second_spelling": obsString(r.RealV),
		"model": modelString(r.Model), "model_second_spelling": modelString(r.ModelV), "demanded_by_spec": r.Best,
	}
}

// candidates are the one-step simplifications of a case.
func candidates(c Case) (out []Case) {
	add := func(f func(d *Case)) {
		d := c.Clone()
		f(&d)
		out = append(out, d)
	}
	if c.WS2 != c.WS1 { // one spelling only
		add(func(d *Case) { d.WS2 = d.WS1 })
		add(func(d *Case) { d.WS1 = d.WS2 })
	}
	if c.WS1 != 0 { // no whitespace
		add(func(d *Case) {
			if d.WS2 == d.WS1 {
				d.WS2 = 0
			}
			d.WS1 = 0
		})
	}
	if c.WS2 != 0 && c.WS2 != c.WS1 {
		add(func(d *Case) { d.WS2 = 0 })
	}
	if len(c.Ranges) > 1 {
		for i := range c.Ranges {
			i := i
			add(func(d *Case) { d.Ranges = append(d.Ranges[:i], d.Ranges[i+1:]...) })
		}
	}
	for i := range c.Ranges {
		for j := range c.Ranges[i].Params {
			i, j := i, j
			add(func(d *Case) { d.Ranges[i].Params = append(d.Ranges[i].Params[:j], d.Ranges[i].Params[j+1:]...) })
		}
	}
	if len(c.Produces) > 1 {
		for i := range c.Produces {
			i := i
			add(func(d *Case) { d.Produces = append(d.Produces[:i], d.Produces[i+1:]...) })
		}
	}
	if c.Default != "" {
		add(func(d *Case) { d.Default = "" })
	}
	if c.Router != "curly" {
		add(func(d *Case) { d.Router = "curly" })
	}
	return out
}

// Shrink simplifies the case while `bad` stays true.
func Shrink(c Case, bad func(*Case) bool) Case {
	budget := 300
	for changed := true; changed && budget > 0; {
		changed = false
		for _, d := range candidates(c) {
			if budget <= 0 {
				break
			}
			budget--
			d := d
			if bad(&d) {
				c, changed = d, true
				break
			}
		}
	}
	return c
}

func (r *Result) violation(kind, what string) report.Violation {
	v := report.Violation{Kind: kind, What: what, Case: []string{r.Line}, Human: r.Human(),
		Model: modelString(r.Model) + " / " + modelString(r.ModelV), Real: obsString(r.Real) + " / " + obsString(r.RealV)}
	return v
}

func reportCase(run *report.Run, r *Result, v Verdict, neighbourhood bool) {
	sameKind := func(d *Case) bool {
		o, err := One(d)
		return err == nil && o.CrossCheck() == nil && o.Judge().Kind == v.Kind
	}
	small := Shrink(r.Case.Clone(), sameKind)
	o, err := One(&small)
	if err != nil || o.Judge().Kind != v.Kind {
		o = r
	}
	v2 := o.Judge()
	if v.Kind == "counterexample" {
		run.AddViolation(o.violation("counterexample", v2.What))
		return
	}
	// correspondence: look near the shrunk case for an input on which the property itself fails
	run.DisagreementsChecked++
	if neighbourhood {
		rg := rng.New(run.Seed ^ 0x5eed05)
		var near []*Case
		for i := 0; i < 2000; i++ {
			d := Gen(rg.Fork(uint64(i)))
			switch i % 4 {
			case 0:
				d.Produces, d.Default = o.Case.Produces, o.Case.Default
			case 1:
				e := o.Case.Clone()
				e.WS1, e.WS2 = d.WS1, d.WS2
				e.Default = d.Default
				d = &e
			case 2:
				e := o.Case.Clone()
				e.Produces = d.Produces
				d = &e
			}
			near = append(near, d)
		}
		if rs, err := Eval(near); err == nil {
			for _, x := range rs {
				if x.CrossCheck() == nil && x.Judge().Kind == "counterexample" {
					reportCase(run, x, x.Judge(), false)
					return
				}
			}
		}
	}
	w := o.violation("correspondence", v2.What+"; no input falsifying the property was found near it")
	w.NoInput = true
	w.Theorem = "correspondence stream mime (model Restful/Model/Mime.lean vs mime.go, response.go EntityWriter, entity_accessors.go accessorAt)"
	run.AddViolation(w)
}

// witnesses of the open findings (the `decide`d Lean theorems C05_F07_witness, C05_F07b_witness),
// replayed on the real code on every run
func Witnesses() map[string]*Case {
	return map[string]*Case{
		"F07": {Router: "curly", Produces: []string{"application/xml"}, Absent: true, Default: "application/json"},
		"F07b": {Router: "curly", Produces: []string{"application/json"}, Ranges: []Range{
			{Media: "application/json", Params: []Param{{Name: "q", Val: "x"}}}, {Media: "application/xml"}}, WS1: 0, WS2: 0},
	}
}

// Check is the body of `vcheck check C05`.
func Check(run *report.Run, n int) error {
	Setup()
	Open = map[string]bool{}
	if known, err := report.LoadKnown(); err == nil {
		for _, f := range known.Findings {
			if f.Property == "C05" && f.Status == "open" {
				Open[f.ID] = true
			}
		}
	}
	// 1. witnesses: still failing ⇒ counted as known; no longer failing ⇒ silent
	for id, w := range Witnesses() {
		if !Open[id] {
			continue
		}
		// the F07b witness depends on map iteration order: dispatch it until a non-produced type or two different answers show up (at most 22×6 times)
		tries := 1
		if id == "F07b" {
			tries = 22
		}
		for t := 0; t < tries; t++ {
			r, err := One(w)
			if err != nil {
				return err
			}
			if err := r.CrossCheck(); err != nil {
				return err
			}
			v := r.Judge()
			run.Evaluations++
			if v.Kind == "known" && v.Known == id {
				run.KnownHits[id]++
				run.Count("witness-" + id + "-still-fails")
				break
			}
			if v.Kind == "counterexample" || v.Kind == "correspondence" {
				reportCase(run, r, v, false)
				break
			}
		}
	}
	// 2. the random stream
	base := rng.New(run.Seed*1000003 + 5)
	reported := map[string]int{}
	const batch = 5000
	for start := 0; start < n; start += batch {
		end := start + batch
		if end > n {
			end = n
		}
		cases := make([]*Case, 0, end-start)
		for i := start; i < end; i++ {
			cases = append(cases, Gen(base.Fork(uint64(i))))
		}
		rs, err := Eval(cases)
		if err != nil {
			return err
		}
		for _, r := range rs {
			if err := r.CrossCheck(); err != nil {
				return err
			}
			run.Evaluations++
			run.TracesValidated++
			run.Count("branch:" + r.Tag)
			run.Count("default:" + map[bool]string{true: "unset", false: r.Case.Default}[r.Case.Default == ""])
			run.Count("router:" + r.Case.Router)
			switch {
			case r.Case.Absent:
				run.Count("accept:absent")
			case r.Case.Accept() == "":
				run.Count("accept:empty")
			default:
				run.Count(fmt.Sprintf("accept:%d-elements", len(r.Case.Ranges)))
			}
			if strings.ContainsAny(r.Case.Accept()+r.Case.Variant(), " \t") {
				run.Count("accept:with-optional-whitespace")
			}
			if r.Real[0].Kind != "r406" || r.RealV[0].Kind != "r406" {
				run.Distinct[r.Case.Signature()] = true
			}
			if r.Real[0].Kind == "r406" != (r.RealV[0].Kind == "r406") {
				run.Count("router-admits-only-one-spelling(tab next to a separator; router trims blanks only)")
			}
			if len(run.Samples) < 5 && r.Real[0].Kind == "ct" && len(r.Case.Ranges) > 1 && run.Evaluations%11 == 0 {
				run.Sample(map[string]interface{}{"line": r.Line, "input": r.Human()})
			}
			v := r.Judge()
			switch v.Kind {
			case "":
			case "known":
				run.KnownHits[v.Known]++
				run.Count("known:" + v.Known)
			case "repaired":
				run.Count("holds-inside-known-class-but-differs-from-model")
			default:
				if reported[v.Kind] < 3 {
					reported[v.Kind]++
					reportCase(run, r, v, true)
				}
				run.Count("failing:" + v.Kind)
			}
		}
	}
	return nil
}
