package mime

import (
	"encoding/json"
	"fmt"
	restful "github.com/emicklei/go-restful/v3"
	"io"
	stdlog "log"
	"net/http"
	"net/http/httptest"
	"os"
	"path/filepath"
	"sort"
	"strings"

	"verifharness/internal/drv"
	"verifharness/internal/report"
	"verifharness/internal/rng"
	"verifharness/internal/sx"
)

// Result is a case with what the real code and the driver said.
type Result struct {
	Case        *Case
	Line        string
	Real, RealV []Obs
	Model       *sx.Node // (r406) | (e406) | (w k…)
	ModelV      *sx.Node
	Tag         string
	Spec        map[string]bool // C05, C05v, OWS
	WF, OwsEq   bool
	Class       map[string]bool // F07b (open) and F07 (repaired; coverage only) of the primary spelling
	ClassV      map[string]bool
	Best        string
}

func (c *Case) run() (real, realv []Obs) {
	if c.Hist != nil {
		return ExecuteHist(c, Dispatches)
	}
	return Execute(c, c.Accept(), Dispatches), Execute(c, c.Variant(), Dispatches)
}

// Eval runs the cases on the real code and the driver (one batch).
func Eval(cases []*Case) ([]*Result, error) {
	res := make([]*Result, len(cases))
	lines := make([]string, len(cases))
	for i, c := range cases {
		real, realv := c.run()
		res[i] = &Result{Case: c, Real: real, RealV: realv, Line: c.Line(i, real, realv)}
		lines[i] = res[i].Line
	}
	ans, err := drv.Run(lines)
	if err != nil {
		return nil, err
	}
	for i, a := range ans {
		if err := res[i].fill(a); err != nil {
			return nil, err
		}
	}
	return res, nil
}

func (r *Result) fill(a string) error {
	n, err := sx.Parse(a)
	if err != nil {
		return fmt.Errorf("driver answer %q: %v", a, err)
	}
	if n.Head() != "out" {
		return fmt.Errorf("driver rejected a line: %s\n  line: %s", a, r.Line)
	}
	r.Spec, r.Class, r.ClassV = map[string]bool{}, map[string]bool{}, map[string]bool{}
	for _, s := range n.List {
		switch s.Head() {
		case "m":
			r.Model = s.Args()[0]
		case "mv":
			r.ModelV = s.Args()[0]
		case "tag":
			r.Tag = s.Args()[0].Atom
		case "wf":
			r.WF = s.Args()[0].Atom == "1"
		case "owseq":
			r.OwsEq = s.Args()[0].Atom == "1"
		case "spec":
			r.Spec[s.Args()[0].Atom] = s.Args()[1].Atom == "1"
		case "class":
			r.Class[s.Args()[0].Atom] = s.Args()[1].Atom == "1"
		case "classv":
			r.ClassV[s.Args()[0].Atom] = s.Args()[1].Atom == "1"
		case "best":
			if s.Args()[0].Atom == "none" {
				r.Best = "(none)"
			} else {
				r.Best = s.Args()[0].Str()
			}
		}
	}
	if r.Model == nil || r.ModelV == nil {
		return fmt.Errorf("driver answer without model outcome: %s", a)
	}
	return nil
}

// agrees: every observed answer is one the model allows.
func agrees(model *sx.Node, obs []Obs) bool {
	for _, o := range obs {
		switch model.Head() {
		case "r406", "e406":
			if o.Kind != model.Head() {
				return false
			}
		case "w":
			ok := false
			for _, k := range model.Args() {
				if o.Kind == "ct" && o.CT == k.Str() {
					ok = true
				}
			}
			if !ok {
				return false
			}
		default:
			return false
		}
	}
	return true
}

func modelString(m *sx.Node) string {
	if m.Head() != "w" {
		return m.Head()
	}
	var ks []string
	for _, k := range m.Args() {
		ks = append(ks, k.Str())
	}
	return "one of [" + strings.Join(ks, ", ") + "]"
}

func obsString(os []Obs) string {
	var s []string
	for _, o := range os {
		s = append(s, o.String())
	}
	return strings.Join(s, " | ")
}

// Verdict of one case.
type Verdict struct {
	Kind  string // "" ok | "known" | "counterexample" | "correspondence" | "repaired"
	Known string // finding id
	What  string
}

// Open is the set of C05 findings listed as open in known_findings.json (set by Check).  A class
// only excuses a failing case while its finding is listed; otherwise the case is a VIOLATION.
var Open = map[string]bool{}

// known class of one spelling, decided on the Go side.  F07b is the only class of C05 that can
// excuse a failing case; the class of the repaired F07 (ClassFormerF07) excuses nothing, whatever
// known_findings.json says.
func goClass(accept string, c *Case) string {
	if Open["F07b"] && ClassF07b(accept, c.Produces) {
		return "F07b"
	}
	return ""
}

// Judge applies DESIGN §5: predicate on the real outcome first, then model agreement.
func (r *Result) Judge() Verdict {
	c := r.Case
	type side struct {
		name, accept string
		spec         bool
		model        *sx.Node
		obs          []Obs
	}
	sides := []side{{"Accept", c.Accept(), r.Spec["C05"], r.Model, r.Real}, {"Accept (second spelling)", c.Variant(), r.Spec["C05v"], r.ModelV, r.RealV}}
	repaired := false
	for _, s := range sides {
		cls := goClass(s.accept, c)
		ag := agrees(s.model, s.obs)
		if !s.spec {
			if cls != "" && ag {
				return Verdict{Kind: "known", Known: cls}
			}
			return Verdict{Kind: "counterexample", What: fmt.Sprintf("the real answers to %s %q falsify Spec.c05Holds (demanded: %s)", s.name, s.accept, r.Best)}
		}
		if !ag {
			if cls != "" {
				repaired = true // predicate holds inside a known class: someone repaired the defect
				continue
			}
			return Verdict{Kind: "correspondence", What: fmt.Sprintf("model and implementation disagree on %s %q", s.name, s.accept)}
		}
	}
	if !r.Spec["OWS"] {
		// two spellings with one normal form were answered differently
		for _, s := range sides {
			if cls := goClass(s.accept, c); cls == "F07b" && agrees(s.model, s.obs) {
				return Verdict{Kind: "known", Known: cls}
			}
		}
		return Verdict{Kind: "counterexample", What: "two spellings of one Accept header that differ only in optional whitespace were answered differently (C05_ows on the real code)"}
	}
	if repaired {
		return Verdict{Kind: "repaired"}
	}
	return Verdict{}
}

// CrossCheck compares the Go classifiers with the driver's class bits and the generator with the
// boundary of the q model; an error here is a defect of the machinery.
func (r *Result) CrossCheck() error {
	c := r.Case
	for _, s := range []struct {
		accept string
		cls    map[string]bool
	}{{c.Accept(), r.Class}, {c.Variant(), r.ClassV}} {
		if ClassFormerF07(s.accept, c.Default) != s.cls["F07"] || ClassF07b(s.accept, c.Produces) != s.cls["F07b"] {
			return fmt.Errorf("class predicates differ between Go (former F07=%v F07b=%v) and Lean (%v) on %q produces=%v default=%q",
				ClassFormerF07(s.accept, c.Default), ClassF07b(s.accept, c.Produces), s.cls, s.accept, c.Produces, c.Default)
		}
		var qs []string
		wellFormedRanges(s.accept, &qs)
		for _, q := range qs {
			if ModelParsesQ(q) != GoParsesQ(q) {
				return fmt.Errorf("generator left the modelled q grammar: %q (model %v, ParseFloat %v)", q, ModelParsesQ(q), GoParsesQ(q))
			}
		}
	}
	if !r.WF {
		return fmt.Errorf("generated case outside the quantifier (Spec.wfMime false): produces=%v", c.Produces)
	}
	if !r.OwsEq {
		return fmt.Errorf("the two spellings do not have one dropOWS normal form: %q / %q", c.Accept(), c.Variant())
	}
	return nil
}

// One evaluates a single case.
func One(c *Case) (*Result, error) {
	rs, err := Eval([]*Case{c})
	if err != nil {
		return nil, err
	}
	return rs[0], nil
}

// Human renders a case readably for replay files.
func (r *Result) Human() map[string]interface{} {
	c := r.Case
	acc := interface{}(c.Accept())
	if c.Absent {
		acc = nil
	}
	var hist interface{}
	if h := c.Hist; h != nil {
		var steps []string
		reg := "restful.RegisterEntityAccessor for"
		for _, l := range h.Late {
			reg += " " + l.Name + " (" + l.Codec + " writer)"
		}
		for i, t := range h.Traffic {
			if i == h.RegAt {
				steps = append(steps, reg)
			}
			if t.Absent {
				steps = append(steps, "GET /w/x without Accept header")
			} else {
				steps = append(steps, fmt.Sprintf("GET /w/x with Accept: %q", t.Accept()))
			}
		}
		if h.RegAt >= len(h.Traffic) {
			steps = append(steps, reg)
		}
		hist = map[string]interface{}{"what": "container, web service and route are created ONCE (with the Produces list above; the late types have no writer then), the steps below happen in order, then the judged request is dispatched on the same container", "steps": steps}
	}
	return map[string]interface{}{
		"router": c.Router, "route": "GET /w/x, handler calls resp.WriteEntity(value)", "produces": c.Produces, "history_of_the_route_before_the_judged_request": hist,
		"registered_writers": c.RegistryAtJudgement(), "DefaultResponseContentType": c.Default, "handler_calls_PrettyPrint(false)": c.Compact,
		"content_type_already_on_the_response_when_the_entity_is_written": map[bool]interface{}{true: nil, false: map[string]string{"value": c.Preset, "set_by": c.PresetBy}}[c.Preset == ""],
		"accept": acc, "accept_second_spelling": c.Variant(), "dispatches_each": Dispatches,
		"real": obsString(r.Real), "real_second_spelling": obsString(r.RealV),
		"model": modelString(r.Model), "model_second_spelling": modelString(r.ModelV), "demanded_by_spec": r.Best,
	}
}

// candidates are the one-step simplifications of a case.
func candidates(c Case) (out []Case) {
	add := func(f func(d *Case)) {
		d := c.Clone()
		f(&d)
		out = append(out, d)
	}
	if c.WS2 != c.WS1 { // one spelling only
		add(func(d *Case) { d.WS2 = d.WS1 })
		add(func(d *Case) { d.WS1 = d.WS2 })
	}
	if c.WS1 != 0 { // no whitespace
		add(func(d *Case) {
			if d.WS2 == d.WS1 {
				d.WS2 = 0
			}
			d.WS1 = 0
		})
	}
	if c.WS2 != 0 && c.WS2 != c.WS1 {
		add(func(d *Case) { d.WS2 = 0 })
	}
	if len(c.Ranges) > 1 {
		for i := range c.Ranges {
			i := i
			add(func(d *Case) { d.Ranges = append(d.Ranges[:i], d.Ranges[i+1:]...) })
		}
	}
	for i := range c.Ranges {
		for j := range c.Ranges[i].Params {
			i, j := i, j
			add(func(d *Case) { d.Ranges[i].Params = append(d.Ranges[i].Params[:j], d.Ranges[i].Params[j+1:]...) })
		}
	}
	if len(c.Produces) > 1 {
		for i := range c.Produces {
			i := i
			add(func(d *Case) { d.Produces = append(d.Produces[:i], d.Produces[i+1:]...) })
		}
	}
	if c.Default != "" {
		add(func(d *Case) { d.Default = "" })
	}
	if c.Preset != "" {
		add(func(d *Case) { d.Preset, d.PresetBy = "", "" })
		if c.PresetBy != "handler-Header().Set" {
			add(func(d *Case) { d.PresetBy = "handler-Header().Set" })
		}
	}
	if c.Hist != nil {
		for i := range c.Hist.Traffic {
			i := i
			if len(c.Hist.Traffic) > 1 || c.Hist.RegAt == 0 {
				add(func(d *Case) {
					d.Hist.Traffic = append(d.Hist.Traffic[:i], d.Hist.Traffic[i+1:]...)
					if i < d.Hist.RegAt {
						d.Hist.RegAt--
					}
				})
			}
			if len(c.Hist.Traffic[i].Ranges) > 1 {
				for j := range c.Hist.Traffic[i].Ranges {
					j := j
					add(func(d *Case) { t := d.Hist.Traffic[i]; t.Ranges = append(t.Ranges[:j], t.Ranges[j+1:]...) })
				}
			}
			if c.Hist.Traffic[i].WS1 != 0 {
				add(func(d *Case) { d.Hist.Traffic[i].WS1 = 0 })
			}
		}
	}
	if c.Compact {
		add(func(d *Case) { d.Compact = false })
	}
	if c.Router != "curly" {
		add(func(d *Case) { d.Router = "curly" })
	}
	return out
}

// Shrink simplifies the case while `bad` stays true.
func Shrink(c Case, bad func(*Case) bool) Case {
	budget := 300
	for changed := true; changed && budget > 0; {
		changed = false
		for _, d := range candidates(c) {
			if budget <= 0 {
				break
			}
			budget--
			d := d
			if bad(&d) {
				c, changed = d, true
				break
			}
		}
	}
	return c
}

func (r *Result) violation(kind, what string) report.Violation {
	v := report.Violation{Kind: kind, What: what, Case: []string{r.Line}, Human: r.Human(),
		Model: modelString(r.Model) + " / " + modelString(r.ModelV), Real: obsString(r.Real) + " / " + obsString(r.RealV)}
	return v
}

func reportCase(run *report.Run, r *Result, v Verdict, neighbourhood bool) {
	sameKind := func(d *Case) bool {
		o, err := One(d)
		return err == nil && o.CrossCheck() == nil && o.Judge().Kind == v.Kind
	}
	small := Shrink(r.Case.Clone(), sameKind)
	o, err := One(&small)
	if err != nil || o.Judge().Kind != v.Kind {
		o = r
	}
	v2 := o.Judge()
	if v.Kind == "counterexample" {
		run.AddViolation(o.violation("counterexample", v2.What))
		return
	}
	// correspondence: look near the shrunk case for an input on which the property itself fails
	run.DisagreementsChecked++
	if neighbourhood {
		rg := rng.New(run.Seed ^ 0x5eed05)
		var near []*Case
		for i := 0; i < 2000; i++ {
			d := Gen(rg.Fork(uint64(i)))
			switch i % 4 {
			case 0:
				d.Produces, d.Default = o.Case.Produces, o.Case.Default
				if o.Case.Hist != nil {
					oc := o.Case.Clone()
					d.Produces, d.Hist = oc.Produces, oc.Hist
				}
			case 1:
				e := o.Case.Clone()
				e.WS1, e.WS2 = d.WS1, d.WS2
				e.Default = d.Default
				d = &e
			case 2:
				e := o.Case.Clone()
				e.Produces = d.Produces
				d = &e
			}
			near = append(near, d)
		}
		if rs, err := Eval(near); err == nil {
			for _, x := range rs {
				if x.CrossCheck() == nil && x.Judge().Kind == "counterexample" {
					reportCase(run, x, x.Judge(), false)
					return
				}
			}
		}
	}
	w := o.violation("correspondence", v2.What+"; no input falsifying the property was found near it")
	w.NoInput = true
	w.Theorem = "correspondence stream mime (model Restful/Model/Mime.lean vs mime.go, response.go EntityWriter, entity_accessors.go accessorAt)"
	run.AddViolation(w)
}

// witnesses of the open finding (the `decide`d Lean theorems C05_F07b_witness, _default, _zip),
// replayed on the real code on every run.  All three are deterministic since 8b400b4: the first one
// (Accept: application/xml,application/json;q=x on a JSON-only route) is answered application/xml,
// the registered type that occurs first in the raw header — not produced.
func Witnesses() map[string]*Case {
	starQx := []Range{{Media: "*/*", Params: []Param{{Name: "q", Val: "x"}}}}
	return map[string]*Case{
		"F07b": {Router: "curly", Produces: []string{"application/json"}, Ranges: []Range{
			{Media: "application/xml"}, {Media: "application/json", Params: []Param{{Name: "q", Val: "x"}}}}, WS1: 0, WS2: 0},
		"F07b-default": {Router: "curly", Produces: []string{"application/xml"}, Ranges: starQx, Default: "application/json"},
		"F07b-zip":     {Router: "curly", Produces: []string{"application/json"}, Ranges: starQx, Default: "application/zip"},
	}
}

// Regression is a former witness of a repaired finding: the real code must answer it as the
// property demands (Now); Before is what the unrepaired code answered, on which the predicate must
// still fail (otherwise the predicate lost the ability to see the defect).
type Regression struct {
	ID     string
	Case   *Case
	Now    Obs // the one answer the property allows, every dispatch
	Before Obs // what the code answered before the repair, every dispatch
}

func rep(o Obs) []Obs {
	out := make([]Obs, Dispatches)
	for i := range out {
		out[i] = o
	}
	return out
}

// Regressions are the two former witnesses of F07 (Lean: C05_F07_fixed), repaired by d89a7d4: no
// Accept header with a default content type set.
func Regressions() []Regression {
	return []Regression{
		{ID: "F07", Case: &Case{Router: "curly", Produces: []string{"application/xml"}, Absent: true, Default: "application/json"},
			Now: Obs{Kind: "ct", CT: "application/xml"}, Before: Obs{Kind: "ct", CT: "application/json"}},
		{ID: "F07-zip", Case: &Case{Router: "curly", Produces: []string{"application/json"}, Absent: true, Default: "application/zip"},
			Now: Obs{Kind: "ct", CT: "application/json"}, Before: Obs{Kind: "e406"}},
	}
}

// OrderRegression is the FORMER first witness of F07b (Lean: C05_F07b_order_fixed): Accept:
// application/json;q=x,application/xml on a JSON-only route.  Still inside the class F07b, but the
// raw-header lookup of accessorAt — which answered application/json, application/xml or
// application/x in Go map iteration order before 8b400b4, dispatches of one request differing — now
// answers with the registered type that occurs first in the header: application/json, produced,
// every time.
func OrderRegression() Regression {
	return Regression{ID: "F07b-order", Case: &Case{Router: "curly", Produces: []string{"application/json"}, Ranges: []Range{
		{Media: "application/json", Params: []Param{{Name: "q", Val: "x"}}}, {Media: "application/xml"}}, WS1: 0, WS2: 0},
		Now: Obs{Kind: "ct", CT: "application/json"}, Before: Obs{Kind: "ct", CT: "application/xml"}}
}

// OrderRegressionLines: the line with the answers demanded today, a line with a not-produced answer
// as the unrepaired code could give it, and a line on which the dispatches differ; with the spec
// bit each must get.
func OrderRegressionLines() (lines []string, expect []int) {
	g := OrderRegression()
	mixed := rep(g.Now)
	mixed[1] = g.Before
	return []string{g.Case.LineReg(0, rep(g.Now), rep(g.Now), RecordedRegistry), g.Case.LineReg(1, rep(g.Before), rep(g.Before), RecordedRegistry),
		g.Case.LineReg(2, mixed, rep(g.Now), RecordedRegistry)}, []int{1, 0, 0}
}

// WriteOrderRegressionFile (re)creates <dir>/F07b-order.json (VERIF_C05_WRITE_REPLAYS=<dir> bin/check C05).
func WriteOrderRegressionFile(dir string) error {
	Setup()
	g := OrderRegression()
	r, err := One(g.Case)
	if err != nil {
		return err
	}
	if v := r.Judge(); v.Kind != "" {
		return fmt.Errorf("regression %s fails on the real code: %s %s", g.ID, v.Kind, v.What)
	}
	lines, expect := OrderRegressionLines()
	ans, err := drv.Run(lines)
	if err != nil {
		return err
	}
	var f ReplayFile
	f.Property, f.Finding, f.Status, f.Theorem = "C05", "F07b", "open; its map-iteration-order half fixed 8b400b4", "Restful.Props.C05_F07b_order_fixed"
	f.Expect = "PASS: line 0 carries the answers the real code gives today (application/json on every dispatch: spec C05 = 1, the model agrees); line 1 an answer the unrepaired code could give (application/xml, not produced: spec C05 = 0); line 2 dispatches that differ (spec C05 = 0); the check re-executes the case on the real code on every run (22 times 6 dispatches) and reports a VIOLATION if it is not answered application/json every time"
	f.ExpectSpec = expect
	f.Violation.Kind = "regression"
	f.Violation.What = "former first witness of F07b (Accept: application/json;q=x,application/xml on a JSON-only route: accessorAt(<raw header>) answered with any registered key that is a substring of the header, in map iteration order), repaired by 8b400b4 as far as the order is concerned; kept as a regression that must pass"
	f.Violation.Case = lines
	h := r.Human()
	h["regression"] = g.ID
	h["answered_before_the_repair"] = "one of application/json, application/xml, application/x per dispatch (map iteration order)"
	f.Violation.Human = h
	f.Violation.Model = ans[0]
	f.Violation.Real = fmt.Sprint(h["real"])
	b, _ := json.MarshalIndent(f, "", " ")
	return os.WriteFile(filepath.Join(dir, "F07b-order.json"), b, 0o644)
}

// checkOrderRegression: the former first witness of F07b must be answered application/json on
// every dispatch of 22 runs (a failure is an ordinary violation), the predicate must still reject
// what the unrepaired code could answer, and the committed replays/F07b-order.json must say the same.
func checkOrderRegression(run *report.Run) error {
	g := OrderRegression()
	failed := false
	for t := 0; t < 22 && !failed; t++ {
		r, err := One(g.Case)
		if err != nil {
			return err
		}
		if err := r.CrossCheck(); err != nil {
			return err
		}
		run.Evaluations++
		if !r.Class["F07b"] {
			return fmt.Errorf("regression %s is not in the class F07b", g.ID)
		}
		v := r.Judge()
		if v.Kind == "" || v.Kind == "known" {
			v = Verdict{}
			for _, o := range append(append([]Obs{}, r.Real...), r.RealV...) {
				if o.Kind != g.Now.Kind || o.CT != g.Now.CT {
					v = Verdict{Kind: "counterexample", What: fmt.Sprintf("regression %s (repaired by 8b400b4) is answered %s; the registered type that occurs first in the Accept value is %s", g.ID, o, g.Now)}
				}
			}
		}
		if v.Kind != "" {
			failed = true
			kind := v.Kind
			if kind != "correspondence" {
				kind = "counterexample"
			}
			w := r.violation(kind, fmt.Sprintf("regression of the order half of F07b (8b400b4, Accept %q on a route producing %v, run %d of 22): %s", g.Case.Accept(), g.Case.Produces, t+1, v.What))
			w.Theorem = "Restful.Props.C05_F07b_order_fixed, C05_function"
			run.AddViolation(w)
			run.Count("regression-" + g.ID + "-FAILS")
		}
	}
	if !failed {
		run.Count("regression-" + g.ID + "-passes")
	}
	lines, expect := OrderRegressionLines()
	got, err := specBits(lines)
	if err != nil {
		return err
	}
	for i := range lines {
		if got[i] != expect[i] {
			return fmt.Errorf("Spec.c05Holds = %d, expected %d, on the recorded answers of the regression %s: %s", got[i], expect[i], g.ID, lines[i])
		}
	}
	b, err := os.ReadFile(filepath.Join(report.Root, "replays", "F07b-order.json"))
	if err != nil {
		run.Count("replays/F07b-order.json:absent")
		return nil
	}
	var f ReplayFile
	if err := json.Unmarshal(b, &f); err != nil {
		return fmt.Errorf("replays/F07b-order.json: %v", err)
	}
	if len(f.Violation.Case) != len(lines) || len(f.ExpectSpec) != len(lines) {
		return fmt.Errorf("replays/F07b-order.json is not the regression record the check runs: regenerate it with VERIF_C05_WRITE_REPLAYS=<dir> bin/check C05")
	}
	for i, l := range f.Violation.Case {
		if l != lines[i] || f.ExpectSpec[i] != expect[i] {
			return fmt.Errorf("replays/F07b-order.json line %d is not the regression the check runs: regenerate it with VERIF_C05_WRITE_REPLAYS=<dir> bin/check C05", i)
		}
	}
	run.Count("replays/F07b-order.json:replayed-as-regression")
	return nil
}

// ReplayFile is the committed record of the regressions (written by cmd/mimewitness).
type ReplayFile struct {
	Property   string `json:"property"`
	Finding    string `json:"finding"`
	Status     string `json:"status"`
	Theorem    string `json:"theorem"`
	Expect     string `json:"expect"`
	ExpectSpec []int  `json:"expect_spec"` // per line of violation.case: the value of (spec C05 …) and (spec C05v …)
	Violation  struct {
		Kind  string      `json:"kind"`
		What  string      `json:"what"`
		Case  []string    `json:"case"`
		Human interface{} `json:"human"`
		Model string      `json:"model"`
		Real  string      `json:"real"`
	} `json:"violation"`
}

// RecordedRegistry is the registry replays/F07.json was recorded with (Lean: Mime.harnessReg); the
// recorded lines keep naming it whatever else the stream registers today, in whatever order.
var RecordedRegistry = []string{restful.MIME_JSON, restful.MIME_XML, VndJSON, CSV, VndXML, AppX}

// RegressionLines: for every regression the line with the answers demanded today and the line
// with the answers recorded before the repair, and the spec bit each must get.
func RegressionLines() (lines []string, expect []int) {
	for i, g := range Regressions() {
		lines = append(lines, g.Case.LineReg(2*i, rep(g.Now), rep(g.Now), RecordedRegistry), g.Case.LineReg(2*i+1, rep(g.Before), rep(g.Before), RecordedRegistry))
		expect = append(expect, 1, 0)
	}
	return lines, expect
}

// specBits evaluates protocol lines on the driver and returns (spec C05 ∧ spec C05v) per line.
func specBits(lines []string) ([]int, error) {
	ans, err := drv.Run(lines)
	if err != nil {
		return nil, err
	}
	out := make([]int, len(ans))
	for i, a := range ans {
		r := &Result{Line: lines[i]}
		if err := r.fill(a); err != nil {
			return nil, err
		}
		if r.Spec["C05"] && r.Spec["C05v"] {
			out[i] = 1
		}
	}
	return out, nil
}

// checkRegressions: the former witnesses of the repaired finding must PASS on the real code (a
// failure is an ordinary violation with a concrete replay), the predicate must still reject what
// the unrepaired code answered, and the committed replays/F07.json must say the same.
func checkRegressions(run *report.Run) error {
	for _, g := range Regressions() {
		r, err := One(g.Case)
		if err != nil {
			return err
		}
		if err := r.CrossCheck(); err != nil {
			return err
		}
		run.Evaluations++
		if !r.Class["F07"] {
			return fmt.Errorf("regression %s is not in the class of the repaired finding F07", g.ID)
		}
		v := r.Judge()
		if v.Kind == "" {
			for _, o := range append(append([]Obs{}, r.Real...), r.RealV...) {
				if o.Kind != g.Now.Kind || o.CT != g.Now.CT {
					v = Verdict{Kind: "counterexample", What: fmt.Sprintf("regression %s (repaired by d89a7d4) is answered %s, the property demands %s", g.ID, o, g.Now)}
				}
			}
		}
		if v.Kind != "" {
			// no shrinking: the case is minimal and is the committed one
			what := fmt.Sprintf("regression of the repaired finding F07 (d89a7d4, no Accept header and DefaultResponseContentType %q on a route producing %v): %s", g.Case.Default, g.Case.Produces, v.What)
			kind := v.Kind
			if kind != "correspondence" {
				kind = "counterexample"
			}
			w := r.violation(kind, what)
			w.Theorem = "Restful.Props.C05_F07_fixed"
			run.AddViolation(w)
			run.Count("regression-" + g.ID + "-FAILS")
			continue
		}
		run.Count("regression-" + g.ID + "-passes")
	}
	// the predicate on the recorded answers: today's must satisfy it, the pre-repair ones must not
	lines, expect := RegressionLines()
	got, err := specBits(lines)
	if err != nil {
		return err
	}
	for i := range lines {
		if got[i] != expect[i] {
			return fmt.Errorf("Spec.c05Holds = %d, expected %d, on the recorded answers of a regression of F07: %s", got[i], expect[i], lines[i])
		}
	}
	// the committed file carries the same lines
	b, err := os.ReadFile(filepath.Join(report.Root, "replays", "F07.json"))
	if err != nil {
		run.Count("replays/F07.json:absent")
		return nil
	}
	var f ReplayFile
	if err := json.Unmarshal(b, &f); err != nil {
		return fmt.Errorf("replays/F07.json: %v", err)
	}
	if len(f.Violation.Case) == 0 || len(f.Violation.Case) != len(f.ExpectSpec) {
		return fmt.Errorf("replays/F07.json is not a regression record (expect_spec missing or of the wrong length): regenerate it with cmd/mimewitness")
	}
	bits, err := specBits(f.Violation.Case)
	if err != nil {
		return err
	}
	for i, l := range f.Violation.Case {
		if bits[i] != f.ExpectSpec[i] {
			return fmt.Errorf("replays/F07.json line %d: Spec.c05Holds = %d, the file expects %d: %s", i, bits[i], f.ExpectSpec[i], l)
		}
		if i >= len(lines) || l != lines[i] {
			return fmt.Errorf("replays/F07.json line %d is not the regression the check runs: regenerate it with cmd/mimewitness", i)
		}
	}
	run.Count("replays/F07.json:replayed-as-regression")
	return nil
}

// CheckTracePurity (C19): content negotiation answers the same with trace logging on and off. Cases
// of the class F07b are compared like all others since 8b400b4 (their answer no longer depends on map
// iteration order: C05_function), and counted.
func CheckTracePurity(run *report.Run, n int) error {
	Setup()
	base := rng.New(run.Seed*1000003 + 91)
	bad := 0
	for i := 0; i < n; i++ {
		c := Gen(base.Fork(uint64(i)))
		off := Execute(c, c.Accept(), 1)
		restful.TraceLogger(stdlog.New(io.Discard, "", 0)) // sets the logger and enables tracing
		on := Execute(c, c.Accept(), 1)
		restful.EnableTracing(false)
		run.Evaluations++
		run.TracesValidated++
		run.Count("negotiation:traced-replays")
		if ClassF07b(c.Accept(), c.Produces) {
			run.Count("negotiation:traced-replays:in-class-F07b(compared like all others)")
		}
		if off[0].Kind == "ct" {
			run.Distinct["mime-trace|"+c.Signature()] = true
		}
		a, b := fmt.Sprintf("%+v", off[0]), fmt.Sprintf("%+v", on[0])
		if a != b && bad < 3 {
			bad++
			run.AddViolation(report.Violation{Kind: "counterexample", What: "C19: the negotiated representation differs when trace logging is enabled",
				Human: map[string]interface{}{"accept": c.Accept(), "produces": c.Produces, "default": c.Default, "router": c.Router}, Real: "trace off: " + a, Model: "trace on:  " + b})
		}
	}
	return nil
}

func allRegistered(c *Case) bool {
	for _, p := range c.Produces {
		found := false
		for _, k := range c.RegistryAtJudgement() {
			if k == p {
				found = true
			}
		}
		if !found {
			return false
		}
	}
	return true
}

// Check is the body of `vcheck check C05`.
func Check(run *report.Run, n int) error {
	Open = map[string]bool{}
	if known, err := report.LoadKnown(); err == nil {
		for _, f := range known.Findings {
			if f.Property == "C05" && f.Status == "open" {
				Open[f.ID] = true
			}
		}
	}
	// the random stream is served in three segments between which the global registry grows: requests
	// are answered while a produced type has no writer yet, and again after it got one (a lookup that
	// remembers a miss would answer differently from a fresh process; the model is told the registry
	// of the moment)
	base := rng.New(run.Seed*1000003 + 5)
	// the order in which the custom writers get registered varies with the seed (names that contain
	// other registered names meet both relative orders); seed 1 keeps the declaration order
	if run.Seed != 1 {
		SetOrder(rng.New(run.Seed*7919 + 55).Perm(len(customs)))
	}
	run.Extra["custom_writers_in_registration_order"] = SetOrder(nil)
	reported := map[string]int{}
	formerF07, formerF07Sharp := 0, 0
	const batch = 5000
	segment := func(from, to int) error {
		for start := from; start < to; start += batch {
			end := start + batch
			if end > to {
				end = to
			}
			cases := make([]*Case, 0, end-start)
			for i := start; i < end; i++ {
				rf := base.Fork(uint64(i))
				c := Gen(rf)
				if rf.Chance(1, 4) {
					// the route object has a history: served before, writers registered late
					GenHist(rf, c)
				}
				if !allRegistered(c) {
					if c.Hist != nil {
						c.run()
						run.Count("traffic:produced-type-without-a-writer-yet(not judged)")
						continue
					}
					// outside the quantifier (a produced type without a writer): served as traffic only —
					// whatever the lookup remembers from it must not matter once the writer exists
					Execute(c, c.Accept(), 1)
					run.Count("traffic:produced-type-without-a-writer-yet(not judged)")
					continue
				}
				cases = append(cases, c)
			}
			rs, err := Eval(cases)
			if err != nil {
				return err
			}
			for _, r := range rs {
				if err := r.CrossCheck(); err != nil {
					return err
				}
				run.Evaluations++
				run.TracesValidated++
				run.Count("branch:" + r.Tag)
				run.Count("default:" + map[bool]string{true: "unset", false: r.Case.Default}[r.Case.Default == ""])
				run.Count("router:" + r.Case.Router)
				if h := r.Case.Hist; h != nil {
					run.Count("route-history:served-before,late-writers")
					if h.RegAt > 0 {
						run.Count(fmt.Sprintf("route-history:served-%d-times-before-the-late-writers-were-registered", h.RegAt))
					} else {
						run.Count("route-history:late-writers-registered-before-the-first-request")
					}
					for _, rg := range r.Case.Ranges {
						for _, l := range h.Late {
							if rg.Media == l.Name {
								run.Count("route-history:judged-request-names-a-late-type")
							}
						}
					}
				} else {
					run.Count("route-history:none(fresh container)")
				}
				if r.Case.Preset != "" {
					run.Count("content-type-preset-by:" + r.Case.PresetBy)
				} else {
					run.Count("content-type-preset-by:nobody")
				}
				for _, p := range r.Case.Produces {
					for _, k := range Registry {
						if k != p && strings.Contains(p, k) {
							run.Count("produces:a-type-whose-name-contains-another-registered-name")
						}
					}
				}
				switch {
				case r.Case.Absent:
					run.Count("accept:absent")
				case r.Case.Accept() == "":
					run.Count("accept:empty")
				default:
					run.Count(fmt.Sprintf("accept:%d-elements", len(r.Case.Ranges)))
				}
				if strings.ContainsAny(r.Case.Accept()+r.Case.Variant(), " \t") {
					run.Count("accept:with-optional-whitespace")
				}
				if r.Class["F07"] {
					// class of the repaired F07: measured, never excused
					formerF07++
					run.Count("former-F07-class(no Accept value, default set)")
					if r.Case.Default != r.Case.Produces[0] {
						formerF07Sharp++
						run.Count("former-F07-class:default-is-not-the-first-produced-type(the unrepaired code answers these wrongly)")
					}
				}
				if r.Real[0].Kind != "r406" || r.RealV[0].Kind != "r406" {
					run.Distinct[r.Case.Signature()] = true
				}
				if r.Real[0].Kind == "r406" != (r.RealV[0].Kind == "r406") {
					run.Count("router-admits-only-one-spelling(tab next to a separator; router trims blanks only)")
				}
				if len(run.Samples) < 5 && r.Real[0].Kind == "ct" && len(r.Case.Ranges) > 1 && run.Evaluations%11 == 0 {
					run.Sample(map[string]interface{}{"line": r.Line, "input": r.Human()})
				}
				v := r.Judge()
				switch v.Kind {
				case "":
				case "known":
					run.KnownHits[v.Known]++
					run.Count("known:" + v.Known)
				case "repaired":
					run.Count("holds-inside-known-class-but-differs-from-model")
				default:
					if reported[v.Kind] < 3 {
						reported[v.Kind]++
						reportCase(run, r, v, true)
					}
					run.Count("failing:" + v.Kind)
				}
			}
		}
		return nil
	}
	SetupPhase(0)
	run.Count("registry-phase-0(built-in writers only)")
	if err := segment(0, n/5); err != nil {
		return err
	}
	SetupPhase(1)
	if err := segment(n/5, 2*n/5); err != nil {
		return err
	}
	Setup()
	// 1a. regressions of repaired findings: must pass
	if err := checkRegressions(run); err != nil {
		return err
	}
	// 1a'. the former first witness of F07b (its answer depended on map iteration order): must pass
	if err := checkOrderRegression(run); err != nil {
		return err
	}
	// 1b. witnesses of the open finding: still failing ⇒ counted as known; no longer failing ⇒ silent
	wit := Witnesses()
	var wids []string
	for wid := range wit {
		wids = append(wids, wid)
	}
	sort.Strings(wids)
	for _, wid := range wids {
		w := wit[wid]
		id := strings.SplitN(wid, "-", 2)[0]
		if !Open[id] {
			continue
		}
		tries := 1 // every witness is deterministic since 8b400b4
		for t := 0; t < tries; t++ {
			r, err := One(w)
			if err != nil {
				return err
			}
			if err := r.CrossCheck(); err != nil {
				return err
			}
			v := r.Judge()
			run.Evaluations++
			if v.Kind == "known" && v.Known == id {
				run.KnownHits[id]++
				run.Count("witness-" + wid + "-still-fails")
				break
			}
			if v.Kind == "counterexample" || v.Kind == "correspondence" {
				reportCase(run, r, v, false)
				break
			}
		}
	}
	if err := segment(2*n/5, n); err != nil {
		return err
	}
	if n >= 2000 && formerF07Sharp < n/400 {
		return fmt.Errorf("the stream hardly visits the class of the repaired finding F07 (%d of %d cases, %d of them with a default that is not the first produced type): a regression there would go unnoticed", formerF07, n, formerF07Sharp)
	}
	return nil
}

// CheckHistoryPurity (C19): an entity route is requested, then routes whose handlers use the
// per-response switches of the Response (PrettyPrint on and off, AddHeader, SetRequestAccepts) are
// served, then the entity route again: the identical request must get the identical answer (status,
// Content-Type, body bytes) — nothing a handler does to ITS response may leak into the next one.
func CheckHistoryPurity(run *report.Run, n int) error {
	Setup()
	base := rng.New(run.Seed*1000003 + 97)
	bad := 0
	for i := 0; i < n; i++ {
		r := base.Fork(uint64(i))
		c := Gen(r)
		cont := restful.NewContainer()
		if c.Router == "jsr" {
			cont.Router(restful.RouterJSR311{})
		}
		ws := new(restful.WebService)
		ws.Path("/w")
		ws.Route(ws.GET("/x").Produces(c.Produces...).To(func(req *restful.Request, resp *restful.Response) { resp.WriteEntity(theEntity) }))
		ws.Route(ws.GET("/compact").Produces(c.Produces...).To(func(req *restful.Request, resp *restful.Response) {
			resp.PrettyPrint(false)
			resp.AddHeader("X-Own", "1")
			resp.WriteEntity(theEntity)
		}))
		ws.Route(ws.GET("/pretty").Produces(c.Produces...).To(func(req *restful.Request, resp *restful.Response) {
			resp.PrettyPrint(true)
			resp.SetRequestAccepts("application/xml")
			resp.WriteEntity(theEntity)
		}))
		cont.Add(ws)
		ask := func(path string) string {
			hr, _ := http.NewRequest("GET", path, nil)
			if !c.Absent {
				hr.Header.Set("Accept", c.Accept())
			}
			rec := httptest.NewRecorder()
			func() {
				defer func() { recover() }()
				cont.Dispatch(rec, hr)
			}()
			return fmt.Sprintf("%d ct=%q own=%q body=%q", rec.Code, rec.Result().Header.Get("Content-Type"), rec.Result().Header.Get("X-Own"), rec.Body.String())
		}
		restful.DefaultResponseContentType(c.Default)
		first := ask("/w/x")
		for _, disturb := range []string{"/w/compact", "/w/pretty", "/w/compact"} {
			ask(disturb)
			again := ask("/w/x")
			run.Evaluations++
			run.TracesValidated++
			run.Count("negotiation:history-replays")
			if ClassF07b(c.Accept(), c.Produces) {
				run.Count("negotiation:history-replays:in-class-F07b(compared like all others)")
			}
			if again != first && bad < 3 {
				bad++
				run.AddViolation(report.Violation{Kind: "counterexample", What: "C19: the same request for an entity is answered differently after a request whose handler used the per-response switches of its own Response (" + disturb + ")",
					Human: map[string]interface{}{"accept": c.Accept(), "produces": c.Produces, "default": c.Default, "router": c.Router, "served_in_between": disturb}, Real: again, Model: first})
			}
		}
		restful.DefaultResponseContentType("")
	}
	return nil
}
