package cors

import (
	"strings"

	"verifharness/internal/routing"
)

func cloneCase(c Case) Case {
	d := c
	d.Table.Services = append([]routing.Service{}, c.Table.Services...)
	for i := range d.Table.Services {
		d.Table.Services[i].Routes = append([]routing.RouteDecl{}, c.Table.Services[i].Routes...)
	}
	d.Reqs = append([]Req{}, c.Reqs...)
	d.F.Expose = append([]string{}, c.F.Expose...)
	d.F.AllowedHeaders = append([]string{}, c.F.AllowedHeaders...)
	d.F.Domains = append([]string{}, c.F.Domains...)
	d.F.PredAccepts = append([]string{}, c.F.PredAccepts...)
	d.F.Methods = append([]string{}, c.F.Methods...)
	return d
}

func dropAt(xs []string, i int) []string {
	return append(append([]string{}, xs[:i]...), xs[i+1:]...)
}

// Shrink removes requests of the history, services, routes, filter entries and request parts while
// `bad` stays true.
func Shrink(c Case, bad func(*Case) bool) Case {
	budget := 300
	try := func(d Case) bool {
		if budget <= 0 {
			return false
		}
		budget--
		return bad(&d)
	}
	changed := true
	for changed && budget > 0 {
		changed = false
		// drop requests of the history (a change in front of a dropped request moves to the next one that has none)
		for i := 0; i < len(c.Reqs) && len(c.Reqs) > 1; i++ {
			d := cloneCase(c)
			ch := d.Reqs[i].Change
			d.Reqs = append(d.Reqs[:i:i], d.Reqs[i+1:]...)
			if ch != nil && i < len(d.Reqs) && d.Reqs[i].Change == nil {
				d.Reqs[i].Change = ch
			}
			if try(d) {
				c, changed = d, true
				i--
			}
		}
		// drop changes of the route table
		for i := range c.Reqs {
			if c.Reqs[i].Change != nil {
				d := cloneCase(c)
				d.Reqs[i].Change = nil
				if try(d) {
					c, changed = d, true
				}
			}
		}
		// drop services
		for i := 0; i < len(c.Table.Services) && len(c.Table.Services) > 1; i++ {
			d := cloneCase(c)
			d.Table.Services = append(d.Table.Services[:i:i], d.Table.Services[i+1:]...)
			for k := range d.Reqs { // changes name their service by index
				if ch := d.Reqs[k].Change; ch != nil {
					switch {
					case ch.Svc == i:
						d.Reqs[k].Change = nil
					case ch.Svc > i:
						n := *ch
						n.Svc--
						d.Reqs[k].Change = &n
					}
				}
			}
			if try(d) {
				c, changed = d, true
				i--
			}
		}
		// drop routes, simplify the remaining ones
		for si := range c.Table.Services {
			for i := 0; i < len(c.Table.Services[si].Routes) && len(c.Table.Services[si].Routes) > 1; i++ {
				d := cloneCase(c)
				rs := d.Table.Services[si].Routes
				d.Table.Services[si].Routes = append(rs[:i:i], rs[i+1:]...)
				if try(d) {
					c, changed = d, true
					i--
				}
			}
			for ri := range c.Table.Services[si].Routes {
				rt := c.Table.Services[si].Routes[ri]
				if len(rt.Consumes)+len(rt.Produces)+len(rt.Conds)+len(rt.Noct) > 0 {
					d := cloneCase(c)
					x := &d.Table.Services[si].Routes[ri]
					x.Consumes, x.Produces, x.Conds, x.Noct = nil, nil, nil, nil
					if try(d) {
						c, changed = d, true
					}
				}
			}
			if s := c.Table.Services[si]; len(s.Consumes)+len(s.Produces) > 0 {
				d := cloneCase(c)
				d.Table.Services[si].Consumes, d.Table.Services[si].Produces = nil, nil
				if try(d) {
					c, changed = d, true
				}
			}
		}
		// filter configuration
		for _, sel := range []func(*Filter) *[]string{
			func(f *Filter) *[]string { return &f.Expose }, func(f *Filter) *[]string { return &f.AllowedHeaders },
			func(f *Filter) *[]string { return &f.Domains }, func(f *Filter) *[]string { return &f.PredAccepts },
			func(f *Filter) *[]string { return &f.Methods }} {
			for i := 0; i < len(*sel(&c.F)); i++ {
				d := cloneCase(c)
				*sel(&d.F) = dropAt(*sel(&d.F), i)
				if try(d) {
					c, changed = d, true
					i--
				}
			}
		}
		for _, f := range []func(*Filter) bool{
			func(f *Filter) bool { ok := f.HasPred; f.HasPred, f.PredAccepts = false, nil; return ok },
			func(f *Filter) bool { ok := f.Cookies; f.Cookies = false; return ok },
			func(f *Filter) bool { ok := f.MaxAge != 0; f.MaxAge = 0; return ok },
		} {
			d := cloneCase(c)
			if f(&d.F) && try(d) {
				c, changed = d, true
			}
		}
		// requests
		for i := range c.Reqs {
			for _, f := range []func(*Req) bool{
				func(r *Req) bool { ok := r.Serve; r.Serve = false; return ok },
				func(r *Req) bool { ok := r.R.CT != "" || r.R.Accept != ""; r.R.CT, r.R.Accept = "", ""; return ok },
				func(r *Req) bool {
					ok := r.R.CLHeader != "" || r.R.CL != 0 || len(r.R.Conds) > 0
					r.R.CLHeader, r.R.CL, r.R.Conds = "", 0, nil
					return ok
				},
				func(r *Req) bool { ok := len(r.Origin) > 1; r.Origin = r.Origin[:min(1, len(r.Origin))]; return ok },
				func(r *Req) bool { ok := len(r.ACRM) > 1; r.ACRM = r.ACRM[:min(1, len(r.ACRM))]; return ok },
				func(r *Req) bool { ok := len(r.ACRH) > 1; r.ACRH = r.ACRH[:min(1, len(r.ACRH))]; return ok },
				func(r *Req) bool { ok := r.ACRH != nil; r.ACRH = nil; return ok },
				func(r *Req) bool { ok := r.ACRM != nil; r.ACRM = nil; return ok },
			} {
				d := cloneCase(c)
				if f(&d.Reqs[i]) && try(d) {
					c, changed = d, true
				}
			}
			// drop elements of the requested-header list
			if len(c.Reqs[i].ACRH) == 1 {
				parts := strings.Split(c.Reqs[i].ACRH[0], ",")
				for k := 0; k < len(parts) && len(parts) > 1; k++ {
					d := cloneCase(c)
					np := dropAt(parts, k)
					d.Reqs[i].ACRH = []string{strings.Join(np, ",")}
					if try(d) {
						c, changed = d, true
						parts = np
						k--
					}
				}
			}
		}
	}
	return c
}
