package cors

import (
	"fmt"
	"testing"
)

// TestNonASCIIFacts prints what the real filter does on origins outside ASCII (no model involved):
// Go's strings.ToLower is Unicode-aware and maps every invalid UTF-8 byte to U+FFFD.
func TestNonASCIIFacts(t *testing.T) {
	for _, x := range []struct{ domain, origin string }{
		{"http://école.example", "http://ÉCOLE.example"},
		{"http://k.example", "http://K.example"},                 // KELVIN SIGN lower-cases to 'k'
		{"http://a\xff.example", "http://a\xfe.example"},         // two DIFFERENT invalid bytes
		{"http://a\xff.example", "http://a\xef\xbf\xbd.example"}, // an invalid byte vs. a real U+FFFD
		{"http://straße.example", "http://STRASSE.example"},
	} {
		c := Case{Table: twoServices, F: Filter{Domains: []string{x.domain}}, Reqs: []Req{get("/a", x.origin)}}
		obs, _, err := Execute(&c)
		if err != nil {
			t.Fatal(err)
		}
		fmt.Printf("AllowedDomains=[%q] Origin=%q -> %s\n", x.domain, x.origin, hdrs(obs[0].Extra))
	}
}
