package cors

import (
	"bytes"
	"fmt"
	"io"
	stdlog "log"
	"net/http"
	"net/http/httptest"
	"strings"

	restful "github.com/emicklei/go-restful/v3"

	"verifharness/internal/routing"
)

func init() {
	restful.SetLogger(stdlog.New(io.Discard, "", 0))
}

// world is the event log the generated filters and route functions write to.
type world struct{ log []string }

// Pair is the real container (with the CORS filter) and its twin (without).
type Pair struct {
	Real, Twin     *restful.Container
	realW, twinW   *world
	realWS, twinWS []*restful.WebService // the registered WebService objects, in table order
}

// routeOf builds route r of service s: the shared generated route with this stream's route function.
func routeOf(w *world, ws *restful.WebService, s routing.Service, r routing.RouteDecl) *restful.RouteBuilder {
	b := routing.RouteBuilder(ws, s, r)
	b.To(func(req *restful.Request, resp *restful.Response) {
		w.log = append(w.log, fmt.Sprintf("h:%d:%d", s.ID, r.ID))
		if req.Request.Header.Get(retryHeader) != "" && req.Attribute("attempt") == nil {
			// the first attempt of a retried request gives up without committing the response
			req.SetAttribute("attempt", 1)
			return
		}
		resp.AddHeader("X-Handler", fmt.Sprintf("%d", r.ID))
		if r.ID%3 == 0 {
			resp.AddHeader("X-Handler", "again") // a multi-valued header from user code
		}
		status := 200
		if r.ID%4 == 1 {
			status = 201
		}
		resp.WriteHeader(status)
		fmt.Fprintf(resp, "route %d of service %d on %s", r.ID, s.ID, req.Request.URL.Path)
	})
	return b
}

func buildOne(tbl routing.Config, f *Filter, dynamic bool) (c *restful.Container, w *world, wss []*restful.WebService, err error) {
	defer func() {
		if r := recover(); r != nil {
			c, wss, err = nil, nil, fmt.Errorf("build panic: %v", r)
		}
	}()
	w = &world{}
	c = restful.NewContainer()
	if tbl.Router == "jsr" {
		c.Router(restful.RouterJSR311{})
	} else {
		c.Router(restful.CurlyRouter{})
	}
	// a logger BEFORE the CORS filter: tells whether the container's filter chain ran at all
	c.Filter(func(req *restful.Request, resp *restful.Response, chain *restful.FilterChain) {
		w.log = append(w.log, "pre")
		chain.ProcessFilter(req, resp)
		if req.Request.Header.Get(retryHeader) != "" {
			// a retrying filter: the second call continues where the chain stands (every filter behind this
			// one has run, so it reaches the route function directly); no filter runs twice
			w.log = append(w.log, "retry")
			chain.ProcessFilter(req, resp)
		}
	})
	if f != nil {
		cors := restful.CrossOriginResourceSharing{
			ExposeHeaders:  f.Expose,
			AllowedHeaders: f.AllowedHeaders,
			AllowedDomains: f.Domains,
			AllowedMethods: f.Methods,
			MaxAge:         f.MaxAge,
			CookiesAllowed: f.Cookies,
			Container:      c,
		}
		if f.HasPred {
			acc := map[string]bool{}
			for _, a := range f.PredAccepts {
				acc[a] = true
			}
			cors.AllowedDomainFunc = func(origin string) bool { return acc[origin] }
		}
		c.Filter(cors.Filter) // ONE filter value for the whole history
	}
	// a logger AFTER the CORS filter
	c.Filter(func(req *restful.Request, resp *restful.Response, chain *restful.FilterChain) {
		w.log = append(w.log, "post")
		chain.ProcessFilter(req, resp)
	})
	for _, s := range tbl.Services {
		s := s
		ws := new(restful.WebService)
		ws.Path(s.Root)
		if len(s.Consumes) > 0 {
			ws.Consumes(s.Consumes...)
		}
		if len(s.Produces) > 0 {
			ws.Produces(s.Produces...)
		}
		ws.Filter(func(req *restful.Request, resp *restful.Response, chain *restful.FilterChain) {
			w.log = append(w.log, fmt.Sprintf("svc:%d", s.ID))
			chain.ProcessFilter(req, resp)
		})
		ws.SetDynamicRoutes(dynamic)
		for _, r := range s.Routes {
			ws.Route(routeOf(w, ws, s, r))
		}
		c.Add(ws)
		wss = append(wss, ws)
	}
	return c, w, wss, nil
}

// Build constructs the real container and its twin. Public API only.
func Build(tbl routing.Config, f Filter) (*Pair, error) { return build(tbl, f, false) }

func build(tbl routing.Config, f Filter, dynamic bool) (*Pair, error) {
	rc, rw, rws, err := buildOne(tbl, &f, dynamic)
	if err != nil {
		return nil, err
	}
	tc, tw, tws, err := buildOne(tbl, nil, dynamic)
	if err != nil {
		return nil, err
	}
	return &Pair{Real: rc, Twin: tc, realW: rw, twinW: tw, realWS: rws, twinWS: tws}, nil
}

// Apply makes the change on the registered WebService of both containers. tbl is the table in force
// before it; the number of routes the service holds afterwards must be the one Change.Apply predicts
// (otherwise the harness, not the library, is out of step and the run stops).
func (p *Pair) Apply(tbl routing.Config, ch *Change) (err error) {
	defer func() {
		if r := recover(); r != nil {
			err = fmt.Errorf("route table change panicked: %v", r)
		}
	}()
	if ch.Svc < 0 || ch.Svc >= len(tbl.Services) {
		return nil
	}
	s := tbl.Services[ch.Svc]
	want := len(ch.Apply(tbl).Services[ch.Svc].Routes)
	for k, wss := range [][]*restful.WebService{p.realWS, p.twinWS} {
		ws := wss[ch.Svc]
		if ch.Kind == "route" {
			ws.Route(routeOf([]*world{p.realW, p.twinW}[k], ws, s, ch.Route))
		} else {
			// the path as the library spells it: that of a route it holds with this method and template, else the harness's own spelling
			path := FullPath(s.Root, ch.Route.Rel)
			for i, r := range s.Routes {
				if r.Method == ch.Route.Method && FullPath(s.Root, r.Rel) == path && i < len(ws.Routes()) {
					path = ws.Routes()[i].Path
					break
				}
			}
			if err := ws.RemoveRoute(path, ch.Route.Method); err != nil {
				return err
			}
		}
		if got := len(ws.Routes()); got != want {
			return fmt.Errorf("after %s the WebService holds %d routes, the harness expects %d", ch.String(tbl), got, want)
		}
	}
	return nil
}

const retryHeader = "X-Verif-Retry"

// HTTPRequest builds the request by hand (arbitrary path bytes, header lines as given).
func HTTPRequest(r Req) *http.Request {
	hr := routing.HTTPRequest(r.R)
	if r.Retry {
		hr.Header.Set(retryHeader, "1")
	}
	for _, v := range r.Origin {
		hr.Header.Add("Origin", v)
	}
	for _, v := range r.ACRM {
		hr.Header.Add("Access-Control-Request-Method", v)
	}
	for _, v := range r.ACRH {
		hr.Header.Add("Access-Control-Request-Headers", v)
	}
	return hr
}

type result struct {
	status int
	header http.Header
	body   []byte
	log    []string
	panic  string
}

func run(c *restful.Container, w *world, r Req) (res result) {
	w.log = nil
	rec := httptest.NewRecorder()
	func() {
		defer func() {
			if p := recover(); p != nil {
				res.panic = fmt.Sprint(p)
			}
		}()
		if r.Serve {
			c.ServeHTTP(rec, HTTPRequest(r))
		} else {
			c.Dispatch(rec, HTTPRequest(r))
		}
	}()
	hr := rec.Result() // what a client would see: the header snapshot taken at WriteHeader
	res.status, res.header = hr.StatusCode, hr.Header
	res.body, _ = io.ReadAll(hr.Body)
	res.log = append([]string{}, w.log...)
	return res
}

func lines(h http.Header) map[Hdr]int {
	m := map[Hdr]int{}
	for k, vs := range h {
		for _, v := range vs {
			m[Hdr{k, v}]++
		}
	}
	return m
}

// Observe sends one request to both containers and compares the two recorders in full.
func (p *Pair) Observe(r Req) Obs {
	a := run(p.Real, p.realW, r)
	b := run(p.Twin, p.twinW, r)
	o := Obs{Status: a.status, TwinStatus: b.status, BodySame: bytes.Equal(a.body, b.body), Panic: a.panic, Log: a.log, TwinLog: b.log}
	if a.panic != b.panic {
		o.BodySame = false
	}
	o.LogSame = strings.Join(a.log, " ") == strings.Join(b.log, " ")
	la, lb := lines(a.header), lines(b.header)
	for h, n := range la {
		for i := lb[h]; i < n; i++ {
			o.Extra = append(o.Extra, h)
		}
	}
	for h, n := range lb {
		if la[h] < n {
			o.Missing += n - la[h]
		}
	}
	sortHdrs(o.Extra)
	for _, e := range a.log {
		if e == "pre" {
			o.Reached = true
		} else {
			o.Later = true
		}
	}
	return o
}

// Probe asks the twin whether (method, URL) is routed at all: the status of that request.
func (p *Pair) Probe(r Req, method string) int {
	q := r
	q.R.Method = method
	q.Origin, q.ACRM, q.ACRH = nil, nil, nil
	return run(p.Twin, p.twinW, q).status
}

// Execute runs the whole history on one pair.
func Execute(c *Case) ([]Obs, *Pair, error) {
	p, err := build(c.Table, c.F, c.needsDynamic())
	if err != nil {
		return nil, nil, err
	}
	obs := make([]Obs, len(c.Reqs))
	tbl := c.Table
	for i, r := range c.Reqs {
		if r.Change != nil {
			if err := p.Apply(tbl, r.Change); err != nil {
				return nil, nil, err
			}
			tbl = r.Change.Apply(tbl)
		}
		obs[i] = p.Observe(r)
	}
	return obs, p, nil
}
