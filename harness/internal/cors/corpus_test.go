package cors

import (
	"encoding/json"
	"fmt"
	"os"
	"testing"

	"verifharness/internal/drv"
)

// TestCorpus prints, for every request of the fixed corpus, what the real filter did and what the
// model and the two predicates say (go test -v; needs VERIF_DRIVER).
func TestCorpus(t *testing.T) {
	if p := os.Getenv("VERIF_DRIVER"); p != "" {
		drv.Path = p
	} else {
		t.Skip("VERIF_DRIVER not set")
	}
	for _, n := range Corpus() {
		c := n.C
		e, err := One(&c)
		if err != nil {
			t.Fatalf("%s: %v", n.Name, err)
		}
		fmt.Printf("== %s\n", n.Name)
		for i, rq := range c.Reqs {
			o, a := e.Obs[i], e.Ans[i]
			fmt.Printf("  %-7s %-9s Origin=%q ACRM=%q ACRH=%q\n      real : %s (status %d, twin %d)\n      model: %s  tag=%s c08=%v c09=%v\n",
				rq.R.Method, rq.R.Path, rq.Origin, rq.ACRM, rq.ACRH, c09Real(o), o.Status, o.TwinStatus, c09Model(a), a.Tag, a.C08, a.C09)
			for _, p := range []Prop{C08, C09} {
				if k := p.failure(e, i); k != "" {
					t.Errorf("%s request %d: %s fails (%s)", n.Name, i, p.ID, k)
				}
			}
			if len(c.F.Methods) == 0 && len(only(o.Extra, hAM)) > 0 {
				if st := e.Pair.Probe(rq, first(rq.ACRM)); st == 404 || st == 405 {
					fmt.Printf("      NOTE: granted, but %s %s answers %d on the twin (roots matching the URL: %d)\n", first(rq.ACRM), rq.R.Path, st, a.NRoots)
				}
			}
		}
	}
}

// TestWriteF14Witness writes the replay file of the F14 witness (VERIF_WRITE_WITNESS=<file>).
func TestWriteF14Witness(t *testing.T) {
	path := os.Getenv("VERIF_WRITE_WITNESS")
	if path == "" || os.Getenv("VERIF_DRIVER") == "" {
		t.Skip("VERIF_WRITE_WITNESS / VERIF_DRIVER not set")
	}
	drv.Path = os.Getenv("VERIF_DRIVER")
	var c Case
	for _, n := range Corpus() {
		if n.Name == "nested-roots-F14" {
			c = Case{Table: n.C.Table, F: n.C.F, Reqs: n.C.Reqs[:1]}
		}
	}
	e, err := One(&c)
	if err != nil {
		t.Fatal(err)
	}
	st := e.Pair.Probe(c.Reqs[0], "PUT")
	b, _ := json.MarshalIndent(map[string]interface{}{"property": "C09", "finding": "F14", "violation": map[string]interface{}{
		"kind": "counterexample", "class": "Spec.severalRootsMatch",
		"what": fmt.Sprintf("preflight OPTIONS /a/b/x asking for PUT on computed methods is granted although PUT /a/b/x is answered %d (strict reading of 'methods routable at that URL')", st),
		"case": []string{e.Line}, "human": c.Human(e.Obs), "real": c09Real(e.Obs[0]), "model": c09Model(e.Ans[0])}}, "", " ")
	if err := os.WriteFile(path, b, 0o644); err != nil {
		t.Fatal(err)
	}
}
