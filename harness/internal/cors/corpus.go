package cors

import "verifharness/internal/routing"

// Corpus is a fixed set of hand-written cases that runs first on every run, through exactly the
// same machinery as the generated stream (real container + twin + driver + predicates): the corner
// cases the two properties are about, independent of the seed.

func rt(id int, method, rel string) routing.RouteDecl {
	return routing.RouteDecl{ID: id, Method: method, Rel: rel}
}

func get(path string, origin ...string) Req {
	return Req{R: routing.Req{Method: "GET", Path: path}, Origin: origin}
}

func pre(path, origin, acrm string, acrh ...string) Req {
	return Req{R: routing.Req{Method: "OPTIONS", Path: path}, Origin: []string{origin}, ACRM: []string{acrm}, ACRH: acrh}
}

var twoServices = routing.Config{Router: "curly", Services: []routing.Service{
	{ID: 0, Root: "/a", Routes: []routing.RouteDecl{rt(0, "GET", "")}},
	{ID: 1, Root: "/b", Routes: []routing.RouteDecl{rt(1, "PUT", "/{id}"), rt(2, "OPTIONS", "/{id}")}}}}

// F14Table: nested roots; the router dispatches /a/b/x to the second service only, while
// computeAllowedMethods unions the methods of both.
var F14Table = routing.Config{Router: "jsr", Services: []routing.Service{
	{ID: 0, Root: "/a", Routes: []routing.RouteDecl{rt(0, "PUT", "/{p}/{q}")}},
	{ID: 1, Root: "/a/b", Routes: []routing.RouteDecl{rt(1, "GET", "/{x}")}}}}

type Named struct {
	Name string
	C    Case
}

func Corpus() []Named {
	good := "http://good.example"
	return []Named{
		{"origin-near-misses", Case{Table: twoServices, F: Filter{Domains: []string{good}, Cookies: true, MaxAge: 3600, Expose: []string{"X-A", "X-B"}},
			Reqs: []Req{get("/a", good), get("/a", "HTTP://Good.Example"), get("/a", "http://good.exampl"), get("/a", "ttp://good.example"),
				get("/a", good+".evil.test"), get("/a", "http://evil.test/?"+good), get("/a", good+":8080"), get("/a", good+"/"),
				get("/a", "null"), get("/a", ""), get("/a"), get("/a", good, "http://evil.test"), get("/a", "http://evil.test", good)}}},
		{"wildcard-entry-and-lookalikes", Case{Table: twoServices, F: Filter{Domains: []string{"http://.*", ".*.example", "*"}},
			Reqs: []Req{get("/a", "http://x"), get("/a", "http://.*"), get("/a", "*"), get("/a", "a.example")}}},
		{"wildcard-entry", Case{Table: twoServices, F: Filter{Domains: []string{good, ".*"}}, Reqs: []Req{get("/a", "http://evil.test"), get("/a", "null")}}},
		{"predicate-sees-lowered-origin-when-list-empty", Case{Table: twoServices, F: Filter{HasPred: true, PredAccepts: []string{"http://MiXed.example", "http://low.example"}},
			Reqs: []Req{get("/a", "http://MiXed.example"), get("/a", "http://mixed.example"), get("/a", "HTTP://LOW.example"), get("/a", "http://low.example")}}},
		{"predicate-sees-original-origin-after-list", Case{Table: twoServices, F: Filter{Domains: []string{good}, HasPred: true, PredAccepts: []string{"http://MiXed.example", "http://low.example"}},
			Reqs: []Req{get("/a", "http://MiXed.example"), get("/a", "http://mixed.example"), get("/a", "HTTP://LOW.example"), get("/a", "http://low.example"), get("/a", "HTTP://GOOD.example")}}},
		{"requested-header-lists", Case{Table: twoServices, F: Filter{Domains: []string{good}, AllowedHeaders: []string{"X-Token", "Content-Type"}},
			Reqs: []Req{pre("/b/7", good, "PUT", "x-token , CONTENT-TYPE"), pre("/b/7", good, "PUT", "x-token,,content-type"), pre("/b/7", good, "PUT", ""),
				pre("/b/7", good, "PUT"), pre("/b/7", good, "PUT", "x-token,"), pre("/b/7", good, "PUT", ","), pre("/b/7", good, "PUT", " "),
				pre("/b/7", good, "PUT", "x-token,x-evil"), pre("/b/7", good, "PUT", "x-evil,x-token"), pre("/b/7", good, "PUT", "X-TOKEN", "x-evil"),
				pre("/b/7", good, "GET", "x-token"), pre("/b/7", good, "put"), pre("/b/7", good, "OPTIONS"), pre("/b/7/", good, "PUT"), pre("/b", good, "PUT"), pre("/nowhere", good, "PUT"),
				{R: routing.Req{Method: "OPTIONS", Path: "/b/7"}, Origin: []string{good}}, {R: routing.Req{Method: "OPTIONS", Path: "/b/7"}, Origin: []string{good}, ACRM: []string{""}},
				{R: routing.Req{Method: "options", Path: "/b/7"}, Origin: []string{good}, ACRM: []string{"PUT"}}, {R: routing.Req{Method: "PUT", Path: "/b/7"}, Origin: []string{good}, ACRM: []string{"PUT"}}}}},
		{"header-wildcard-and-empty-entry", Case{Table: twoServices, F: Filter{AllowedHeaders: []string{"*"}, Methods: []string{"PUT", "PUT", "get"}},
			Reqs: []Req{pre("/b/7", "null", "PUT", "x-token,,content-type"), pre("/b/7", "null", "get", "anything at all"), pre("/b/7", "null", "GET")}}},
		{"empty-allowed-header-entry", Case{Table: twoServices, F: Filter{AllowedHeaders: []string{"", ".*"}, Methods: []string{"PUT"}},
			Reqs: []Req{pre("/b/7", "null", "PUT", "a,,b"), pre("/b/7", "null", "PUT", " , "), pre("/b/7", "null", "PUT", ".*"), pre("/b/7", "null", "PUT", "*")}}},
		{"computed-methods-do-not-stick", Case{Table: twoServices, F: Filter{},
			Reqs: []Req{pre("/a", "http://o", "GET"), pre("/b/7", "http://o", "PUT"), pre("/a", "http://o", "PUT"), pre("/b/7", "http://o", "GET"), pre("/a/", "http://o", "GET"), pre("/b/7", "http://o", "OPTIONS")}}},
		{"nested-roots-F14", Case{Table: F14Table, F: Filter{}, Reqs: []Req{pre("/a/b/x", "http://o", "PUT"), pre("/a/b/x", "http://o", "GET")}}},
	}
}
