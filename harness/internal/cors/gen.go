package cors

import (
	"strings"

	"verifharness/internal/rng"
	"verifharness/internal/routing"
)

var domainPool = []string{"http://good.example", "https://Api.Example.com", "http://localhost:8080", "http://a.b", "https://shop.example:8443",
	"HTTP://UPPER.EXAMPLE", "null", "http://x"}
var oddDomains = []string{"", "*", "http://.*", ".*.example", "http://good.example/", " http://good.example", "http://good\\.example"}
var originPool = []string{"http://evil.test", "https://other.example", "http://good.example", "null", "NULL", "http://localhost", "file://", "x", "http://a.b:80", ".*", "*"}
var headerPool = []string{"X-Token", "Content-Type", "Authorization", "x-custom", "Accept", "X-Requested-With"}
var otherHeaders = []string{"X-Evil", "Cookie", "X-Token2", "X-Toke", "Token", "Content-Typ", "content-type2"}
var exposePool = []string{"X-A", "X-B", "Content-Length", "*", ""}
var maxAges = []int{-5, 0, 0, 0, 1, 60, 3600, 86400, 2147483647}

// caseVariant changes the case of ASCII letters: all upper, all lower, or letter by letter.
func caseVariant(r *rng.R, s string) string {
	switch r.Intn(4) {
	case 0:
		return strings.ToUpper(s)
	case 1:
		return strings.ToLower(s)
	}
	b := []byte(s)
	for i, c := range b {
		if r.Chance(1, 2) {
			if 'a' <= c && c <= 'z' {
				b[i] = c - 32
			} else if 'A' <= c && c <= 'Z' {
				b[i] = c + 32
			}
		}
	}
	return string(b)
}

// nearMiss derives an origin that shares most of an allowed entry without being it.
func nearMiss(r *rng.R, d string) string {
	switch r.Intn(9) {
	case 0: // proper prefix
		if len(d) > 1 {
			return d[:1+r.Intn(len(d)-1)]
		}
	case 1: // proper suffix
		if len(d) > 1 {
			return d[1+r.Intn(len(d)-1):]
		}
	case 2: // the entry is a prefix of the origin
		return d + r.Pick([]string{".evil.test", ":8080", "/", "x", " ", ".", "%00", "@evil.test"})
	case 3: // the entry is a suffix of the origin
		return r.Pick([]string{"http://evil.test/?", "x", "evil", " ", "http://"}) + d
	case 4: // the entry is in the middle
		return "http://evil.test/" + d + "/x"
	case 5: // one character changed
		if len(d) > 0 {
			b := []byte(d)
			i := r.Intn(len(b))
			b[i] = "xX.-:/0"[r.Intn(7)]
			if string(b) != d {
				return string(b)
			}
		}
	case 6: // one character dropped
		if len(d) > 1 {
			i := r.Intn(len(d))
			return d[:i] + d[i+1:]
		}
	case 7: // other port
		return d + ":" + r.Pick([]string{"80", "8080", "443"})
	}
	return caseVariant(r, d) + "x"
}

func pickSome(r *rng.R, pool []string, n int) []string {
	out := []string{}
	for i := 0; i < n; i++ {
		out = append(out, r.Pick(pool))
	}
	return out
}

// GenFilter draws a filter configuration.
func GenFilter(r *rng.R) Filter {
	var f Filter
	// allowed domains: 0–3 entries, sometimes the wildcard entry, sometimes odd entries
	switch k := r.Intn(10); {
	case k < 3:
	case k < 6:
		f.Domains = pickSome(r, domainPool, 1)
	case k < 8:
		f.Domains = pickSome(r, domainPool, 2)
	default:
		f.Domains = pickSome(r, domainPool, 3)
	}
	for i := range f.Domains {
		switch {
		case r.Chance(1, 10):
			f.Domains[i] = ".*"
		case r.Chance(1, 12):
			f.Domains[i] = r.Pick(oddDomains)
		case r.Chance(1, 5):
			f.Domains[i] = caseVariant(r, f.Domains[i])
		}
	}
	// predicate: none, or "is one of these strings"
	if r.Chance(2, 5) {
		f.HasPred = true
		for i, n := 0, r.Intn(4); i < n; i++ {
			a := r.Pick(append(append([]string{}, originPool...), domainPool...))
			switch r.Intn(4) {
			case 0:
				a = strings.ToLower(a)
			case 1:
				a = caseVariant(r, a)
			}
			f.PredAccepts = append(f.PredAccepts, a)
		}
	}
	// allowed methods: empty (computed from the container) or configured
	if r.Chance(1, 2) {
		f.Methods = pickSome(r, routing.Methods[:7], 1+r.Intn(3))
		if r.Chance(1, 8) {
			f.Methods[0] = strings.ToLower(f.Methods[0])
		}
	}
	f.AllowedHeaders = pickSome(r, headerPool, r.Intn(4))
	for i := range f.AllowedHeaders {
		switch {
		case r.Chance(1, 10):
			f.AllowedHeaders[i] = "*"
		case r.Chance(1, 20):
			f.AllowedHeaders[i] = ""
		case r.Chance(1, 25):
			f.AllowedHeaders[i] = ".*" // the spelling the doc comment gives; the code's wildcard is "*"
		}
	}
	f.Expose = pickSome(r, exposePool, r.Intn(3))
	f.MaxAge = maxAges[r.Intn(len(maxAges))]
	f.Cookies = r.Chance(1, 2)
	return f
}

// GenOrigin draws the Origin header lines for a filter: allowed entries in every case, near misses,
// with ports, null, empty, absent.
func GenOrigin(r *rng.R, f Filter) []string {
	entry := func() string {
		if len(f.Domains) > 0 {
			return r.Pick(f.Domains)
		}
		return r.Pick(domainPool)
	}
	var o string
	switch k := r.Intn(100); {
	case k < 9:
		return nil // absent
	case k < 12:
		return []string{""} // present, empty
	case k < 30:
		o = entry()
	case k < 45:
		o = caseVariant(r, entry())
	case k < 70:
		o = nearMiss(r, entry())
	case k < 76:
		o = r.Pick([]string{"null", "NULL", "Null"})
	case k < 88 && len(f.PredAccepts) > 0:
		o = r.Pick(f.PredAccepts)
		switch r.Intn(3) {
		case 0:
			o = caseVariant(r, o)
		case 1:
			o = nearMiss(r, o)
		}
	default:
		o = r.Pick(originPool)
	}
	if r.Chance(1, 30) {
		return []string{o, r.Pick(originPool)} // a second header line (Header.Get reads the first)
	}
	return []string{o}
}

// GenACRH draws the Access-Control-Request-Headers lines: allowed names in any case and spacing,
// foreign names, empty elements, any count.
func GenACRH(r *rng.R, f Filter) []string {
	if r.Chance(1, 4) {
		if r.Chance(1, 4) {
			return []string{""}
		}
		return nil
	}
	n := 1 + r.Intn(4)
	elems := []string{}
	for i := 0; i < n; i++ {
		var e string
		switch k := r.Intn(100); {
		case k < 70 && len(f.AllowedHeaders) > 0:
			e = caseVariant(r, r.Pick(f.AllowedHeaders))
		case k < 78:
			e = r.Pick(headerPool)
		case k < 88:
			e = r.Pick(otherHeaders)
		case k < 95:
			e = "" // empty element
		default:
			e = r.Pick([]string{"*", ".*", " ", "x y"})
		}
		switch r.Intn(6) {
		case 0:
			e = " " + e
		case 1:
			e = e + " "
		case 2:
			e = "  " + e + "  "
		}
		elems = append(elems, e)
	}
	v := strings.Join(elems, r.Pick([]string{",", ",", ", ", " , "}))
	if r.Chance(1, 25) {
		v += ","
	}
	if r.Chance(1, 40) {
		return []string{v, r.Pick(otherHeaders)}
	}
	return []string{v}
}

func tableOpts(r *rng.R) routing.Opts {
	// literal / plain-variable templates always; segment-local regex variables and the tail wildcard
	// (the forms the closed form of the path expressions covers) in part of the tables
	rich := r.Chance(1, 3)
	return routing.Opts{Router: "jsr", AllowRe: rich, AllowWild: rich, RootVars: true, RootRe: rich,
		Conds: r.Chance(1, 4), Media: r.Chance(1, 3), MaxSvcs: 3, MaxRoutes: 4, Adversarial: r.Chance(1, 4)}
}

// GenTable draws a route table (either router; OPTIONS routes included).
func GenTable(r *rng.R) (routing.Config, routing.Opts) {
	o := tableOpts(r)
	cfg := routing.GenConfig(r, o)
	if r.Chance(1, 2) {
		cfg.Router = "curly"
	}
	for si := range cfg.Services {
		for ri := range cfg.Services[si].Routes {
			if r.Chance(1, 6) {
				cfg.Services[si].Routes[ri].Method = "OPTIONS"
			}
		}
	}
	return cfg, o
}

func tableMethods(cfg routing.Config) []string {
	var ms []string
	for _, s := range cfg.Services {
		for _, rt := range s.Routes {
			ms = append(ms, rt.Method)
		}
	}
	return ms
}

// GenReq draws one request of a history.
func GenReq(r *rng.R, o routing.Opts, cfg routing.Config, f Filter) Req {
	base := routing.GenReq(r, o, cfg) // URL derived from a route's template, then mutated
	rq := Req{R: base}
	routed := base.Method // mostly the method of the route the URL was derived from
	switch k := r.Intn(100); {
	case k < 50:
		rq.R.Method = "OPTIONS"
	case k < 53:
		rq.R.Method = r.Pick([]string{"options", "Options"})
	}
	rq.Origin = GenOrigin(r, f)
	// requested method
	wantACRM := rq.R.Method == "OPTIONS" && r.Chance(5, 6) || r.Chance(1, 8)
	if wantACRM {
		var m string
		switch k := r.Intn(100); {
		case k < 45:
			m = routed
		case k < 65 && len(f.Methods) > 0:
			m = r.Pick(f.Methods)
		case k < 80:
			m = r.Pick(tableMethods(cfg))
		case k < 92:
			m = r.Pick(routing.Methods)
		case k < 96:
			m = strings.ToLower(routed)
		default:
			m = r.Pick([]string{" ", "GET,PUT", "GET ", "*"})
		}
		rq.ACRM = []string{m}
		if r.Chance(1, 40) {
			rq.ACRM = append(rq.ACRM, r.Pick(routing.Methods))
		}
	} else if r.Chance(1, 10) {
		rq.ACRM = []string{""}
	}
	rq.ACRH = GenACRH(r, f)
	rq.Serve = r.Chance(1, 4)
	return rq
}

// GenCase draws a whole case: table, filter, and a history of 1–6 requests on ONE filter value.
// Histories on a filter with computed methods are biased to several preflights to different URLs.
func GenCase(r *rng.R) Case {
	tbl, o := GenTable(r)
	f := GenFilter(r)
	c := Case{Table: tbl, F: f}
	n := 1 + r.Intn(6)
	memory := len(f.Methods) == 0 && r.Chance(1, 2)
	if memory && n < 2 {
		n = 2 + r.Intn(3)
	}
	var goodOrigin []string
	for i := 0; i < n; i++ {
		rq := GenReq(r, o, tbl, f)
		if memory && r.Chance(3, 4) {
			// a preflight that has a good chance of being granted at its own URL
			base := routing.GenReq(r, routing.Opts{Router: o.Router, AllowRe: o.AllowRe, AllowWild: o.AllowWild, RootVars: true, RootRe: o.RootRe, MaxSvcs: o.MaxSvcs, MaxRoutes: o.MaxRoutes}, tbl)
			rq.R.Path = base.Path
			rq.ACRM = []string{base.Method}
			rq.R.Method = "OPTIONS"
			if goodOrigin == nil {
				switch {
				case len(f.Domains) > 0:
					goodOrigin = []string{caseVariant(r, r.Pick(f.Domains))}
				case f.HasPred && len(f.PredAccepts) > 0:
					goodOrigin = []string{strings.ToLower(r.Pick(f.PredAccepts))}
				default:
					goodOrigin = []string{r.Pick(originPool)}
				}
			}
			rq.Origin = goodOrigin
			if r.Chance(1, 2) {
				rq.ACRH = nil
			}
		}
		if rq.R.Method != "OPTIONS" && r.Chance(1, 8) {
			rq.Retry = true
		}
		c.Reqs = append(c.Reqs, rq)
	}
	// the HISTORY dimension "the route table of a registered WebService changes between requests": a
	// third of the histories on a filter with computed methods, a tenth of the others (drawn from a
	// fork, so that the rest of the case is what it was without this dimension)
	if rc := r.Fork(0xC4A9E); len(f.Methods) == 0 && rc.Chance(1, 3) || rc.Chance(1, 10) {
		withChange(rc, &c, o)
	}
	return c
}

// withChange puts a change of the route table of a registered WebService (ws.Route after
// Container.Add, or ws.RemoveRoute with dynamic routes) in front of a request of the history that,
// mostly, repeats an earlier request or its URL; three times out of four the route is one whose method
// is routed at that URL (asked of a container without filter). For "route" the container starts
// without the route. Sometimes a later request is preceded by the inverse change.
func withChange(r *rng.R, c *Case, o routing.Opts) {
	type at struct{ si, k int }
	var all []at
	for si, s := range c.Table.Services {
		for k := range s.Routes {
			all = append(all, at{si, k})
		}
	}
	if len(all) == 0 {
		return
	}
	if len(c.Reqs) < 2 {
		c.Reqs = append(c.Reqs, GenReq(r, o, c.Table, c.F))
	}
	i := 1 + r.Intn(len(c.Reqs)-1)
	j := r.Intn(i)
	switch r.Intn(4) {
	case 0, 1:
		c.Reqs[i] = c.Reqs[j]
	case 2:
		c.Reqs[i].R.Path = c.Reqs[j].R.Path
	}
	pick := all[r.Intn(len(all))]
	if r.Chance(3, 4) {
		if tc, tw, _, err := buildOne(c.Table, nil, false); err == nil {
			p := &Pair{Twin: tc, twinW: tw}
			var routed, asked []at
			for _, a := range all {
				m := c.Table.Services[a.si].Routes[a.k].Method
				if st := p.Probe(c.Reqs[i], m); st != 404 && st != 405 {
					routed = append(routed, a)
					if m == first(c.Reqs[i].ACRM) {
						asked = append(asked, a)
					}
				}
			}
			switch {
			case len(asked) > 0 && r.Chance(2, 3):
				pick = asked[r.Intn(len(asked))]
			case len(routed) > 0:
				pick = routed[r.Intn(len(routed))]
			}
		}
	}
	rd := c.Table.Services[pick.si].Routes[pick.k]
	kind, inverse := "rmroute", "route"
	if r.Chance(1, 2) {
		kind, inverse = "route", "rmroute"
		// the container is built without the route
		tbl := routing.Config{Router: c.Table.Router, Services: append([]routing.Service{}, c.Table.Services...)}
		rs := tbl.Services[pick.si].Routes
		tbl.Services[pick.si].Routes = append(append([]routing.RouteDecl{}, rs[:pick.k]...), rs[pick.k+1:]...)
		c.Table = tbl
	}
	c.Reqs[i].Change = &Change{Kind: kind, Svc: pick.si, Route: rd}
	if i+1 < len(c.Reqs) && r.Chance(1, 3) {
		k := i + 1 + r.Intn(len(c.Reqs)-i-1)
		if r.Chance(1, 2) {
			c.Reqs[k] = c.Reqs[i] // the whole request (a preflight is never a retried request: Req.Retry)
		}
		c.Reqs[k].Change = &Change{Kind: inverse, Svc: pick.si, Route: rd}
	}
}

// ---- the small non-ASCII stream (real vs. twin only, no model) ----

var nonASCIIDomains = []string{"http://école.example", "http://ÉCOLE.example", "http://k.example", "http://K.example",
	"http://i̇.example", "http://İ.example", "http://a\xff.example", "http://\xe9.example", "http://straße.example", "http://Σ.example"}

// GenNonASCII draws a case whose origins and allowed entries contain non-ASCII runes or invalid UTF-8.
func GenNonASCII(r *rng.R) Case {
	tbl, o := GenTable(r)
	f := GenFilter(r)
	f.Domains = pickSome(r, nonASCIIDomains, 1+r.Intn(3))
	c := Case{Table: tbl, F: f}
	for i, n := 0, 1+r.Intn(4); i < n; i++ {
		rq := GenReq(r, o, tbl, f)
		d := r.Pick(nonASCIIDomains)
		switch r.Intn(5) {
		case 0:
			d = strings.ToUpper(d)
		case 1:
			d = strings.ToLower(d)
		case 2:
			d = strings.Replace(d, "\xff", "\xfe", 1)
		case 3:
			d = nearMiss(r, d)
		}
		rq.Origin = []string{d}
		c.Reqs = append(c.Reqs, rq)
	}
	return c
}
