// Package cors is the correspondence stream of C08 and C09: a generated route table, a
// CrossOriginResourceSharing filter value, and a HISTORY of requests sent through that one filter
// value — on a real container and on a twin container that is identical except for the filter.
package cors

import (
	"fmt"
	"sort"
	"strings"

	"verifharness/internal/routing"
	"verifharness/internal/sx"
)

// Filter is the configuration of restful.CrossOriginResourceSharing.
type Filter struct {
	Expose         []string
	AllowedHeaders []string
	Domains        []string
	HasPred        bool     // AllowedDomainFunc != nil
	PredAccepts    []string // the predicate: "the argument is one of these strings" (exact)
	Methods        []string
	MaxAge         int
	Cookies        bool
}

// Req is one request of a history. Header fields are lists of header LINES (nil = header absent);
// the filter reads them with Header.Get, i.e. sees the first line only.
type Req struct {
	R      routing.Req
	Origin []string
	ACRM   []string
	ACRH   []string
	Retry  bool // the filter in front of the CORS filter calls ProcessFilter twice for this request (a retrying filter); never set for a preflight; the model does not need to know: both containers get the same request
	Serve  bool // through Container.ServeHTTP (the ServeMux may answer without reaching the filter chain) instead of Container.Dispatch
	// Change, when set, is made BEFORE this request is sent: the route table of a WebService that is
	// already registered in the container changes (nothing passes through the Container).
	Change *Change
}

// Change is one change of the route table of a REGISTERED WebService.
type Change struct {
	Kind  string            // "route": ws.Route(r) after Container.Add | "rmroute": ws.RemoveRoute(full path of r, method of r) (SetDynamicRoutes(true))
	Svc   int               // index into Table.Services
	Route routing.RouteDecl // the route added / the route whose method and path are handed to RemoveRoute
}

// FullPath is Route.Path as RouteBuilder.Build computes it (concatPath, default strategy).
func FullPath(root, rel string) string {
	return strings.TrimRight(root, "/") + "/" + strings.TrimLeft(rel, "/")
}

// Apply is the intended effect of the change on a table (a copy is returned): Route appends to the
// service's list; RemoveRoute drops every route of the service with that method and full path.
func (ch *Change) Apply(tbl routing.Config) routing.Config {
	out := routing.Config{Router: tbl.Router, Services: append([]routing.Service{}, tbl.Services...)}
	if ch == nil || ch.Svc < 0 || ch.Svc >= len(out.Services) {
		return out
	}
	s := out.Services[ch.Svc]
	rs := []routing.RouteDecl{}
	for _, r := range s.Routes {
		if ch.Kind == "rmroute" && r.Method == ch.Route.Method && FullPath(s.Root, r.Rel) == FullPath(s.Root, ch.Route.Rel) {
			continue
		}
		rs = append(rs, r)
	}
	if ch.Kind == "route" {
		rs = append(rs, ch.Route)
	}
	s.Routes = rs
	out.Services[ch.Svc] = s
	return out
}

func (ch *Change) String(tbl routing.Config) string {
	root := "?"
	if ch.Svc >= 0 && ch.Svc < len(tbl.Services) {
		root = tbl.Services[ch.Svc].Root
	}
	if ch.Kind == "route" {
		return fmt.Sprintf("ws[root %q].Route(%s %q) on the registered WebService", root, ch.Route.Method, ch.Route.Rel)
	}
	return fmt.Sprintf("ws[root %q].RemoveRoute(%q, %q) (dynamic routes)", root, FullPath(root, ch.Route.Rel), ch.Route.Method)
}

func first(vs []string) string {
	if len(vs) == 0 {
		return ""
	}
	return vs[0]
}

// Case is one line of the protocol. Table is the table the container is built with; requests may
// carry changes of it (Req.Change).
type Case struct {
	Table routing.Config
	F     Filter
	Reqs  []Req
}

// HasChanges: some request of the history is preceded by a change of the route table.
func (c *Case) HasChanges() bool {
	for _, r := range c.Reqs {
		if r.Change != nil {
			return true
		}
	}
	return false
}

// needsDynamic: some change needs SetDynamicRoutes(true).
func (c *Case) needsDynamic() bool {
	for _, r := range c.Reqs {
		if r.Change != nil && r.Change.Kind == "rmroute" {
			return true
		}
	}
	return false
}

// TableAt is the table in force when request i is sent.
func (c *Case) TableAt(i int) routing.Config {
	tbl := c.Table
	for k := 0; k <= i && k < len(c.Reqs); k++ {
		if c.Reqs[k].Change != nil {
			tbl = c.Reqs[k].Change.Apply(tbl)
		}
	}
	return tbl
}

// Single is request i alone (without its past) on the table in force when it was sent.
func (c *Case) Single(i int) Case {
	rq := c.Reqs[i]
	rq.Change = nil
	return Case{Table: c.TableAt(i), F: c.F, Reqs: []Req{rq}}
}

// Hdr is one response header line (canonical name, value).
type Hdr struct{ Name, Value string }

// Obs is what was observed for one request: real container vs. twin.
type Obs struct {
	Reached      bool  // the filter chain ran (the logger BEFORE the CORS filter logged)
	Extra        []Hdr // header lines on the real response and not on the twin's (multiset difference), sorted
	Missing      int   // header lines of the twin's response the real one lacks
	Status       int
	TwinStatus   int
	BodySame     bool
	LogSame      bool
	Later        bool // something behind the CORS filter ran
	Panic        string
	Log, TwinLog []string
}

func sortHdrs(hs []Hdr) {
	sort.Slice(hs, func(i, j int) bool {
		if hs[i].Name != hs[j].Name {
			return hs[i].Name < hs[j].Name
		}
		return hs[i].Value < hs[j].Value
	})
}

func (f Filter) Sx() *sx.Node {
	pred := sx.K("pred", sx.A("none"))
	if f.HasPred {
		pred = sx.K("pred", sx.A("some"))
		for _, a := range f.PredAccepts {
			pred.List = append(pred.List, sx.H(a))
		}
	}
	return sx.K("filter", sx.Hs("expose", f.Expose), sx.Hs("aheaders", f.AllowedHeaders), sx.Hs("domains", f.Domains), pred,
		sx.Hs("methods", f.Methods), sx.N(f.MaxAge), sx.B(f.Cookies))
}

func (o Obs) Sx() *sx.Node {
	ex := sx.K("extra")
	for _, h := range o.Extra {
		ex.List = append(ex.List, sx.K("h", sx.H(h.Name), sx.H(h.Value)))
	}
	return sx.K("obs", sx.B(o.Reached), ex, sx.N(o.Missing), sx.N(o.Status), sx.N(o.TwinStatus), sx.B(o.BodySame), sx.B(o.LogSame), sx.B(o.Later))
}

// ReqSx is the request as the filter reads it (first header lines).
func (r Req) ReqSx(o Obs) *sx.Node {
	return sx.K("rq", sx.H(r.R.Method), sx.H(r.R.Path), sx.H(first(r.Origin)), sx.H(first(r.ACRM)), sx.H(first(r.ACRH)), o.Sx())
}

// Line is the protocol line of the case with its observations.
func (c *Case) Line(id int, obs []Obs) string {
	rs := sx.K("reqs")
	tbl := c.Table
	for i, r := range c.Reqs {
		if r.Change != nil {
			// the table changes here: every request behind this item is answered from the new table
			tbl = r.Change.Apply(tbl)
			rs.List = append(rs.List, tbl.Sx())
		}
		rs.List = append(rs.List, r.ReqSx(obs[i]))
	}
	return sx.K("cors", sx.N(id), c.F.Sx(), c.Table.Sx(), rs).String()
}

// Human renders the case readably for replay files.
func (c *Case) Human(obs []Obs) map[string]interface{} {
	tbl := routing.Human(&c.Table, routing.Req{})
	delete(tbl, "request")
	reqs := []interface{}{}
	cur := c.Table
	for i, r := range c.Reqs {
		if r.Change != nil {
			reqs = append(reqs, map[string]interface{}{"route_table_changes_before_the_next_request": r.Change.String(cur)})
			cur = r.Change.Apply(cur)
		}
		m := map[string]interface{}{"method": r.R.Method, "path": r.R.Path, "Origin": r.Origin,
			"Access-Control-Request-Method": r.ACRM, "Access-Control-Request-Headers": r.ACRH,
			"content_type": r.R.CT, "accept": r.R.Accept, "via": map[bool]string{true: "ServeHTTP", false: "Dispatch"}[r.Serve], "upstream_filter_calls_ProcessFilter_twice": r.Retry}
		if i < len(obs) {
			ex := []string{}
			for _, h := range obs[i].Extra {
				ex = append(ex, h.Name+": "+h.Value)
			}
			m["observed"] = map[string]interface{}{"headers_not_on_twin": ex, "twin_headers_missing": obs[i].Missing, "status": obs[i].Status,
				"twin_status": obs[i].TwinStatus, "body_same": obs[i].BodySame, "log": strings.Join(obs[i].Log, " "), "twin_log": strings.Join(obs[i].TwinLog, " "),
				"panic": obs[i].Panic}
		}
		reqs = append(reqs, m)
	}
	var pred interface{} = nil
	if c.F.HasPred {
		pred = map[string]interface{}{"accepts_exactly": c.F.PredAccepts}
	}
	return map[string]interface{}{
		"filter": map[string]interface{}{"ExposeHeaders": c.F.Expose, "AllowedHeaders": c.F.AllowedHeaders, "AllowedDomains": c.F.Domains,
			"AllowedDomainFunc": pred, "AllowedMethods": c.F.Methods, "MaxAge": c.F.MaxAge, "CookiesAllowed": c.F.Cookies},
		"table": tbl, "history_on_one_filter_value": reqs}
}
