// Package cors is the correspondence stream of C08 and C09: a generated route table, a
// CrossOriginResourceSharing filter value, and a HISTORY of requests sent through that one filter
// value — on a real container and on a twin container that is identical except for the filter.
package cors

import (
	"sort"
	"strings"

	"verifharness/internal/routing"
	"verifharness/internal/sx"
)

// Filter is the configuration of restful.CrossOriginResourceSharing.
type Filter struct {
	Expose         []string
	AllowedHeaders []string
	Domains        []string
	HasPred        bool     // AllowedDomainFunc != nil
	PredAccepts    []string // the predicate: "the argument is one of these strings" (exact)
	Methods        []string
	MaxAge         int
	Cookies        bool
}

// Req is one request of a history. Header fields are lists of header LINES (nil = header absent);
// the filter reads them with Header.Get, i.e. sees the first line only.
type Req struct {
	R      routing.Req
	Origin []string
	ACRM   []string
	ACRH   []string
	Retry  bool // the filter in front of the CORS filter calls ProcessFilter twice for this request (a retrying filter); never set for a preflight; the model does not need to know: both containers get the same request
	Serve  bool // through Container.ServeHTTP (the ServeMux may answer without reaching the filter chain) instead of Container.Dispatch
}

func first(vs []string) string {
	if len(vs) == 0 {
		return ""
	}
	return vs[0]
}

// Case is one line of the protocol.
type Case struct {
	Table routing.Config
	F     Filter
	Reqs  []Req
}

// Hdr is one response header line (canonical name, value).
type Hdr struct{ Name, Value string }

// Obs is what was observed for one request: real container vs. twin.
type Obs struct {
	Reached      bool  // the filter chain ran (the logger BEFORE the CORS filter logged)
	Extra        []Hdr // header lines on the real response and not on the twin's (multiset difference), sorted
	Missing      int   // header lines of the twin's response the real one lacks
	Status       int
	TwinStatus   int
	BodySame     bool
	LogSame      bool
	Later        bool // something behind the CORS filter ran
	Panic        string
	Log, TwinLog []string
}

func sortHdrs(hs []Hdr) {
	sort.Slice(hs, func(i, j int) bool {
		if hs[i].Name != hs[j].Name {
			return hs[i].Name < hs[j].Name
		}
		return hs[i].Value < hs[j].Value
	})
}

func (f Filter) Sx() *sx.Node {
	pred := sx.K("pred", sx.A("none"))
	if f.HasPred {
		pred = sx.K("pred", sx.A("some"))
		for _, a := range f.PredAccepts {
			pred.List = append(pred.List, sx.H(a))
		}
	}
	return sx.K("filter", sx.Hs("expose", f.Expose), sx.Hs("aheaders", f.AllowedHeaders), sx.Hs("domains", f.Domains), pred,
		sx.Hs("methods", f.Methods), sx.N(f.MaxAge), sx.B(f.Cookies))
}

func (o Obs) Sx() *sx.Node {
	ex := sx.K("extra")
	for _, h := range o.Extra {
		ex.List = append(ex.List, sx.K("h", sx.H(h.Name), sx.H(h.Value)))
	}
	return sx.K("obs", sx.B(o.Reached), ex, sx.N(o.Missing), sx.N(o.Status), sx.N(o.TwinStatus), sx.B(o.BodySame), sx.B(o.LogSame), sx.B(o.Later))
}

// ReqSx is the request as the filter reads it (first header lines).
func (r Req) ReqSx(o Obs) *sx.Node {
	return sx.K("rq", sx.H(r.R.Method), sx.H(r.R.Path), sx.H(first(r.Origin)), sx.H(first(r.ACRM)), sx.H(first(r.ACRH)), o.Sx())
}

// Line is the protocol line of the case with its observations.
func (c *Case) Line(id int, obs []Obs) string {
	rs := sx.K("reqs")
	for i, r := range c.Reqs {
		rs.List = append(rs.List, r.ReqSx(obs[i]))
	}
	return sx.K("cors", sx.N(id), c.F.Sx(), c.Table.Sx(), rs).String()
}

// Human renders the case readably for replay files.
func (c *Case) Human(obs []Obs) map[string]interface{} {
	tbl := routing.Human(&c.Table, routing.Req{})
	delete(tbl, "request")
	reqs := []interface{}{}
	for i, r := range c.Reqs {
		m := map[string]interface{}{"method": r.R.Method, "path": r.R.Path, "Origin": r.Origin,
			"Access-Control-Request-Method": r.ACRM, "Access-Control-Request-Headers": r.ACRH,
			"content_type": r.R.CT, "accept": r.R.Accept, "via": map[bool]string{true: "ServeHTTP", false: "Dispatch"}[r.Serve], "upstream_filter_calls_ProcessFilter_twice": r.Retry}
		if i < len(obs) {
			ex := []string{}
			for _, h := range obs[i].Extra {
				ex = append(ex, h.Name+": "+h.Value)
			}
			m["observed"] = map[string]interface{}{"headers_not_on_twin": ex, "twin_headers_missing": obs[i].Missing, "status": obs[i].Status,
				"twin_status": obs[i].TwinStatus, "body_same": obs[i].BodySame, "log": strings.Join(obs[i].Log, " "), "twin_log": strings.Join(obs[i].TwinLog, " "),
				"panic": obs[i].Panic}
		}
		reqs = append(reqs, m)
	}
	var pred interface{} = nil
	if c.F.HasPred {
		pred = map[string]interface{}{"accepts_exactly": c.F.PredAccepts}
	}
	return map[string]interface{}{
		"filter": map[string]interface{}{"ExposeHeaders": c.F.Expose, "AllowedHeaders": c.F.AllowedHeaders, "AllowedDomains": c.F.Domains,
			"AllowedDomainFunc": pred, "AllowedMethods": c.F.Methods, "MaxAge": c.F.MaxAge, "CookiesAllowed": c.F.Cookies},
		"table": tbl, "history_on_one_filter_value": reqs}
}
