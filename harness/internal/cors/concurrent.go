package cors

import (
	"context"
	"fmt"
	"net/http"
	"net/http/httptest"
	"sort"
	"strings"
	"sync"
	"time"

	restful "github.com/emicklei/go-restful/v3"

	"verifharness/internal/report"
	"verifharness/internal/rng"
	"verifharness/internal/routing"
)

// corsOf builds the library's filter value for a configuration.
func corsOf(f Filter, c *restful.Container) restful.CrossOriginResourceSharing {
	cc := restful.CrossOriginResourceSharing{ExposeHeaders: f.Expose, AllowedHeaders: f.AllowedHeaders, AllowedDomains: f.Domains,
		AllowedMethods: f.Methods, MaxAge: f.MaxAge, CookiesAllowed: f.Cookies, Container: c}
	if f.HasPred {
		acc := map[string]bool{}
		for _, a := range f.PredAccepts {
			acc[a] = true
		}
		cc.AllowedDomainFunc = func(origin string) bool { return acc[origin] }
	}
	return cc
}

type meet struct {
	mu      sync.Mutex
	n, want int
	ch      chan struct{}
}

func (m *meet) wait() {
	m.mu.Lock()
	m.n++
	if m.n == m.want {
		close(m.ch)
	}
	m.mu.Unlock()
	select {
	case <-m.ch:
	case <-time.After(200 * time.Millisecond): // safety net only
	}
}

type meetKey struct{}

// CheckConcurrent (C08/C09 "granted only to allowed origins" while other requests are being served):
// WebServices carry CORS filters of their own with DIFFERENT configurations (the generated one on the
// even services, a copy that allows one fixed origin only on the odd ones) behind three container
// filters; batches of requests to different services are held together inside the last container
// filter — each has built its filter chain, none has walked on — and released. Every response must
// carry exactly the headers it carries when the request is served alone.
func CheckConcurrent(run *report.Run, propID string, nCases int) error {
	base := rng.New(run.Seed*7919 + 41)
	bad := 0
	for ci, done := 0, 0; done < nCases && ci < 50*nCases+100; ci++ {
		c := GenCase(base.Fork(uint64(ci)))
		if len(c.Table.Services) < 2 {
			continue
		}
		strict := c.F
		strict.Domains, strict.HasPred = []string{"https://only.example"}, false
		cont := restful.NewContainer()
		if c.Table.Router == "jsr" {
			cont.Router(restful.RouterJSR311{})
		}
		pass := func(req *restful.Request, resp *restful.Response, chain *restful.FilterChain) {
			chain.ProcessFilter(req, resp)
		}
		cont.Filter(pass) // appended one by one: three filters leave the slice with spare capacity
		cont.Filter(pass)
		cont.Filter(func(req *restful.Request, resp *restful.Response, chain *restful.FilterChain) {
			if m, ok := req.Request.Context().Value(meetKey{}).(*meet); ok {
				m.wait()
			}
			chain.ProcessFilter(req, resp)
		})
		built := true
		func() {
			defer func() {
				if recover() != nil {
					built = false
				}
			}()
			for i, s := range c.Table.Services {
				ws := new(restful.WebService)
				ws.Path(s.Root)
				f := c.F
				if i%2 == 1 {
					f = strict
				}
				cc := corsOf(f, cont) // a variable: the method value works for a value and for a pointer receiver alike
				ws.Filter(cc.Filter)
				for _, r := range s.Routes {
					b := routing.RouteBuilder(ws, s, r)
					b.To(func(req *restful.Request, resp *restful.Response) { resp.WriteHeader(200) })
					ws.Route(b)
				}
				cont.Add(ws)
			}
		}()
		if !built {
			continue
		}
		done++
		serve := func(r Req, m *meet) string {
			hr := HTTPRequest(r)
			if m != nil {
				hr = hr.WithContext(contextWith(hr, m))
			}
			rec := httptest.NewRecorder()
			func() {
				defer func() { recover() }()
				cont.Dispatch(rec, hr)
			}()
			return canonHeaders(rec.Code, rec.Result().Header)
		}
		// requests without an Origin say nothing here: give them one the generated filter is likely to allow
		for i := range c.Reqs {
			if len(c.Reqs[i].Origin) == 0 {
				switch {
				case len(c.F.Domains) > 0:
					c.Reqs[i].Origin = []string{c.F.Domains[i%len(c.F.Domains)]}
				case c.F.HasPred && len(c.F.PredAccepts) > 0:
					c.Reqs[i].Origin = []string{c.F.PredAccepts[0]}
				default:
					c.Reqs[i].Origin = []string{"https://app.example"}
				}
			}
		}
		alone := make([]string, len(c.Reqs))
		for i, r := range c.Reqs {
			alone[i] = serve(r, nil)
		}
		for round := 0; round < 8; round++ {
			m := &meet{want: len(c.Reqs), ch: make(chan struct{})}
			got := make([]string, len(c.Reqs))
			var wg sync.WaitGroup
			for i := range c.Reqs {
				wg.Add(1)
				go func(i int) {
					defer wg.Done()
					got[i] = serve(c.Reqs[i], m)
				}(i)
			}
			wg.Wait()
			for i := range c.Reqs {
				run.Evaluations++
				run.TracesValidated++
				run.Count("cors:concurrent-replays")
				if strings.Contains(alone[i], "Access-Control") {
					run.Distinct["cors-conc|"+c.F.Sx().String()+"|"+c.Reqs[i].ReqSx(Obs{}).String()] = true
				}
				if got[i] != alone[i] && bad < 3 {
					bad++
					run.AddViolation(report.Violation{Kind: "counterexample",
						What:  propID + ": a response carries other CORS headers when the request is served together with requests to WebServices whose CORS filters are configured differently (all held inside the last container filter, then released)",
						Human: map[string]interface{}{"case": c.Human(nil), "request": i, "services_with_the_strict_filter(only https://only.example)": "odd positions"},
						Real:  got[i], Model: alone[i]})
				}
			}
		}
	}
	return nil
}

func canonHeaders(code int, h http.Header) string {
	var ls []string
	for k, vs := range h {
		if strings.HasPrefix(k, "Access-Control") || k == "Allow" {
			for _, v := range vs {
				ls = append(ls, k+": "+v)
			}
		}
	}
	sort.Strings(ls)
	return fmt.Sprintf("%d %s", code, strings.Join(ls, " | "))
}

func contextWith(hr *http.Request, m *meet) context.Context {
	return context.WithValue(hr.Context(), meetKey{}, m)
}
