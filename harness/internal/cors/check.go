package cors

import (
	"fmt"
	restful "github.com/emicklei/go-restful/v3"
	"io"
	stdlog "log"
	"strings"

	"verifharness/internal/drv"
	"verifharness/internal/report"
	"verifharness/internal/rng"
	"verifharness/internal/sx"
)

// header names (constants.go:21-28)
const (
	hAO = "Access-Control-Allow-Origin"
	hAC = "Access-Control-Allow-Credentials"
	hAM = "Access-Control-Allow-Methods"
	hAH = "Access-Control-Allow-Headers"
)

// Ans is the driver's answer for one request.
type Ans struct {
	NoTable bool
	Added   []Hdr // sorted
	PassOn  bool
	Tag     string
	C08     bool
	C09     bool
	Allowed bool
	NRoots  int
}

// Eval is an executed case: observations and the driver's answers.
type Eval struct {
	C    *Case
	Obs  []Obs
	Ans  []Ans
	Line string
	Pair *Pair
}

func parseAnswer(a string, n int) ([]Ans, error) {
	node, err := sx.Parse(a)
	if err != nil {
		return nil, fmt.Errorf("driver answer %q: %v", a, err)
	}
	if node.Head() != "out" {
		return nil, fmt.Errorf("driver rejected the case: %s", a)
	}
	var out []Ans
	for _, r := range node.List {
		if r.Head() != "r" {
			continue
		}
		var an Ans
		args := r.Args()
		if len(args) > 0 && !args[0].IsL && args[0].Atom == "notable" {
			an.NoTable = true
		} else if len(args) >= 2 {
			for _, h := range args[0].Args() {
				an.Added = append(an.Added, Hdr{h.Args()[0].Str(), h.Args()[1].Str()})
			}
			sortHdrs(an.Added)
			an.PassOn = args[1].Atom == "1"
		}
		get := func(k string) string {
			if x := r.Find(k); x != nil && len(x.Args()) > 0 {
				return x.Args()[0].Atom
			}
			return ""
		}
		an.Tag, an.C08, an.C09, an.Allowed = get("tag"), get("c08") == "1", get("c09") == "1", get("allowed") == "1"
		an.NRoots = r.Find("nroots").Args()[0].Int()
		out = append(out, an)
	}
	if len(out) != n {
		return nil, fmt.Errorf("driver answered %d requests for %d: %s", len(out), n, a)
	}
	return out, nil
}

// asciiLower is the driver's instance of `lower` (Str.toLowerAscii).
func asciiLower(s string) string {
	b := []byte(s)
	for i, c := range b {
		if 'A' <= c && c <= 'Z' {
			b[i] = c + 32
		}
	}
	return string(b)
}

// LowerIsASCII asserts, for every string of the case the filter lower-cases, that Go's
// strings.ToLower is ASCII lower-casing on it (the hypothesis under which the driver's `lower` is Go's).
func (c *Case) LowerIsASCII() error {
	chk := func(s string) error {
		if strings.ToLower(s) != asciiLower(s) {
			return fmt.Errorf("strings.ToLower(%q) is not ASCII lower-casing", s)
		}
		return nil
	}
	var all []string
	all = append(all, c.F.Domains...)
	all = append(all, c.F.AllowedHeaders...)
	for _, r := range c.Reqs {
		all = append(all, first(r.Origin))
		for _, e := range strings.Split(first(r.ACRH), ",") {
			all = append(all, strings.Trim(e, " "))
		}
	}
	for _, s := range all {
		if err := chk(s); err != nil {
			return err
		}
	}
	return nil
}

// One executes a case on the real code and on the driver.
func One(c *Case) (*Eval, error) {
	obs, pair, err := Execute(c)
	if err != nil {
		return nil, err
	}
	e := &Eval{C: c, Obs: obs, Pair: pair, Line: c.Line(0, obs)}
	ans, err := drv.Run([]string{e.Line})
	if err != nil {
		return nil, err
	}
	if e.Ans, err = parseAnswer(ans[0], len(c.Reqs)); err != nil {
		return nil, err
	}
	return e, nil
}

func hdrs(hs []Hdr) string {
	var sb strings.Builder
	for _, h := range hs {
		fmt.Fprintf(&sb, "[%s: %s]", h.Name, h.Value)
	}
	return sb.String()
}

func only(hs []Hdr, names ...string) []Hdr {
	var out []Hdr
	for _, h := range hs {
		for _, n := range names {
			if h.Name == n {
				out = append(out, h)
			}
		}
	}
	return out
}

// Prop says how a property reads the shared stream.
type Prop struct {
	ID string
	// Spec is the verdict of the Lean predicate on the real observation of request i.
	Spec func(a Ans) bool
	// Agree: implementation and model agree on the projection the property constrains.
	Agree func(o Obs, a Ans) bool
	// Real / Model render the two sides for reports.
	Real  func(o Obs) string
	Model func(a Ans) string
}

func sameAsTwin(o Obs) bool {
	return len(o.Extra) == 0 && o.Missing == 0 && o.Status == o.TwinStatus && o.BodySame && o.LogSame
}

// C08: for an origin that is not allowed — no grant and transparency; for an allowed origin — the
// origin echo and the credentials of whatever was granted (WHETHER an allowed origin's preflight is
// granted is C09's projection, not C08's).
var C08 = Prop{ID: "C08",
	Spec: func(a Ans) bool { return a.C08 },
	Agree: func(o Obs, a Ans) bool {
		if !a.Allowed {
			return (len(o.Extra) > 0) == (len(a.Added) > 0) && sameAsTwin(o) == (len(a.Added) == 0 && a.PassOn)
		}
		if len(o.Extra) == 0 || len(a.Added) == 0 {
			return true
		}
		return hdrs(only(o.Extra, hAO, hAC)) == hdrs(only(a.Added, hAO, hAC))
	},
	Real: func(o Obs) string {
		return fmt.Sprintf("grant=%v origin=%s credentials=%s transparent=%v", len(o.Extra) > 0, hdrs(only(o.Extra, hAO)), hdrs(only(o.Extra, hAC)), sameAsTwin(o))
	},
	Model: func(a Ans) string {
		return fmt.Sprintf("grant=%v origin=%s credentials=%s transparent=%v", len(a.Added) > 0, hdrs(only(a.Added, hAO)), hdrs(only(a.Added, hAC)),
			len(a.Added) == 0 && a.PassOn)
	}}

func c09Real(o Obs) string {
	rest := true
	if o.Later {
		rest = o.Missing == 0 && o.Status == o.TwinStatus && o.BodySame && o.LogSame
	}
	return fmt.Sprintf("passOn=%v added=%s restAsTwin=%v", o.Later, hdrs(o.Extra), rest)
}

func c09Model(a Ans) string {
	return fmt.Sprintf("passOn=%v added=%s restAsTwin=true", a.PassOn, hdrs(a.Added))
}

// C09: for an allowed origin — passed on or not, every added header (preflight grants /
// actual-request headers), the rest as on the twin; with the whole history on one filter value this
// is also the history independence.  (Requests from origins that are not allowed are C08's.)
var C09 = Prop{ID: "C09",
	Spec:  func(a Ans) bool { return a.C09 },
	Agree: func(o Obs, a Ans) bool { return !a.Allowed || c09Real(o) == c09Model(a) },
	Real:  c09Real, Model: c09Model}

// failure classifies request i of an evaluated case for a property: "" | "spec" | "diff".
func (p Prop) failure(e *Eval, i int) string {
	if !p.Spec(e.Ans[i]) {
		return "spec"
	}
	if !e.Obs[i].Reached {
		// the ServeMux (or a recovered router panic) answered before the filter chain: the model of the
		// filter does not apply; the predicate (which then demands equality with the twin) was checked
		return ""
	}
	if e.Ans[i].NoTable || !p.Agree(e.Obs[i], e.Ans[i]) {
		return "diff"
	}
	return ""
}

func (p Prop) firstFailure(e *Eval, kind string) int {
	for i := range e.C.Reqs {
		if k := p.failure(e, i); k != "" && (kind == "" || k == kind) {
			return i
		}
	}
	return -1
}

// Stats of one stream run.
type Stats struct {
	Cases, Requests, SkippedTables int
}

// Check runs the main (ASCII) stream for a property.
func Check(run *report.Run, p Prop, nCases int) error {
	base := rng.New(run.Seed*7919 + 17)
	var evals []*Eval
	var lines []string
	skipped := 0
	corpus := Corpus()
	for ci := 0; len(evals) < nCases+len(corpus); ci++ {
		var c Case
		if ci < len(corpus) {
			c = corpus[ci].C // the fixed corpus runs first, through the same machinery
			run.Count("corpus-cases")
		} else {
			c = GenCase(base.Fork(uint64(ci)))
		}
		if err := c.LowerIsASCII(); err != nil {
			return fmt.Errorf("generator left the ASCII fragment: %v", err)
		}
		obs, pair, err := Execute(&c)
		if err != nil {
			if strings.Contains(err.Error(), "multiple registrations") {
				skipped++ // Container.Add refuses some tables (C11's subject)
				if skipped > 50*nCases {
					return fmt.Errorf("too many unbuildable tables")
				}
				continue
			}
			return fmt.Errorf("case %d does not build: %v", ci, err)
		}
		e := &Eval{C: &c, Obs: obs, Pair: pair}
		e.Line = c.Line(len(evals), obs)
		evals = append(evals, e)
		lines = append(lines, e.Line)
	}
	answers, err := drv.Run(lines)
	if err != nil {
		return err
	}
	run.Extra["skipped_tables_add_refused"] = skipped
	run.Extra["cases"] = len(evals)
	reported := map[string]int{}
	for k, e := range evals {
		if e.Ans, err = parseAnswer(answers[k], len(e.C.Reqs)); err != nil {
			return err
		}
		run.Count(fmt.Sprintf("history-length:%d", len(e.C.Reqs)))
		pre := 0
		for i, rq := range e.C.Reqs {
			a, o := e.Ans[i], e.Obs[i]
			run.Evaluations++
			run.TracesValidated++
			run.Count("tag:" + a.Tag)
			if !o.Reached {
				run.Count("chain-not-reached")
			}
			if rq.Serve {
				run.Count("via:ServeHTTP")
			}
			if o.Panic != "" {
				run.Count("panic-escaped")
			}
			if a.Tag != "no-origin" {
				run.Distinct[e.C.F.Sx().String()+"|"+e.C.Table.Sx().String()+"|"+rq.ReqSx(Obs{}).String()] = true
			}
			if strings.HasPrefix(a.Tag, "preflight-computed") {
				pre++
			}
			if rq.Change != nil {
				run.Count("route-table-changed-before-request:" + rq.Change.Kind)
				if rq.Serve == false && strings.HasPrefix(a.Tag, "preflight-computed") {
					run.Count("route-table-changed-before-a-computed-preflight")
					for j := 0; j < i; j++ {
						if e.C.Reqs[j].R.Path == rq.R.Path && strings.HasPrefix(e.Ans[j].Tag, "preflight-computed") {
							run.Count("route-table-changed-between-two-computed-preflights-to-one-URL")
							if strings.Contains(e.Ans[j].Tag, "granted") != strings.Contains(a.Tag, "granted") {
								run.Count("route-table-changed-between-two-computed-preflights-to-one-URL:verdict-changes")
							}
							break
						}
					}
				}
			}
			if len(run.Samples) < 5 && strings.HasPrefix(a.Tag, "preflight") && strings.Contains(a.Tag, "granted") && run.Evaluations%5 == 0 {
				one := e.C.Single(i)
				run.Sample(map[string]interface{}{"input": one.Human([]Obs{o}), "real": p.Real(o), "model": p.Model(a)})
			}
			// F14 seen from C09: a preflight granted on COMPUTED methods for a method the router refuses at that URL
			if p.ID == "C09" && len(e.C.F.Methods) == 0 && len(only(o.Extra, hAM)) > 0 && o.Reached {
				if st := e.Pair.probeFresh(e.C, i, first(rq.ACRM)); st == 404 || st == 405 {
					if a.NRoots >= 2 {
						run.Count("granted-method-not-routed:several-roots-match(F14)")
						run.KnownHits["F14"]++
					} else {
						// RouterJSR311 with every If-condition true is excluded by C09_routable_partial
						// "every If-condition true": every condition a route of the table in force names holds for
						// THIS request (a route names its conditions by index into the request's list; an index the
						// request does not have reads as false, in the harness closures and in the model alike)
						condsTrue := true
						for _, s := range e.C.TableAt(i).Services {
							for _, rt := range s.Routes {
								for _, ci := range rt.Conds {
									if ci < 0 || ci >= len(rq.R.Conds) || !rq.R.Conds[ci] {
										condsTrue = false
									}
								}
							}
						}
						switch {
						case e.C.Table.Router == "jsr" && condsTrue:
							run.Count("granted-method-not-routed:one-root:jsr:UNEXPECTED(C09_routable_partial)")
							one := e.C.Single(i)
							run.AddViolation(report.Violation{Kind: "correspondence", NoInput: true,
								What:    fmt.Sprintf("RouterJSR311, one matching root, If-conditions true: the preflight was granted for %s but the router answers %d for it — outside what C09_routable_partial (over the routing model) allows", first(rq.ACRM), st),
								Theorem: "C09_routable_partial (routing model vs. implementation)", Case: []string{one.Line(0, []Obs{o})}, Human: one.Human([]Obs{o})})
						case e.C.Table.Router == "jsr":
							run.Count("granted-method-not-routed:one-root:jsr:if-condition-false")
						default:
							run.Count("granted-method-not-routed:one-root:curly")
						}
						if ex, _ := run.Extra["granted_method_not_routed_one_root_examples"].([]interface{}); len(ex) < 3 {
							one := e.C.Single(i)
							run.Extra["granted_method_not_routed_one_root_examples"] = append(ex, map[string]interface{}{"input": one.Human([]Obs{o}), "probe_status": st})
						}
					}
				}
			}
		}
		if pre >= 2 {
			run.Count("history-with-2+-computed-preflights")
		}
		if i := p.firstFailure(e, ""); i >= 0 {
			kind := p.failure(e, i)
			if reported[kind] < 2 {
				reported[kind]++
				reportFailure(run, p, e, kind)
			}
		}
	}
	return nil
}

// CheckPurity (C19): every request of a history through one filter value is also sent alone to a
// fresh container with a fresh filter value of the same configuration; the two observations (status,
// every header the filter added, what ran behind it) must be the same — the filter remembers nothing.
func CheckPurity(run *report.Run, nCases int) error {
	base := rng.New(run.Seed*7919 + 23)
	bad, skipped := 0, 0
	for ci, done := 0, 0; done < nCases; ci++ {
		c := GenCase(base.Fork(uint64(ci)))
		obs, _, err := Execute(&c)
		if err != nil {
			if skipped++; skipped > 50*nCases+100 {
				return fmt.Errorf("too many unbuildable tables")
			}
			continue
		}
		done++
		for i := 1; i < len(c.Reqs); i++ {
			one := c.Single(i)
			o1, _, err := Execute(&one)
			if err != nil {
				return err
			}
			run.Evaluations++
			run.TracesValidated++
			run.Count("cors-filter:fresh-replays")
			if len(obs[i].Extra) > 0 {
				run.Distinct["cors|"+c.F.Sx().String()+"|"+c.Table.Sx().String()+"|"+c.Reqs[i].ReqSx(Obs{}).String()] = true
			}
			// … and with trace logging enabled
			restful.TraceLogger(stdlog.New(io.Discard, "", 0))
			ot, _, err := Execute(&one)
			restful.EnableTracing(false)
			if err != nil {
				return err
			}
			if x, y := fmt.Sprintf("%+v", o1[0]), fmt.Sprintf("%+v", ot[0]); x != y && bad < 3 {
				bad++
				run.AddViolation(report.Violation{Kind: "counterexample",
					What:  "C19: a request through the CORS filter is answered differently when trace logging is enabled",
					Case:  []string{one.Line(0, o1)},
					Human: map[string]interface{}{"case": one.Human(o1)}, Real: "trace off: " + x, Model: "trace on:  " + y})
			}
			run.Count("cors-filter:traced-replays")
			a, b := fmt.Sprintf("%+v", obs[i]), fmt.Sprintf("%+v", o1[0])
			if a != b && bad < 3 {
				bad++
				run.AddViolation(report.Violation{Kind: "counterexample",
					What:  fmt.Sprintf("C19: request %d of a history through one CORS filter value is answered differently from the same request sent first to a fresh container and filter", i),
					Case:  []string{c.Line(0, obs)},
					Human: map[string]interface{}{"history": c.Human(obs), "request": i}, Real: a, Model: b})
			}
		}
	}
	return nil
}

// probeFresh asks a twin whether (method, URL of request i) is routed on the table in force when
// request i was sent: 404/405 = not. (The pair's own twin holds the FINAL table of the history.)
func (p *Pair) probeFresh(c *Case, i int, method string) int {
	if !c.HasChanges() {
		return p.Probe(c.Reqs[i], method)
	}
	tc, tw, _, err := buildOne(c.TableAt(i), nil, false)
	if err != nil {
		return 0
	}
	return (&Pair{Twin: tc, twinW: tw}).Probe(c.Reqs[i], method)
}

// still reports whether the (possibly shrunk) case still fails the property in the given way.
func (p Prop) still(c *Case, kind string) (*Eval, bool) {
	if len(c.Reqs) == 0 {
		return nil, false
	}
	e, err := One(c)
	if err != nil {
		return nil, false
	}
	return e, p.firstFailure(e, kind) >= 0
}

func reportFailure(run *report.Run, p Prop, e *Eval, kind string) {
	run.DisagreementsChecked++
	c := Shrink(*e.C, func(c *Case) bool { _, bad := p.still(c, kind); return bad })
	se, bad := p.still(&c, kind)
	if !bad {
		c, se = *e.C, e
	}
	if kind == "spec" {
		i := p.firstFailure(se, "spec")
		run.AddViolation(report.Violation{Kind: "counterexample",
			What: fmt.Sprintf("the real outcome of request %d of the history falsifies Spec.%sHolds", i, strings.ToLower(p.ID)),
			Case: []string{se.Line}, Human: c.Human(se.Obs), Model: p.Model(se.Ans[i]), Real: p.Real(se.Obs[i])})
		return
	}
	// model ≠ implementation: look near the shrunk case for an input on which the PREDICATE fails
	r := rng.New(run.Seed ^ 0xc0125)
	for k := 0; k < 1500; k++ {
		v := Vary(r.Fork(uint64(k)), c)
		if v.LowerIsASCII() != nil {
			continue
		}
		if ve, bad := p.still(&v, "spec"); bad {
			reportFailure(run, p, ve, "spec")
			return
		}
	}
	i := p.firstFailure(se, "diff")
	run.AddViolation(report.Violation{Kind: "correspondence", NoInput: true,
		What:    fmt.Sprintf("model and implementation disagree on the %s projection of request %d of the history; no input falsifying the property was found near it", p.ID, i),
		Theorem: "correspondence stream cors (projection of " + p.ID + ")",
		Case:    []string{se.Line}, Human: c.Human(se.Obs), Model: p.Model(se.Ans[i]), Real: p.Real(se.Obs[i])})
}

// Vary keeps table and filter and redraws the history near the given one.
func Vary(r *rng.R, c Case) Case {
	v := Case{Table: c.Table, F: c.F}
	_, o := GenTable(rng.New(1))
	o.AllowRe, o.AllowWild, o.RootRe = true, true, true
	for _, rq := range c.Reqs {
		n := rq
		switch r.Intn(5) {
		case 0:
			n.Origin = GenOrigin(r, c.F)
		case 1:
			n.ACRH = GenACRH(r, c.F)
		case 2:
			g := GenReq(r, o, c.Table, c.F)
			n.ACRM, n.R.Method = g.ACRM, g.R.Method
		case 3:
			n = GenReq(r, o, c.Table, c.F)
			n.Change = rq.Change
		case 4:
			g := GenReq(r, o, c.Table, c.F)
			n.R.Path = g.R.Path
		}
		v.Reqs = append(v.Reqs, n)
	}
	if r.Chance(1, 3) {
		v.Reqs = append(v.Reqs, GenReq(r, o, c.Table, c.F))
	}
	return v
}

// CheckNonASCII runs the small non-ASCII stream: real vs. twin only, no model. It checks what can be
// said without knowing how Go lower-cases: echo verbatim and once, credentials only if configured,
// no name twice, and "no grant ⇒ either exactly the twin's response or a refused preflight".
func CheckNonASCII(run *report.Run, propID string, nCases int) error {
	base := rng.New(run.Seed*104729 + 5)
	bad := 0
	for ci := 0; ci < nCases; ci++ {
		c := GenNonASCII(base.Fork(uint64(ci)))
		obs, _, err := Execute(&c)
		if err != nil {
			continue
		}
		for i, rq := range c.Reqs {
			o := obs[i]
			run.Count("nonascii:requests")
			origin := first(rq.Origin)
			var why string
			preflight := rq.R.Method == "OPTIONS" && first(rq.ACRM) != ""
			same := o.Missing == 0 && o.Status == o.TwinStatus && o.BodySame && o.LogSame
			if len(o.Extra) > 0 {
				run.Count("nonascii:granted")
			}
			if propID == "C08" {
				seen := map[string]bool{}
				for _, h := range o.Extra {
					if seen[h.Name] {
						why = "header twice: " + h.Name
					}
					seen[h.Name] = true
				}
				switch {
				case len(o.Extra) > 0:
					ao := only(o.Extra, hAO)
					if len(ao) != 1 || ao[0].Value != origin {
						why = "Allow-Origin is not the request's Origin verbatim, once"
					}
					if len(only(o.Extra, hAC)) > 0 && !c.F.Cookies {
						why = "credentials granted without CookiesAllowed"
					}
				case o.Later && !same:
					why = "no grant, passed on, but the response differs from the twin's"
				}
			} else {
				echoed := len(only(o.Extra, hAO)) > 0 // the code took the origin for allowed
				switch {
				case echoed && o.Later && !same:
					why = "a request from an allowed origin was passed on but not processed as on the twin"
				case echoed && o.Later && preflight:
					why = "a preflight from an allowed origin was passed on"
				case !o.Later && o.Reached && !preflight:
					why = "a request that is not a preflight was not passed on"
				}
			}
			if why != "" && bad < 2 {
				bad++
				one := Case{Table: c.Table, F: c.F, Reqs: c.Reqs[: i+1 : i+1]}
				run.AddViolation(report.Violation{Kind: "counterexample", What: "non-ASCII stream (real vs. twin): " + why,
					Case: nil, Human: one.Human(obs[:i+1]), Real: C09.Real(o)})
			}
		}
	}
	return nil
}
