# sourced by every script: offline Go, paths
export GOFLAGS=-mod=mod GOPROXY=off GOSUMDB=off GOTOOLCHAIN=local CARGO_NET_OFFLINE=true PIP_NO_INDEX=1
export VERIF_ROOT="${VERIF_ROOT:-$(cd "$(dirname "${BASH_SOURCE[0]}")/.." && pwd)}"
# VERIF_REPO is honoured by the self-test only (bin/selftest); MANIFEST commands never set it.
export VERIF_REPO="${VERIF_REPO:-/repo}"
export VERIF_OUT="${VERIF_OUT:-$VERIF_ROOT/out}"
export VERIF_DRIVER="$VERIF_ROOT/lean/.lake/build/bin/driver"
mkdir -p "$VERIF_OUT/bin" "$VERIF_OUT/replays" "$VERIF_OUT/tmp" "$VERIF_ROOT/evidence"
export GOCACHE="${GOCACHE:-$VERIF_OUT/gocache}"
export TMPDIR="$VERIF_OUT/tmp"
