/-
C15 as a predicate on an observed history: what `StatusCode()`, `ContentLength()` and the returned
errors must be, given what the underlying writer received and answered.

The reference semantics of "the status the underlying writer received" is the one of `net/http` and
`httptest.ResponseRecorder`: the first `WriteHeader` counts, and the first `Write` call (even an
empty one) fixes 200 when no `WriteHeader` came before it.  The property only speaks about
histories in which the status is set at most once and before any body byte (`discipline`); on
those, "first" and "the one" coincide.
-/
import Restful.Model.Response
namespace Restful
namespace Spec
open Resp

/-- body bytes the underlying writer accepted -/
def acceptedBytes : List UEvent → Nat
  | [] => 0
  | .header _ :: es => acceptedBytes es
  | .write _ a _ :: es => a + acceptedBytes es

/-- the status a `net/http`-like writer sends: first `WriteHeader`, 200 once a `Write` came first
    or when nothing was ever set -/
def effectiveStatus : List UEvent → Nat
  | [] => 200
  | .header s :: _ => s
  | .write _ _ _ :: _ => 200

/-- what `net/http` accepts without panicking (`checkWriteHeaderCode`) -/
def validStatus (s : Nat) : Bool := decide (100 ≤ s) && decide (s ≤ 999)

def Prim.isWr : Prim → Bool
  | .wr _ => true
  | .hdr _ => false

/-- "the status is set at most once and before any body byte", on the sequence of
    `WriteHeader`/`Write` calls: a `WriteHeader` can only be the very first call, with a status
    `net/http` accepts.  (An empty `Write` counts as body: `net/http` and `ResponseRecorder` send the
    header at the first `Write` call, whatever its length.) -/
def primDiscipline : List Prim → Bool
  | [] => true
  | .hdr s :: rest => validStatus s && rest.all Prim.isWr
  | .wr _ :: rest => rest.all Prim.isWr

/-- the call an event answers -/
def shape : UEvent → Prim
  | .header s => .hdr s
  | .write n _ _ => .wr n

/-- the discipline on what the underlying writer received -/
def discipline (evs : List UEvent) : Bool := primDiscipline (evs.map shape)

/-- the discipline as a predicate on the call sequence (and the settings it starts from): the
    calls it makes when no write fails obey it.  It does not depend on the underlying writer: a
    failing `Write` only cuts later `Write`s of the same call. -/
def disciplinedCalls (s : Settings) (calls : List Call) : Bool := primDiscipline (plannedPrims s calls)

/-- "every entity marshals": no call of the sequence is handed a value on which the marshaller
    reports an error of its own — so that a failing `Write` is the only reason a call can fail.
    Like the discipline it is decidable on the call sequence and the initial settings and does not
    depend on the underlying writer. -/
def marshalClean : Settings → List Call → Bool
  | _, [] => true
  | s, c :: cs => !(c.plan s).ownErr && marshalClean (c.next s) cs

/-- number of `Write` calls among the events -/
def writeCount : List UEvent → Nat
  | [] => 0
  | .header _ :: es => writeCount es
  | .write _ _ _ :: es => writeCount es + 1

def failedWrite : UEvent → Bool
  | .write _ _ e => e != 0
  | .header _ => false

/-- the error (tag) of the first `Write` among the events that failed -/
def firstFailure : List UEvent → Option Nat
  | [] => none
  | .header _ :: es => firstFailure es
  | .write _ _ e :: es => if e != 0 then some e else firstFailure es

/-- one high-level call as observed: what it caused underneath, and the getters after it -/
structure ObsCall where
  events : List UEvent
  /-- `StatusCode()` after the call -/
  status : Nat
  /-- `ContentLength()` after the call -/
  length : Nat
  /-- the error the call returned: nil, the very value one of the underlying `Write`s returned
      (compared by identity, named by the tag of that event), or something else -/
  ret : Ret
  /-- a fact about the CALL, not about what happened: the value handed to it does not marshal (the
      marshaller reports an error of its own).  Such a call has two reasons to fail; the clause
      "returns THAT error" is about calls whose only failure is the writer's -/
  ownErr : Bool := false
  deriving DecidableEq, Repr

/-- the call returned a non-nil error -/
def ObsCall.retErr (c : ObsCall) : Bool := c.ret.isErr

structure History where
  /-- a content coding (CompressingResponseWriter) sits between the Response and the network;
      the events are then what the *compressor* was offered and accepted (before coding) -/
  coding : Bool
  calls : List ObsCall
  /-- `(StatusCode(), ContentLength())` read by a filter after the handler returned -/
  final : Option (Nat × Nat)
  deriving Repr

/-- the bookkeeping clause, for the events so far -/
def bookkeepingOK (evs : List UEvent) (status length : Nat) : Bool :=
  !discipline evs || (status == effectiveStatus evs && length == acceptedBytes evs)

/-- `before`: everything the underlying writer received in earlier calls -/
def callOK (coding : Bool) (before : List UEvent) (c : ObsCall) : Bool :=
  let evs := before ++ c.events
  bookkeepingOK evs c.status c.length &&
  -- no coding in between: the call in which an underlying Write failed returns an error — THE error
  -- that Write returned, when the value marshals (no error of the marshaller's own competes with
  -- it) — and the count includes only accepted bytes
  (coding || !c.events.any failedWrite ||
    (c.retErr && c.length == acceptedBytes evs &&
      (c.ownErr || (firstFailure c.events).map Ret.writer == some c.ret)))

def callsOK (coding : Bool) : List UEvent → List ObsCall → Bool
  | _, [] => true
  | before, c :: cs => callOK coding before c && callsOK coding (before ++ c.events) cs

def allEvents : List ObsCall → List UEvent
  | [] => []
  | c :: cs => c.events ++ allEvents cs

def finalOK (h : History) : Bool :=
  match h.final with
  | none => true
  | some (s, n) => bookkeepingOK (allEvents h.calls) s n

/-- C15 on an observed history -/
def c15Holds (h : History) : Bool := callsOK h.coding [] h.calls && finalOK h

/-- the history the model produces -/
def CallResult.obs (r : CallResult) : ObsCall := ⟨r.events, r.status, r.length, r.ret, r.ownErr⟩

def modelHistory (coding : Bool) (env : Env) (s : Settings) (calls : List Call) : History :=
  let fin := finalState env (State.init s) calls
  { coding := coding, calls := (run env (State.init s) calls).map CallResult.obs,
    final := some (fin.StatusCode, fin.ContentLength) }

end Spec
end Restful
