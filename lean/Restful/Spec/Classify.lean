/-
C02: the decision table of the property, as a function of table and request.

  best service → routes admitting the path whose conditions hold → 404 if none
  → same method → 405 + Allow (the methods of the path-matching routes, as a set) if none
  → consuming the Content-Type → 415 if none and a body is sent
  → able to satisfy Accept → 415 for a bodiless POST/PUT/PATCH, else 406, if none
  → otherwise one of the remaining routes runs, exactly once.
-/
import Restful.Spec.Admits
namespace Restful
open Str

namespace Spec
variable (E : ReEnv)

/-- a body is sent: `ContentLength` is positive or unknown (-1, chunked) -/
def hasBody (req : Req) : Bool := req.contentLength != 0

/-- the `Content-Length` header and the `ContentLength` field tell the same story, and the length is known -/
def bodyCoherent (req : Req) : Bool :=
  decide (req.contentLength ≥ 0) &&
    (decide (req.contentLength > 0) == !(req.clenHeader.isEmpty || req.clenHeader == ['0']))

/-- the template of the route admits the URL path -/
def pathAdmits (k : RouterKind) (r : Route) (path : Str) : Bool :=
  match templateOf k r with
  | some ts => (admittedSegments E k ts path).isSome
  | none => false

inductive Verdict where
  | runs (routes : List Nat)                       -- one of these route ids runs, once
  | status (code : Nat) (allow : Option (List Str)) -- nothing runs; `allow` (405 only) is a set
  deriving Repr, DecidableEq

/-- the decision table inside one service -/
def classifyIn (k : RouterKind) (routes : List Route) (req : Req) : Verdict :=
  let c0 := routes.filter (fun r => pathAdmits E k r req.path && passesConds r req)
  if c0.isEmpty then .status 404 none else
  let m := c0.filter (fun r => req.method == r.method)
  if m.isEmpty then .status 405 (some (c0.map (·.method))) else
  let ct := m.filter (fun r => consumesOK r req.contentType)
  if ct.isEmpty && hasBody req then .status 415 none else
  let a := ct.filter (fun r => acceptOK r.produces req.accept)
  if a.isEmpty then
    (if bodylessMethods.contains req.method && !hasBody req then .status 415 none else .status 406 none)
  else .runs (a.map (·.id))

/-- the regex variables of a root path are satisfied by the URL segments at their positions -/
def rootRegexOK : List TTok → List Str → Bool
  | [], _ => true
  | _ :: _, [] => false
  | t :: ts, q :: qs =>
    (match t.base with
     | .re _ e => E.search e q
     | _ => true) && rootRegexOK ts qs

/-- CurlyRouter: the score of a root that claims the URL (root tokens match the leading segments,
    variable segments non-empty, regex variables satisfied); `none` = does not claim it -/
def claimScore (svc : Service) (qs : List Str) : Option Nat :=
  match Curly.wsScore qs (tokenize svc.rootPath), readToks (tokenize svc.rootPath) with
  | some sc, some ts => if rootRegexOK E ts qs then some sc else none
  | some sc, none => some sc
  | none, _ => none

/-! ### RouterJSR311: which WebService "best matches" the URL

An independent statement of the choice `detectDispatcher` (jsr311.go:214) documents — no sorting,
no call into the router model beyond the regex layer (`Jsr.compile` = `newPathExpression`,
`Jsr.matchExpr` = `Matcher.FindStringSubmatch`).  `Jsr.detectDispatcher_eq_spec`
(Lemmas/JsrBest.lean) proves that the model's sort-and-take-first computes exactly this. -/

/-- the sort key of a root whose compiled expression matches the URL, most significant first
    (jsr311.go:307 `sortableDispatcherCandidates.Less`):
    `matchesCount`    = `len(matches)`: the capture groups of the root expression — one per variable,
                        plus the final group `(/.*)?` — plus the whole match,
    `literalCount`    = the literal characters of the root template,
    `nonDefaultCount` = what `detectDispatcher` puts there: `pathExpr.VarCount`, the number of variables -/
structure JsrKey where
  matchesCount : Nat
  literalCount : Nat
  nonDefaultCount : Nat
  deriving DecidableEq, Repr

/-- the lexicographic order on keys: `a` ranks strictly below `b` -/
def JsrKey.lt (a b : JsrKey) : Bool :=
  decide (a.matchesCount < b.matchesCount) ||
    (a.matchesCount == b.matchesCount &&
      (decide (a.literalCount < b.literalCount) ||
        (a.literalCount == b.literalCount && decide (a.nonDefaultCount < b.nonDefaultCount))))

/-- a WebService whose root expression matches the URL: the service, the final match (the text of
    the last group, which the route stage receives) and its key; `none` = the root does not
    compile or does not match -/
def jsrClaim (path : Str) (svc : Service) : Option (Service × Str × JsrKey) :=
  match Jsr.compile svc.rootPath with
  | none => none
  | some ex =>
    match Jsr.matchExpr E ex.toks path with
    | some (caps, final) => some (svc, final, ⟨caps.length + 2, ex.literalCount, ex.varCount⟩)
    | none => none

/-- **RouterJSR311's choice of the WebService**: among the services whose compiled root expression
    matches the path, the one whose key (`JsrKey`: matchesCount, then literalCount, then
    nonDefaultCount) is maximal — no other matching service has a strictly greater key — and,
    among services with EQUAL maximal keys, the one that was **registered FIRST**.

    (Why first: `sort.Sort(sort.Reverse(c))` on n ≤ 12 elements is insertion sort with
    `Less(i, j) = c.Less(j, i)`; an element walks left only past neighbours with a strictly smaller
    key, never past an equal one, so the sort is stable and the earliest registered of the maximal
    services ends up at index 0.  `JsrBestExample.tie_first` (Lemmas/JsrBest.lean) is the `decide`d
    two-service example in both registration orders, `Sort.head?_insertionSort` the general fact
    and `Jsr.detectDispatcher_eq_spec` the proof for all inputs.)

    Result: outer `none` = some root does not compile (`newPathExpression` failed), `some none` = no
    root matches ("not found", 404), `some (some (svc, final))` = the chosen service and the final
    match handed to `selectRoutes`. -/
def jsrBestService (svcs : List Service) (path : Str) : Option (Option (Service × Str)) :=
  if svcs.all (fun s => (Jsr.compile s.rootPath).isSome) then
    let claims := svcs.filterMap (jsrClaim E path)
    some ((claims.find? (fun c => claims.all (fun d => !JsrKey.lt c.2.2 d.2.2))).map
      (fun c => (c.1, c.2.1)))
  else none

/-- the services that best match the URL (CurlyRouter: all those with the maximal `claimScore`;
    RouterJSR311: the one `jsrBestService` names) -/
def bestServices (cfg : Config) (req : Req) : List Service :=
  match cfg.router with
  | .curly =>
    let qs := tokenize req.path
    let scored := cfg.services.filterMap (fun s => (claimScore E s qs).map (fun sc => (s, sc)))
    let best := scored.foldl (fun m p => max m p.2) 0
    (scored.filter (fun p => p.2 == best)).map (·.1)
  | .jsr =>
    match jsrBestService E cfg.services req.path with
    | some (some (svc, _)) => [svc]
    | _ => []

def verdictMatches (v : Verdict) (o : Outcome) (invocations : Nat) : Bool :=
  match v, o with
  | .runs ids, .selected _ r _ => ids.contains r && invocations == 1
  | .status 405 (some al), .error 405 (some al') => al.all (al'.contains ·) && al'.all (al.contains ·) && invocations == 0
  | .status c _, .error c' _ => c != 405 && c == c' && invocations == 0
  | _, _ => false

/-- C02 as a predicate on an observed outcome: no panic, and the outcome is what the decision table
    says for (one of) the best-matching service(s) -/
def c02Holds (cfg : Config) (req : Req) (o : Outcome) (invocations : Nat) : Bool :=
  match o with
  | .panic _ => false
  | _ =>
    match bestServices E cfg req with
    | [] => verdictMatches (.status 404 none) o invocations
    | svcs => svcs.any (fun svc =>
        (match o with
         | .selected s _ _ => svc.id == s
         | _ => true) && verdictMatches (classifyIn E cfg.router svc.built req) o invocations)

/-- no WebService root path contains a regex variable (the class outside which F03 cannot occur) -/
def noRootRegex (cfg : Config) : Bool :=
  cfg.services.all (fun s => match readToks (tokenize s.rootPath) with
    | some ts => ts.all (fun t => match t.base with | .re _ _ => false | _ => true)
    | none => false)

/-- media types in Consumes/Produces lists are not empty strings -/
def mediaHygiene (cfg : Config) : Bool :=
  cfg.services.all (fun s => s.built.all (fun r => r.consumes.all (!·.isEmpty) && r.produces.all (!·.isEmpty)))

end Spec
end Restful

namespace Restful
namespace Jsr

/-- RouterJSR311 compiles the root path of every service, also of one without routes (for which
    `Config.wfTemplates` says nothing): such a root must read as a template too -/
def rootsRead (cfg : Config) : Bool :=
  cfg.services.all (fun s => !s.routes.isEmpty || (Spec.readTemplateJ s.rootPath []).isSome)

end Jsr

namespace Curly

/-- CurlyRouter scores the root path of every service, also of one without routes (for which
    `Config.wfTemplates` says nothing), and since fix 19aa57d it evaluates the expression of a
    `{name:regex}` root token: the root of a route-less service must read as a template too, and
    none of its tokens may carry a custom verb (`computeWebserviceScore` does not strip `:verb`
    before it cuts the expression out of the token; for a service WITH routes `wfTemplates`
    already excludes a verb on a root token) -/
def rootsRead (cfg : Config) : Bool :=
  cfg.services.all (fun s => !s.routes.isEmpty ||
    (match readToks (tokenize s.rootPath) with
     | some ts => ts.all (fun t => t.verb.isNone)
     | none => false))

end Curly
end Restful
