/-
C04: what the path parameters of an admitted request must be, and the substitution that
rebuilds the request path from them.
-/
import Restful.Spec.Admits
namespace Restful
open Str

namespace Spec

/-- the segment without its custom verb -/
def unverb (t : TTok) (q : Str) : Str :=
  match t.verb with
  | none => q
  | some v => stripVerb v q

/-- every variable bound to exactly the URL text at its position; the tail wildcard to the
    remaining segments joined by `/` -/
def expectedParams : List TTok → List Str → Params
  | [], _ => []
  | _ :: _, [] => []
  | t :: ts, q :: qs =>
    match t.base with
    | .lit _ => expectedParams ts qs
    | .var n => (n, unverb t q) :: expectedParams ts qs
    | .re n _ => (n, unverb t q) :: expectedParams ts qs
    | .suf n suffix => (n, (unverb t q).take ((unverb t q).length - suffix.length)) :: expectedParams ts qs
    | .wild n => [(n, untokenize (q :: qs))]

def lookup (ps : Params) (k : Str) : Option Str :=
  match ps with
  | [] => none
  | (k', v) :: rest => if k' = k then some v else lookup rest k

/-- substitute bound values back into the template: the URL segments it stands for -/
def substitute (ps : Params) : List TTok → Option (List Str)
  | [] => some []
  | t :: ts =>
    let withVerb (s : Str) : Str := match t.verb with
      | none => s
      | some v => s ++ ':' :: v
    match t.base with
    | .lit s => (substitute ps ts).map (withVerb s :: ·)
    | .var n => match lookup ps n with
      | some v => (substitute ps ts).map (withVerb v :: ·)
      | none => none
    | .re n _ => match lookup ps n with
      | some v => (substitute ps ts).map (withVerb v :: ·)
      | none => none
    | .suf n suffix => match lookup ps n with
      | some v => (substitute ps ts).map (withVerb (v ++ suffix) :: ·)
      | none => none
    | .wild n => match lookup ps n with
      | some v => some (split '/' v)
      | none => none

/-- C04 as a predicate on an observed outcome -/
def c04Holds (E : ReEnv) (cfg : Config) (req : Req) (o : Outcome) : Bool :=
  match o with
  | .selected s r ps =>
    cfg.services.any (fun svc => svc.id == s && svc.built.any (fun rt => rt.id == r &&
      (match templateOf cfg.router rt with
       | some ts =>
         (match admittedSegments E cfg.router ts req.path with
          | some segs =>
            -- exactly the declared names, each bound to its text; substitution gives the segments back
            (ps.map (·.1)).Perm (varNames ts) && (expectedParams ts segs).all (fun kv => lookup ps kv.1 == some kv.2) &&
              substitute ps ts == some segs
          | none => false)
       | none => false)))
  | _ => true

end Spec
end Restful
