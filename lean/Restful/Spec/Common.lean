/-
C18 (and C17): the fragment both routers document, and normal request paths.
-/
import Restful.Spec.Order
namespace Restful
open Str
namespace Spec

/-- a literal or plain-variable segment without custom verb -/
def tokCommon (t : TTok) : Bool :=
  t.verb.isNone && (match t.base with
    | .lit _ => true
    | .var _ => true
    | _ => false)

def tokLiteral (t : TTok) : Bool :=
  t.verb.isNone && (match t.base with
    | .lit _ => true
    | _ => false)

/-- the table uses only what both routers document: literal root paths, route segments that are
    literals or plain variables; and the two routers' readings of every full template coincide -/
def wfCommon (cfg : Config) : Bool :=
  cfg.services.all (fun s =>
    (match readToks (nonEmptyToks s.rootPath) with
     | some ts => ts.all tokLiteral
     | none => false) &&
    s.built.all (fun r =>
      match readTemplate r.path, readTemplateJ r.root r.relPath with
      | some a, some b => a == b && a.all tokCommon
      | _, _ => false))

/-- one leading slash, no empty segment except for one trailing slash, no newline -/
def normalPath (p : Str) : Bool :=
  match p with
  | '/' :: r =>
    !List.contains r '\n' &&
      (let segs := split '/' r
       (if segs.getLast? == some [] then segs.dropLast else segs).all (fun s => !s.isEmpty))
  | _ => false

def withRouter (cfg : Config) (k : RouterKind) : Config := { cfg with router := k }

/-- root paths are pairwise different as token lists -/
def rootsDistinct (cfg : Config) : Bool :=
  pairwiseB (fun a b => nonEmptyToks a.rootPath != nonEmptyToks b.rootPath) cfg.services

/-- when both routers select a route, it is the same one (what the two different ranking keys leave open: F17) -/
def ranksAgree (E : ReEnv) (cfg : Config) (req : Req) : Bool :=
  match route E (withRouter cfg .curly) req, route E (withRouter cfg .jsr) req with
  | .selected s r _, .selected s' r' _ => s == s' && r == r'
  | _, _ => true

/-- no root path has an empty token (as in `//` or `/a//b`): CurlyRouter keeps such a token and
    never matches it on a normal path, RouterJSR311 drops it -/
def rootsClean (cfg : Config) : Bool :=
  cfg.services.all (fun s => (tokenize s.rootPath).all (fun t => !t.isEmpty))

/-- route ids are distinct within each WebService (so that "the same route id" means "the same route") -/
def routeIdsDistinct (cfg : Config) : Bool :=
  cfg.services.all (fun s => decide ((s.routes.map (·.id)).Nodup))

/-- WebService ids are pairwise distinct (so that "the same service id" means "the same WebService") -/
def serviceIdsDistinct (cfg : Config) : Bool := decide ((cfg.services.map (·.id)).Nodup)

/-- `routeIdsDistinct` alone is too weak to make the pair (service id, route id) identify a route:
    two WebServices may share an id.  `Spec.idsDistinct` (Spec/Admits.lean) is the conjunction. -/
theorem idsDistinct_eq (cfg : Config) :
    idsDistinct cfg = (serviceIdsDistinct cfg && routeIdsDistinct cfg) := rfl

end Spec
end Restful
