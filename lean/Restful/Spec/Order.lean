/-
C03: specificity of templates and permutations of a route table.
-/
import Restful.Spec.Admits
namespace Restful
namespace Spec

def TTok.isLit (t : TTok) : Bool := t.base.name?.isNone

/-- position-wise: `a` is a literal where `b` is a variable, or both are of the same kind
    (and both or neither carry a custom verb) -/
def tokAtLeast (a b : TTok) : Bool :=
  (a.verb.isSome == b.verb.isSome) && (TTok.isLit a || !TTok.isLit b) && (a.base.isWild == b.base.isWild)

def tokStrict (a b : TTok) : Bool := TTok.isLit a && !TTok.isLit b

/-- `a` has the same shape as `b` except that it has literals at some positions where `b` has variables -/
def atLeastAsSpecific : List TTok → List TTok → Bool
  | [], [] => true
  | a :: as, b :: bs => tokAtLeast a b && atLeastAsSpecific as bs
  | _, _ => false

def someStrict : List TTok → List TTok → Bool
  | a :: as, b :: bs => tokStrict a b || someStrict as bs
  | _, _ => false

/-- C03's "a literal segment where the other has a variable (same shape otherwise)" -/
def moreSpecific (a b : List TTok) : Bool := atLeastAsSpecific a b && someStrict a b

/-- root paths as CurlyRouter's `detectWebService` sees them: token strings; a token is a variable
    iff it starts with `{` -/
def rootTokIsVar (t : Str) : Bool := !t.isEmpty && Str.hasPrefix ['{'] t

/-- position-wise, root `a` has a literal wherever root `b` has one (same length) -/
def rootAtLeast : List Str → List Str → Bool
  | [], [] => true
  | a :: as, b :: bs => (!rootTokIsVar a || rootTokIsVar b) && rootAtLeast as bs
  | _, _ => false

def rootSomeStrict : List Str → List Str → Bool
  | a :: as, b :: bs => (!rootTokIsVar a && rootTokIsVar b) || rootSomeStrict as bs
  | _, _ => false

/-- root `a` is root `b` with one or more variables replaced by literals -/
def rootMoreSpecific (a b : List Str) : Bool := rootAtLeast a b && rootSomeStrict a b

/-- the method-eligibility stages of a request for one built route, as the model decides them -/
def eligible (r : Route) (req : Req) : Bool :=
  passesConds r req && decide (req.method = r.method) && matchesContentType r req.contentType &&
    matchesAccept r (if req.accept.isEmpty then starStar else req.accept)

/-- outcomes compared up to what a client can observe: the Allow header is a set -/
def sameOutcome (a b : Outcome) : Prop :=
  match a, b with
  | .selected s r ps, .selected s' r' ps' => s = s' ∧ r = r' ∧ ps = ps'
  | .error c (some al), .error c' (some al') => c = c' ∧ ∀ m, m ∈ al ↔ m ∈ al'
  | .error c none, .error c' none => c = c'
  | .panic _, .panic _ => True
  | _, _ => False

inductive Forall2 {α β : Type} (R : α → β → Prop) : List α → List β → Prop
  | nil : Forall2 R [] []
  | cons {a b as bs} : R a b → Forall2 R as bs → Forall2 R (a :: as) (b :: bs)

/-- `cfg'` holds the same services and routes as `cfg`, registered in another order -/
def CfgPerm (cfg cfg' : Config) : Prop :=
  cfg.router = cfg'.router ∧
  ∃ svcs : List Service, svcs.Perm cfg.services ∧ Forall2
    (fun s s' => s.id = s'.id ∧ s.root = s'.root ∧ s.consumes = s'.consumes ∧ s.produces = s'.produces ∧ s.routes.Perm s'.routes)
    svcs cfg'.services

/-- within a service, routes with the same method have different full paths -/
def distinctMethodPath (cfg : Config) : Prop :=
  ∀ svc ∈ cfg.services, svc.built.Pairwise (fun a b => a.method = b.method → a.path ≠ b.path)

/-- no two services whose roots both match the request score equally (CurlyRouter) -/
def scoresSeparate (cfg : Config) (req : Req) : Prop :=
  cfg.services.Pairwise (fun a b => ∀ sa sb,
    Curly.wsScore (tokenize req.path) (tokenize a.rootPath) = some sa →
    Curly.wsScore (tokenize req.path) (tokenize b.rootPath) = some sb → sa ≠ sb)

end Spec
end Restful

namespace Restful
namespace Spec

/-- `sameOutcome` as a Bool, for outcomes observed on the real code (parameters as a finite map,
    Allow as a set) -/
def sameOutcomeB (a b : Outcome) : Bool :=
  match a, b with
  | .selected s r ps, .selected s' r' ps' => s == s' && r == r' && decide (ps.Perm ps')
  | .error c (some al), .error c' (some al') => c == c' && al.all (al'.contains ·) && al'.all (al.contains ·)
  | .error c none, .error c' none => c == c'
  | _, _ => false

end Spec
end Restful

namespace Restful
namespace Spec

/-- decidable form of `distinctMethodPath` -/
def pairwiseB {α : Type} (r : α → α → Bool) : List α → Bool
  | [] => true
  | a :: as => as.all (r a) && pairwiseB r as

theorem pairwiseB_iff {α : Type} (r : α → α → Bool) (l : List α) :
    pairwiseB r l = true ↔ l.Pairwise (fun a b => r a b = true) := by
  induction l with
  | nil => simp [pairwiseB]
  | cons a as ih => simp [pairwiseB, ih, List.all_eq_true]

def distinctMethodPathB (cfg : Config) : Bool :=
  cfg.services.all (fun svc => pairwiseB (fun a b => !(a.method == b.method) || a.path != b.path) svc.built)

def scoresDiffer (qs : List Str) (a b : Service) : Bool :=
  match Curly.wsScore qs (tokenize a.rootPath), Curly.wsScore qs (tokenize b.rootPath) with
  | some sa, some sb => sa != sb
  | _, _ => true

def scoresSeparateB (cfg : Config) (req : Req) : Bool :=
  pairwiseB (scoresDiffer (tokenize req.path)) cfg.services

theorem distinctMethodPath_of_B {cfg : Config} (h : distinctMethodPathB cfg = true) : distinctMethodPath cfg := by
  unfold distinctMethodPathB at h
  simp only [List.all_eq_true] at h
  intro svc hsvc
  have := (pairwiseB_iff _ _).mp (h svc hsvc)
  refine this.imp ?_
  intro a b hab hm
  simp only [Bool.or_eq_true, Bool.not_eq_true', beq_eq_false_iff_ne, ne_eq, bne_iff_ne] at hab
  rcases hab with hab | hab
  · exact absurd hm hab
  · exact hab

theorem scoresSeparate_of_B {cfg : Config} {req : Req} (h : scoresSeparateB cfg req = true) : scoresSeparate cfg req := by
  unfold scoresSeparateB at h
  have := (pairwiseB_iff _ _).mp h
  refine this.imp ?_
  intro a b hab sa sb ha hb
  unfold scoresDiffer at hab
  simp only [ha, hb, bne_iff_ne, ne_eq] at hab
  exact hab

/-- the property's own exclusion at service level: two roots of the same literal/variable shape
    (same length, literals equal where both are literals, variables where both are variables) -/
def sameShapeRoots : List Str → List Str → Bool
  | [], [] => true
  | a :: as, b :: bs =>
    (if rootTokIsVar a then rootTokIsVar b else !rootTokIsVar b && a == b) && sameShapeRoots as bs
  | _, _ => false

/-- some two services have root paths of the same shape (C03 excludes such tables) -/
def hasSameShapeRoots (cfg : Config) : Bool :=
  !pairwiseB (fun a b => !sameShapeRoots (tokenize a.rootPath) (tokenize b.rootPath)) cfg.services

end Spec
end Restful
