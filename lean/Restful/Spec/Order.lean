/-
C03: specificity of templates and permutations of a route table.
-/
import Restful.Spec.Admits
namespace Restful
namespace Spec

def TTok.isLit (t : TTok) : Bool := t.base.name?.isNone

/-- position-wise: `a` is a literal where `b` is a variable, or both are of the same kind
    (and both or neither carry a custom verb) -/
def tokAtLeast (a b : TTok) : Bool :=
  (a.verb.isSome == b.verb.isSome) && (TTok.isLit a || !TTok.isLit b) && (a.base.isWild == b.base.isWild)

def tokStrict (a b : TTok) : Bool := TTok.isLit a && !TTok.isLit b

/-- `a` has the same shape as `b` except that it has literals at some positions where `b` has variables -/
def atLeastAsSpecific : List TTok → List TTok → Bool
  | [], [] => true
  | a :: as, b :: bs => tokAtLeast a b && atLeastAsSpecific as bs
  | _, _ => false

def someStrict : List TTok → List TTok → Bool
  | a :: as, b :: bs => tokStrict a b || someStrict as bs
  | _, _ => false

/-- C03's "a literal segment where the other has a variable (same shape otherwise)" -/
def moreSpecific (a b : List TTok) : Bool := atLeastAsSpecific a b && someStrict a b

/-- root paths as CurlyRouter's `detectWebService` sees them: token strings; a token is a variable
    iff it starts with `{` -/
def rootTokIsVar (t : Str) : Bool := !t.isEmpty && Str.hasPrefix ['{'] t

/-- position-wise, root `a` has a literal wherever root `b` has one (same length) -/
def rootAtLeast : List Str → List Str → Bool
  | [], [] => true
  | a :: as, b :: bs => (!rootTokIsVar a || rootTokIsVar b) && rootAtLeast as bs
  | _, _ => false

def rootSomeStrict : List Str → List Str → Bool
  | a :: as, b :: bs => (!rootTokIsVar a && rootTokIsVar b) || rootSomeStrict as bs
  | _, _ => false

/-- root `a` is root `b` with one or more variables replaced by literals -/
def rootMoreSpecific (a b : List Str) : Bool := rootAtLeast a b && rootSomeStrict a b

/-- the method-eligibility stages of a request for one built route, as the model decides them -/
def eligible (r : Route) (req : Req) : Bool :=
  passesConds r req && decide (req.method = r.method) && matchesContentType r req.contentType &&
    matchesAccept r (if req.accept.isEmpty then starStar else req.accept)

/-- outcomes compared up to what a client can observe: the Allow header is a set -/
def sameOutcome (a b : Outcome) : Prop :=
  match a, b with
  | .selected s r ps, .selected s' r' ps' => s = s' ∧ r = r' ∧ ps = ps'
  | .error c (some al), .error c' (some al') => c = c' ∧ ∀ m, m ∈ al ↔ m ∈ al'
  | .error c none, .error c' none => c = c'
  | .panic _, .panic _ => True
  | _, _ => False

inductive Forall2 {α β : Type} (R : α → β → Prop) : List α → List β → Prop
  | nil : Forall2 R [] []
  | cons {a b as bs} : R a b → Forall2 R as bs → Forall2 R (a :: as) (b :: bs)

/-- `cfg'` holds the same services and routes as `cfg`, registered in another order -/
def CfgPerm (cfg cfg' : Config) : Prop :=
  cfg.router = cfg'.router ∧
  ∃ svcs : List Service, svcs.Perm cfg.services ∧ Forall2
    (fun s s' => s.id = s'.id ∧ s.root = s'.root ∧ s.consumes = s'.consumes ∧ s.produces = s'.produces ∧ s.routes.Perm s'.routes)
    svcs cfg'.services

/-- within a service, routes with the same method have different full paths -/
def distinctMethodPath (cfg : Config) : Prop :=
  ∀ svc ∈ cfg.services, svc.built.Pairwise (fun a b => a.method = b.method → a.path ≠ b.path)

/-- no two services whose roots both match the request score equally (CurlyRouter) -/
def scoresSeparate (cfg : Config) (req : Req) : Prop :=
  cfg.services.Pairwise (fun a b => ∀ sa sb,
    Curly.wsScore (tokenize req.path) (tokenize a.rootPath) = some sa →
    Curly.wsScore (tokenize req.path) (tokenize b.rootPath) = some sb → sa ≠ sb)

end Spec
end Restful

namespace Restful
namespace Spec

/-- `sameOutcome` as a Bool, for outcomes observed on the real code (parameters as a finite map,
    Allow as a set) -/
def sameOutcomeB (a b : Outcome) : Bool :=
  match a, b with
  | .selected s r ps, .selected s' r' ps' => s == s' && r == r' && decide (ps.Perm ps')
  | .error c (some al), .error c' (some al') => c == c' && al.all (al'.contains ·) && al'.all (al.contains ·)
  | .error c none, .error c' none => c == c'
  | _, _ => false

end Spec
end Restful

namespace Restful
namespace Spec

/-- decidable form of `distinctMethodPath` -/
def pairwiseB {α : Type} (r : α → α → Bool) : List α → Bool
  | [] => true
  | a :: as => as.all (r a) && pairwiseB r as

theorem pairwiseB_iff {α : Type} (r : α → α → Bool) (l : List α) :
    pairwiseB r l = true ↔ l.Pairwise (fun a b => r a b = true) := by
  induction l with
  | nil => simp [pairwiseB]
  | cons a as ih => simp [pairwiseB, ih, List.all_eq_true]

def distinctMethodPathB (cfg : Config) : Bool :=
  cfg.services.all (fun svc => pairwiseB (fun a b => !(a.method == b.method) || a.path != b.path) svc.built)

def scoresDiffer (qs : List Str) (a b : Service) : Bool :=
  match Curly.wsScore qs (tokenize a.rootPath), Curly.wsScore qs (tokenize b.rootPath) with
  | some sa, some sb => sa != sb
  | _, _ => true

def scoresSeparateB (cfg : Config) (req : Req) : Bool :=
  pairwiseB (scoresDiffer (tokenize req.path)) cfg.services

theorem distinctMethodPath_of_B {cfg : Config} (h : distinctMethodPathB cfg = true) : distinctMethodPath cfg := by
  unfold distinctMethodPathB at h
  simp only [List.all_eq_true] at h
  intro svc hsvc
  have := (pairwiseB_iff _ _).mp (h svc hsvc)
  refine this.imp ?_
  intro a b hab hm
  simp only [Bool.or_eq_true, Bool.not_eq_true', beq_eq_false_iff_ne, ne_eq, bne_iff_ne] at hab
  rcases hab with hab | hab
  · exact absurd hm hab
  · exact hab

theorem scoresSeparate_of_B {cfg : Config} {req : Req} (h : scoresSeparateB cfg req = true) : scoresSeparate cfg req := by
  unfold scoresSeparateB at h
  have := (pairwiseB_iff _ _).mp h
  refine this.imp ?_
  intro a b hab sa sb ha hb
  unfold scoresDiffer at hab
  simp only [ha, hb, bne_iff_ne, ne_eq] at hab
  exact hab

/-- the property's own exclusion at service level: two roots of the same literal/variable shape
    (same length, literals equal where both are literals, variables where both are variables) -/
def sameShapeRoots : List Str → List Str → Bool
  | [], [] => true
  | a :: as, b :: bs =>
    (if rootTokIsVar a then rootTokIsVar b else !rootTokIsVar b && a == b) && sameShapeRoots as bs
  | _, _ => false

/-- some two services have root paths of the same shape (C03 excludes such tables) -/
def hasSameShapeRoots (cfg : Config) : Bool :=
  !pairwiseB (fun a b => !sameShapeRoots (tokenize a.rootPath) (tokenize b.rootPath)) cfg.services

/-! ### C03 as a predicate on one observed outcome: "never less specific"

When a route function ran, no OTHER candidate for the request beats it in the sense of the
property:

  * route level — no other route of the service dispatched to that admits the URL and is eligible
    for the request (conditions, method, Content-Type, Accept: `Spec.eligible`) has a template that
    is `moreSpecific` than the selected one (a literal segment where the selected has a variable,
    same shape otherwise);
  * root level, CurlyRouter — no other WebService whose root claims the URL has a root that is the
    selected root with variables replaced by literals (`rootMoreSpecific`), or a proper extension
    of the selected root (the selected root is its own strict prefix);
  * root level, RouterJSR311 — among literal root paths: no other literal root that matches the URL
    has more literal characters than the selected literal root.

Nothing here ranks candidates by the routers' scores: the clauses are the property's own words. -/

variable (E : ReEnv)

/-! #### CurlyRouter -/

/-- route `rt'` is a candidate for the request — its template admits the URL and the request is
    eligible for it — and its template is more specific than the template `ts` -/
def curlyRouteBeats (req : Req) (ts : List TTok) (rt' : Route) : Bool :=
  match readTemplate rt'.path with
  | some ts' => admits E .curly ts' (tokenize req.path) && eligible rt' req && moreSpecific ts' ts
  | none => false

/-- no candidate route of `svc` is more specific than `rt` -/
def curlyRouteOK (svc : Service) (rt : Route) (req : Req) : Bool :=
  match readTemplate rt.path with
  | some ts => svc.built.all (fun rt' => !curlyRouteBeats E req ts rt')
  | none => false

/-- root `a` continues root `b`: `b` is a strict prefix of `a` -/
def rootProperExtension (a b : List Str) : Bool := b.isPrefixOf a && a != b

/-- the root of `s'` claims the URL (`computeWebserviceScore` says yes) -/
def rootClaims (qs : List Str) (s' : Service) : Bool :=
  match Curly.wsScoreE E qs (tokenize s'.rootPath) with
  | .yes _ => true
  | _ => false

/-- the root of `s'` claims the URL and is more specific than the root of `svc`: literals where
    that one has variables (same length, a literal wherever that one has a literal), or a proper
    extension of it -/
def curlyRootBeats (qs : List Str) (svc s' : Service) : Bool :=
  rootClaims E qs s' &&
    (rootMoreSpecific (tokenize s'.rootPath) (tokenize svc.rootPath) ||
      rootProperExtension (tokenize s'.rootPath) (tokenize svc.rootPath))

/-- no WebService whose root claims the URL has a more specific root than `svc` -/
def curlyRootOK (cfg : Config) (svc : Service) (req : Req) : Bool :=
  cfg.services.all (fun s' => !curlyRootBeats E (tokenize req.path) svc s')

/-! #### RouterJSR311 -/

/-- the expression token of `path_expression.go` a structured template token stands for
    (`{v}suffix` is not a RouterJSR311 token: `tokJsrOK` excludes it) -/
def jsrTok (t : TTok) : Jsr.JTok :=
  match t.base with
  | .lit s => .lit s
  | .var n => .var n
  | .re n e => .re n e
  | .suf n _ => .var n
  | .wild n => .wild n

/-- the structured reading of a route-relative path, inside what RouterJSR311 documents -/
def relTemplateJ (rel : Str) : Option (List TTok) :=
  match readToks (nonEmptyToks rel) with
  | some ts => if ts.all tokJsrOK then some ts else none
  | none => none

/-- what the root of `svc` leaves of the URL for its routes (the final group of the root's match) -/
def jsrFinalGroup (svc : Service) (path : Str) : Option Str :=
  match Jsr.compile svc.rootPath with
  | some wex => (Jsr.matchExpr E wex.toks path).map (·.2)
  | none => none

/-- the route-relative template matches the whole of `final` (a trailing `/` may be left over) -/
def jsrMatchesFinal (ts : List TTok) (final : Str) : Bool :=
  match Jsr.matchExpr E (ts.map jsrTok) final with
  | some (_, f) => f.isEmpty || f == ['/']
  | none => false

/-- route `rt'` is a candidate for the request — its relative template matches what the root left,
    and the request is eligible for it — and its template is more specific than `ts` -/
def jsrRouteBeats (req : Req) (final : Str) (ts : List TTok) (rt' : Route) : Bool :=
  match relTemplateJ rt'.relPath with
  | some ts' => jsrMatchesFinal E ts' final && eligible rt' req && moreSpecific ts' ts
  | none => false

/-- no candidate route of `svc` is more specific than `rt` -/
def jsrRouteOK (svc : Service) (rt : Route) (req : Req) : Bool :=
  match jsrFinalGroup E svc req.path, relTemplateJ rt.relPath with
  | some final, some ts => svc.built.all (fun rt' => !jsrRouteBeats E req final ts rt')
  | _, _ => false

/-- the compiled root of a WebService whose root path has literal tokens only -/
def jsrLiteralRoot (s : Service) : Option Jsr.Expr :=
  match Jsr.compile s.rootPath with
  | some ex => if ex.toks.all (fun t => match t with | .lit _ => true | _ => false) then some ex else none
  | none => none

/-- among literal roots: no literal root that matches the URL has more literal characters than
    the (literal) root of `svc`; says nothing when the root of `svc` has a variable -/
def jsrRootOK (cfg : Config) (svc : Service) (req : Req) : Bool :=
  match jsrLiteralRoot svc with
  | none => true
  | some ex => cfg.services.all (fun s' =>
      match jsrLiteralRoot s' with
      | some ex' => !((Jsr.matchExpr E ex'.toks req.path).isSome && decide (ex'.literalCount > ex.literalCount))
      | none => true)

/-- **C03 as a predicate on an observed outcome**: if a route function ran, some declaration with
    its identity is not beaten by any other candidate, at route level and at root level -/
def c03Holds (cfg : Config) (req : Req) (o : Outcome) : Bool :=
  match o with
  | .selected s r _ =>
    cfg.services.any (fun svc => svc.id == s && svc.built.any (fun rt => rt.id == r &&
      (match cfg.router with
       | .curly => curlyRouteOK E svc rt req && curlyRootOK E cfg svc req
       | .jsr => jsrRouteOK E svc rt req && jsrRootOK E cfg svc req)))
  | _ => true

/-! #### coverage classes (reported by the driver, counted by the harness): was the selection contested? -/

/-- the routes of `svc` that are candidates for the request: the template admits the URL
    (RouterJSR311: the relative template matches what the root leaves) and the request is eligible -/
def routeCandidates (k : RouterKind) (svc : Service) (req : Req) : List Route :=
  match k with
  | .curly => svc.built.filter (fun rt =>
      match readTemplate rt.path with
      | some ts => admits E .curly ts (tokenize req.path) && eligible rt req
      | none => false)
  | .jsr =>
    match jsrFinalGroup E svc req.path with
    | some final => svc.built.filter (fun rt =>
        match relTemplateJ rt.relPath with
        | some ts => jsrMatchesFinal E ts final && eligible rt req
        | none => false)
    | none => []

/-- the WebServices the root-level clause compares: CurlyRouter — the root claims the URL;
    RouterJSR311 — a literal root that matches the URL -/
def rootCandidates (cfg : Config) (req : Req) : List Service :=
  match cfg.router with
  | .curly => cfg.services.filter (rootClaims E (tokenize req.path))
  | .jsr => cfg.services.filter (fun s =>
      match jsrLiteralRoot s with
      | some ex => (Jsr.matchExpr E ex.toks req.path).isSome
      | none => false)

/-- a route function ran and its WebService had two or more candidate routes -/
def c03RoutesContested (cfg : Config) (req : Req) (o : Outcome) : Bool :=
  match o with
  | .selected s _ _ => cfg.services.any (fun svc => svc.id == s && decide ((routeCandidates E cfg.router svc req).length ≥ 2))
  | _ => false

/-- a route function ran and two or more WebService roots were candidates -/
def c03RootsContested (cfg : Config) (req : Req) (o : Outcome) : Bool :=
  match o with
  | .selected _ _ _ => decide ((rootCandidates E cfg req).length ≥ 2)
  | _ => false

end Spec
end Restful
