/-
C06, C07, C10: the serve properties as predicates on what was observed of one served request.
-/
import Restful.Model.Serve
import Restful.Go.Sort
namespace Restful
open Str
namespace Spec
open Serve

/-- what the harness observed of one request -/
structure Obs where
  status : Nat
  ce : Str                  -- Content-Encoding as sent
  coded : Bool              -- a compressor was acquired for this response
  body : Str                -- body, decoded with the coding named by `ce` when `coded`
  complete : Bool           -- the coded stream was complete (trailer present); true when not coded
  hdr : List (Str × Str)
  log : List Event
  escaped : Option Str
  recov : Nat               -- recover-handler calls (custom handler only)
  acq : Nat
  rel : Nat
  dbl : Nat                 -- ledger anomalies: release of an object not outstanding, or handed out twice
  recovDefault : Nat := 0   -- calls of the library's own recover handler (`logStackOnRecover`), counted by
                            -- the harness through the package logger ("recover from panic situation" entries);
                            -- the model's `obsOf` counts every recover call in `recov` and leaves this 0
  deriving Repr

def isPanic : Act → Bool
  | .panic _ => true
  | _ => false

/-- the attribute writes of a script up to its first panic; `true` = it panics -/
def attrsAfter : List Act → List (Str × Str) → List (Str × Str) × Bool
  | [], attrs => (attrs, false)
  | .setAttr k v :: as, attrs => attrsAfter as (setParam attrs k v)
  | .panic _ :: _, attrs => (attrs, true)
  | _ :: as, attrs => attrsAfter as attrs

/-- C06 in one definition: the events a chain must produce.  Filters in list order; each records its
    start (`post = false`) with the Request/Response it was handed; a filter that stops or panics
    ends the descent; the target runs iff every filter passed control on; on the way back each
    filter that passed control on records `post = true` once — unless a panic is unwinding.
    Returns the events, the context handed back to the caller, and whether a panic is unwinding. -/
def chainLog : List (Stage × Filter) → Target → Ctx → List Event × Ctx × Bool
  | [], t, cx => ([⟨t.stage, false, cx.attrs, cx.params, cx.selPath, cx.wrappers⟩], { cx with attrs := (attrsAfter t.script cx.attrs).1 }, (attrsAfter t.script cx.attrs).2)
  | (st, f) :: fs, t, cx =>
    let ev0 : Event := ⟨st, false, cx.attrs, cx.params, cx.selPath, cx.wrappers⟩
    let (a1, p1) := attrsAfter f.pre cx.attrs
    let cx1 := { cx with attrs := a1 }
    if p1 then ([ev0], cx1, true) else
    let post (cxp cxr : Ctx) : List Event × Ctx × Bool :=
      -- the post part runs with `cxp`; `cxr` says which wrappers the caller sees afterwards
      let (a2, p2) := attrsAfter f.post cxp.attrs
      ([⟨st, true, cxp.attrs, cxp.params, cxp.selPath, cxp.wrappers⟩], { cxp with attrs := a2, wrappers := cxr.wrappers }, p2)
    match f.kind with
    | .stop => let (e, c, p) := post cx1 cx1; (ev0 :: e, c, p)
    | .pass =>
      let (inner, cx2, p) := chainLog fs t cx1
      if p then (ev0 :: inner, cx2, true) else let (e, c, p') := post cx2 cx2; (ev0 :: inner ++ e, c, p')
    | .replace =>
      let (inner, _, p) := chainLog fs t { attrs := [("who".toList, (toString f.id).toList)], params := [], selPath := [], wrappers := f.id :: cx1.wrappers }
      if p then (ev0 :: inner, cx1, true) else let (e, c, p') := post cx1 cx1; (ev0 :: inner ++ e, c, p')
    | .middle =>
      let (inner, cx2, p) := chainLog fs t { cx1 with wrappers := f.id :: cx1.wrappers }
      if p then (ev0 :: inner, cx2, true) else let (e, c, p') := post { cx2 with wrappers := cx1.wrappers } cx2; (ev0 :: inner ++ e, c, p')

/-- the chain a request goes through, decided by routing and entry point -/
def chainOf (E : ReEnv) (cfg : Cfg) (e : Entry) (sr : SReq) : Option (List (Stage × Filter) × Target × Ctx) :=
  match e with
  | .muxHandle => some ([], ⟨.plain 0, cfg.plainScript⟩, {})
  | .serveHandle => some ([], ⟨.plain 0, cfg.plainScript⟩, {})
  | .muxHandleF => some (label .cfilter cfg.cfilters, ⟨.plain 0, cfg.plainScript⟩, {})
  | .serveHandleF => some (label .cfilter cfg.cfilters, ⟨.plain 0, cfg.plainScript⟩, {})
  | _ =>
    if sr.condPanic.isSome then none else
    match routeTagged E cfg.routing sr.req with
    | (.panic _, _) => none
    | (.error code allow, tag) =>
      some (label .cfilter cfg.cfilters, ⟨.errorWriter, errorScript code allow (errMsg E cfg sr code tag)⟩, {})
    | (.selected svc rid ps, _) =>
      let selPath : Str :=
        match (cfg.routing.services.flatMap (·.built)).find? (fun r => r.id == rid && r.svc == svc) with
        | some r => r.path
        | none => []
      some (allFilters cfg svc rid, ⟨.handler rid, (routeX cfg rid).script⟩, { params := ps, selPath := selPath })

/-- events of user code only: the recover handler is not a stage of the chain, and the service-error
    writer is one only when it is user code (`keepErr`: a `ServiceErrorHandler` was installed — it
    must receive the pair the container filters passed on; the library's own writer records nothing) -/
def userEvents (keepErr : Bool) (l : List Event) : List Event :=
  l.filter (fun e => match e.stage with
    | .recover => false
    | .errorWriter => keepErr
    | _ => true)

/-- attributes and parameters are finite maps: compare them sorted by key -/
def sortKV (l : List (Str × Str)) : List (Str × Str) := Sort.insertionSort (fun a b => Str.lt a.1 b.1) l

/-- a plain http.Handler has no Request to look at: its event carries no attributes or parameters -/
def blind (e : Event) : Event :=
  match e.stage with
  | .plain _ => { e with attrs := [], params := [], selPath := [] }
  | _ => { e with attrs := sortKV e.attrs, params := sortKV e.params }

/-- C06 on an observation: container, service, route filters in order, each at most once, the target
    iff all passed on, and every stage saw what the previous one passed on -/
def c06Holds (E : ReEnv) (cfg : Cfg) (e : Entry) (sr : SReq) (o : Obs) : Bool :=
  match chainOf E cfg e sr with
  | none => (userEvents cfg.customErr o.log).isEmpty
  | some (fs, t, cx) => (userEvents cfg.customErr o.log).map blind == (userEvents cfg.customErr (chainLog fs t cx).1).map blind

/-- C06, last sentence ("for requests that fail routing, the container filters still run once around
    the error response and no service or route filter runs"), on an observation of a request that the
    installed `RouteSelector` refused with an error that is not a `ServiceError`: the user-code events
    are those of the container filters around a target that records nothing (no service-error writer
    runs for such an error, not even one the application installed) -/
def c06RouterErrorHolds (cfg : Cfg) (o : Obs) : Bool :=
  (userEvents false o.log).map blind == (userEvents false (chainLog (label .cfilter cfg.cfilters) routerErrorTarget {}).1).map blind

/-- the same configuration with every content-coding switch off -/
def noCoding (cfg : Cfg) : Cfg :=
  { cfg with encoding := false, routes := cfg.routes.map (fun r => { r with enc := none }) }

def selectedRoute (E : ReEnv) (cfg : Cfg) (sr : SReq) : Option Nat :=
  if sr.condPanic.isSome then none else
  match routeTagged E cfg.routing sr.req with
  | (.selected _ rid _, _) => some rid
  | _ => none

/-- "encoding was enabled for that request (the route's own setting overriding the container's)" -/
def enabledFor (E : ReEnv) (cfg : Cfg) (e : Entry) (sr : SReq) : Bool :=
  match e with
  | .dispatch | .serveDispatch =>
    (match selectedRoute E cfg sr with
     | some rid => (match (routeX cfg rid).enc with
        | some b => b
        | none => cfg.encoding)
     | none => cfg.encoding)
  | _ => cfg.encoding

/-- the default recover handler writes a stack trace: its text is not part of any statement -/
def opaqueBody (cfg : Cfg) (o : Obs) (panicked : Bool) : Bool := cfg.recover && cfg.recoverScript.isNone && panicked && o.escaped.isNone

/-- the texts of the library's own service-error writer are not part of any property either: with
    the default ServiceErrorHandler the body of a routing-error response is not compared -/
def libraryErrorText (E : ReEnv) (cfg : Cfg) (e : Entry) (sr : SReq) : Bool :=
  !cfg.customErr && (match e with
    | .dispatch | .serveDispatch => (selectedRoute E cfg sr).isNone
    | _ => false)

/-- C07 on an observation: a coded body decodes completely to exactly the bytes written — the body of
    the same request with every coding switched off —, the label is right, the coding was asked for
    and enabled; otherwise the body is those bytes and no Content-Encoding was added -/
def c07Holds (E : ReEnv) (cfg : Cfg) (e : Entry) (sr : SReq) (o : Obs) : Bool :=
  let plain := serve E (noCoding cfg) e {} { sr with acceptEncoding := [] }
  let panicked := (serve E { noCoding cfg with recover := false } e {} { sr with acceptEncoding := [] }).escaped.isSome
  let bodyOK := opaqueBody cfg o panicked || libraryErrorText E cfg e sr || o.body == plain.rc.body
  if o.coded then
    (o.ce == "gzip".toList || o.ce == "deflate".toList) && containsSub o.ce sr.acceptEncoding &&
      enabledFor E cfg e sr && sr.priorEncoding.isEmpty && o.complete && bodyOK && o.acq == 1
  else bodyOK && o.ce == sr.priorEncoding && o.acq == 0

/-- the status the recover handler produces when nothing was written before -/
def recoverStatus (cfg : Cfg) : Nat :=
  match cfg.recoverScript with
  | none => 500
  | some sc =>
    match sc.find? (fun a => match a with | .writeHeader _ => true | .write _ => true | _ => false) with
    | some (.writeHeader c) => c
    | _ => 200

/-- the panic that unwinds (if any) was raised by a filter (not by the target) -/
def panicFromFilter (E : ReEnv) (cfg : Cfg) (e : Entry) (sr : SReq) : Bool :=
  match chainOf E cfg e sr with
  | none => false
  | some (fs, t, cx) =>
    let (evs, _, p) := chainLog fs t cx
    p && (match evs.getLast? with
      | some ev => (match ev.stage with
        | .cfilter _ => true
        | .sfilter _ => true
        | .rfilter _ => true
        | _ => false)
      | none => false)

/-- the bytes a script hands to `Write`, in order, up to its end or its first panic -/
def scriptWrites : List Act → Str
  | [] => []
  | .write b :: as => b ++ scriptWrites as
  | .panic _ :: _ => []
  | _ :: as => scriptWrites as

/-- The body clause of C10 for a recovered panic.  `before` = the bytes that had reached the base
    writer when the panic was raised (the body of the run without recovery and without coding);
    `libText` = part of `before` is a message text of the library's own service-error writer, which no
    property compares (cf. `libraryErrorText`).
    * custom recover handler: the client's (decoded) body is exactly `before` followed by what the
      handler's script writes — its writes went through the coding when there is one;
    * the library's handler writes a stack trace whose text is not comparable: the body starts with
      `before` and something follows. -/
def c10Body (cfg : Cfg) (libText : Bool) (before : Str) (o : Obs) : Bool :=
  match cfg.recoverScript with
  | some sc =>
    if libText then (scriptWrites sc).isSuffixOf o.body else o.body == before ++ scriptWrites sc
  | none =>
    if libText then !o.body.isEmpty else before.isPrefixOf o.body && before.length < o.body.length

/-- C10 on an observation -/
def c10Holds (E : ReEnv) (cfg : Cfg) (e : Entry) (sr : SReq) (o : Obs) : Bool :=
  -- what happens without recovery and without coding tells which panic is raised first and what
  -- had been written by then
  let raw := serve E { noCoding cfg with recover := false } e {} { sr with acceptEncoding := [] }
  let ledgerOK := o.acq == o.rel && o.dbl == 0 && o.complete
  let routed := match e with
    | .dispatch | .serveDispatch => true
    | _ => false
  -- recovery covers the chains the framework builds: routed requests, and HandleWithFilter when
  -- there are container filters; a plain http.Handler registered with Handle is neither a filter
  -- nor a route function, its panic propagates
  let covered := routed || ((e == .muxHandleF || e == .serveHandleF) && !cfg.cfilters.isEmpty)
  -- the library's service-error writer ran before the panic: its text is in what had been written
  let libText := libraryErrorText E cfg e sr && raw.log.any (fun ev => ev.stage == Stage.errorWriter)
  if cfg.recover && covered then
    o.escaped.isNone && ledgerOK &&
      -- one recover-handler call iff a panic was raised, whichever handler is installed (a custom
      -- handler counts its own calls, the library's are counted through the package logger) …
      (o.recov + o.recovDefault == (if raw.escaped.isSome then 1 else 0)) &&
      -- … and the library's handler does not run when a custom one is installed
      (cfg.recoverScript.isNone || o.recovDefault == 0) &&
      (!(raw.escaped.isSome && raw.rc.status.isNone) || o.status == recoverStatus cfg) &&
      (!raw.escaped.isSome || c10Body cfg libText raw.rc.body o)
  else o.escaped == raw.escaped && ledgerOK

/-- C13, the framework's half, on an observation: every compressor acquired while the request was
    served has been released exactly once when the entry point returns (or its panic leaves it) —
    the ledger saw no release of an object that was not outstanding and no object handed out twice -/
def c13Holds (o : Obs) : Bool := o.acq == o.rel && o.dbl == 0

/-- F09: through ServeHTTP the container switch is consulted before routing, so a route that
    switched encoding off for itself is encoded anyway -/
def f09Class (E : ReEnv) (cfg : Cfg) (e : Entry) (sr : SReq) : Bool :=
  e == .serveDispatch && cfg.encoding &&
    (match selectedRoute E cfg sr with
     | some rid => (routeX cfg rid).enc == some false
     | none => false)

/-- F18 was repaired (HandleWithFilter now recovers): the class is empty and kept only so that
    the protocol of the driver stays the same -/
def f18Class (_E : ReEnv) (_cfg : Cfg) (_e : Entry) (_sr : SReq) : Bool := false

/-- the observation the MODEL's result amounts to (for a request served on a fresh ledger) -/
def obsOf (r : Result) : Obs :=
  { status := r.rc.status.getD 200
    ce := (match (r.rc.sent.getD r.rc.headers).find? (fun kv => kv.1 = "Content-Encoding".toList) with
      | some kv => kv.2
      | none => [])
    coded := r.rc.comp.isSome
    body := (match r.rc.comp with
      | none => r.rc.body
      | some c => c.payload)
    complete := (match r.rc.comp with
      | none => true
      | some c => c.closed)
    hdr := r.rc.sent.getD r.rc.headers
    log := r.log
    escaped := r.escaped
    recov := r.recoverCalls
    acq := r.world.acquired
    rel := r.world.released
    dbl := 0 }

end Spec
end Restful
