/-
C08 / C09 — the CORS properties, declaratively, as Bool predicates over an OBSERVED outcome.

The observation (`CorsObs`) is what the harness sees when the same request is sent to a container
with the CORS filter and to a twin container that is identical except for that filter: the
response headers the real response has and the twin's has not (with multiplicities), how much of
the twin's response is missing from the real one, and whether anything behind the filter ran.
The driver evaluates `c08Holds` / `c09Holds` on every real observation; `Props/C08.lean` and
`Props/C09.lean` prove them of the model's own outcome for all inputs.

Both predicates demand the grant in BOTH directions: no CORS header unless due, and every header
that is due — present, once, with the right value (see the docstrings of `c08Holds` / `c09Holds`,
which go through the property texts clause by clause; `CorsObs` says where each observed field
comes from).
-/
import Restful.Model.Cors
namespace Restful
open Str Cors

namespace Spec
variable (lower : Str → Str)

/-- "the request's Origin is allowed by the filter's configuration" (C08), as a Bool:
    * no restriction configured (empty list, no predicate), or
    * some entry of the allowed list is the wildcard entry `.*`, or equals the WHOLE origin
      ignoring case (`lower d = lower o`; not a prefix, suffix or pattern match), or
    * the configured predicate accepts it — where, AS THE CODE HAS IT, the predicate is asked about
      the LOWERED origin when the list is empty and about the ORIGINAL origin when the list is not
      empty (and nothing in it matched).  The property's text does not distinguish the two.
    An empty Origin is never allowed. -/
def originAllowed (cc : CorsCfg) (o : Str) : Bool :=
  !o.isEmpty &&
  ((cc.allowedDomains.isEmpty && (match cc.pred with | none => true | some f => f (lower o)))
   || cc.allowedDomains.any (fun d => d == sDotStar || lower d == lower o)
   || (!cc.allowedDomains.isEmpty && (match cc.pred with | some f => f o | none => false)))

/-- the same as a proposition (what `C08_grant` concludes) -/
def OriginAllowed (cc : CorsCfg) (o : Str) : Prop :=
  o ≠ [] ∧
  ((cc.allowedDomains = [] ∧ cc.pred = none)                                   -- no restriction configured
   ∨ (∃ d ∈ cc.allowedDomains, lower d = lower o)                              -- one whole entry, ignoring case
   ∨ sDotStar ∈ cc.allowedDomains                                              -- the wildcard entry
   ∨ (∃ f, cc.pred = some f ∧                                                  -- the predicate accepts it
        ((cc.allowedDomains = [] ∧ f (lower o) = true) ∨ (cc.allowedDomains ≠ [] ∧ f o = true))))

/-- an OPTIONS request that carries Access-Control-Request-Method -/
def isPreflight (rq : CorsReq) : Bool := rq.method == sOPTIONS && !rq.acrm.isEmpty

/-- the requested headers: the elements of the comma-separated list, blanks around each removed.
    An absent/empty header requests nothing.  (An empty ELEMENT, as in `a,,b`, is an element: the
    code validates it like any other, see `C09_grant` and the slice report.) -/
def requestedHeaders (acrh : Str) : List Str :=
  if acrh.isEmpty then [] else (split ',' acrh).map (trim ' ')

/-- a requested header is among the allowed headers ignoring case, or the header wildcard `*` is
    configured -/
def headerAllowed (allowed : List Str) (h : Str) : Bool :=
  allowed.any (fun a => lower a == lower h || a == sStar)

variable (E : ReEnv)

/-- the route's expression matches `final` up to an optional last slash -/
def routeOK (r : RouteDecl) (final : Str) : Bool :=
  match Jsr.compile r.relPath with
  | some rex =>
    match Jsr.matchExpr E rex.toks final with
    | some (_, last) => last == [] || last == ['/']
    | none => false
  | none => false

/-- route `r` of service `s` is routable at `path`: the service's root expression matches a prefix
    of the URL and the route's expression the rest, up to an optional final slash -/
def routableAt (s : Service) (r : RouteDecl) (path : Str) : Bool :=
  match Jsr.compile s.rootPath with
  | some wex =>
    match Jsr.matchExpr E wex.toks path with
    | some (_, final) => routeOK E r final
    | none => false
  | none => false

/-- the service's root expression matches (a prefix of) the URL -/
def rootMatches (s : Service) (path : Str) : Bool :=
  match Jsr.compile s.rootPath with
  | some wex => (Jsr.matchExpr E wex.toks path).isSome
  | none => false

/-- how many registered services have a root that matches the URL -/
def rootsMatching (tbl : Config) (path : Str) : Nat :=
  (tbl.services.filter (fun s => rootMatches E s path)).length

/-- the class of finding F14 as C09 sees it: SEVERAL services' roots match the URL (nested roots).
    The router dispatches to one of them; `computeAllowedMethods` unions the methods of all. -/
def severalRootsMatch (tbl : Config) (path : Str) : Bool := decide (2 ≤ rootsMatching E tbl path)

/-- "the methods routable at that URL in the container": the method of every route of every
    service that is routable there (registration order, duplicates kept).  As in the code this is
    the union over ALL services whose root matches, not only the one the router would dispatch to
    (finding F14 of DESIGN §6 is about exactly that difference, under C17). -/
def methodsAt (tbl : Config) (path : Str) : List Str :=
  tbl.services.flatMap (fun s => (s.routes.filter (fun r => routableAt E s r path)).map (·.method))

/-- the allowed methods: configured, or else the methods routable at the URL -/
def methodsFor (cc : CorsCfg) (tbl : Config) (path : Str) : List Str :=
  if cc.allowedMethods.isEmpty then methodsAt E tbl path else cc.allowedMethods

/-- the condition under which a preflight may be granted -/
def preflightOK (cc : CorsCfg) (ms : List Str) (rq : CorsReq) : Bool :=
  ms.contains rq.acrm && (requestedHeaders rq.acrh).all (headerAllowed lower cc.allowedHeaders)

/-- the actual-request headers: exposed headers (if configured), the origin, credentials (if
    configured), max-age (if positive) — each once -/
def actualHeaders (cc : CorsCfg) (rq : CorsReq) : List (Str × Str) :=
  (if cc.exposeHeaders.isEmpty then [] else [(hExposeHeaders, join sComma cc.exposeHeaders)]) ++
  [(hAllowOrigin, rq.origin)] ++
  (if cc.cookies then [(hAllowCredentials, sTrue)] else []) ++
  (if cc.maxAge > 0 then [(hMaxAge, itoa cc.maxAge)] else [])

/-- What was observed for one request: the same request sent to the real container (with the CORS
    filter) and to its twin (identical, without that filter), the two recorders compared in full
    (harness/internal/cors/real.go `Observe`).

    Where each field comes from — nothing here is filled in by the model of the filter alone:
    * `extra`, `later` — what the FILTER did, as far as a client and the event log can see it: the
      header lines the real response has and the twin's has not (multiset difference), and whether
      anything behind the filter ran.  They coincide with the model's `Out.added` / `Out.passOn`
      only if the code behind the filter does not itself set, overwrite or remove those headers and
      logs when it runs (`Cors.RestOK`, Lemmas/Cors.lean) — the harness's generated filters and
      route functions are built that way.
    * `reached` — whether the filter was called at all (a logging filter installed BEFORE it logged);
      with `Container.ServeHTTP` the ServeMux may answer first.  Only the harness can tell.
    * `missing`, `status`, `twinStatus`, `bodySame`, `logSame` — the TWIN COMPARISON.  The model of the
      filter has no status, body or log: it says which headers the filter adds and whether it passes
      control on, nothing about what the rest of the container then does.  "Exactly as if the filter
      were absent" is derived for an ARBITRARY rest of the container where it can be
      (`Cors.withFilter_absent`: no Origin / disallowed origin ⇒ the exchange IS the twin's); for an
      allowed origin it is a hypothesis about the code behind the filter, and the harness measures
      it on every request. -/
structure CorsObs where
  reached : Bool              -- the container's filter chain ran at all (a filter BEFORE the CORS filter logged)
  extra : List (Str × Str)    -- response headers (canonical name, value) on the real response and not on the twin's, with multiplicity
  missing : Nat               -- number of response headers of the twin's response that the real one lacks
  status : Nat
  twinStatus : Nat
  bodySame : Bool
  logSame : Bool              -- the filters/handlers behind the CORS filter logged the same events as on the twin
  later : Bool                -- some filter behind the CORS filter, or a route function, ran
  deriving DecidableEq, Repr

def valuesOf (name : Str) (hs : List (Str × Str)) : List Str := (hs.filter (fun h => h.1 == name)).map (·.2)

/-- apart from `extra`, the real response and event log are the twin's -/
def restSame (o : CorsObs) : Bool := o.missing == 0 && o.status == o.twinStatus && o.bodySame && o.logSame

/-- processed exactly as if the filter were absent -/
def sameAsTwin (o : CorsObs) : Bool := o.extra.isEmpty && restSame o

/-- C08 on one observed request.  Clause by clause (properties.jsonl C08):

    * "A response carries … any CORS grant ONLY IF the request's Origin is allowed" and "Requests
      without an Origin, or from a disallowed origin, are processed exactly as if the filter were
      absent": first branch — no header beyond the twin's, and the rest is the twin's (also when the
      filter chain was not reached at all).
    * "WHEN GRANTED, Allow-Origin is the request's Origin verbatim and appears once, and credentials
      are granted only if configured": second branch, for a preflight (WHETHER a preflight from an
      allowed origin is granted is C09's clause, `c09Holds` demands it in both directions) — if
      anything is granted, exactly one Allow-Origin, equal to the Origin byte for byte; Allow-Credentials
      only if configured; no header name twice.
    * an ACTUAL request from an allowed origin IS granted (C09's last sentence: "proceeds down the
      chain with the actual-request headers (origin, credentials, exposed headers, max-age) added
      once"): third branch — the headers beyond the twin's are, up to order, exactly
      `actualHeaders`: Allow-Origin PRESENT, once, verbatim; Allow-Credentials `true` exactly when
      configured; Expose-Headers exactly when the list is not empty (joined with `,`); Max-Age
      exactly when positive; nothing else and nothing twice.  (The previous version of this
      predicate accepted an allowed origin's actual request WITHOUT any header.) -/
def c08Holds (cc : CorsCfg) (rq : CorsReq) (o : CorsObs) : Bool :=
  if !(o.reached && originAllowed lower cc rq.origin) then
    -- no Origin / disallowed origin / chain not reached: no grant, exactly as if the filter were absent
    sameAsTwin o
  else if isPreflight rq then
    -- when granted: Allow-Origin is the request's Origin verbatim, once;
    -- credentials only if configured; nothing twice
    o.extra.isEmpty ||
      (valuesOf hAllowOrigin o.extra == [rq.origin] &&
       ((valuesOf hAllowCredentials o.extra).isEmpty || cc.cookies) &&
       decide ((o.extra.map (·.1)).Nodup))
  else
    -- an actual request from an allowed origin: the grant is due, exactly as configured, each once
    o.extra.isPerm (actualHeaders cc rq)

/-- C09 on one observed request.  Clause by clause (properties.jsonl C09):

    * a preflight from an allowed origin "is answered by the CORS filter without running any later
      filter or route function": `!o.later`;
    * "It receives Allow-Methods, Allow-Headers and Allow-Origin only if the requested method is among
      the allowed methods … and every requested header is among the allowed headers …; otherwise it
      receives no CORS grant at all" — and the grant direction (`C09_grant` is an iff): when
      `preflightOK`, each of the three headers MUST be there, exactly once, with the right value (the
      allowed methods joined with `,`; the requested header list verbatim; the Origin verbatim);
      whatever else is granted with them is one of the actual-request headers as configured, no name
      twice ("grants only what is allowed").  Otherwise: no header beyond the twin's.
      (The previous version of this predicate used `.all` on the three value lists and so accepted
      a preflight that should be granted but received nothing.)
      `preflightOK` is the code's exact condition: an empty ELEMENT of the requested list counts as
      a requested header named "" (see `requestedHeaders`); the property's "only if" permits the
      refusal, the grant direction is stated for this condition.
    * "Any other request from an allowed origin proceeds down the chain with the actual-request
      headers … added once": the chain ran, the rest is the twin's, and the headers beyond the
      twin's are exactly `actualHeaders` up to order.

    Requests without Origin, from a disallowed origin, or that never reached the filter chain are
    C08's business (`c08Holds` demands the twin's response there). -/
def c09Holds (cc : CorsCfg) (tbl : Config) (rq : CorsReq) (o : CorsObs) : Bool :=
  if !o.reached || !originAllowed lower cc rq.origin then true      -- C08's business
  else if isPreflight rq then
    let ms := methodsFor E cc tbl rq.path
    -- answered by the filter alone
    !o.later &&
    (if preflightOK lower cc ms rq then
       -- the grant is due: each of the three headers exactly once, with the right value
       valuesOf hAllowMethods o.extra == [join sComma ms] &&
       valuesOf hAllowHeaders o.extra == [rq.acrh] &&
       valuesOf hAllowOrigin o.extra == [rq.origin] &&
       -- and only what is allowed: anything else is an actual-request header as configured, once
       o.extra.all (fun h => h.1 == hAllowMethods || h.1 == hAllowHeaders || (actualHeaders cc rq).contains h) &&
       decide ((o.extra.map (·.1)).Nodup)
     else
       -- otherwise no CORS grant at all
       o.extra.isEmpty)
  else
    -- any other request proceeds down the chain with the actual-request headers added once
    o.later && restSame o && o.extra.isPerm (actualHeaders cc rq)

end Spec
end Restful
