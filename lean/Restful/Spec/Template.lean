/-
Structured path templates: the grammar in the quantifier of C01–C04
(literals, `{v}`, `{v:regex}`, `{v}suffix`, tail `{v:*}`, `:verb` on the last segment).

`parseTok` reads a declared token string; well-formedness is *checked*, not proved about the
parser: `wfTokStr s` demands that parsing succeeds, that rendering the result gives back `s`
exactly, and that the pieces are hygienic.  Theorems get `render t = s` from that check.
-/
import Restful.Model.Config
namespace Restful
open Str

inductive Tok where
  | lit (s : Str)
  | var (n : Str)
  | re (n : Str) (e : Str)
  | suf (n : Str) (suffix : Str)
  | wild (n : Str)
  deriving DecidableEq, Repr

/-- a template token with an optional custom verb (`…:verb`) -/
structure TTok where
  base : Tok
  verb : Option Str := none
  deriving DecidableEq, Repr

def Tok.render : Tok → Str
  | .lit s => s
  | .var n => '{' :: n ++ ['}']
  | .re n e => '{' :: n ++ ':' :: e ++ ['}']
  | .suf n suffix => '{' :: n ++ '}' :: suffix
  | .wild n => '{' :: n ++ [':', '*', '}']

def TTok.render (t : TTok) : Str :=
  match t.verb with
  | none => t.base.render
  | some v => t.base.render ++ ':' :: v

def Tok.isWild : Tok → Bool
  | .wild _ => true
  | _ => false

def Tok.name? : Tok → Option Str
  | .lit _ => none
  | .var n => some n
  | .re n _ => some n
  | .suf n _ => some n
  | .wild n => some n

/-- characters that may not occur in a variable name -/
def nameChar (c : Char) : Bool := c != ':' && c != '{' && c != '}' && c != '*' && c != '/' && c != ' '
def nameOK (n : Str) : Bool := n.all nameChar

/-- characters that may not occur in literal text (a literal segment or a suffix) -/
def litChar (c : Char) : Bool := c != ':' && c != '{' && c != '}' && c != '/'
def litOK (s : Str) : Bool := !s.isEmpty && s.all litChar

/-- a variable's expression: not the wildcard, stays inside one token, no blank at either end -/
def reOK (e : Str) : Bool :=
  e != ['*'] && !e.isEmpty && e.all (· != '/') && e.head? != some ' ' && e.getLast? != some ' '

def verbOK (v : Str) : Bool := !v.isEmpty && v.all isLetter

def Tok.wf : Tok → Bool
  | .lit s => litOK s
  | .var n => nameOK n
  | .re n e => nameOK n && reOK e
  | .suf n suffix => nameOK n && litOK suffix
  | .wild n => nameOK n

def TTok.wf (t : TTok) : Bool :=
  t.base.wf && (match t.verb with
    | none => true
    | some v => verbOK v && !t.base.isWild)

/-- read the part before an optional verb -/
def parseBase (s : Str) : Option Tok :=
  if hasPrefix ['{'] s then
    match index ':' s with
    | some c =>
      let n := (s.drop 1).take (c - 1)
      let e := (s.drop (c + 1)).dropLast
      if e = ['*'] then some (.wild n) else some (.re n e)
    | none =>
      match index '}' s with
      | some e =>
        let n := (s.drop 1).take (e - 1)
        let suffix := s.drop (e + 1)
        if suffix.isEmpty then some (.var n) else some (.suf n suffix)
      | none => none
  else some (.lit s)

/-- read a declared token -/
def parseTok (s : Str) : Option TTok :=
  match customVerbOf s with
  | some (pre, v) => (parseBase pre).map (fun b => { base := b, verb := some v })
  | none => (parseBase s).map (fun b => { base := b, verb := none })

/-- the checked reading of one declared token: parse, re-render, compare, hygiene -/
def readTok (s : Str) : Option TTok :=
  match parseTok s with
  | some t => if t.render = s && t.wf then some t else none
  | none => none

def readToks : List Str → Option (List TTok)
  | [] => some []
  | s :: ss =>
    match readTok s, readToks ss with
    | some t, some ts => some (t :: ts)
    | _, _ => none

/-- shape conditions on a whole template: a tail wildcard and a verb only on the last token -/
def shapeOK : List TTok → Bool
  | [] => true
  | [_] => true
  | t :: t' :: ts => !t.base.isWild && t.verb.isNone && shapeOK (t' :: ts)

def lastHasVerb (ts : List TTok) : Bool :=
  match ts.getLast? with
  | some t => t.verb.isSome
  | none => false

/-- variable names of a template, in order -/
def varNames (ts : List TTok) : List Str := ts.filterMap (·.base.name?)

/-- the checked structured reading of a full route path (`Route.Path`):
    tokens parse and re-render, shape is right, names are distinct, and the string-level
    verb flag `hasCustomVerb(Path)` agrees with the structured one -/
def readTemplate (path : Str) : Option (List TTok) :=
  match readToks (tokenize path) with
  | some ts =>
    if shapeOK ts && (hasCustomVerb path == lastHasVerb ts) && (varNames ts).Nodup then some ts else none
  | none => none

theorem readTok_render {s : Str} {t : TTok} (h : readTok s = some t) : t.render = s ∧ t.wf = true := by
  unfold readTok at h
  split at h
  · rename_i t' _
    split at h
    · rename_i hc
      simp only [Option.some.injEq] at h
      subst h
      simpa using hc
    · simp at h
  · simp at h

theorem readToks_render : ∀ {ss : List Str} {ts : List TTok}, readToks ss = some ts →
    ts.map TTok.render = ss ∧ ∀ t ∈ ts, t.wf = true
  | [], ts, h => by
    simp only [readToks, Option.some.injEq] at h
    subst h; simp
  | s :: ss, ts, h => by
    unfold readToks at h
    split at h
    · rename_i t ts' h1 h2
      simp only [Option.some.injEq] at h
      subst h
      have ⟨hr, hw⟩ := readTok_render h1
      have ⟨hrs, hws⟩ := readToks_render h2
      refine ⟨by simp [hr, hrs], ?_⟩
      intro x hx
      simp only [List.mem_cons] at hx
      rcases hx with rfl | hx
      · exact hw
      · exact hws x hx
    · simp at h

end Restful

namespace Restful

/-- CurlyRouter's two ranking counts, read off the structured template -/
def paramCount (ts : List TTok) : Nat := (ts.filter (fun t => t.base.name?.isSome)).length
def staticCount (ts : List TTok) : Nat :=
  (ts.filter (fun t => t.base.name?.isNone)).length + (if lastHasVerb ts then 1 else 0)

end Restful
