/-
C05, declaratively: which representation a request must get.

An Accept header is a comma-separated list of ranges `media *( OWS ";" OWS name OWS "=" OWS value )`
with optional whitespace (space, tab) around `,` `;` `=`.  The weight of a range is the value of
its `q` parameter wherever it stands among the parameters (default 1); a range whose weight is not
a decimal number is not a range (it is ignored).  An absent/empty header means `*/*` (RFC 7231 5.3.2,
and what the router assumes).  Ranges are ranked by weight, greater first, header order on ties.
The first ranked range that can be satisfied decides: `*/*` is satisfied by the first produced
type that has a registered writer, a media type by itself when it is produced and has a writer.
-/
import Restful.Model.Mime
import Restful.Spec.Admits
namespace Restful
namespace Spec
open Str Mime

namespace C05

/-- the value of a `q` parameter, `none` for any other parameter -/
def qParam (p : Str) : Option Str :=
  match split '=' p with
  | [k, v] => if trimOWS k == qKey then some (trimOWS v) else none
  | _ => none

/-- the weight among the parameters of a range, in thousandths; `none` = malformed weight -/
def weight (params : List Str) : Option Nat :=
  match params.findSome? qParam with
  | none => some 1000
  | some v => parseQ v

def parseRange (elem : Str) : Option Mime :=
  match split ';' elem with
  | [] => none
  | m :: params => (weight params).map (fun q => ⟨trimOWS m, q⟩)

/-- the well-formed ranges of a header, in header order -/
def ranges (a : Str) : List Mime := (split ',' a).filterMap parseRange

/-- the produced media types that have a registered writer, in Produces order -/
def usable (produces reg : List Str) : List Str := produces.filter reg.contains

/-- what a range stands for on this route, if it can be satisfied -/
def resolve (produces reg : List Str) (media : Str) : Option Str :=
  if media == starStar then (usable produces reg).head?
  else if (usable produces reg).contains media then some media else none

/-- the element of greatest weight, the earliest one among equals -/
def maxFirst : List Mime → Option Mime
  | [] => none
  | r :: rs =>
    match maxFirst rs with
    | none => some r
    | some b => if b.quality ≤ r.quality then some r else some b

end C05
open C05

/-- the representation C05 demands (`none`: no well-formed range of the header is satisfiable) -/
def best (accept : Str) (produces reg : List Str) : Option Str :=
  let a := if accept.isEmpty then starStar else accept
  match maxFirst ((ranges a).filter (fun r => (resolve produces reg r.media).isSome)) with
  | none => none
  | some r => resolve produces reg r.media

/-- what one dispatch of a request whose handler calls `WriteEntity` was observed to answer -/
inductive MimeObs where
  | ct (media : Str)   -- 200 with this Content-Type
  | notAcceptable      -- 406 written by the entity writer
  | other              -- anything else
  deriving DecidableEq, Repr

def c05ObsOK (accept : Str) (produces reg : List Str) (o : MimeObs) : Bool :=
  match o with
  | .ct m =>
    produces.contains m && reg.contains m &&
      (match best accept produces reg with
       | some b => m == b
       | none => true)
  | .notAcceptable => !acceptOK produces accept
  | .other => false

/-- C05 on the observed answers to repeated dispatches of one request: each is a produced type with
    a registered writer, is the best one for Accept, is not a 406 when Accept was satisfiable from
    Produces (the router's admission condition), and all of them are the same. -/
def c05Holds (accept : Str) (produces reg : List Str) (obs : List MimeObs) : Bool :=
  obs.all (c05ObsOK accept produces reg) &&
    (match obs with
     | [] => true
     | o :: os => os.all (· == o))

/-- a media type of the property's quantifier: non-empty, free of list/parameter separators and
    optional whitespace, not the wildcard -/
def wfMedia (m : Str) : Bool :=
  !m.isEmpty && m.all (fun c => !(c == ',' || c == ';' || isOWS c)) && m != starStar

/-- the quantifier of C05: a non-empty Produces list over media types with a registered writer -/
def wfMime (produces reg : List Str) : Bool :=
  !produces.isEmpty && produces.all wfMedia && reg.all wfMedia && produces.all reg.contains

/-- the default type, when set, has a writer (true for JSON and XML on every real registry) -/
def defaultOK (reg : List Str) (d : Str) : Bool := !defaultSet d || reg.contains d

/-- class of the REPAIRED finding F07 (d89a7d4): no Accept header and a default response content type
    is set.  No theorem assumes anything about it any more; the driver still reports it so that the
    check can measure that the stream keeps visiting the formerly defective class. -/
def F07 (accept dflt : Str) : Bool := accept.isEmpty && defaultSet dflt

/-- class of finding F07b: the router admits the (non-empty) header, but none of its well-formed
    ranges can be satisfied — every range the router admitted on carries a malformed weight -/
def F07b (accept : Str) (produces reg : List Str) : Bool :=
  !accept.isEmpty && acceptOK produces accept && (best accept produces reg).isNone

end Spec
end Restful
