/-
C16 as a Bool-valued predicate over an OBSERVED history of `ReadEntity` calls on one compressor
provider.  It speaks about what a caller sees (value read back as canonical text, error, panic,
the provider ledger) and about facts on the body measured with the standard library alone; it does
not run the model of `ReadEntity`.

For every read of the history:
  1. no panic;
  2. round trip: a body that is exactly what the entity writer of `kind` produced, coded with the
     coding its `Content-Encoding` names, under a Content-Type whose media type is the registered key
     of that writer (parameters may follow; an absent Content-Type means the default request content
     type) reads back equal to the value written;
  3. a broken declared coding (the decompressor's stream does not end cleanly — wherever it
     breaks, also after a complete document) yields an error; broken syntax for the selected
     reader yields an error;
  4. history independence: the result equals the result of the same request read alone on a
     provider fresh from its constructor;
  5. ledger: a pooled reader is acquired at most once, released exactly once if acquired, and the
     release is the last thing that happens to it.
-/
import Restful.Model.Entity
namespace Restful
namespace Spec
open Entity Str

namespace C16

/-- what the harness saw `ReadEntity` do (under `recover()`): value as canonical text, a 400
    `ServiceError`, any other error, a panic -/
inductive Obs where
  | ok (canon : Str)
  | err400
  | err
  | panic
  deriving DecidableEq, Repr

def Obs.isErr : Obs → Bool
  | .err400 => true
  | .err => true
  | _ => false

/-- facts about the body under its DECLARED coding, measured with compress/gzip, compress/zlib,
    encoding/json, encoding/xml directly -/
structure Facts where
  /-- the stream of the declared coding ends cleanly (no coding declared: true; zlib header refused: false) -/
  clean : Bool
  /-- the bytes that stream delivers, followed by a clean EOF, are a document for the JSON / XML decoder -/
  jsonDoc : Bool
  xmlDoc : Bool
  deriving DecidableEq, Repr

def Facts.doc (f : Facts) : Kind → Bool
  | .json => f.jsonDoc
  | .xml => f.xmlDoc

structure ReadObs where
  ct : Str
  ce : Str
  /-- the writer the body was produced with -/
  kind : Kind
  /-- canonical text of the value written -/
  written : Str
  /-- the body is exactly the writer's output under the coding that `ce` names ("" = none) -/
  faithful : Bool
  facts : Facts
  real : Obs
  alone : Obs
  events : List Ev
  deriving DecidableEq, Repr

/-- `ct` is the media type `m`, optionally followed by parameters -/
def startsMedia (m ct : Str) : Bool :=
  m.isPrefixOf ct && (match ct.drop m.length with
                      | [] => true
                      | c :: _ => c == ';' || c == ' ')

/-- the media type of `ct` is a registered key of reader `k` -/
def mediaSelects (reg : List (Str × Kind)) (ct : Str) (k : Kind) : Bool :=
  reg.any (fun e => e.2 == k && startsMedia e.1 ct)

/-- the reader selected by the Content-Type (absent: by the default request content type) is `k` -/
def selected (cfg : Cfg) (ct : Str) (k : Kind) : Bool :=
  mediaSelects cfg.registry ct k || (ct.isEmpty && mediaSelects cfg.registry cfg.dflt k)

def count (e : Ev) (l : List Ev) : Nat := (l.filter (· == e)).length

/-- events from the first acquire on (the harness cuts what precedes) -/
def ledgerOK (ev : List Ev) : Bool :=
  ev.isEmpty ||
    (ev.head? == some .acquire && ev.getLast? == some .release && count .acquire ev == 1 && count .release ev == 1)

def roundTripOK (cfg : Cfg) (r : ReadObs) : Bool :=
  !(r.faithful && selected cfg r.ct r.kind) || r.real == .ok r.written

def brokenCodingOK (r : ReadObs) : Bool := r.facts.clean || r.real.isErr

def brokenSyntaxOK (cfg : Cfg) (r : ReadObs) : Bool :=
  [Kind.json, Kind.xml].all fun k => !(r.facts.clean && selected cfg r.ct k && !r.facts.doc k) || r.real.isErr

def readHolds (cfg : Cfg) (r : ReadObs) : Bool :=
  r.real != .panic && roundTripOK cfg r && brokenCodingOK r && brokenSyntaxOK cfg r && r.real == r.alone && ledgerOK r.events

/-- the class of the REPAIRED finding F61 on an observation: the declared coding's stream breaks
    after a complete document for a selectable reader was delivered.  Excuses nothing
    (`brokenCodingOK` demands the error there as everywhere); the driver reports it so that the
    check can measure that its stream keeps visiting the class. -/
def f61 (cfg : Cfg) (r : ReadObs) : Bool :=
  !r.facts.clean && (accessorsFor cfg r.ct).any r.facts.doc

/-- the class of the REPAIRED finding F62 (8b400b4) on an observation: two registered keys with
    different readers occur in the Content-Type, none equals it (the reader used to depend on Go's
    map iteration order).  Excuses nothing; the driver reports it so that the check can measure
    that its stream keeps visiting the class. -/
def f62 (cfg : Cfg) (r : ReadObs) : Bool := Entity.f62 cfg r.ct

end C16

/-- the property on an observed history -/
def c16Holds (cfg : Cfg) (history : List C16.ReadObs) : Bool := history.all (C16.readHolds cfg)

end Spec
end Restful
