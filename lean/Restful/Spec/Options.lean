/-
C17: Allow headers tell the truth about which methods are routable.
-/
import Restful.Model.Options
import Restful.Model.Route
namespace Restful
namespace Spec

/-- the status a request gets (200 stands for "a route function runs") -/
def statusOf : Outcome → Nat
  | .selected _ _ _ => 200
  | .error c _ => c
  | .panic _ => 500

/-- the method is routable at the URL: not answered 404 or 405 -/
def routable (E : ReEnv) (cfg : Config) (req : Req) (m : Str) : Bool :=
  let s := statusOf (route E cfg { req with method := m })
  s != 404 && s != 405

def sameSet (a b : List Str) : Bool := a.all (b.contains ·) && b.all (a.contains ·)

/-- what the harness observed at one URL: per probed method its status and (for 405) the Allow
    list; the Allow and Access-Control-Allow-Methods lists of the OPTIONS filter; whether a route
    function ran for the OPTIONS request with the filter installed; and whether every other method
    was answered with the filter installed exactly as without it -/
structure AllowObs where
  probes : List (Str × Nat × Option (List Str))   -- method, status, Allow of a 405
  optAllow : List Str
  optACAM : List Str
  optHandlerRan : Bool
  othersUntouched : Bool
  deriving Repr

/-- C17 on an observation (all sets are over the probed methods plus whatever the headers list) -/
def c17Holds (o : AllowObs) : Bool :=
  let routableSet := (o.probes.filter (fun p => p.2.1 != 404 && p.2.1 != 405)).map (·.1)
  let probed := o.probes.map (·.1)
  -- every 405 lists exactly the routable methods (restricted to the probed ones: a header may name
  -- a method nobody probed only if … it must not: it would claim routability)
  o.probes.all (fun p => match p.2.2 with
    | some al => p.2.1 != 405 || (sameSet (al.filter (probed.contains ·)) routableSet && al.all (probed.contains ·))
    | none => p.2.1 != 405) &&
  sameSet (o.optAllow.filter (probed.contains ·)) routableSet && o.optAllow.all (probed.contains ·) &&
  sameSet o.optACAM o.optAllow && !o.optHandlerRan && o.othersUntouched

end Spec
end Restful
