/-
C17: Allow headers tell the truth about which methods are routable.
-/
import Restful.Model.Options
import Restful.Model.Route
namespace Restful
namespace Spec

/-- the status a request gets (200 stands for "a route function runs") -/
def statusOf : Outcome → Nat
  | .selected _ _ _ => 200
  | .error c _ => c
  | .panic _ => 500

/-- the method is routable at the URL: not answered 404 or 405 -/
def routable (E : ReEnv) (cfg : Config) (req : Req) (m : Str) : Bool :=
  let s := statusOf (route E cfg { req with method := m })
  s != 404 && s != 405

def sameSet (a b : List Str) : Bool := a.all (b.contains ·) && b.all (a.contains ·)

/-- what the harness observed at one URL: per probed method its status and (for 405) the Allow
    list; the Allow and Access-Control-Allow-Methods lists of the OPTIONS filter; whether a route
    function ran for the OPTIONS request with the filter installed; and whether every other method
    was answered with the filter installed exactly as without it -/
structure AllowObs where
  probes : List (Str × Nat × Option (List Str))   -- method, status, Allow of a 405
  optAllow : List Str
  optACAM : List Str
  optHandlerRan : Bool
  othersUntouched : Bool
  deriving Repr, DecidableEq

/-- C17 on an observation (all sets are over the probed methods plus whatever the headers list) -/
def c17Holds (o : AllowObs) : Bool :=
  let routableSet := (o.probes.filter (fun p => p.2.1 != 404 && p.2.1 != 405)).map (·.1)
  let probed := o.probes.map (·.1)
  -- every 405 lists exactly the routable methods (restricted to the probed ones: a header may name
  -- a method nobody probed only if … it must not: it would claim routability)
  o.probes.all (fun p => match p.2.2 with
    | some al => p.2.1 != 405 || (sameSet (al.filter (probed.contains ·)) routableSet && al.all (probed.contains ·))
    | none => p.2.1 != 405) &&
  sameSet (o.optAllow.filter (probed.contains ·)) routableSet && o.optAllow.all (probed.contains ·) &&
  sameSet o.optACAM o.optAllow && !o.optHandlerRan && o.othersUntouched

/-! ### OPTIONS probes that carry Access-Control-Request-Method (browser preflights)

"The set listed by the OPTIONS filter (Allow and Access-Control-Allow-Methods) equals the set of
methods … not answered 404 or 405" is a statement about EVERY OPTIONS request the filter answers, with
whatever headers: a preflight names the method of the call to come in Access-Control-Request-Method,
and the filter's two lists must still be the routable methods of the URL (not the requested one, not
nothing).  The harness sends such probes to the container with the filter (allow.go `observe`: one
per value — a routable method, a method that is not, lower case, junk, empty) and records each answer. -/

/-- one OPTIONS probe with an Access-Control-Request-Method header through the OPTIONS filter: the
    header's value, the Allow and Access-Control-Allow-Methods lists of the answer, whether a route
    function ran -/
structure PreflightObs where
  acrm : Str
  allow : List Str
  acam : List Str
  handlerRan : Bool
  deriving Repr, DecidableEq

/-- the clause of `c17Holds` about the filter's answer, for one preflight probe: both lists are the
    routable methods of the URL (the probes of `o`), no route function ran -/
def pfHolds (o : AllowObs) (p : PreflightObs) : Bool :=
  let routableSet := (o.probes.filter (fun p => p.2.1 != 404 && p.2.1 != 405)).map (·.1)
  let probed := o.probes.map (·.1)
  sameSet (p.allow.filter (probed.contains ·)) routableSet && p.allow.all (probed.contains ·) &&
  sameSet p.acam p.allow && !p.handlerRan

/-- C17 on an observation together with its preflight probes (what the driver evaluates) -/
def c17HoldsAll (o : AllowObs) (pfs : List PreflightObs) : Bool := c17Holds o && pfs.all (pfHolds o)

/-! ### the observation the MODEL produces

What the harness (harness/internal/allow/allow.go `observe`) would record if the implementation WERE
the model: the same record `AllowObs`, built from `route` (the probes) and `Options.optionsOut` (the
container with the OPTIONS filter installed).  `Props/C17.lean` proves `c17Holds` of it
(`C17_holds_jsr_partial`, `C17_holds_curly_partial`). -/

/-- the Allow list the harness keeps of an outcome: only that of a 405 (`probe`: `o.Code == 405 && o.Allow != nil`) -/
def allowOf : Outcome → Option (List Str)
  | .error c a => if c = 405 then a else none
  | _ => none

/-- one probe (allow.go `probe`): the method, `statusOf` of what dispatch did with it (200 = a route
    function ran; a panic is recorded as 500, the answer of the recover handler), the Allow list of a
    405.  These are the `(p m status allow)` items the driver prints for an `(allow …)` line. -/
def probeOf (E : ReEnv) (cfg : Config) (req : Req) (m : Str) : Str × Nat × Option (List Str) :=
  let out := route E cfg { req with method := m }
  (m, statusOf out, allowOf out)

/-- what the OPTIONS filter reads of the probe with method `m` -/
def optReqOf (req : Req) (m : Str) : Options.OptReq := { method := m, path := req.path }

/-- `strings.TrimSpace` on an ASCII value -/
def isWS (c : Char) : Bool := c == ' ' || c == '\t' || c == '\n' || c == '\r' || c.toNat == 11 || c.toNat == 12
def trimWS (s : Str) : Str := ((s.dropWhile isWS).reverse.dropWhile isWS).reverse

/-- allow.go `splitList(strings.Join(rec.Header()[name], ","))`: the values of the header joined
    with commas, split at commas, trimmed, empty elements dropped -/
def headerList (name : Str) (hs : List (Str × Str)) : List Str :=
  ((Str.split ',' (Str.join [','] ((hs.filter (fun h => h.1 == name)).map (·.2)))).map trimWS).filter (fun p => !p.isEmpty)

/-- the container with the OPTIONS filter, asked with method `m`: `none` = no such container (a
    template does not compile), else what the filter added and whether it passed the request on -/
def filtered (E : ReEnv) (cfg : Config) (req : Req) (m : Str) : Option Options.Out :=
  Options.optionsOut E cfg (optReqOf req m)

/-- the model's observation at the URL of `req` for the probed `methods` (allow.go `observe`).
    * `probes`: `probeOf` for every method, on the container WITHOUT the filter;
    * `optAllow`, `optACAM`: filled when OPTIONS is among the probed methods — the method list the
      filter puts into Allow / Access-Control-Allow-Methods (`Options.optionsOut` joins
      `computeAllowedMethods` with commas: `C17_filter_options`; `headerList` splits the header again:
      `modelObs_wire`);
    * `optHandlerRan`: with the filter installed a route function runs for OPTIONS only if the filter
      passes the request on AND dispatch then selects a route;
    * `othersUntouched`: for every other probed method the filter adds nothing and passes on, so the
      answer is the one of the container without the filter. -/
def modelObs (E : ReEnv) (cfg : Config) (req : Req) (methods : List Str) : AllowObs :=
  let lists := if methods.contains Cors.sOPTIONS then (Cors.computeAllowedMethods E cfg.services req.path).getD [] else []
  { probes := methods.map (probeOf E cfg req)
    optAllow := lists
    optACAM := lists
    optHandlerRan := methods.contains Cors.sOPTIONS &&
      (match filtered E cfg req Cors.sOPTIONS with
       | some out => out.passOn && statusOf (route E cfg { req with method := Cors.sOPTIONS }) == 200
       | none => false)
    othersUntouched := (methods.filter (· != Cors.sOPTIONS)).all (fun m => filtered E cfg req m == some ⟨[], true⟩) }

/-- the same observation with the two lists DECODED from the headers of the filter's answer, the way
    the harness decodes them from the wire -/
def modelObsWire (E : ReEnv) (cfg : Config) (req : Req) (methods : List Str) : AllowObs :=
  let added := if methods.contains Cors.sOPTIONS then
      (match filtered E cfg req Cors.sOPTIONS with | some out => out.added | none => []) else []
  { modelObs E cfg req methods with
    optAllow := headerList "Allow".toList added
    optACAM := headerList Cors.hAllowMethods added }

/-- what the OPTIONS filter reads of a preflight probe: `optReqOf` plus the requested method -/
def optReqPf (req : Req) (acrm : Str) : Options.OptReq := { method := Cors.sOPTIONS, path := req.path, acrm := acrm }

/-- the model's answer to one preflight probe (allow.go `observe`, the `Preflights` loop), built like
    `modelObs`: the list `Options.optionsOut` joins into Allow and Access-Control-Allow-Methods for a
    request that carries Access-Control-Request-Method = `acrm` (`Allow.filtered_preflight`: the same
    list whatever `acrm` is — options_filter.go never reads the header); a route function runs only if
    the filter passes the request on and dispatch then selects a route -/
def modelPreflight (E : ReEnv) (cfg : Config) (req : Req) (acrm : Str) : PreflightObs :=
  let lists := (Cors.computeAllowedMethods E cfg.services req.path).getD []
  { acrm := acrm, allow := lists, acam := lists
    handlerRan := match Options.optionsOut E cfg (optReqPf req acrm) with
      | some out => out.passOn && statusOf (route E cfg { req with method := Cors.sOPTIONS }) == 200
      | none => false }

/-- a method name that survives the comma-separated header: a non-empty run of visible ASCII
    characters other than the comma (every HTTP token is one) -/
def methodToken (m : Str) : Bool := !m.isEmpty && m.all (fun c => decide (33 ≤ c.toNat ∧ c.toNat < 127) && c != ',')

end Spec
end Restful
