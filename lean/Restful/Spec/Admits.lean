/-
Declarative admission: what it means for a request to be admitted by a route declaration
(C01), stated position-wise on structured templates — not by index arithmetic.
-/
import Restful.Spec.Template
import Restful.Model.Route
namespace Restful
open Str

namespace Spec
variable (E : ReEnv)

/-- how a router reads a regex variable: CurlyRouter searches, RouterJSR311 matches the whole segment -/
def reOKFor (k : RouterKind) (e q : Str) : Bool :=
  match k with
  | .curly => E.search e q
  | .jsr => E.full e q

/-- one URL segment against one template token (verb already removed) -/
def tokOK (k : RouterKind) : Tok → Str → Bool
  | .lit s, q => q == s
  | .var _, q => (match k with | .curly => true | .jsr => !q.isEmpty)
  | .re _ e, q => reOKFor E k e q
  | .suf _ suffix, q => hasSuffix suffix q
  | .wild _, _ => true

/-- the segment without its `:verb` ending -/
def stripVerb (v q : Str) : Str := q.take (q.length - (v.length + 1))

/-- one URL segment against one template token, custom verb included -/
def segOK (k : RouterKind) (t : TTok) (q : Str) : Bool :=
  match t.verb with
  | none => tokOK E k t.base q
  | some v => hasSuffix (':' :: v) q && tokOK E k t.base (stripVerb v q)

/-- position-wise admission: same number of segments unless the template ends in the tail wildcard -/
def admits (k : RouterKind) : List TTok → List Str → Bool
  | [], qs => qs.isEmpty
  | _ :: _, [] => false
  | t :: ts, q :: qs => if t.base.isWild && ts.isEmpty then true else segOK E k t q && admits k ts qs

/-- the URL's segments as RouterJSR311 sees them: the text between slashes, leading slash required -/
def rawSegments (p : Str) : Option (List Str) :=
  match p with
  | [] => some []
  | '/' :: r => some (split '/' r)
  | _ => none

/-- the segmentation under which the template admits the path, if any.
    CurlyRouter: slashes at both ends are trimmed first.  RouterJSR311: the raw segments, or — one
    trailing slash being tolerated — the raw segments without a final empty one. -/
def admittedSegments (k : RouterKind) (ts : List TTok) (p : Str) : Option (List Str) :=
  match k with
  | .curly => if admits E .curly ts (tokenize p) then some (tokenize p) else none
  | .jsr =>
    match rawSegments p with
    | none => none
    | some segs =>
      if admits E .jsr ts segs then some segs
      else if segs.getLast? == some [] && admits E .jsr ts segs.dropLast then some segs.dropLast
      else none

/-- tokens of a declared path that are not empty (what RouterJSR311 compiles) -/
def nonEmptyToks (p : Str) : List Str := (tokenize p).filter (fun t => !t.isEmpty)

/-- RouterJSR311 documents literals, `{v}`, `{v:regex}` and the tail wildcard only -/
def tokJsrOK (t : TTok) : Bool :=
  t.verb.isNone && (match t.base with
    | .suf _ _ => false
    | _ => true)

/-- the checked structured reading of root path + route path for RouterJSR311 -/
def readTemplateJ (root rel : Str) : Option (List TTok) :=
  match readToks (nonEmptyToks root), readToks (nonEmptyToks rel) with
  | some a, some b =>
    if shapeOK (a ++ b) && (a ++ b).all tokJsrOK && (varNames (a ++ b)).Nodup then some (a ++ b) else none
  | _, _ => none

/-- the full path template of a built route, as the router in use reads it -/
def templateOf (k : RouterKind) (r : Route) : Option (List TTok) :=
  match k with
  | .curly => readTemplate r.path
  | .jsr => readTemplateJ r.root r.relPath

/-- "Accept is satisfiable from Produces": some range is `*/*` or names a produced type -/
def acceptOK (produces : List Str) (accept : Str) : Bool :=
  let a := if accept.isEmpty then starStar else accept
  (split ',' a).any (fun piece => mediaOf piece == starStar || produces.any (fun p => p == starStar || p == mediaOf piece))

def consumesAny (consumes : List Str) (ct : Str) : Bool :=
  (split ',' ct).any (fun piece => consumes.any (fun c => c == starStar || c == mediaOf piece))

/-- "Content-Type is admitted by Consumes" (no Consumes = anything; no Content-Type = allowed for
    the methods that carry no body, else treated as `application/octet-stream`) -/
def consumesOK (r : Route) (ct : Str) : Bool :=
  r.consumes.isEmpty ||
  (if ct.isEmpty then
     (if !r.noct.isEmpty then r.noct.contains r.method else idempotentMethods.contains r.method) ||
       consumesAny r.consumes mimeOctet
   else consumesAny r.consumes ct)

/-- everything C01 lists, for one built route -/
def admitsRequest (k : RouterKind) (r : Route) (req : Req) : Bool :=
  req.method == r.method &&
  (match templateOf k r with
   | some ts => (admittedSegments E k ts req.path).isSome
   | none => false) &&
  consumesOK r req.contentType && acceptOK r.produces req.accept && passesConds r req

/-- C01 as a predicate on an observed outcome: if a route function ran, some declaration with
    its identity admits the request -/
def c01Holds (cfg : Config) (req : Req) (o : Outcome) : Bool :=
  match o with
  | .selected s r _ =>
    cfg.services.any (fun svc => svc.id == s && svc.built.any (fun rt => rt.id == r && admitsRequest E cfg.router rt req))
  | _ => true

/-- **identities identify** (hypothesis of the `…_unique` theorems of C01/C03/C04; reported by the
    driver inside `WF`): WebService ids are pairwise distinct and route ids are pairwise distinct
    within each WebService.  `c01Holds`, `c03Holds`, `c04Holds` name the route that ran by the pair
    (service id, route id) only; on a table with this property exactly one declaration carries
    that pair (`Spec.routeOfIds`), so the predicates speak about the route that ran and no other.
    (= `serviceIdsDistinct && routeIdsDistinct` of Spec/Common.lean: `Spec.idsDistinct_eq`.) -/
def idsDistinct (cfg : Config) : Bool :=
  decide ((cfg.services.map (·.id)).Nodup) && cfg.services.all (fun s => decide ((s.routes.map (·.id)).Nodup))

/-- the declaration an identity (service id, route id) stands for: the first WebService with
    that id and the first of its built routes with that id (under `idsDistinct`: the only ones) -/
def routeOfIds (cfg : Config) (s r : Nat) : Option (Service × Route) :=
  match cfg.services.find? (fun svc => svc.id == s) with
  | some svc => (svc.built.find? (fun rt => rt.id == r)).map (fun rt => (svc, rt))
  | none => none

end Spec

/-- configuration well-formedness for the routing theorems: every route path reads as a
    structured template of the grammar -/
def Config.wfTemplates (cfg : Config) : Bool :=
  cfg.services.all (fun s => s.built.all (fun r => (Spec.templateOf cfg.router r).isSome))

end Restful
