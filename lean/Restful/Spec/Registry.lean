/-
C11 as predicates over what was observed.

* `c11Holds`: one probe request was answered by the history-built container and by a newly built
  container with the same content, through `Dispatch` and through `ServeHTTP`; the property says the
  answers coincide (status, which function / handler ran, parameters, Allow set, redirect location).
* `c11AddTotalHolds`: services with the root paths `roots` were registered, in that order, on a new
  ServeMux that already held the plain patterns `plain`; the property says this does not panic or
  exit when the root paths are pairwise different (a clash with a pattern the user registered through
  `Handle` is the documented behaviour of `Handle`, not a defect of `Add`).

The classes of the two open findings are decidable predicates defined here as well: they are the
extra hypotheses of the `_partial` theorems of `Props/C11.lean`.
-/
import Restful.Model.Registry
namespace Restful
namespace Spec
open Str Registry

structure Observed where
  histDispatch : Answer
  freshDispatch : Answer
  histServe : Answer
  freshServe : Answer
  deriving DecidableEq, Repr

def c11Holds (o : Observed) : Bool :=
  o.histDispatch == o.freshDispatch && o.histServe == o.freshServe

/-- `l` has no repeated element -/
def distinctB : List Str → Bool
  | [] => true
  | x :: xs => !xs.contains x && distinctB xs

/-- the service lands on the pattern `/` -/
def isRootPattern (root : Str) : Bool :=
  fixedPrefixPath root == ['/'] || fixedPrefixPath root == []

/-- the ServeMux patterns `addHandler` registers for a service with this root path -/
def regPatterns (root : Str) : List Str :=
  if isRootPattern root then [['/']]
  else if hasSuffix ['/'] (fixedPrefixPath root) then [fixedPrefixPath root]
  else [fixedPrefixPath root, fixedPrefixPath root ++ ['/']]

/-- the patterns registered for the services with these roots, in order, starting with
    `isRegisteredOnRoot = onRoot`: nothing is registered any more once a service landed on `/` -/
def patsFrom : List Str → Bool → List Str
  | [], _ => []
  | r :: rs, onRoot => if onRoot then [] else regPatterns r ++ patsFrom rs (isRootPattern r)

def flagFrom : List Str → Bool → Bool
  | [], onRoot => onRoot
  | r :: rs, onRoot => if onRoot then true else flagFrom rs (isRootPattern r)

def c11AddTotalHolds (roots plain : List Str) (panicked : Bool) : Bool :=
  !panicked || !distinctB roots || (patsFrom roots false).any (plain.contains ·)

/-- class of finding F11: two services would register the same ServeMux pattern although their root
    paths differ ("fixed prefixes collide") -/
def F11 (roots : List Str) : Bool := !distinctB (patsFrom roots false)

/-- no `Handle` is followed by a `Remove` (`seen`: a `Handle` already happened) -/
def noHandleBeforeRemove : List Op → Bool → Bool
  | [], _ => true
  | .handle _ _ :: rest, _ => noHandleBeforeRemove rest true
  | .remove _ :: rest, seen => !seen && noHandleBeforeRemove rest seen
  | _ :: rest, seen => noHandleBeforeRemove rest seen

/-- class of finding F10b: some `Handle`/`HandleWithFilter` precedes a `Remove` -/
def F10b (ops : List Op) : Bool := !noHandleBeforeRemove ops false

end Spec
end Restful
