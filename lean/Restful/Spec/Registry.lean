/-
C11 as predicates over what was observed.

* `c11Holds`: one probe request was answered by the history-built container and by a newly built
  container with the same content, through `Dispatch` and through `ServeHTTP`; the property says the
  answers coincide (status, which function / handler ran, parameters, Allow set, redirect location).
* `c11AddTotalHolds`: services with the root paths `roots` were registered, in that order, on a new
  ServeMux that already held the plain patterns `plain`; the property says this does not panic or
  exit when the root paths are pairwise different (a clash with a pattern the user registered through
  `Handle` is the documented behaviour of `Handle`, not a defect of `Add`).

`F10b` is the class of the one open finding (the extra hypothesis of `C11_serve_partial`).  `F11` was
the class of a finding repaired by 093fa53 (services with different root paths that want the same
ServeMux pattern): no theorem assumes it any more; it stays defined because the check measures how
often its histories visit it (a regression there must not go unnoticed).
-/
import Restful.Model.Registry
namespace Restful
namespace Spec
open Str Registry

structure Observed where
  histDispatch : Answer
  freshDispatch : Answer
  histServe : Answer
  freshServe : Answer
  deriving DecidableEq, Repr

def c11Holds (o : Observed) : Bool :=
  o.histDispatch == o.freshDispatch && o.histServe == o.freshServe

/-- `l` has no repeated element -/
def distinctB : List Str → Bool
  | [] => true
  | x :: xs => !xs.contains x && distinctB xs

/-- the service lands on the pattern `/` -/
def isRootPattern (root : Str) : Bool :=
  fixedPrefixPath root == ['/'] || fixedPrefixPath root == []

/-- the ServeMux patterns `addHandler` registers for a service with this root path -/
def regPatterns (root : Str) : List Str :=
  if isRootPattern root then [['/']]
  else if hasSuffix ['/'] (fixedPrefixPath root) then [fixedPrefixPath root]
  else [fixedPrefixPath root, fixedPrefixPath root ++ ['/']]

/-- the patterns the services with these roots WANT, in order, starting with
    `isRegisteredOnRoot = onRoot` (a pattern wanted by two services occurs twice): nothing is wanted
    any more once a service landed on `/` -/
def patsFrom : List Str → Bool → List Str
  | [], _ => []
  | r :: rs, onRoot => if onRoot then [] else regPatterns r ++ patsFrom rs (isRootPattern r)

/-- the patterns `addHandler` registers for a service with this root path when the patterns `seen`
    are mapped by the services registered before: those of its patterns that are missing (the
    pattern `/` is registered without looking) -/
def newPatterns (seen : List Str) (root : Str) : List Str :=
  if isRootPattern root then [['/']] else (regPatterns root).filter fun p => !seen.contains p

/-- the patterns REGISTERED for the services with these roots, in order (`seen`: the patterns mapped
    by the services registered before): `patsFrom` without the repetitions -/
def regFrom : List Str → List Str → Bool → List Str
  | [], _, _ => []
  | r :: rs, seen, onRoot =>
    if onRoot then [] else newPatterns seen r ++ regFrom rs (seen ++ mappedOf r) (isRootPattern r)

def flagFrom : List Str → Bool → Bool
  | [], onRoot => onRoot
  | r :: rs, onRoot => if onRoot then true else flagFrom rs (isRootPattern r)

def c11AddTotalHolds (roots plain : List Str) (panicked : Bool) : Bool :=
  !panicked || !distinctB roots || (patsFrom roots false).any (plain.contains ·)

/-- class of the REPAIRED finding F11 (093fa53): two services want the same ServeMux pattern although
    their root paths differ ("fixed prefixes collide").  A coverage class only: nothing assumes it. -/
def F11 (roots : List Str) : Bool := !distinctB (patsFrom roots false)

/-- no `Handle` is followed by a `Remove` (`seen`: a `Handle` already happened) -/
def noHandleBeforeRemove : List Op → Bool → Bool
  | [], _ => true
  | .handle _ _ :: rest, _ => noHandleBeforeRemove rest true
  | .remove _ :: rest, seen => !seen && noHandleBeforeRemove rest seen
  | _ :: rest, seen => noHandleBeforeRemove rest seen

/-- class of finding F10b: some `Handle`/`HandleWithFilter` precedes a `Remove` -/
def F10b (ops : List Op) : Bool := !noHandleBeforeRemove ops false

end Spec
end Restful
