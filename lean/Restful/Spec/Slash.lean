/- C14: decidable form of the hypothesis of the RouterJSR311 trailing-slash theorem -/
import Restful.Model.Jsr
namespace Restful
namespace Spec

def jtokSlashSafeB (E : ReEnv) : Jsr.JTok → Bool
  | .lit s => !s.isEmpty
  | .var _ => true
  | .re _ e => !E.full e []
  | .wild _ => false

def exprSlashSafeB (E : ReEnv) (template : Str) : Bool :=
  match Jsr.compile template with
  | some ex => ex.toks.all (jtokSlashSafeB E)
  | none => true

/-- no tail wildcard anywhere in the table, no regex variable that matches the empty segment -/
def jsrSlashSafeB (E : ReEnv) (cfg : Config) : Bool :=
  cfg.services.all (fun svc => exprSlashSafeB E svc.rootPath && svc.built.all (fun rt => exprSlashSafeB E rt.relPath))

/-- the table uses a tail wildcard somewhere (outside C14 for RouterJSR311) -/
def jsrHasWildcard (cfg : Config) : Bool :=
  cfg.services.any (fun svc => svc.built.any (fun rt =>
    match Jsr.compile rt.relPath, Jsr.compile svc.rootPath with
    | some ex, some wex => (ex.toks ++ wex.toks).any (fun t => match t with | .wild _ => true | _ => false)
    | _, _ => false))

end Spec
end Restful
