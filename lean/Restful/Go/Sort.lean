/-
`sort.Sort` for n ≤ 12 is Go's `insertionSort` (zsortinterface.go, maxInsertion = 12):

    for i := a + 1; i < b; i++ { for j := i; j > a && data.Less(j, j-1); j-- { data.Swap(j, j-1) } }

i.e. each element walks left past every neighbour it is `Less` than.  This is that loop,
structurally recursive so that the kernel can evaluate it.
-/
namespace Restful.Sort

variable {α : Type}

/-- insert `x` at the right end of the (reversed) sorted prefix, walking left while `less x y` -/
def insRev (less : α → α → Bool) (x : α) : List α → List α
  | [] => [x]
  | y :: ys => if less x y then y :: insRev less x ys else x :: y :: ys

def sortRev (less : α → α → Bool) : List α → List α → List α
  | acc, [] => acc
  | acc, x :: xs => sortRev less (insRev less x acc) xs

/-- Go's `insertionSort` with `Less i j := less data[i] data[j]` -/
def insertionSort (less : α → α → Bool) (l : List α) : List α := (sortRev less [] l).reverse

theorem insRev_perm (less : α → α → Bool) (x : α) (l : List α) : (insRev less x l).Perm (x :: l) := by
  induction l with
  | nil => simp [insRev]
  | cons y ys ih =>
    unfold insRev
    split
    · exact (List.Perm.cons y ih).trans (List.Perm.swap x y ys)
    · exact List.Perm.refl _

theorem sortRev_perm (less : α → α → Bool) (acc l : List α) : (sortRev less acc l).Perm (acc ++ l) := by
  induction l generalizing acc with
  | nil => simp [sortRev]
  | cons x xs ih =>
    unfold sortRev
    refine (ih _).trans ?_
    have := insRev_perm less x acc
    refine (List.Perm.append_right xs this).trans ?_
    simpa using (List.perm_middle (a := x) (l₁ := acc) (l₂ := xs)).symm

theorem insertionSort_perm (less : α → α → Bool) (l : List α) : (insertionSort less l).Perm l := by
  unfold insertionSort
  exact (List.reverse_perm _).trans (by simpa using sortRev_perm less [] l)

end Restful.Sort
