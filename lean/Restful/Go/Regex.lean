/-
A small regular-expression engine: language membership only (Brzozowski derivatives).
It stands in for Go's `regexp.MatchString(re, s)` (unanchored search) and for a full
match of one segment, on the syntax subset the generators use:

  literals, `\` escapes (`\d \w \s` and escaped punctuation), `.`, classes `[a-z0-9_]`
  and negated classes `[^…]`, groups `( )`, alternation `|`, postfix `* + ?` and the counted
  repetitions `{n}`, `{n,}`, `{n,m}`,
  `^` at the very beginning and `$` at the very end.

Anything else makes `parse` return `none`; Go's `regexp.MatchString` returns an error for
an invalid expression and CurlyRouter treats that as "no match", so the model does the same.
The theorems never look inside: they quantify over an abstract `reSearch : Str → Str → Bool`.
-/
import Restful.Go.Str
namespace Restful

/-- a set of characters: ranges, possibly negated -/
structure CharSet where
  neg : Bool
  ranges : List (Char × Char)
  deriving Repr, DecidableEq

def CharSet.mem (cs : CharSet) (c : Char) : Bool :=
  let inside := cs.ranges.any (fun r => r.1.toNat ≤ c.toNat && c.toNat ≤ r.2.toNat)
  if cs.neg then !inside else inside

inductive RE where
  | empty                 -- matches nothing
  | eps                   -- matches ""
  | set (cs : CharSet)
  | seq (a b : RE)
  | alt (a b : RE)
  | star (a : RE)
  deriving Repr, DecidableEq

namespace RE

def nullable : RE → Bool
  | empty => false
  | eps => true
  | set _ => false
  | seq a b => nullable a && nullable b
  | alt a b => nullable a || nullable b
  | star _ => true

def mkSeq (a b : RE) : RE :=
  match a, b with
  | empty, _ => empty
  | _, empty => empty
  | eps, b => b
  | a, eps => a
  | a, b => seq a b

def mkAlt (a b : RE) : RE :=
  match a, b with
  | empty, b => b
  | a, empty => a
  | a, b => if a = b then a else alt a b

def deriv (c : Char) : RE → RE
  | empty => empty
  | eps => empty
  | set cs => if cs.mem c then eps else empty
  | seq a b => if nullable a then mkAlt (mkSeq (deriv c a) b) (deriv c b) else mkSeq (deriv c a) b
  | alt a b => mkAlt (deriv c a) (deriv c b)
  | star a => mkSeq (deriv c a) (star a)

/-- does `r` match the whole of `s` -/
def fullMatch (r : RE) : Str → Bool
  | [] => nullable r
  | c :: cs => fullMatch (deriv c r) cs

def anyChar : RE := set ⟨true, []⟩
/-- Go's `.` without the `s` flag: anything but newline -/
def dot : RE := set ⟨true, [('\n', '\n')]⟩

end RE

/-- a parsed expression with its top-level anchors -/
structure Regex where
  anchoredStart : Bool
  anchoredEnd : Bool
  body : RE
  deriving Repr

namespace Regex

def digit : CharSet := ⟨false, [('0', '9')]⟩
def word : CharSet := ⟨false, [('0', '9'), ('A', 'Z'), ('a', 'z'), ('_', '_')]⟩
def space : CharSet := ⟨false, [('\t', '\n'), ('\x0c', '\r'), (' ', ' ')]⟩

def isMeta (c : Char) : Bool := "\\.+*?()|[]{}^$".toList.contains c

/-- class body after `[` (and after an optional `^`); returns ranges and the rest after `]` -/
def parseClass : Nat → Str → List (Char × Char) → Option (List (Char × Char) × Str)
  | 0, _, _ => none
  | _ + 1, [], _ => none
  | _ + 1, ']' :: rest, acc => if acc.isEmpty then none else some (acc.reverse, rest)
  | fuel + 1, '\\' :: c :: rest, acc =>
    if c == 'd' then parseClass fuel rest (digit.ranges.reverse ++ acc)
    else if c == 'w' then parseClass fuel rest (word.ranges.reverse ++ acc)
    else if c == 's' then parseClass fuel rest (space.ranges.reverse ++ acc)
    else if isMeta c || c == '-' || c == '/' then parseClass fuel rest ((c, c) :: acc)
    else none
  | fuel + 1, a :: '-' :: b :: rest, acc =>
    if b == ']' then parseClass fuel (b :: rest) (('-', '-') :: (a, a) :: acc)
    else if b == '\\' || a == '[' then none
    else if a.toNat ≤ b.toNat then parseClass fuel rest ((a, b) :: acc) else none
  | fuel + 1, a :: rest, acc =>
    if a == '[' then none else parseClass fuel rest ((a, a) :: acc)

/-- `a` exactly `n` times -/
def rep (a : RE) : Nat → RE
  | 0 => RE.eps
  | n + 1 => RE.seq a (rep a n)

/-- `a` at most `n` times: `(a(a(…)?)?)?` -/
def repOpt (a : RE) : Nat → RE
  | 0 => RE.eps
  | n + 1 => RE.alt RE.eps (RE.seq a (repOpt a n))

def isDigit (c : Char) : Bool := '0' ≤ c && c ≤ '9'

def natOf (ds : Str) : Nat := ds.foldl (fun n c => 10 * n + (c.toNat - '0'.toNat)) 0

/-- the counted repetition after `{`: `n}`, `n,}` or `n,m}` (Go: both at most 1000, `n ≤ m`); gives
    the expression for atom `a` and the text after `}`; `none` = not a repetition -/
def parseCount (a : RE) (s : Str) : Option (RE × Str) :=
  let ds := s.takeWhile isDigit
  let n := natOf ds
  if ds.isEmpty || n > 1000 then none else
  match s.dropWhile isDigit with
  | '}' :: rest => some (rep a n, rest)
  | ',' :: '}' :: rest => some (RE.seq (rep a n) (RE.star a), rest)
  | ',' :: more =>
    let ms := more.takeWhile isDigit
    let m := natOf ms
    if ms.isEmpty || m > 1000 || m < n then none else
    match more.dropWhile isDigit with
    | '}' :: rest => some (RE.seq (rep a n) (repOpt a (m - n)), rest)
    | _ => none
  | _ => none

mutual
/-- alternation level; stops at `)` or end of input -/
def parseAlt : Nat → Str → Option (RE × Str)
  | 0, _ => none
  | fuel + 1, s =>
    match parseSeq fuel s RE.eps with
    | none => none
    | some (a, '|' :: rest) =>
      match parseAlt fuel rest with
      | some (b, rest') => some (RE.alt a b, rest')
      | none => none
    | some (a, rest) => some (a, rest)

/-- concatenation level -/
def parseSeq : Nat → Str → RE → Option (RE × Str)
  | 0, _, _ => none
  | _ + 1, [], acc => some (acc, [])
  | fuel + 1, c :: rest, acc =>
    if c == '|' || c == ')' then some (acc, c :: rest)
    else
      match parseAtom fuel (c :: rest) with
      | none => none
      | some (a, rest') =>
        let (a', rest'') := parsePostfix fuel a rest'
        parseSeq fuel rest'' (RE.seq acc a')

def parseAtom : Nat → Str → Option (RE × Str)
  | 0, _ => none
  | _ + 1, [] => none
  | fuel + 1, '(' :: rest =>
    -- `(?:` non-capturing prefix is accepted
    let rest := match rest with
      | '?' :: ':' :: r => r
      | r => r
    match parseAlt fuel rest with
    | some (a, ')' :: rest') => some (a, rest')
    | _ => none
  | fuel + 1, '[' :: '^' :: rest =>
    match parseClass fuel rest [] with
    | some (rs, rest') => some (RE.set ⟨true, rs⟩, rest')
    | none => none
  | fuel + 1, '[' :: rest =>
    match parseClass fuel rest [] with
    | some (rs, rest') => some (RE.set ⟨false, rs⟩, rest')
    | none => none
  | _ + 1, '.' :: rest => some (RE.dot, rest)
  | _ + 1, '\\' :: c :: rest =>
    if c == 'd' then some (RE.set digit, rest)
    else if c == 'w' then some (RE.set word, rest)
    else if c == 's' then some (RE.set space, rest)
    else if isMeta c || c == '-' || c == '/' then some (RE.set ⟨false, [(c, c)]⟩, rest)
    else none
  | _ + 1, c :: rest =>
    if isMeta c then none else some (RE.set ⟨false, [(c, c)]⟩, rest)

def parsePostfix : Nat → RE → Str → RE × Str
  | 0, a, s => (a, s)
  | fuel + 1, a, '*' :: rest => parsePostfixDone fuel (RE.star a) rest
  | fuel + 1, a, '+' :: rest => parsePostfixDone fuel (RE.seq a (RE.star a)) rest
  | fuel + 1, a, '?' :: rest => parsePostfixDone fuel (RE.alt a RE.eps) rest
  | fuel + 1, a, '{' :: rest =>
    match parseCount a rest with
    | some (r, rest') => parsePostfixDone fuel r rest'
    | none => (a, '{' :: rest)
  | _ + 1, a, s => (a, s)

/-- a lazy marker `?` after a quantifier does not change the language -/
def parsePostfixDone : Nat → RE → Str → RE × Str
  | _, a, '?' :: rest => (a, rest)
  | _, a, s => (a, s)
end

/-- parse the supported subset; `none` = not supported here (or invalid) -/
def parse (s : Str) : Option Regex :=
  let (st, s1) := match s with
    | '^' :: r => (true, r)
    | r => (false, r)
  let (en, s2) := match s1.reverse with
    | '$' :: '\\' :: _ => (false, s1)
    | '$' :: r => (true, r.reverse)
    | _ => (false, s1)
  match parseAlt (2 * s.length + 4) s2 with
  | some (r, []) => some ⟨st, en, r⟩
  | _ => none

/-- `regexp.MatchString(re, s)`: is there a match anywhere in `s` -/
def search (r : Regex) (s : Str) : Bool :=
  let pre := if r.anchoredStart then RE.eps else RE.star RE.anyChar
  let post := if r.anchoredEnd then RE.eps else RE.star RE.anyChar
  RE.fullMatch (RE.seq pre (RE.seq r.body post)) s

/-- does the expression match exactly `s` (what a group between fixed delimiters must do) -/
def full (r : Regex) (s : Str) : Bool := RE.fullMatch r.body s

end Regex

/-- the driver's instance of `reSearch`: invalid/unsupported ⇒ no match (as `matched && err == nil`) -/
def reSearchImpl (re s : Str) : Bool :=
  match Regex.parse re with
  | some r => r.search s
  | none => false

def reFullImpl (re s : Str) : Bool :=
  match Regex.parse re with
  | some r => r.full s
  | none => false

end Restful
