/-
Go string primitives over `List Char` (one `Char` per Go *byte*).
Every definition is structurally recursive (or a composition of core list
functions that are), so that `decide` can evaluate the model in the kernel.
-/
namespace Restful

abbrev Str := List Char

namespace Str

/-- `strings.TrimLeft(s, string(c))` for a one-character cutset -/
def trimLeft (c : Char) (s : Str) : Str := s.dropWhile (· == c)
/-- `strings.TrimRight(s, string(c))` -/
def trimRight (c : Char) (s : Str) : Str := (s.reverse.dropWhile (· == c)).reverse
/-- `strings.Trim(s, string(c))` -/
def trim (c : Char) (s : Str) : Str := trimRight c (trimLeft c s)

/-- `strings.HasPrefix(s, p)` -/
def hasPrefix (p s : Str) : Bool := p.isPrefixOf s
/-- `strings.HasSuffix(s, p)` -/
def hasSuffix (p s : Str) : Bool := p.isSuffixOf s

/-- `strings.Index(s, string(c))`, `none` for -1 -/
def index (c : Char) (s : Str) : Option Nat := s.idxOf? c

/-- `strings.Index(s, needle)`, `none` for -1 -/
def indexSub (needle : Str) : Str → Option Nat
  | [] => if needle.isEmpty then some 0 else none
  | c :: cs =>
    if needle.isPrefixOf (c :: cs) then some 0
    else (indexSub needle cs).map (· + 1)

/-- `strings.Contains(s, needle)` -/
def containsSub (needle s : Str) : Bool := (indexSub needle s).isSome

/-- `strings.Join(parts, sep)` -/
def join (sep : Str) (parts : List Str) : Str := sep.intercalate parts

/-- `strings.Split(s, string(c))` -/
def split (c : Char) (s : Str) : List Str := s.splitOn c

def lowerChar (c : Char) : Char :=
  if 'A' ≤ c ∧ c ≤ 'Z' then Char.ofNat (c.toNat + 32) else c
/-- ASCII `strings.ToLower` (the driver's instance of the abstract `lower`) -/
def toLowerAscii (s : Str) : Str := s.map lowerChar

/-- bytewise `a < b` on Go strings -/
def lt : Str → Str → Bool
  | [], [] => false
  | [], _ :: _ => true
  | _ :: _, [] => false
  | a :: as, b :: bs => if a.toNat < b.toNat then true else if b.toNat < a.toNat then false else lt as bs

/-- Go slice expression `s[i:j]`; `none` is the run-time panic -/
def slice? (s : Str) (i j : Int) : Option Str :=
  if 0 ≤ i ∧ i ≤ j ∧ j ≤ (s.length : Int) then some ((s.drop i.toNat).take (j.toNat - i.toNat)) else none

def isSpaceOnly (c : Char) : Bool := c == ' '

end Str
end Restful
