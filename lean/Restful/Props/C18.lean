/-
C18 — CurlyRouter and RouterJSR311 agree wherever both are specified.

Tables of the common fragment (`Spec.wfCommon`: literal root paths; route segments literal or plain
variable; both routers read every full template alike), clean and pairwise different roots, route
ids distinct per service; normal request paths (`Spec.normalPath`: one leading slash, no empty
segment except one trailing slash, no newline).

Full statement (false on the current code, see the witnesses):
  theorem C18_agree (hwf : wfCommon cfg) … : sameOutcome (route E (cfg with curly) req) (route E (cfg with jsr) req)
What the proof leaves open are three classes, each an open finding with a `decide`d witness:
  F15  empty segments / missing leading slash  (CurlyRouter tolerant, RouterJSR311 strict)
  F16  newline in the path                     (`.` in the compiled expression)
  F17  different ranking keys among same-method candidates (literal segments vs literal characters)
-/
import Restful.Lemmas.Agree
import Restful.Lemmas.StateShape
import Restful.Lemmas.TieOrder
import Restful.Lemmas.TieImpMatch
import Restful.Lemmas.TieImpScore
import Restful.Lemmas.TieImpTemplate
import Restful.Lemmas.TieImpCurlySel
import Restful.Lemmas.TieImpJsrSel
import Restful.Lemmas.TieImpDetect
import Restful.Lemmas.TieImpSelect
namespace Restful
namespace Props
variable (E : ReEnv)

/-- candidate sets coincide: on a normal path a common-fragment template is admitted by one router
    iff by the other, with the same segmentation and the same expected parameters -/
theorem C18_admission_agrees (ts : List TTok) (hts : ∀ t ∈ ts, t.wf = true ∧ Spec.tokCommon t = true)
    (p : Str) (hp : Spec.normalPath p = true) :
    Spec.admits E .curly ts (tokenize p) = (Spec.admittedSegments E .jsr ts p).isSome ∧
    ∀ segs, Spec.admittedSegments E .jsr ts p = some segs →
      segs = tokenize p ∧ Spec.expectedParams ts segs = Spec.expectedParams ts (tokenize p) :=
  Restful.C18_admission_agrees E ts hts p hp

/-- both routers pick the same WebService (the longest literal root that is a prefix of the path),
    or neither finds one; neither panics (literal roots: CurlyRouter's scoring, which since fix
    19aa57d evaluates the expressions of `{name:regex}` root tokens, meets no such token) -/
theorem C18_service_agrees (cfg : Config) (hwf : Spec.wfCommon cfg = true)
    (hroots : Spec.rootsDistinct cfg = true) (hclean : Spec.rootsClean cfg = true)
    (p : Str) (hp : Spec.normalPath p = true) :
    match Curly.detectWebService E (tokenize p) cfg.services none, Jsr.detectDispatcher E cfg.services p with
    | some none, some none => True
    | some (some (s, _)), some (some (s', _)) => s = s'
    | _, _ => False :=
  Restful.C18_service_agrees E cfg hwf hroots hclean p hp

/-- the two routers give the same outcome — the same route function with the same parameter
    values, or the same error status with the same Allow set — never "one selects, the other
    errors"; `ranksAgree` is only used when both select -/
theorem C18_agree_partial (cfg : Config) (hwf : Spec.wfCommon cfg = true)
    (hroots : Spec.rootsDistinct cfg = true) (hclean : Spec.rootsClean cfg = true)
    (hids : Spec.routeIdsDistinct cfg = true)
    (req : Req) (hp : Spec.normalPath req.path = true) (hr : Spec.ranksAgree E cfg req = true) :
    Spec.sameOutcome (route E (Spec.withRouter cfg .curly) req) (route E (Spec.withRouter cfg .jsr) req) :=
  Restful.C18_agree_partial E cfg hwf hroots hclean hids req hp hr

/-- a structural condition for `ranksAgree`: at most one route of the detected service both admits
    the path and is eligible for the request -/
theorem C18_ranksAgree_of_unique_eligible (cfg : Config) (hwf : Spec.wfCommon cfg = true)
    (hroots : Spec.rootsDistinct cfg = true) (hclean : Spec.rootsClean cfg = true)
    (req : Req) (hp : Spec.normalPath req.path = true)
    (huniq : ∀ svc sc, Curly.detectWebService E (tokenize req.path) cfg.services none = some (some (svc, sc)) →
      ∀ r1 ∈ svc.built, ∀ r2 ∈ svc.built,
        Spec.pathAdmits E .curly r1 req.path = true → Spec.pathAdmits E .curly r2 req.path = true →
        Spec.eligible r1 req = true → Spec.eligible r2 req = true → r1 = r2) :
    Spec.ranksAgree E cfg req = true :=
  Restful.C18_ranksAgree_of_unique_eligible E cfg hwf hroots hclean req hp huniq

/-! ### non-vacuity (audit)

`C18_agree_partial` has its `decide`d instance in Lemmas/Agree.lean (`C18Witness.cfg`: `/users` with
GET `/{id}`, GET `/me`, POST `/{id}`; `/users/admin` with GET `/{thing}/log` — nested literal roots).
Added here: the other three theorems on the same table with all their hypotheses, requests on which
several routes are candidates, and the fact that `Spec.sameOutcome` / the admission equation are not
trivially true. -/
namespace C18Audit
open C18Witness

/-- the full template of route 10 (`/users/{id}`), as both routers read it -/
def tsId : List TTok := [⟨.lit "users".toList, none⟩, ⟨.var "id".toList, none⟩]

example : readTemplate "/users/{id}".toList = some tsId ∧ Spec.readTemplateJ "/users".toList "/{id}".toList = some tsId ∧
    (∀ t ∈ tsId, t.wf = true ∧ Spec.tokCommon t = true) ∧ Spec.normalPath "/users/7/".toList = true := by
  decide
/-- `C18_admission_agrees`: admitted by both (with and without the trailing slash) … -/
example := C18_admission_agrees E0 tsId (by decide) "/users/7/".toList (by decide)
example : Spec.admits E0 .curly tsId (tokenize "/users/7/".toList) = true ∧
    Spec.admittedSegments E0 .jsr tsId "/users/7/".toList = some ["users".toList, "7".toList] := by decide
/-- … refused by both one segment further down; and the hypothesis `normalPath` matters: without the
    leading slash (`users/7`) or with a doubled one (`//users/7`) the two readings differ (F15), so the
    equation is not trivially true -/
example : Spec.admits E0 .curly tsId (tokenize "/users/7/x".toList) = false ∧
    (Spec.admittedSegments E0 .jsr tsId "/users/7/x".toList).isSome = false ∧
    Spec.normalPath "users/7".toList = false ∧ Spec.normalPath "//users/7".toList = false ∧
    Spec.admits E0 .curly tsId (tokenize "users/7".toList) ≠ (Spec.admittedSegments E0 .jsr tsId "users/7".toList).isSome ∧
    Spec.admits E0 .curly tsId (tokenize "//users/7".toList) ≠ (Spec.admittedSegments E0 .jsr tsId "//users/7".toList).isSome := by
  decide

/-- `C18_service_agrees` on a URL below BOTH roots: both routers pick the longer root `/users/admin` -/
example := C18_service_agrees E0 cfg (by decide) (by decide) (by decide) "/users/admin/x/log".toList (by decide)
example :
    (Curly.detectWebService E0 (tokenize "/users/admin/x/log".toList) cfg.services none).map (·.map (·.1.id)) = some (some 2) ∧
    (Jsr.detectDispatcher E0 cfg.services "/users/admin/x/log".toList).map (·.map (·.1.id)) = some (some 2) ∧
    (Curly.detectWebService E0 (tokenize "/orgs".toList) cfg.services none).map (·.map (·.1.id)) = some none := by
  decide

/-- POST /users/7: routes 10 (GET) and 12 (POST) both admit the path, only 12 is eligible -/
def post7 : Req := { get "/users/7" with method := "POST".toList }

/-- the first service of `C18Witness.cfg` -/
def usersSvc : Service :=
  { id := 1, root := "/users".toList,
    routes := [rGet 10 "/{id}", rGet 11 "/me", { rGet 12 "/{id}" with method := "POST".toList }] }

/-- the hypothesis `huniq` of `C18_ranksAgree_of_unique_eligible` on that request -/
theorem uniq7 : ∀ svc sc, Curly.detectWebService E0 (tokenize post7.path) cfg.services none = some (some (svc, sc)) →
    ∀ r1 ∈ svc.built, ∀ r2 ∈ svc.built,
      Spec.pathAdmits E0 .curly r1 post7.path = true → Spec.pathAdmits E0 .curly r2 post7.path = true →
      Spec.eligible r1 post7 = true → Spec.eligible r2 post7 = true → r1 = r2 := by
  intro svc sc h
  have hd : Curly.detectWebService E0 (tokenize post7.path) cfg.services none = some (some (usersSvc, 10)) := by decide
  rw [hd] at h
  cases h
  decide

example : Spec.ranksAgree E0 cfg post7 = true :=
  C18_ranksAgree_of_unique_eligible E0 cfg (by decide) (by decide) (by decide) post7 (by decide) uniq7
/-- two routes admit the path (so `huniq` is not vacuous), and both routers run route 12 -/
example :
    ((cfg.services.flatMap Service.built).filter (fun r => Spec.pathAdmits E0 .curly r post7.path)).map (·.id) = [10, 12] ∧
    route E0 (Spec.withRouter cfg .curly) post7 = .selected 1 12 [("id".toList, "7".toList)] ∧
    route E0 (Spec.withRouter cfg .jsr) post7 = .selected 1 12 [("id".toList, "7".toList)] := by
  decide
example := C18_agree_partial E0 cfg (by decide) (by decide) (by decide) (by decide) post7 (by decide)
  (C18_ranksAgree_of_unique_eligible E0 cfg (by decide) (by decide) (by decide) post7 (by decide) uniq7)

/-- `Spec.sameOutcome` (the conclusion of `C18_agree_partial`) is not trivially true: it separates
    another route, other parameter values, a route from an error, two statuses, two Allow sets -/
example :
    ¬ Spec.sameOutcome (.selected 1 12 [("id".toList, "7".toList)]) (.selected 1 10 [("id".toList, "7".toList)]) ∧
    ¬ Spec.sameOutcome (.selected 1 12 [("id".toList, "7".toList)]) (.selected 1 12 [("id".toList, "8".toList)]) ∧
    ¬ Spec.sameOutcome (.selected 1 12 []) (.error 404 none) ∧
    ¬ Spec.sameOutcome (.error 404 none) (.error 405 none) ∧
    ¬ Spec.sameOutcome (.error 405 (some ["GET".toList])) (.error 405 (some ["GET".toList, "POST".toList])) := by
  refine ⟨by simp [Spec.sameOutcome], by simp [Spec.sameOutcome], by simp [Spec.sameOutcome], by simp [Spec.sameOutcome], ?_⟩
  simp only [Spec.sameOutcome, true_and]
  intro h
  exact absurd ((h "POST".toList).mpr (by decide)) (by decide)

end C18Audit

/-! The `decide`d witnesses live next to the lemmas (Lemmas/Agree.lean) and are audited with this property: -/
-- also: Restful.C18Witness.C18_F15_witness
-- also: Restful.C18Witness.C18_F16_witness
-- also: Restful.C18Witness.C18_F17_witness
-- also: Restful.C18Witness.C18_emptyRootToken_witness
-- also: Restful.C18Witness.C18_duplicateIds_witness

/-! The frame condition (Lemmas/StateShape.lean): the code has exactly the state this property's model
    accounts for — no further package-level variable, struct type or field; constants as modelled. -/
-- also: Restful.StateShape.globals_shape
-- also: Restful.StateShape.consts_shape
-- also: Restful.StateShape.routing_shape

/-! The regenerated tie (tools/gotrans → Gen/Translated.lean, Lemmas/Tie*.lean): the decision
    functions this property's model contains ARE the ones translated from the Go sources on this run. -/
-- also: Restful.Tie.curly_less
-- also: Restful.Tie.jsr_route_less
-- also: Restful.Tie.jsr_dispatcher_less
-- also: Restful.Tie.sort_call_sites

end Props
end Restful

-- the imperative functions this property's model rests on, tied to their statement-by-statement
-- translation (tools/goimp, Gen/Imp.lean, regenerated on every run):
-- also: Restful.TieImp.match_tokens
-- also: Restful.TieImp.T2.webservice_score
-- also: Restful.TieImp.template_to_regex
-- also: Restful.TieImp.detect_web_service
-- also: Restful.TieImp.select_routes
-- also: Restful.TieImp.jsr_select_routes
-- also: Restful.TieImp.jsr_detect_dispatcher
-- also: Restful.TieImp.detect_route
-- also: Restful.TieImp.routeCurly_eq_sel
-- also: Restful.TieImp.curly_select_route
-- also: Restful.TieImp.jsr_select_route
